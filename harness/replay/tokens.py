"""spec <-> code binding for spec/Tokens.tla (C08): every computed TLC state is evaluated on the real token code.

A state (see Tokens.tla) is {fam, tag, key, aux, stage = "done", res}:
  m3      key = partition key bytes; res.h = MurmurHash.hash3_x64_128(key)[0] as a signed decimal, res.token = the
          partitioner's token (Long.MIN_VALUE -> Long.MAX_VALUE), res.hash = the same word as 8 little-endian limbs,
          res.legal = the key is not empty
  minmap  key = a hash value as 8 limbs; res.token = Murmur3Partitioner.normalize of it
  rp      key = a 16-byte digest; res.token = abs(BigInteger(digest))
  rpkey   key = a key, aux = MD5(key) quoted from RFC 1321; res.token as above
  bop     key, aux = two keys; res.token = key, res.cmp / res.rcmp = their unsigned lexicographic order

Nothing here computes a hash: the expectation is the specification's, this module only calls the driver.  The driver is
reached through an `Impl` (pure-Python sources of the working tree in-process; the compiled build of checks/c07 in a
subprocess, `worker_main`).  Code under test that raises is a deviation, never a crash of the harness.
"""
import binascii
import contextlib
import hashlib
import json
import os
import sys

KEY_FOR_PATCHED = b"\x01\x80k"          # the key handed over when the hash / digest function is replaced


# ------------------------------------------------------------------ specification values -> Python
def signed(x):
    """[neg, digits] of Tokens.tla -> int"""
    v = int("".join(str(d) for d in x["digits"]))
    return -v if x["neg"] else v


def word(limbs):
    """8 little-endian limbs -> signed 64-bit int"""
    v = int.from_bytes(bytes(limbs), "little")
    return v - (1 << 64) if v >> 63 else v


def tail_of(key):
    return key[16 * (len(key) // 16):]


def features(st):
    """structural features of an m3 case (vacuity census, failure classes)"""
    key = bytes(st["key"])
    tail = tail_of(key)
    f = {"blocks": len(key) // 16, "tail": len(tail),
         "neg_tail": [j for j, b in enumerate(tail) if b >= 128],
         "neg_block": any(b >= 128 for b in key[:16 * (len(key) // 16)])}
    return f


def failure_class(st):
    if st["fam"] != "m3":
        return st["fam"]
    f = features(st)
    if not bytes(st["key"]):
        return "empty-key"
    if f["neg_tail"]:
        return "negative-tail-byte"
    if f["tail"] and f["blocks"]:
        return "blocks-and-tail"
    if f["tail"]:
        return "tail-only"
    return "blocks-only"


# ------------------------------------------------------------------ the driver
class Impl:
    """name, hash function under test (key -> int), its printable name, the cassandra.metadata and cassandra.murmur3 modules"""

    def __init__(self, name, hash_fn, hash_name, metadata, m3mod):
        self.name = name
        self.hash_fn = hash_fn
        self.hash_name = hash_name
        self.md = metadata
        self.m3mod = m3mod

    @classmethod
    def pure(cls):
        from harness.pyenv import repo_import
        m3 = repo_import("cassandra.murmur3")
        md = repo_import("cassandra.metadata")
        return cls("pure", m3._murmur3, "cassandra.murmur3._murmur3", md, m3)

    # the two seams of the separable cases, found by identity so that a renamed import is still bound:
    def murmur3_seam(self):
        """every module global through which the token code reaches the hash function (Murmur3Token.hash_fn calls it and
        then applies the MIN_LONG mapping)"""
        fns = [f for f in (getattr(self.m3mod, "murmur3", None), getattr(self.m3mod, "_murmur3", None)) if f is not None]
        seam = [(self.md, n) for n, v in list(vars(self.md).items()) if any(v is f for f in fns)]
        if seam and hasattr(self.m3mod, "murmur3"):
            seam.append((self.m3mod, "murmur3"))
        return seam

    def md5_seam(self):
        """every module global of cassandra.metadata bound to hashlib.md5 (MD5Token.hash_fn calls md5(key).digest()), or to
        the hashlib module itself"""
        seam = [(self.md, n, False) for n, v in list(vars(self.md).items()) if v is hashlib.md5]
        seam += [(self.md, n, True) for n, v in list(vars(self.md).items()) if v is hashlib]
        return seam


def call(fn, *a):
    try:
        return ("ok", fn(*a))
    except Exception as ex:                                   # the code under test may be broken in any way
        return ("raised", "%s: %s" % (type(ex).__name__, str(ex)[:200]))


def is_int(v):
    return isinstance(v, int) and not isinstance(v, bool)


def show(r):
    return repr(r[1]) if r[0] == "ok" else "raised " + r[1]


@contextlib.contextmanager
def patched(pairs):
    """replace module globals of the driver for the duration of one call: pairs = [(module, name, value)]"""
    saved = [(mod, name, getattr(mod, name)) for mod, name, _ in pairs]
    for mod, name, value in pairs:
        setattr(mod, name, value)
    try:
        yield
    finally:
        for mod, name, old in saved:
            setattr(mod, name, old)


class _HashlibProxy:
    """hashlib with md5 replaced (for a driver that calls hashlib.md5(...) through the module)"""

    def __init__(self, md5):
        self.md5 = md5

    def __getattr__(self, name):
        return getattr(hashlib, name)

    def new(self, name, *a, **kw):
        return self.md5(*a) if str(name).lower() == "md5" else hashlib.new(name, *a, **kw)


class FakeMD5:
    """stands for hashlib.md5 and answers a GIVEN digest, whichever way the caller feeds the data"""
    digest_size = 16
    block_size = 64
    name = "md5"

    def __init__(self, digest):
        self._digest = bytes(digest)
        self.fed = []

    def __call__(self, data=b"", **kw):
        self.fed.append(bytes(data))
        return self

    def update(self, data):
        self.fed.append(bytes(data))

    def copy(self):
        return self

    def digest(self):
        return self._digest

    def hexdigest(self):
        return binascii.hexlify(self._digest).decode()


def bindable(impl):
    """are the two seams the separable cases need present?"""
    return {"murmur3": bool(impl.murmur3_seam()), "md5": bool(impl.md5_seam())}


# ------------------------------------------------------------------ one state on the real code
def evaluate(impl, st):
    """-> (number of evaluations, [deviation dicts {what, expected, got}])"""
    fam = st["fam"]
    res = st["res"]
    md = impl.md
    devs = []
    n = 0

    def want_int(what, r, exp):
        nonlocal n
        n += 1
        if not (r[0] == "ok" and is_int(r[1]) and r[1] == exp):
            devs.append({"what": what, "expected": exp, "got": show(r)})

    if fam == "m3":
        key = bytes(st["key"])
        want_int(impl.hash_name, call(impl.hash_fn, key), signed(res["h"]))
        if res["legal"]:
            tok = signed(res["token"])
            want_int("Murmur3Token.hash_fn", call(md.Murmur3Token.hash_fn, key), tok)
            want_int("Murmur3Token.from_key.value", call(lambda k: md.Murmur3Token.from_key(k).value, key), tok)
    elif fam == "minmap":
        h = word(st["key"])
        with patched([(m, nm, lambda key, *a, _h=h: _h) for m, nm in impl.murmur3_seam()]):
            want_int("Murmur3Token.hash_fn(mapping)", call(md.Murmur3Token.hash_fn, KEY_FOR_PATCHED), signed(res["token"]))
            want_int("Murmur3Token.from_key.value(mapping)",
                     call(lambda k: md.Murmur3Token.from_key(k).value, KEY_FOR_PATCHED), signed(res["token"]))
    elif fam == "rp":
        fake = FakeMD5(st["key"])
        with patched([(m, nm, _HashlibProxy(fake) if is_mod else fake) for m, nm, is_mod in impl.md5_seam()]):
            want_int("MD5Token.hash_fn(digest)", call(md.MD5Token.hash_fn, KEY_FOR_PATCHED), signed(res["token"]))
            want_int("MD5Token.from_key.value(digest)", call(lambda k: md.MD5Token.from_key(k).value, KEY_FOR_PATCHED),
                     signed(res["token"]))
        if not devs and b"".join(fake.fed) != KEY_FOR_PATCHED * 2:
            devs.append({"what": "MD5Token.hash_fn(digest)", "expected": "md5 fed with the key",
                         "got": "fed with %r" % (fake.fed,)})
    elif fam == "rpkey":
        key = bytes(st["key"])
        want_int("MD5Token.hash_fn", call(md.MD5Token.hash_fn, key), signed(res["token"]))
        want_int("MD5Token.from_key.value", call(lambda k: md.MD5Token.from_key(k).value, key), signed(res["token"]))
    elif fam == "bop":
        a, b = bytes(st["key"]), bytes(st["aux"])
        n += 1
        r = call(lambda k: md.BytesToken.from_key(k).value, a)
        if not (r[0] == "ok" and isinstance(r[1], (bytes, bytearray, memoryview)) and bytes(r[1]) == bytes(res["token"])):
            devs.append({"what": "BytesToken.from_key.value", "expected": bytes(res["token"]).hex(), "got": show(r)})

        def order(x, y):
            return "lt" if x < y and not x == y and not x > y else "gt" if x > y and not x == y and not x < y \
                else "eq" if x == y and not x < y and not x > y else "inconsistent"
        for what, mk in (("BytesToken order (from_key, from_key)", lambda: md.BytesToken.from_key(b)),
                         ("BytesToken order (from_key, from_string)",
                          lambda: md.BytesToken.from_string(binascii.hexlify(b).decode()))):
            n += 1
            r = call(lambda: order(md.BytesToken.from_key(a), mk()))
            if r != ("ok", res["cmp"]):
                devs.append({"what": what, "expected": res["cmp"], "got": show(r)})
    else:
        raise ValueError("unknown family %r" % (fam,))
    return n, devs


def check_facts(st):
    """harness-side sanity of what the specification quotes as facts (raises ValueError)"""
    if st["fam"] == "rpkey" and hashlib.md5(bytes(st["key"])).digest() != bytes(st["aux"]):
        raise ValueError("Tokens.tla quotes a wrong MD5 digest for %r" % (bytes(st["key"]),))
    if st["fam"] == "m3" and word(st["res"]["hash"]) != signed(st["res"]["h"]):
        raise ValueError("Tokens.tla: limbs and decimal reading of a hash disagree: %r" % (st["res"],))


def run_states(impl, states):
    """-> {"evaluations": n, "devs": [{"i": index, "impl":, "what":, "expected":, "got":}]}"""
    out = {"evaluations": 0, "devs": [], "impl": impl.name}
    for i, st in enumerate(states):
        n, devs = evaluate(impl, st)
        out["evaluations"] += n
        for d in devs:
            d.update(i=i, impl=impl.name, expected=str(d["expected"]))
            out["devs"].append(d)
    return out


def describe(st):
    key = bytes(st["key"])
    d = {"family": st["fam"], "tag": list(st["tag"]), "key_hex": key.hex(), "len": len(key)}
    if st["fam"] == "m3":
        d.update(blocks=len(key) // 16, tail=len(key) % 16, hash=signed(st["res"]["h"]), token=signed(st["res"]["token"]))
    elif st["fam"] in ("rp", "rpkey", "minmap"):
        d.update(token=str(signed(st["res"]["token"])))
        if st["fam"] == "rpkey":
            d["md5_hex"] = bytes(st["aux"]).hex()
    else:
        d.update(other_hex=bytes(st["aux"]).hex(), order=st["res"]["cmp"])
    return d


# ------------------------------------------------------------------ the compiled build (subprocess)
def worker_main(argv):
    """argv = [build_dir, states.json, out.json]: imports the driver from the compiled build of checks/c07, verifies that
    cassandra.cmurmur3 is the extension of that build and that the token code uses it, runs every state"""
    import importlib
    import logging
    build_dir, states_path, out_path = argv
    sys.path.insert(0, build_dir)
    logging.getLogger("cassandra").setLevel(logging.CRITICAL + 1)
    import cassandra
    root = os.path.abspath(build_dir) + os.sep
    if not os.path.abspath(cassandra.__file__).startswith(root):
        raise RuntimeError("cassandra imported from %s, not from the build in %s" % (cassandra.__file__, build_dir))
    cm = importlib.import_module("cassandra.cmurmur3")
    f = os.path.abspath(cm.__file__)
    if not f.endswith(".so") or not f.startswith(root):
        raise RuntimeError("cassandra.cmurmur3 is not the compiled module of the build: %s" % f)
    m3 = importlib.import_module("cassandra.murmur3")
    md = importlib.import_module("cassandra.metadata")
    if m3.murmur3 is not cm.murmur3 or md.murmur3 is not cm.murmur3:
        raise RuntimeError("the compiled build's token code does not use cmurmur3")
    impl = Impl("compiled", cm.murmur3, "cassandra.cmurmur3.murmur3", md, m3)
    with open(states_path) as fh:
        states = json.load(fh)
    out = run_states(impl, states)
    out["info"] = {"cassandra": os.path.abspath(cassandra.__file__), "cmurmur3": os.path.basename(f),
                   "byteorder": sys.byteorder}
    with open(out_path, "w") as fh:
        json.dump(out, fh)

# started as: python -c "import sys; sys.path.insert(0, VERIF); from harness.replay import tokens; tokens.worker_main(sys.argv[1:])"
