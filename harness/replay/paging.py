"""Binding between spec/Paging.tla and the real Session / ResponseFuture / ResultSet.

One FakeNode in auto-answer mode behind one simulated Cluster/Session (protocol v4, inline executor), shared by
all behaviours of a run: the node is stateless, the page layout travels in the query text and the page to
serve is designated by the paging state token of the request, exactly like the node of the specification.
Every behaviour is a fresh `session.execute_async(SimpleStatement(q, fetch_size=2))`, hence a fresh
ResponseFuture and ResultSet.  The node answers inside `push`, so the blocking `ResponseFuture.result()` in
`ResultSet.fetch_next_page` returns.

Projection compared with the spec after every action:
  reqs     paging_state field of every QUERY frame the node received for this statement (decoded by harness/wire.py)
  served   pages the node returned
  ps       ResponseFuture._paging_state
  cur      ResultSet._current_rows (row ids)        + the pure reads current_rows, one(), has_more_pages, paging_state
  it       ResultSet._page_iter (None?, rows it would still return - read from a copy of the list iterator)
  mode     ResultSet._list_mode
  lh       the list iterator iter(rs) returned in list mode
  yielded  rows next() returned since the last iter(rs)
  cb       the callback consumer: registered?, does the node owe an answer, rows / number of calls the real callback
           received through future.add_callbacks, did it see has_more_pages False
and the value / exception of the operation itself (act.out).

Callback-chained consumer (ExecAsync / AddCallback / Deliver): the statement text carries `hold`, the node then keeps the
request in `pending` and answers it when the schedule says Deliver, so the documented handle_page callback
(consume rows; if future.has_more_pages: future.start_fetching_next_page()) runs inside the completion of each page.
"""
import copy
import re

from harness.sim.simcluster import SimWorld, FakeNode, make_cluster
from harness import wire

from cassandra.cluster import ExecutionProfile, EXEC_PROFILE_DEFAULT
from cassandra.policies import RoundRobinPolicy
from cassandra.query import SimpleStatement, tuple_factory

VARS = ("reqs", "served", "ps", "cur", "it", "mode", "lh", "yielded", "cb")
READS = ("current_rows", "one", "has_more_pages", "paging_state")
FETCH_SIZE = 2
_LAYOUT = re.compile(r"/\* layout=([0-9,]+) run=(\d+)( hold)? \*/")


def tok_bytes(p):
    return b"T%d" % p


def tok_num(b):
    """None -> 0, b'T<n>' -> n, anything else -> -1."""
    if b is None:
        return 0
    try:
        if bytes(b[:1]) == b"T":
            return int(bytes(b[1:]))
    except (ValueError, TypeError):
        pass
    return -1


class Env:
    """The shared simulated cluster."""
    current = None

    def __init__(self):
        self.world = SimWorld()
        self.node = self.world.add_node(FakeNode("10.0.0.1"))
        profile = ExecutionProfile(load_balancing_policy=RoundRobinPolicy(), row_factory=tuple_factory,
                                   request_timeout=10.0)
        self.cluster = make_cluster(self.world, ["10.0.0.1"], protocol_version=4, inline=True,
                                    execution_profiles={EXEC_PROFILE_DEFAULT: profile})
        self.session = self.cluster.connect()
        self.node.auto = True
        self.node.auto_answer = self.answer
        self.run = 0
        self.served = []
        self.answers = 0
        self.limit = 64
        self.page_sizes = set()

    @classmethod
    def get(cls):
        if cls.current is None or cls.current.cluster.is_shutdown or SimWorld.current is not cls.current.world:
            cls.current = Env()
        return cls.current

    @classmethod
    def discard(cls):
        if cls.current is not None:
            try:
                cls.current.cluster.shutdown()
            except Exception:
                pass
            cls.current = None

    def answer(self, node, p, force=False):
        """The stateless paging node of the specification: token t -> page t+1."""
        m = _LAYOUT.search(p.req.get("query", "")) if p.req.get("op") == "QUERY" else None
        if m is None:
            return FakeNode.default_answer(node, p)
        if m.group(3) and not force:
            return None                                     # callback consumer: answered by the schedule (Deliver)
        layout = [int(x) for x in m.group(1).split(",")]
        self.answers += 1
        if self.answers > self.limit:                      # a client that never stops asking
            return node.respond_error(p, wire.ERR_INVALID, "runaway paging")
        self.page_sizes.add(p.req.get("page_size"))
        t = tok_num(p.req.get("paging_state"))
        page = t + 1
        if t < 0 or page > len(layout):
            return node.respond_error(p, wire.ERR_INVALID, "invalid paging state")
        self.served.append(page)
        rows = [[wire.w_int(10 * page + k)] for k in range(1, layout[page - 1] + 1)]
        node.respond_rows(p, [("a", wire.T_INT)], rows,
                          paging_state=tok_bytes(page) if page < len(layout) else None)

    def deliver(self):
        """Answer the oldest held request."""
        held = [p for p in self.node.pending if _LAYOUT.search(p.req.get("query", ""))]
        if not held:
            raise AssertionError("the node owes no answer")
        self.answer(self.node, held[0], force=True)

    def begin(self, layout):
        del self.node.pending[:]
        self.run += 1
        self.served = []
        self.answers = 0
        self.limit = 4 * len(layout) + 8
        del self.node.received[:]
        self.world.live_timers()
        return "SELECT a FROM t /* layout=%s run=%d */" % (",".join(str(x) for x in layout), self.run)


class PagingHarness:
    def __init__(self, layout):
        self.env = Env.get()
        self.layout = list(layout)
        self.query = self.env.begin(self.layout)
        self.fut = None
        self.rs = None
        self.h = None            # iterator held by the consumer
        self.lh = None           # ... when it is the list iterator handed out in list mode
        self.yielded = []
        self.cb_on = False
        self.cb_rows, self.cb_calls, self.cb_done, self.cb_errors = [], 0, False, []

    # ------------------------------------------------------------ the documented PagedResultHandler
    def handle_page(self, rows):
        self.cb_calls += 1
        self.cb_rows += [r[0] for r in rows]
        if self.fut.has_more_pages:
            self.fut.start_fetching_next_page()
        else:
            self.cb_done = True

    def handle_error(self, exc):
        self.cb_errors.append(type(exc).__name__)

    def act_ExecAsync(self, arg):
        self.query = self.query.replace(" */", " hold */")
        self.fut = self.env.session.execute_async(SimpleStatement(self.query, fetch_size=FETCH_SIZE))
        return ()

    def act_AddCallback(self, arg):
        self.cb_on = True
        self.fut.add_callbacks(callback=self.handle_page, errback=self.handle_error)
        return ()

    def act_Deliver(self, arg):
        self.env.deliver()
        return ()

    # ------------------------------------------------------------ actions: return the spec's `out`
    def do(self, act):
        name = act["name"]
        try:
            return tuple(getattr(self, "act_" + name)(act.get("arg", 0)))
        except StopIteration:
            return ()
        except AssertionError as ex:
            return ("refused:%s" % ex,)
        except IndexError:
            return (-2,)
        except RuntimeError as ex:
            if "when results have been iterated" in str(ex):
                return (-1,)
            return ("exc:RuntimeError",)
        except Exception as ex:           # noqa: BLE001 - the code under test may be a mutant
            return ("exc:%s" % type(ex).__name__,)

    def act_Execute(self, arg):
        self.fut = self.env.session.execute_async(SimpleStatement(self.query, fetch_size=FETCH_SIZE))
        self.rs = self.fut.result()
        return ()

    def act_Iter(self, arg):
        self.h = iter(self.rs)
        self.lh = self.h if self.rs._list_mode else self.lh
        self.yielded = []
        return ()

    def act_Next(self, arg):
        try:
            row = next(self.h)
        except StopIteration:
            return ()
        self.yielded.append(row[0])
        return (row[0],)

    def act_Fetch(self, arg):
        self.rs.fetch_next_page()
        return ()

    def act_List(self, arg):
        was_list = self.rs._list_mode
        rows = [r[0] for r in (self.rs.all() if arg == 0 else list(self.rs))]
        if not was_list:
            self.yielded = list(rows)
            self.h = self.rs
        return rows

    def act_index(self, arg):
        return (self.rs[arg][0],)

    def act_eq(self, arg):
        n, all_rows = 0, []
        for p, c in enumerate(self.layout, 1):
            all_rows += [(10 * p + k,) for k in range(1, c + 1)]
        return (1 if self.rs == all_rows else 0,)

    # ------------------------------------------------------------ projection
    @staticmethod
    def _ids(rows):
        return tuple(r[0] for r in rows)

    def project(self):
        env = self.env
        reqs = tuple(tok_num(r.get("paging_state")) for _, r in env.node.received
                     if r.get("op") == "QUERY" and r.get("query") == self.query)
        out = {"reqs": reqs, "served": tuple(env.served)}
        owed = any(p.req.get("query") == self.query for p in env.node.pending)
        out["cb"] = {"st": "off" if self.fut is None or self.rs is not None else ("on" if self.cb_on else "sent"),
                     "owed": owed, "rows": tuple(self.cb_rows) if not self.cb_errors else ("errback",) + tuple(self.cb_errors),
                     "calls": self.cb_calls, "done": self.cb_done}
        if self.rs is None:
            out.update(ps=tok_num(self.fut._paging_state) if self.fut is not None else 0,
                       cur=None, it={"set": False, "rest": ()}, mode="paged", lh={"set": False, "rest": ()},
                       yielded=(), reads=None)
            return out
        rs, fut = self.rs, self.fut
        out["ps"] = tok_num(fut._paging_state)
        out["cur"] = self._ids(rs._current_rows)
        pi = rs._page_iter
        out["it"] = {"set": pi is not None, "rest": self._ids(copy.copy(pi)) if pi is not None else ()}
        out["mode"] = "list" if rs._list_mode else "paged"
        out["lh"] = {"set": self.lh is not None, "rest": self._ids(copy.copy(self.lh)) if self.lh is not None else ()}
        out["yielded"] = tuple(self.yielded)
        one = rs.one()
        out["reads"] = {"current_rows": self._ids(rs.current_rows), "one": () if one is None else (one[0],),
                        "has_more_pages": bool(rs.has_more_pages), "paging_state": tok_num(rs.paging_state)}
        return out


def spec_view(state):
    def itv(v):
        return {"set": v["set"], "rest": tuple(v["rest"])}
    cur = tuple(state["cur"])
    c = state["cb"]
    sv = {"reqs": tuple(state["reqs"]), "served": tuple(state["served"]), "ps": state["ps"],
          "cur": cur if state["started"] else None,      # before / without a ResultSet there is no _current_rows
          "cb": {"st": c["st"], "owed": c["owed"], "rows": tuple(c["rows"]), "calls": c["calls"], "done": c["done"]},
          "it": itv(state["it"]), "mode": state["mode"], "lh": itv(state["lh"]), "yielded": tuple(state["yielded"])}
    # the spec's pure reads: HasMore == ps # 0, One == first row of cur, current_rows == cur
    sv["reads"] = {"current_rows": cur, "one": cur[:1], "has_more_pages": state["ps"] != 0,
                   "paging_state": state["ps"]} if state["started"] else None
    return sv


def diff(spec, real):
    out = {}
    for k in VARS + ("reads",):
        if spec[k] != real[k]:
            out[k] = {"spec": spec[k], "code": real[k]}
    return out


def replay(states):
    """Replay one behaviour (list of spec states, first = Init). Returns None or a divergence dict."""
    h = PagingHarness(states[0]["layout"])
    d = diff(spec_view(states[0]), h.project())
    if d:
        return {"step": 0, "action": "Init", "diff": d}
    for i, s in enumerate(states[1:], 1):
        act = dict(s["act"])
        out = h.do(act)
        d = diff(spec_view(s), h.project())
        if out != tuple(act["out"]):
            d["out"] = {"spec": tuple(act["out"]), "code": out}
        if d:
            return {"step": i, "action": act, "diff": d}
    return None


def cover_walks(nodes, edges, init, max_len=60):
    """Walks from an initial state that together traverse every edge of the graph (each walk: list of node ids)."""
    from collections import deque
    succ = {}
    for s, d, _ in edges:
        succ.setdefault(s, []).append(d)
    parent = {}
    dq = deque()
    for i in init:
        parent[i] = None
        dq.append(i)
    while dq:
        u = dq.popleft()
        for v in succ.get(u, ()):
            if v not in parent:
                parent[v] = u
                dq.append(v)

    def prefix(n):
        p = []
        while n is not None:
            p.append(n)
            n = parent[n]
        return p[::-1]
    uncovered = {}
    for s, d, _ in edges:
        if s in parent:
            uncovered.setdefault(s, set()).add(d)
    todo = [s for s in uncovered]
    walks = []
    for s in todo:
        while uncovered.get(s):
            d = uncovered[s].pop()
            w = prefix(s) + [d]
            cur = d
            while len(w) < max_len and uncovered.get(cur):
                v = uncovered[cur].pop()
                w.append(v)
                cur = v
            walks.append(w)
    return walks


# ---------------------------------------------------------------------- recording (code -> spec)
def _post(p):
    return {"reqs": list(p["reqs"]), "served": list(p["served"]), "ps": p["ps"], "cur": list(p["cur"] or ()),
            "cb": dict(p["cb"], rows=list(p["cb"]["rows"])),
            "it": {"set": p["it"]["set"], "rest": list(p["it"]["rest"])}, "mode": p["mode"],
            "lh": {"set": p["lh"]["set"], "rest": list(p["lh"]["rest"])}, "yielded": list(p["yielded"])}


def trace_of_states(states):
    """The trace a faithful implementation would record for a behaviour of the specification (binding self-tests)."""
    events = []
    for s in states[1:]:
        sv = spec_view(s)
        act = s["act"]
        ev = {"e": act["name"], "arg": act["arg"], "out": list(act["out"]), "post": _post(sv)}
        if sv["reads"] is not None:
            ev["reads"] = {"cur": list(sv["reads"]["current_rows"]), "one": list(sv["reads"]["one"]),
                           "more": sv["reads"]["has_more_pages"], "ps": sv["reads"]["paging_state"]}
        if act["name"] in ("Execute", "ExecAsync"):
            ev["layout"] = list(s["layout"])
        events.append(ev)
    return events


PROGRAMS = ("iterate", "list", "manual", "index", "eq", "iter_then_list", "manual_then_iter", "index_then_iter", "random",
            "callback_early", "callback_late")


def program(kind, rng, total, npages):
    """A consumer program (list of (op, arg)) of the given kind."""
    if kind == "callback_early":
        return [("ExecAsync", 0), ("AddCallback", 0)] + [("Deliver", 0)] * (npages + 1)
    if kind == "callback_late":
        return [("ExecAsync", 0), ("Deliver", 0), ("AddCallback", 0)] + [("Deliver", 0)] * npages
    if kind == "iterate":
        return [("Iter", 0)] + [("Next", 0)] * (total + 1)
    if kind == "list":
        return [("List", rng.randint(0, 1))]
    if kind == "manual":
        return [("Fetch", 0)] * npages
    if kind == "index":
        return [("index", rng.randint(0, total))]
    if kind == "eq":
        return [("eq", 0)]
    if kind == "iter_then_list":
        return [("Iter", 0)] + [("Next", 0)] * rng.randint(0, total + 1) + [("List", rng.randint(0, 1)), ("Next", 0)]
    if kind == "manual_then_iter":
        return [("Fetch", 0)] * rng.randint(0, npages) + [("Iter", 0)] + [("Next", 0)] * (total + 1)
    if kind == "index_then_iter":
        return [("index", 0), ("Iter", 0)] + [("Next", 0)] * rng.randint(0, total + 1) + [("List", 0), ("eq", 0), ("Next", 0)]
    ops = []
    for _ in range(rng.randint(1, 2 * total + 6)):
        ops.append(rng.choice([("Iter", 0), ("Next", 0), ("Next", 0), ("Next", 0), ("Fetch", 0), ("List", rng.randint(0, 1)),
                               ("index", rng.randint(0, total)), ("eq", 0)]))
    return ops


def record(rng, max_pages=6, max_rows=3, kind=None, layout=None):
    """Run a random consumer program over a random page layout on the real objects; return the events."""
    if layout is None:
        layout = [rng.randint(0, max_rows) for _ in range(rng.randint(1, max_pages))]
    kind = kind or rng.choice(PROGRAMS)
    h = PagingHarness(layout)
    events = []
    prog = program(kind, rng, sum(layout), len(layout))
    if not kind.startswith("callback"):
        prog = [("Execute", 0)] + prog
    for op, arg in prog:
        if op == "Next" and h.h is None:
            continue                                   # no iterator obtained yet
        if op == "Deliver" and not h.project()["cb"]["owed"]:
            continue                                   # the node owes nothing
        if op == "Fetch" and h.rs is not None and h.rs._list_mode:
            continue                                   # outside the specification's scope (see Fetch in Paging.tla)
        ev = {"e": op, "arg": arg}
        if op in ("Execute", "ExecAsync"):
            ev["layout"] = list(layout)
        out = h.do({"name": op, "arg": arg})
        if any(isinstance(x, str) for x in out):
            events.append({"e": "Anomaly", "during": ev, "what": out[0]})
            break
        ev["out"] = list(out)
        p = h.project()
        ev["post"] = _post(p)
        if p["reads"] is not None:
            ev["reads"] = {"cur": list(p["reads"]["current_rows"]), "one": list(p["reads"]["one"]),
                           "more": p["reads"]["has_more_pages"], "ps": p["reads"]["paging_state"]}
        events.append(ev)
    return kind, events
