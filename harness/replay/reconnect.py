"""Binding of spec/Reconnect.tla to the real reconnection policies (code -> spec, trace validation).

One trace = the life of one real `new_schedule()` iterator:

    [ {"e": "New", "policy", "base", "max", "attempts"},            # parameters in the spec's units
      {"e": "Emit", "dlo": floor(q), "dhi": ceil(q)}, ...            # one per item returned by next()
      {"e": "Stop"} ]                                                # iff next() raised StopIteration

Numeric pre-processing (the only arithmetic done outside TLC; the band itself is evaluated by TLC
from Reconnect.tla):

  * parameters are Python ints or floats; both are exact rationals (fractions.Fraction(x) is exact for a
    float).  The unit u is the greatest rational that divides base and max (u = 1 when both are 0), so
    base/u and max/u are integers: these are the spec's `base` and `max`.
  * an emitted delay d (int or float) is converted exactly: q = Fraction(d) * 100 / u, i.e. the delay in
    u/100.  A q within 1e-9 (relative, absolute 1e-9 around 0) of an integer is snapped to it - this is
    the documented floating-point tolerance (the code computes jitter * value / 100 in floats).  The
    event carries dlo = floor(q), dhi = ceil(q); for the integer band end points of the spec,
    Lo <= q <= Hi  <=>  Lo <= dlo and dhi <= Hi.
  * TLC integers are 32 bit: dlo/dhi are capped to +/-(2^31 - 2); parameter tuples whose 115 * max/u does
    not fit are refused (MachineryError) - choose another tuple.
"""
import math
from fractions import Fraction

from harness import tlc
from harness.pyenv import repo_import

LIMIT = 2000
CAP = 2 ** 31 - 2
REL_TOL = Fraction(1, 10 ** 9)


def unit_of(*vals):
    fr = [Fraction(v) for v in vals if v != 0]
    if not fr:
        return Fraction(1)
    num = 0
    den = 1
    for f in fr:
        den = den * f.denominator // math.gcd(den, f.denominator)
    for f in fr:
        num = math.gcd(num, int(f * den))
    return Fraction(num, den)


def spec_params(kind, params):
    """(policy, base, max, attempts, u) in the spec's units for real constructor arguments."""
    if kind == "constant":
        delay, attempts = params
        u = unit_of(delay)
        b = m = Fraction(delay) / u
    else:
        base, mx, attempts = params
        u = unit_of(base, mx)
        b, m = Fraction(base) / u, Fraction(mx) / u
    if b.denominator != 1 or m.denominator != 1 or 115 * m > CAP:
        raise tlc.MachineryError("parameters %r do not fit the 32-bit scaled representation" % (params,))
    return kind, int(b), int(m), (-1 if attempts is None else int(attempts)), u


def enclose(d, u):
    """delay -> (dlo, dhi) in u/100, exact up to the documented 1e-9 snapping."""
    q = Fraction(d) * 100 / u
    r = Fraction(round(q))
    tol = max(abs(r) * REL_TOL, REL_TOL)
    if abs(q - r) <= tol:
        q = r
    lo, hi = math.floor(q), math.ceil(q)
    return max(-CAP, min(CAP, lo)), max(-CAP, min(CAP, hi))


def make_policy(kind, params):
    pol = repo_import("cassandra.policies")
    if kind == "constant":
        return pol.ConstantReconnectionPolicy(params[0], params[1])
    return pol.ExponentialReconnectionPolicy(params[0], params[1], params[2])


class Jitter:
    """Replaces cassandra.policies.randint for the duration of a recording: seeded, or an extreme."""

    def __init__(self, mode, rng):
        self.mode = mode
        self.rng = rng

    def __call__(self, a, b):
        if self.mode == "low":
            return a
        if self.mode == "high":
            return b
        return self.rng.randint(a, b)

    def __enter__(self):
        self.pol = repo_import("cassandra.policies")
        self.saved = self.pol.randint
        self.pol.randint = self
        return self

    def __exit__(self, *a):
        self.pol.randint = self.saved


def record(kind, params, jitter="rng", rng=None, limit=LIMIT):
    """Returns (trace, items): the trace for Trace_Reconnect and the raw items (for reporting)."""
    policy, b, m, attempts, u = spec_params(kind, params)
    trace = [{"e": "New", "policy": policy, "base": b, "max": m, "attempts": attempts}]
    items = []
    with Jitter(jitter, rng):
        try:
            it = iter(make_policy(kind, params).new_schedule())
        except Exception as ex:                              # noqa - misbehaving code under test
            trace.append({"e": "Raise", "cls": type(ex).__name__, "dlo": 0, "dhi": 0})
            return trace, items
        for _ in range(limit):
            try:
                d = next(it)
            except StopIteration:
                trace.append({"e": "Stop", "dlo": 0, "dhi": 0})
                break
            except Exception as ex:                          # noqa - misbehaving code under test
                trace.append({"e": "Raise", "cls": type(ex).__name__, "dlo": 0, "dhi": 0})
                break
            items.append(d)
            if isinstance(d, bool) or not isinstance(d, (int, float)) or (isinstance(d, float) and not math.isfinite(d)):
                trace.append({"e": "BadItem", "repr": repr(d)[:40], "dlo": 0, "dhi": 0})
                break
            lo, hi = enclose(d, u)
            trace.append({"e": "Emit", "dlo": lo, "dhi": hi})
    return trace, items


# ------------------------------------------------------------------ the consumer of schedules (pool.py)

class _Scheduler:
    def __init__(self):
        self.q = []

    def schedule(self, delay, fn, *a, **kw):
        self.q.append((delay, fn, a, kw))


def drive_handler(kind, params, jitter="rng", rng=None, limit=200):
    """Feed a real schedule to pool._ReconnectionHandler with a reconnect that always fails.
    Returns {"attempts": number of try_reconnect calls, "delays": delays handed to the scheduler,
             "start_raised": exception class name or None}."""
    pool = repo_import("cassandra.pool")
    out = {"attempts": 0, "delays": [], "start_raised": None, "gave_up": False}

    class H(pool._ReconnectionHandler):
        def try_reconnect(self):
            out["attempts"] += 1
            raise OSError("node is down")

        def on_exception(self, exc, next_delay):
            if next_delay is None:
                out["gave_up"] = True
            return True

        def on_reconnection(self, conn):
            pass

    with Jitter(jitter, rng):
        sched = _Scheduler()
        h = H(sched, iter(make_policy(kind, params).new_schedule()), lambda: None)
        try:
            h.start()
        except BaseException as ex:          # noqa  StopIteration from an empty schedule
            out["start_raised"] = type(ex).__name__
        n = 0
        while sched.q and n < limit:
            delay, fn, a, kw = sched.q.pop(0)
            out["delays"].append(delay)
            fn(*a, **kw)
            n += 1
        out["truncated"] = bool(sched.q)
    return out
