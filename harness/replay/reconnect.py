"""Binding of spec/Reconnect.tla to the real reconnection policies (code -> spec, trace validation).

One trace = the life of one real `new_schedule()` iterator:

    [ {"e": "New", "policy", "base", "max", "attempts"},            # parameters in the spec's units
      {"e": "Emit", "dlo": floor(q), "dhi": ceil(q)}, ...            # one per item returned by next()
      {"e": "Stop"} ]                                                # iff next() raised StopIteration

Numeric pre-processing (the only arithmetic done outside TLC; the band itself is evaluated by TLC
from Reconnect.tla):

  * parameters are Python ints or floats; both are exact rationals (fractions.Fraction(x) is exact for a
    float).  The unit u is the greatest rational that divides base and max (u = 1 when both are 0), so
    base/u and max/u are integers: these are the spec's `base` and `max`.
  * an emitted delay d (int or float) is converted exactly: q = Fraction(d) * 100 / u, i.e. the delay in
    u/100.  A q within 1e-9 (relative, absolute 1e-9 around 0) of an integer is snapped to it - this is
    the documented floating-point tolerance (the code computes jitter * value / 100 in floats).  The
    event carries dlo = floor(q), dhi = ceil(q); for the integer band end points of the spec,
    Lo <= q <= Hi  <=>  Lo <= dlo and dhi <= Hi.
  * TLC integers are 32 bit: dlo/dhi are capped to +/-(2^31 - 2); parameter tuples whose 115 * max/u does
    not fit are refused (MachineryError) - choose another tuple.
"""
import math
from fractions import Fraction

from harness import tlc
from harness.pyenv import repo_import

LIMIT = 2000
CAP = 2 ** 31 - 2
REL_TOL = Fraction(1, 10 ** 9)


def unit_of(*vals):
    fr = [Fraction(v) for v in vals if v != 0]
    if not fr:
        return Fraction(1)
    num = 0
    den = 1
    for f in fr:
        den = den * f.denominator // math.gcd(den, f.denominator)
    for f in fr:
        num = math.gcd(num, int(f * den))
    return Fraction(num, den)


def spec_params(kind, params):
    """(policy, base, max, attempts, u) in the spec's units for real constructor arguments."""
    if kind == "constant":
        delay, attempts = params
        u = unit_of(delay)
        b = m = Fraction(delay) / u
    else:
        base, mx, attempts = params
        u = unit_of(base, mx)
        b, m = Fraction(base) / u, Fraction(mx) / u
    if b.denominator != 1 or m.denominator != 1 or 115 * m > CAP:
        raise tlc.MachineryError("parameters %r do not fit the 32-bit scaled representation" % (params,))
    return kind, int(b), int(m), (-1 if attempts is None else int(attempts)), u


def enclose(d, u):
    """delay -> (dlo, dhi) in u/100, exact up to the documented 1e-9 snapping."""
    q = Fraction(d) * 100 / u
    r = Fraction(round(q))
    tol = max(abs(r) * REL_TOL, REL_TOL)
    if abs(q - r) <= tol:
        q = r
    lo, hi = math.floor(q), math.ceil(q)
    return max(-CAP, min(CAP, lo)), max(-CAP, min(CAP, hi))


def make_policy(kind, params):
    pol = repo_import("cassandra.policies")
    if kind == "constant":
        return pol.ConstantReconnectionPolicy(params[0], params[1])
    return pol.ExponentialReconnectionPolicy(params[0], params[1], params[2])


class Jitter:
    """Replaces cassandra.policies.randint for the duration of a recording: seeded, or an extreme."""

    def __init__(self, mode, rng):
        self.mode = mode
        self.rng = rng

    def __call__(self, a, b):
        if self.mode == "low":
            return a
        if self.mode == "high":
            return b
        return self.rng.randint(a, b)

    def __enter__(self):
        self.pol = repo_import("cassandra.policies")
        self.saved = self.pol.randint
        self.pol.randint = self
        return self

    def __exit__(self, *a):
        self.pol.randint = self.saved


def _next_event(it, s, u, items):
    """One next() on schedule number s -> the trace event (and the item appended to items)."""
    try:
        d = next(it)
    except StopIteration:
        return {"e": "Stop", "s": s, "dlo": 0, "dhi": 0}
    except Exception as ex:                              # noqa - misbehaving code under test
        return {"e": "Raise", "s": s, "cls": type(ex).__name__, "dlo": 0, "dhi": 0}
    items.append(d)
    if isinstance(d, bool) or not isinstance(d, (int, float)) or (isinstance(d, float) and not math.isfinite(d)):
        return {"e": "BadItem", "s": s, "repr": repr(d)[:40], "dlo": 0, "dhi": 0}
    lo, hi = enclose(d, u)
    return {"e": "Emit", "s": s, "dlo": lo, "dhi": hi}


def record(kind, params, jitter="rng", rng=None, limit=LIMIT):
    """One policy object, one schedule.  Returns (trace, items): the trace for Trace_Reconnect and the raw items."""
    policy, b, m, attempts, u = spec_params(kind, params)
    trace = [{"e": "New", "s": 0, "policy": policy, "base": b, "max": m, "attempts": attempts, "dlo": 0, "dhi": 0}]
    items = []
    with Jitter(jitter, rng):
        try:
            it = iter(make_policy(kind, params).new_schedule())
            trace.append({"e": "Sched", "s": 1, "dlo": 0, "dhi": 0})
        except Exception as ex:                              # noqa - misbehaving code under test
            trace.append({"e": "Raise", "s": 1, "cls": type(ex).__name__, "dlo": 0, "dhi": 0})
            return trace, items
        for _ in range(limit):
            ev = _next_event(it, 1, u, items)
            trace.append(ev)
            if ev["e"] != "Emit":
                break
    return trace, items


def record_multi(kind, params, jitter="rng", rng=None, nsched=3, per_limit=40):
    """One policy object, SEVERAL schedules (a host going down again, several hosts down at once): the first
    schedule is partly consumed before the second is taken, then all live ones are advanced in a seeded random
    interleaving, the last one being taken while the others are under way.  Every schedule is followed until it
    ends or has produced per_limit items (per_limit must exceed a finite attempt limit).
    Returns (trace, per-schedule item counts)."""
    policy, b, m, attempts, u = spec_params(kind, params)
    trace = [{"e": "New", "s": 0, "policy": policy, "base": b, "max": m, "attempts": attempts, "dlo": 0, "dhi": 0}]
    counts, its, live = {}, {}, []
    with Jitter(jitter, rng):
        try:
            pol = make_policy(kind, params)
        except Exception as ex:                              # noqa
            trace.append({"e": "Raise", "s": 0, "cls": type(ex).__name__, "dlo": 0, "dhi": 0})
            return trace, counts

        def take():
            s = len(its) + 1
            try:
                its[s] = iter(pol.new_schedule())
            except Exception as ex:                          # noqa
                trace.append({"e": "Raise", "s": s, "cls": type(ex).__name__, "dlo": 0, "dhi": 0})
                return False
            counts[s] = 0
            live.append(s)
            trace.append({"e": "Sched", "s": s, "dlo": 0, "dhi": 0})
            return True

        def advance(s):
            sink = []
            ev = _next_event(its[s], s, u, sink)
            trace.append(ev)
            counts[s] += len(sink)
            if ev["e"] != "Emit" or counts[s] >= per_limit:
                live.remove(s)
            return ev["e"] in ("Emit", "Stop")

        if not take():
            return trace, counts
        for _ in range(rng.randint(0, 3)):                   # the first reconnection series is under way ...
            if 1 in live and not advance(1):
                return trace, counts
        while len(its) < nsched or live:
            if len(its) < nsched and (not live or rng.random() < 0.2):
                if not take():
                    return trace, counts
                continue
            if not advance(rng.choice(live)):
                return trace, counts
    return trace, counts


# ------------------------------------------------------------------ the consumer of schedules (pool.py)

class _Scheduler:
    def __init__(self):
        self.q = []

    def schedule(self, delay, fn, *a, **kw):
        self.q.append((delay, fn, a, kw))


def drive_handler(kind, params, jitter="rng", rng=None, limit=200):
    """Feed real schedules of ONE policy object to pool._ReconnectionHandler with a reconnect that always fails:
    two handlers started together (two hosts down at once) and, when they have given up, a third one (a host
    going down again).  Returns the worst handler's record
    {"attempts": number of try_reconnect calls, "truncated": still going at the step limit, ...} plus
    "per_handler": [attempts of each]."""
    pool = repo_import("cassandra.pool")
    outs = []

    def handler(sched, policy):
        out = {"attempts": 0, "start_raised": None, "gave_up": False}
        outs.append(out)

        class H(pool._ReconnectionHandler):
            def try_reconnect(self):
                out["attempts"] += 1
                raise OSError("node is down")

            def on_exception(self, exc, next_delay):
                if next_delay is None:
                    out["gave_up"] = True
                return True

            def on_reconnection(self, conn):
                pass

        h = H(sched, iter(policy.new_schedule()), lambda: None)
        try:
            h.start()
        except BaseException as ex:          # noqa  StopIteration from an empty schedule
            out["start_raised"] = type(ex).__name__

    def drain(sched, budget):
        n = 0
        while sched.q and n < budget:
            delay, fn, a, kw = sched.q.pop(0)
            fn(*a, **kw)
            n += 1
        return bool(sched.q)

    n_att = params[-1]
    with Jitter(jitter, rng):
        policy = make_policy(kind, params)
        sched = _Scheduler()
        handler(sched, policy)
        handler(sched, policy)
        truncated = drain(sched, 2 * limit)
        handler(sched, policy)
        truncated = drain(sched, limit) or truncated
    per = [o["attempts"] for o in outs]
    worst = max(outs, key=lambda o: abs(o["attempts"] - (n_att if n_att is not None else o["attempts"])))
    res = dict(worst)
    res["per_handler"] = per
    res["truncated"] = truncated
    res["delays"] = []
    return res
