"""An in-memory interpreter for exactly the CQL subset cqlengine emits (C35), and the parser C37 reads fragments with.

TRUSTED BASE of C35: this module is harness code.  It encodes Cassandra's cell semantics for the subset below and
nothing of the driver.  Everything outside the subset raises CqlUnsupported (a MachineryError) so that gaps show up
as machinery failures, never as silent acceptance.

Subset
  SELECT [DISTINCT] * | COUNT(*) | "c", ...  FROM t [WHERE rel AND ...] [ORDER BY "c" ASC|DESC, ...] [LIMIT n] [ALLOW FILTERING]
  INSERT INTO t ("c", ...) VALUES (%(x)s, ...) [IF NOT EXISTS] [USING TTL n [AND TIMESTAMP n]]
  UPDATE t [USING ...] SET assignment, ... WHERE rel AND ... [IF cond AND ... | IF EXISTS]
      assignment:  "c" = %(x)s | "c" = "c" + %(x)s | "c" = %(x)s + "c" | "c" = "c" - %(x)s | "c"[%(k)s] = %(v)s
  DELETE ["c" | "c"[%(k)s], ...] FROM t [USING TIMESTAMP n] WHERE rel AND ... [IF cond AND ... | IF EXISTS]
  BEGIN [UNLOGGED | COUNTER] BATCH [USING TIMESTAMP n] statement ... APPLY BATCH [;]
  rel:  "c" op %(x)s   |   token("p", ...) op token(%(x)s, ...)      op: = != < <= > >= IN CONTAINS LIKE
Placeholders are pyformat (%(name)s) and are substituted from the parameter dict as Python values; TTL and
timestamps are parsed and ignored (every statement is applied at a strictly later time than the previous one; the
members of a batch are applied in order, so a batch whose members write the same cell is outside what this models).

Cassandra semantics encoded (for the subset)
  * a row is visible when it has a row marker (set by INSERT only) or any non-null regular cell;
  * writing null / an empty collection deletes the cell; `m[k] = null` deletes the entry;
  * all assignments of one statement carry one timestamp: an element added and removed by the same statement is removed
    (the tombstone wins the tie), in whatever order the assignments are written;
  * collection elements may be timestamps (Table(elems=...)): kept as epoch milliseconds - the driver's encoder writes a
    datetime as that number - and read back as naive UTC datetimes;
  * set + / - are idempotent unions / differences; list + appends, `x + l` prepends in the given order; map + merges;
    `m - {k}` removes entries; counters add, a missing counter counts as 0;
  * UPDATE / DELETE of regular columns need the whole primary key; statements that touch only static columns need the
    partition key and must not restrict clustering columns; DELETE without columns removes the row (whole key) or the
    partition (partition key only); an assignment of a whole value cannot be combined with another operation on the
    same column; INSERT needs the whole primary key unless it writes only static columns;
  * IF NOT EXISTS / IF EXISTS / IF cond are evaluated on the current row; a refused statement changes nothing and
    answers one row with "[applied]" = False.
"""
import datetime
import re

from harness.tlc import MachineryError


class CqlUnsupported(MachineryError):
    """The statement is outside the subset this interpreter / parser knows."""


class CqlInvalid(Exception):
    """What Cassandra (or the driver's parameter substitution) answers to this statement: InvalidRequest."""


# ------------------------------------------------------------------ tokenizer

_TOK = re.compile(r'''
    (?P<ws>\s+)
  | (?P<ph>%\((?P<phname>[^)]*)\)s)
  | (?P<qid>"(?:[^"]|"")*")
  | (?P<num>-?\d+)
  | (?P<word>[A-Za-z_][A-Za-z0-9_.]*)
  | (?P<sym>>=|<=|!=|[=<>(),\[\]+\-;*])
''', re.X)


def tokenize(text):
    """-> list of (kind, text): kind in ph (text = placeholder name), qid (unquoted name), num, word (upper-cased), sym."""
    out = []
    pos, n = 0, len(text)
    while pos < n:
        mo = _TOK.match(text, pos)
        if mo is None:
            raise CqlUnsupported("cannot tokenize CQL at %r" % text[pos:pos + 40])
        kind = mo.lastgroup
        if kind == "phname":
            kind = "ph"
        if kind == "ph":
            out.append(("ph", mo.group("phname")))
        elif kind == "qid":
            out.append(("qid", mo.group()[1:-1].replace('""', '"')))
        elif kind == "word":
            out.append(("word", mo.group()))
        elif kind != "ws":
            out.append((kind, mo.group()))
        pos = mo.end()
    return out


# CQL's reserved words (an unquoted one cannot be an identifier) + the operator words of relations
RESERVED = frozenset("""ADD ALLOW ALTER AND APPLY ASC AUTHORIZE BATCH BEGIN BY COLUMNFAMILY CREATE DELETE DESC DESCRIBE DROP
ENTRIES EXECUTE FROM FULL GRANT IF IN INDEX INFINITY INSERT INTO IS KEYSPACE LIMIT MODIFY NAN NORECURSIVE NOT NULL OF ON OR
ORDER PRIMARY RENAME REPLACE REVOKE SCHEMA SELECT SET TABLE TO TOKEN TRUNCATE UNLOGGED UPDATE USE USING VIEW WHERE
WITH""".split())
OPERATOR_WORDS = frozenset(["CONTAINS", "LIKE"])


def canon(tok):
    """Canonical printable form of a token as CQL reads it, used for fragment comparison (C37): a quoted identifier is
    taken literally, an unquoted one is folded to lower case (so "vv" and vv are the same column, "Seq" and Seq are
    not), reserved / operator words are words whatever their case."""
    kind, text = tok
    if kind == "ph":
        return "%" + text
    if kind == "qid":
        return "i:" + text
    if kind == "word":
        if text.upper() in RESERVED or text.upper() in OPERATOR_WORDS:
            return "w:" + text.upper()
        return "i:" + text.lower()
    if kind == "num":
        return "n:" + text
    return "s:" + text


# ------------------------------------------------------------------ parser

class _Parser(object):
    def __init__(self, text):
        self.text = text
        self.t = tokenize(text)
        self.i = 0

    def fail(self, what):
        raise CqlUnsupported("%s at token %d of %r" % (what, self.i, self.text[:300]))

    def peek(self, k=0):
        j = self.i + k
        return self.t[j] if j < len(self.t) else (None, None)

    def is_word(self, *words, **kw):
        kind, text = self.peek(kw.get("k", 0))
        return kind == "word" and text.upper() in words

    def is_sym(self, *syms):
        kind, text = self.peek()
        return kind == "sym" and text in syms

    def next(self):
        if self.i >= len(self.t):
            self.fail("unexpected end")
        tok = self.t[self.i]
        self.i += 1
        return tok

    def word(self, *words):
        if not self.is_word(*words):
            self.fail("expected %s, found %r" % ("/".join(words), self.peek()[1]))
        return self.next()[1].upper()

    def sym(self, *syms):
        if not self.is_sym(*syms):
            self.fail("expected %s, found %r" % (" ".join(syms), self.peek()[1]))
        return self.next()[1]

    def accept_word(self, *words):
        if self.is_word(*words):
            return self.next()[1].upper()
        return None

    def accept_sym(self, *syms):
        if self.is_sym(*syms):
            return self.next()[1]
        return None

    def ident(self):
        kind, text = self.next()
        if kind == "qid":
            return text
        if kind == "word":
            if text.upper() in RESERVED:
                raise CqlInvalid("syntax error: reserved word %s used as an identifier without quotes in %r" % (text, self.text[:300]))
            return text.lower()         # an unquoted identifier is case-insensitive: folded to lower case
        self.i -= 1
        self.fail("expected an identifier, found %r" % text)

    def number(self):
        kind, text = self.next()
        if kind != "num":
            self.i -= 1
            self.fail("expected a number, found %r" % text)
        return int(text)

    def term(self):
        kind, text = self.peek()
        if kind == "ph":
            self.next()
            return ("ph", text)
        if kind == "num":
            self.next()
            return ("num", int(text))
        if self.is_word("TOKEN"):
            self.next()
            self.sym("(")
            args = [self.term()]
            while self.accept_sym(","):
                args.append(self.term())
            self.sym(")")
            return ("token", args)
        self.fail("expected a placeholder, found %r" % text)

    # ---- fragments

    def relation(self):
        start = self.i
        if self.is_word("TOKEN"):
            self.next()
            self.sym("(")
            cols = [self.ident()]
            while self.accept_sym(","):
                cols.append(self.ident())
            self.sym(")")
            lhs = ("token", cols)
        else:
            lhs = ("col", self.ident())
        if self.is_sym("=", "!=", "<", "<=", ">", ">="):
            op = self.next()[1]
        elif self.is_word("IN", "CONTAINS", "LIKE"):
            op = self.next()[1].upper()
        elif self.is_word("IS"):
            self.fail("IS NOT NULL is outside the subset")
        else:
            self.fail("expected a comparison operator, found %r" % self.peek()[1])
        rhs = self.term()
        return {"lhs": lhs, "op": op, "rhs": rhs, "toks": [canon(t) for t in self.t[start:self.i]]}

    def relations(self):
        rels = [self.relation()]
        while self.accept_word("AND"):
            rels.append(self.relation())
        return rels

    def using(self):
        opts = {}
        if self.accept_word("USING"):
            while True:
                k = self.word("TTL", "TIMESTAMP")
                opts[k.lower()] = self.number()
                if not self.accept_word("AND"):
                    break
        return opts

    def conditions(self, st):
        """[IF EXISTS | IF NOT EXISTS | IF cond AND ...]"""
        st.setdefault("conditions", [])
        st.setdefault("if_exists", False)
        st.setdefault("if_not_exists", False)
        while self.accept_word("IF"):
            if self.accept_word("EXISTS"):
                st["if_exists"] = True
            elif self.accept_word("NOT"):
                self.word("EXISTS")
                st["if_not_exists"] = True
            else:
                st["conditions"] += self.relations()

    def assignment(self):
        start = self.i
        col = self.ident()
        if self.accept_sym("["):
            key = self.term()
            self.sym("]")
            self.sym("=")
            a = {"col": col, "op": "put", "key": key, "val": self.term()}
        else:
            self.sym("=")
            kind, _ = self.peek()
            if kind in ("qid", "word") and not self.is_word("TOKEN"):
                other = self.ident()
                if other != col:
                    self.fail("assignment from another column")
                s = self.sym("+", "-")
                a = {"col": col, "op": "plus" if s == "+" else "minus", "val": self.term()}
            else:
                val = self.term()
                if self.accept_sym("+"):
                    other = self.ident()
                    if other != col:
                        self.fail("assignment from another column")
                    a = {"col": col, "op": "prepend", "val": val}
                else:
                    a = {"col": col, "op": "set", "val": val}
        a["toks"] = [canon(t) for t in self.t[start:self.i]]
        return a

    def target(self):
        start = self.i
        col = self.ident()
        key = None
        if self.accept_sym("["):
            key = self.term()
            self.sym("]")
        return {"col": col, "key": key, "toks": [canon(t) for t in self.t[start:self.i]]}

    # ---- statements

    def statement(self):
        w = self.word("SELECT", "INSERT", "UPDATE", "DELETE")
        st = getattr(self, "_" + w.lower())()
        self.accept_sym(";")
        return st

    def _select(self):
        st = {"kind": "select", "distinct": bool(self.accept_word("DISTINCT")), "count": False, "columns": None}
        if self.accept_sym("*"):
            pass
        elif self.is_word("COUNT") and self.peek(1) == ("sym", "("):
            self.next()
            self.sym("(")
            if not self.accept_sym("*"):
                st["columns"] = [self.ident()]
                while self.accept_sym(","):
                    st["columns"].append(self.ident())
            self.sym(")")
            st["count"] = True
        else:
            st["columns"] = [self.ident()]
            while self.accept_sym(","):
                st["columns"].append(self.ident())
        self.word("FROM")
        st["table"] = self.ident()
        st["where"] = self.relations() if self.accept_word("WHERE") else []
        st["order"] = []
        if self.accept_word("ORDER"):
            self.word("BY")
            while True:
                c = self.ident()
                st["order"].append((c, self.accept_word("ASC", "DESC") or "ASC"))
                if not self.accept_sym(","):
                    break
        st["limit"] = self.number() if self.accept_word("LIMIT") else None
        st["allow_filtering"] = False
        if self.accept_word("ALLOW"):
            self.word("FILTERING")
            st["allow_filtering"] = True
        return st

    def _insert(self):
        self.word("INTO")
        st = {"kind": "insert", "table": self.ident()}
        self.sym("(")
        cols = [self.ident()]
        while self.accept_sym(","):
            cols.append(self.ident())
        self.sym(")")
        self.word("VALUES")
        self.sym("(")
        vals = [self.term()]
        while self.accept_sym(","):
            vals.append(self.term())
        self.sym(")")
        if len(cols) != len(vals):
            raise CqlInvalid("INSERT with %d columns and %d values" % (len(cols), len(vals)))
        st["columns"], st["values"] = cols, vals
        st["pairs"] = [{"col": c, "val": v, "toks": [canon(("qid", c)), "s:=", canon((v[0], str(v[1])))]}
                       for c, v in zip(cols, vals) if v[0] != "token"]
        self.conditions(st)
        st["using"] = self.using()
        self.conditions(st)
        return st

    def _update(self):
        st = {"kind": "update", "table": self.ident()}
        st["using"] = self.using()
        self.word("SET")
        st["assignments"] = [self.assignment()]
        while self.accept_sym(","):
            st["assignments"].append(self.assignment())
        st["where"] = self.relations() if self.accept_word("WHERE") else []
        self.conditions(st)
        return st

    def _delete(self):
        st = {"kind": "delete", "targets": []}
        if not self.is_word("FROM"):
            st["targets"].append(self.target())
            while self.accept_sym(","):
                st["targets"].append(self.target())
        self.word("FROM")
        st["table"] = self.ident()
        st["using"] = self.using()
        st["where"] = self.relations() if self.accept_word("WHERE") else []
        self.conditions(st)
        return st

    def script(self):
        out = {"batch": None, "statements": []}
        if self.accept_word("BEGIN"):
            btype = self.accept_word("UNLOGGED", "COUNTER") or "LOGGED"
            self.word("BATCH")
            out["batch"] = {"type": btype, "using": self.using()}
            while not self.is_word("APPLY"):
                out["statements"].append(self.statement())
            self.word("APPLY")
            self.word("BATCH")
            self.accept_sym(";")
        else:
            out["statements"].append(self.statement())
        if self.i != len(self.t):
            self.fail("trailing text")
        return out


def parse(text):
    """-> {"batch": None | {...}, "statements": [statement dict, ...]}"""
    return _Parser(text).script()


def placeholders(text):
    """All placeholder names in the text, in order of appearance (with repetitions)."""
    return [t[1] for t in tokenize(text) if t[0] == "ph"]


# ------------------------------------------------------------------ tables

class Table(object):
    """Schema + content.  types: column -> 'int' | 'text' | 'set' | 'list' | 'map' | 'counter'."""

    def __init__(self, name, partition, clustering, types, static=(), elems=None):
        """elems: collection column -> element type ('int' | 'timestamp'; for a map the pair (key type, value type));
        default int.  A timestamp is kept as milliseconds since the epoch and read back as a naive UTC datetime."""
        self.name = name
        self.elems = dict(elems or {})
        self.partition = list(partition)
        self.clustering = list(clustering)
        self.types = dict(types)
        self.static = set(static)
        self.regular = [c for c in self.types if c not in self.partition and c not in self.clustering and c not in self.static]
        self.counter = any(t == "counter" for t in self.types.values())
        self.parts = {}          # partition key tuple -> {"static": {col: value}, "rows": {clustering tuple: row}}

    # row = {"marker": bool, "cells": {col: value}}; absent values are simply missing

    def clear(self):
        self.parts = {}

    def part(self, pk, create=False):
        p = self.parts.get(pk)
        if p is None and create:
            p = self.parts[pk] = {"static": {}, "rows": {}}
        return p

    def row(self, pk, ck, create=False):
        p = self.part(pk, create)
        if p is None:
            return None
        r = p["rows"].get(ck)
        if r is None and create:
            r = p["rows"][ck] = {"marker": False, "cells": {}}
        return r

    @staticmethod
    def visible(row):
        return row is not None and (row["marker"] or bool(row["cells"]))

    def gc(self):
        for pk in list(self.parts):
            p = self.parts[pk]
            for ck in list(p["rows"]):
                if not self.visible(p["rows"][ck]):
                    del p["rows"][ck]
            if not p["rows"] and not p["static"]:
                del self.parts[pk]

    def snapshot(self):
        """{pk: {"static": {...}, "rows": {ck: {"marker": b, col: value, ...}}}} with copies of the values."""
        self.gc()
        out = {}
        for pk, p in self.parts.items():
            rows = {}
            for ck, r in p["rows"].items():
                d = {"marker": r["marker"]}
                d.update((c, _copy(v)) for c, v in r["cells"].items())
                rows[ck] = d
            out[pk] = {"static": {c: _copy(v) for c, v in p["static"].items()}, "rows": rows}
        return out


def _copy(v):
    if isinstance(v, set):
        return set(v)
    if isinstance(v, list):
        return list(v)
    if isinstance(v, dict):
        return dict(v)
    return v


# ------------------------------------------------------------------ interpreter

class Interp(object):
    def __init__(self, tables):
        self.tables = {t.name: t for t in tables}
        self.log = []            # (query string, params) of everything executed

    def clear(self):
        for t in self.tables.values():
            t.clear()
        self.log = []

    # ---- values

    def _value(self, term, params):
        if term[0] == "num":
            return term[1]
        if term[0] == "ph":
            if params is None or term[1] not in params:
                raise CqlInvalid("no value bound to placeholder %%(%s)s" % term[1])
            v = params[term[1]]
            if hasattr(v, "value") and type(v).__name__ in ("InQuoter", "ValueQuoter"):
                v = v.value if type(v).__name__ != "InQuoter" else tuple(v.value)
            return v
        raise CqlUnsupported("token() outside a SELECT relation")

    @staticmethod
    def _elem(table, col, x, part=None):
        """One collection element as the server stores it (the driver's encoder writes a datetime as its epoch
        milliseconds, so both forms are the same literal)."""
        et = table.elems.get(col, "int")
        if isinstance(et, tuple):
            et = et[0 if part == "key" else 1]
        if et == "timestamp":
            if isinstance(x, datetime.datetime):
                if x.tzinfo is not None:
                    x = x.astimezone(datetime.timezone.utc).replace(tzinfo=None)
                d = x - datetime.datetime(1970, 1, 1)
                return (d.days * 86400 + d.seconds) * 1000 + d.microseconds // 1000
            if isinstance(x, datetime.date):
                return (x - datetime.date(1970, 1, 1)).days * 86400000
        if isinstance(x, bool) or not isinstance(x, int):
            raise CqlInvalid("collection element %r of the wrong type for column %s (%s)" % (x, col, et))
        return x

    @staticmethod
    def _read(table, col, v):
        """A stored value as the driver hands it to the application."""
        if v is None or col not in table.elems:
            return _copy(v)
        et = table.elems[col]

        def rd(x, t):
            return datetime.datetime(1970, 1, 1) + datetime.timedelta(milliseconds=x) if t == "timestamp" else x
        if isinstance(v, set):
            return set(rd(x, et) for x in v)
        if isinstance(v, list):
            return [rd(x, et) for x in v]
        if isinstance(v, dict):
            return dict((rd(k, et[0]), rd(x, et[1])) for k, x in v.items())
        return v

    @staticmethod
    def _typed(table, col, v, what="value"):
        """Check the Python value against the column type (what the server does with the encoded literal) and
        normalise it: null / empty collection -> None."""
        ty = table.types.get(col)
        if ty is None:
            raise CqlInvalid("Undefined column name %s in table %s" % (col, table.name))
        if v is None:
            return None
        if ty in ("int", "counter"):
            if isinstance(v, bool) or not isinstance(v, int):
                raise CqlInvalid("%s %r for column %s of type %s" % (what, v, col, ty))
            return v
        if ty == "text":
            if not isinstance(v, str):
                raise CqlInvalid("%s %r for column %s of type text" % (what, v, col))
            return v
        if ty == "set":
            if not isinstance(v, (set, frozenset)) and type(v).__name__ != "SortedSet":
                # `{}` is the empty map literal and the empty set literal alike
                if isinstance(v, dict) and not v:
                    return None
                raise CqlInvalid("%s %r for column %s of type set" % (what, v, col))
            return set(Interp._elem(table, col, x) for x in v) or None
        if ty == "list":
            if not isinstance(v, (list, tuple)):
                raise CqlInvalid("%s %r for column %s of type list" % (what, v, col))
            return [Interp._elem(table, col, x) for x in v] or None
        if ty == "map":
            if isinstance(v, (set, frozenset)) and not v:
                return None
            if not isinstance(v, dict):
                raise CqlInvalid("%s %r for column %s of type map" % (what, v, col))
            if any(x is None for x in v.values()):
                raise CqlInvalid("null is not supported inside collections (column %s)" % col)
            return dict((Interp._elem(table, col, k, "key"), Interp._elem(table, col, x, "value")) for k, x in v.items()) or None
        raise CqlUnsupported("column type %s" % ty)

    # ---- keys

    def _key(self, table, where, params, what):
        """Equality restrictions on primary key columns -> (pk tuple, ck tuple or None).  Anything else is refused."""
        eq = {}
        for r in where:
            if r["lhs"][0] != "col" or r["op"] != "=":
                raise CqlUnsupported("%s with a relation other than equality on a key column" % what)
            col = r["lhs"][1]
            if col not in table.partition and col not in table.clustering:
                raise CqlInvalid("Non PRIMARY KEY columns found in where clause: %s" % col)
            if col in eq:
                raise CqlInvalid("%s cannot be restricted by more than one relation if it includes an Equal" % col)
            v = self._value(r["rhs"], params)
            if v is None:
                raise CqlInvalid("Invalid null value in condition for column %s" % col)
            if isinstance(v, bool) or not isinstance(v, int):
                raise CqlInvalid("key value %r for column %s" % (v, col))
            eq[col] = v
        missing = [c for c in table.partition if c not in eq]
        if missing:
            raise CqlInvalid("Some partition key parts are missing: %s" % ", ".join(missing))
        pk = tuple(eq[c] for c in table.partition)
        given = [c for c in table.clustering if c in eq]
        if not given:
            return pk, None
        if len(given) != len(table.clustering):
            raise CqlUnsupported("%s on a clustering prefix (range)" % what)
        return pk, tuple(eq[c] for c in table.clustering)

    # ---- conditions

    def _row_view(self, table, pk, ck):
        """What a read of that row returns (None when the row is not visible)."""
        p = table.part(pk)
        if p is None:
            return None
        r = p["rows"].get(ck) if ck is not None else None
        if ck is not None and not table.visible(r):
            return None
        d = dict(zip(table.partition, pk))
        d.update(zip(table.clustering, ck if ck is not None else [None] * len(table.clustering)))
        for c in table.types:
            if c in d:
                continue
            src = p["static"] if c in table.static else (r["cells"] if r else {})
            d[c] = self._read(table, c, src.get(c))
        return d

    def _check_conditions(self, table, st, pk, ck, params):
        """-> None when the statement applies, else the answer row list."""
        if not (st.get("conditions") or st.get("if_exists") or st.get("if_not_exists")):
            return None
        if table.counter:
            raise CqlInvalid("Conditional updates are not supported on counter tables")
        if ck is None and table.clustering:
            raise CqlUnsupported("conditional statement without the whole primary key")
        view = self._row_view(table, pk, ck)
        ok = True
        if st.get("if_not_exists"):
            ok = view is None
        if st.get("if_exists"):
            ok = ok and view is not None
        for c in st.get("conditions", ()):
            if c["lhs"][0] != "col":
                raise CqlInvalid("token() in a condition")
            col = c["lhs"][1]
            if col in table.partition or col in table.clustering:
                raise CqlInvalid("PRIMARY KEY column '%s' cannot have IF conditions" % col)
            if table.types.get(col) not in ("int", "text"):
                raise CqlUnsupported("condition on a column of type %s" % table.types.get(col))
            have = None if view is None else view.get(col)
            want = self._value(c["rhs"], params)
            op = c["op"]
            if op == "IN":
                res = have in tuple(want)
            elif op == "=":
                res = have == want
            elif op == "!=":
                res = have != want
            elif op in ("<", "<=", ">", ">="):
                if want is None:
                    raise CqlInvalid("Invalid comparison with null for operator %s" % op)
                res = have is not None and {"<": have < want, "<=": have <= want, ">": have > want, ">=": have >= want}[op]
            else:
                raise CqlInvalid("%s in a condition" % op)
            ok = ok and res
        if ok:
            return None
        ans = {"[applied]": False}
        if view is not None:
            ans.update(view)
        return [ans]

    # ---- statements

    def execute(self, query, params=None):
        text = getattr(query, "query_string", query)
        self.log.append((text, params))
        script = parse(text)
        if script["batch"] is not None:
            for st in script["statements"]:
                if st["kind"] == "select":
                    raise CqlInvalid("SELECT inside a batch")
                if st.get("conditions") or st.get("if_exists") or st.get("if_not_exists"):
                    raise CqlUnsupported("conditional statement inside a batch")
            kinds = set(self._table(st).counter for st in script["statements"])
            if len(kinds) > 1 or (kinds == {True}) != (script["batch"]["type"] == "COUNTER"):
                raise CqlInvalid("counter and non-counter mutations in one batch / wrong batch type")
            # validate every member before applying any (a batch is refused as a whole)
            plans = [self._plan(st, params) for st in script["statements"]]
            for plan in plans:
                plan()
            return []
        st = script["statements"][0]
        if st["kind"] == "select":
            return self._do_select(st, params)
        res = []

        def answer(rows):
            res.extend(rows)
        plan = self._plan(st, params, answer)
        plan()
        return res

    def _table(self, st):
        t = self.tables.get(st["table"])
        if t is None:
            raise CqlInvalid("unconfigured table %s" % st["table"])
        return t

    def _plan(self, st, params, answer=None):
        """Validate now, return a closure that applies the statement."""
        table = self._table(st)
        return getattr(self, "_plan_" + st["kind"])(table, st, params, answer or (lambda rows: None))

    def _plan_insert(self, table, st, params, answer):
        if table.counter:
            raise CqlInvalid("INSERT statements are not allowed on counter tables, use UPDATE instead")
        vals = {}
        for c, term in zip(st["columns"], st["values"]):
            if c in vals:
                raise CqlInvalid("The column names contains duplicates")
            vals[c] = self._typed(table, c, self._value(term, params))
        for c in table.partition:
            if vals.get(c) is None:
                raise CqlInvalid("Some partition key parts are missing: %s" % c)
        pk = tuple(vals[c] for c in table.partition)
        has_ck = [c for c in table.clustering if vals.get(c) is not None]
        others = [c for c in vals if c not in table.partition and c not in table.clustering]
        if len(has_ck) != len(table.clustering):
            if has_ck or any(c not in table.static for c in others) or not others:
                raise CqlInvalid("Some clustering keys are missing: %s" % ", ".join(c for c in table.clustering if c not in has_ck))
            ck = None
        else:
            ck = tuple(vals[c] for c in table.clustering)

        def apply():
            refused = self._check_conditions(table, st, pk, ck, params)
            if refused:
                return answer(refused)
            p = table.part(pk, True)
            if ck is not None:
                table.row(pk, ck, True)["marker"] = True
            for c in others:
                cells = p["static"] if c in table.static else table.row(pk, ck, True)["cells"]
                if vals[c] is None:
                    cells.pop(c, None)
                else:
                    cells[c] = vals[c]
            table.gc()
            if st["if_not_exists"]:
                answer([{"[applied]": True}])
        return apply

    def _plan_update(self, table, st, params, answer):
        pk, ck = self._key(table, st["where"], params, "UPDATE")
        ops = []
        by_col = {}
        for a in st["assignments"]:
            col = a["col"]
            ty = table.types.get(col)
            if ty is None:
                raise CqlInvalid("Undefined column name %s" % col)
            if col in table.partition or col in table.clustering:
                raise CqlInvalid("PRIMARY KEY part %s found in SET part" % col)
            by_col.setdefault(col, []).append(a["op"])
            val = self._value(a["val"], params)
            op = a["op"]
            if op == "set":
                if ty == "counter":
                    raise CqlInvalid("Cannot set the value of counter column %s (counters can only be incremented/decremented)" % col)
                ops.append((col, "set", self._typed(table, col, val)))
            elif op == "put":
                if ty != "map":
                    raise CqlInvalid("element assignment on column %s of type %s" % (col, ty)) if ty != "list" else \
                        CqlUnsupported("list element assignment")
                key = self._value(a["key"], params)
                if key is None:
                    raise CqlInvalid("Invalid null map key for column %s" % col)
                ops.append((col, "put", (self._elem(table, col, key, "key"), None if val is None else self._elem(table, col, val, "value"))))
            elif op == "plus":
                if ty == "counter":
                    ops.append((col, "incr", self._typed(table, col, val, "increment") or 0))
                elif ty in ("set", "list", "map"):
                    if val is None:
                        raise CqlInvalid("Invalid null value for %s addition on column %s" % (ty, col))
                    ops.append((col, {"set": "add", "list": "append", "map": "merge"}[ty], self._typed(table, col, val)))
                else:
                    raise CqlInvalid("Invalid operation (%s = %s + ...) for non counter column %s" % (col, col, col))
            elif op == "minus":
                if ty == "counter":
                    ops.append((col, "incr", -(self._typed(table, col, val, "decrement") or 0)))
                elif ty == "set":
                    if val is None:
                        raise CqlInvalid("Invalid null value for set removal on column %s" % col)
                    ops.append((col, "discard", self._typed(table, col, val)))
                elif ty == "map":
                    if val is None:
                        raise CqlInvalid("Invalid null value for map removal on column %s" % col)
                    if isinstance(val, dict) and val:
                        raise CqlInvalid("map removal on column %s takes a set of keys, got %r" % (col, val))
                    if not isinstance(val, (set, frozenset, dict)):
                        raise CqlInvalid("map removal on column %s takes a set of keys, got %r" % (col, val))
                    ops.append((col, "dropkeys", set(self._elem(table, col, k, "key") for k in val)))
                elif ty == "list":
                    raise CqlUnsupported("list subtraction")
                else:
                    raise CqlInvalid("Invalid operation (%s = %s - ...) for non counter column %s" % (col, col, col))
            elif op == "prepend":
                if ty != "list":
                    raise CqlInvalid("Invalid operation (%s = ... + %s) for column of type %s" % (col, col, ty))
                if val is None:
                    raise CqlInvalid("Invalid null value for list prepend on column %s" % col)
                ops.append((col, "prepend", self._typed(table, col, val)))
            else:
                raise CqlUnsupported(op)
        for col, kinds in by_col.items():
            if len(kinds) > 1 and "set" in kinds:
                raise CqlInvalid("Multiple incompatible setting of column %s" % col)
            if kinds.count("plus") + kinds.count("minus") > 1 and table.types[col] == "counter":
                raise CqlInvalid("Multiple incompatible setting of column %s" % col)
        if table.counter and any(table.types[c] != "counter" for c in by_col):
            raise CqlInvalid("Cannot mix counter and non counter columns")
        ck = self._dml_target(table, set(by_col), ck, "UPDATE")

        def apply():
            refused = self._check_conditions(table, st, pk, ck, params)
            if refused:
                return answer(refused)
            p = table.part(pk, True)
            # one statement = one write timestamp: where the same element is added and removed by the same statement
            # the tombstone wins, whatever the order of the assignments - removals are applied last
            removal = lambda o: o[1] in ("discard", "dropkeys") or (o[1] == "put" and o[2][1] is None)       # noqa: E731
            for col, kind, arg in [o for o in ops if not removal(o)] + [o for o in ops if removal(o)]:
                cells = p["static"] if col in table.static else table.row(pk, ck, True)["cells"]
                cur = cells.get(col)
                if kind == "set":
                    new = arg
                elif kind == "put":
                    new = dict(cur or {})
                    if arg[1] is None:
                        new.pop(arg[0], None)
                    else:
                        new[arg[0]] = arg[1]
                elif kind == "incr":
                    new = (cur or 0) + arg
                elif kind == "add":
                    new = set(cur or ()) | (arg or set())
                elif kind == "discard":
                    new = set(cur or ()) - (arg or set())
                elif kind == "append":
                    new = list(cur or ()) + list(arg or ())
                elif kind == "prepend":
                    new = list(arg or ()) + list(cur or ())
                elif kind == "merge":
                    new = dict(cur or {})
                    new.update(arg or {})
                elif kind == "dropkeys":
                    new = {k: v for k, v in (cur or {}).items() if k not in arg}
                else:
                    raise CqlUnsupported(kind)
                if new is None or (not isinstance(new, int) and not isinstance(new, str) and not new):
                    cells.pop(col, None)
                else:
                    cells[col] = new
            table.gc()
            if st["if_exists"] or st["conditions"]:
                answer([{"[applied]": True}])
        return apply

    @staticmethod
    def _dml_target(table, cols, ck, what):
        """Which clustering key the column operations address; Cassandra's rules about static columns."""
        static_only = bool(cols) and all(c in table.static for c in cols)
        if static_only:
            if ck is not None:
                raise CqlInvalid("Invalid restrictions on clustering columns since the %s statement modifies only static columns" % what)
            return None
        if ck is None and table.clustering:
            raise CqlInvalid("Some clustering keys are missing: %s" % ", ".join(table.clustering))
        return ck if table.clustering else ()

    def _plan_delete(self, table, st, params, answer):
        pk, ck = self._key(table, st["where"], params, "DELETE")
        targets = []
        for t in st["targets"]:
            col = t["col"]
            ty = table.types.get(col)
            if ty is None:
                raise CqlInvalid("Undefined column name %s" % col)
            if col in table.partition or col in table.clustering:
                raise CqlInvalid("Invalid identifier %s for deletion (should not be a PRIMARY KEY part)" % col)
            if t["key"] is None:
                targets.append((col, None))
            else:
                if ty != "map":
                    raise CqlInvalid("Invalid deletion operation for non collection column %s" % col) if ty != "list" else \
                        CqlUnsupported("list element deletion")
                key = self._value(t["key"], params)
                if key is None:
                    raise CqlInvalid("Invalid null map key for column %s" % col)
                targets.append((col, self._elem(table, col, key, "key")))
        if targets:
            if table.counter:
                raise CqlUnsupported("column deletion on a counter table")
            ck = self._dml_target(table, set(c for c, _ in targets), ck, "DELETE")
        elif not table.clustering:
            ck = ()

        def apply():
            refused = self._check_conditions(table, st, pk, ck, params)
            if refused:
                return answer(refused)
            p = table.part(pk)
            if p is not None:
                if not targets:
                    if ck is None:
                        del table.parts[pk]
                    else:
                        p["rows"].pop(ck, None)
                else:
                    for col, key in targets:
                        if col in table.static:
                            cells = p["static"]
                        else:
                            r = p["rows"].get(ck)
                            cells = r["cells"] if r else {}
                        if key is None:
                            cells.pop(col, None)
                        elif col in cells:
                            cells[col].pop(key, None)
                            if not cells[col]:
                                del cells[col]
            table.gc()
            if st["if_exists"] or st["conditions"]:
                answer([{"[applied]": True}])
        return apply

    def _do_select(self, st, params):
        table = self._table(st)
        if st["distinct"]:
            raise CqlUnsupported("SELECT DISTINCT")
        eq = {}
        for r in st["where"]:
            if r["lhs"][0] != "col" or r["op"] not in ("=", "IN"):
                raise CqlUnsupported("SELECT with a relation other than = / IN on a key column")
            col = r["lhs"][1]
            if col not in table.partition and col not in table.clustering:
                raise CqlUnsupported("SELECT restricted on the regular column %s" % col)
            v = self._value(r["rhs"], params)
            vals = tuple(v) if r["op"] == "IN" else (v,)
            if any(x is None for x in vals):
                raise CqlInvalid("Invalid null value in condition for column %s" % col)
            if col in eq:
                raise CqlInvalid("%s cannot be restricted by more than one relation" % col)
            eq[col] = vals
        if any(c not in eq for c in table.partition) and eq:
            raise CqlUnsupported("SELECT without the whole partition key")
        table.gc()
        rows = []
        for pk in sorted(table.parts):
            if any(pk[i] not in eq[c] for i, c in enumerate(table.partition) if c in eq):
                continue
            p = table.parts[pk]
            restricted = any(c in eq for c in table.clustering)
            got = False
            for ck in sorted(p["rows"]):
                if any(ck[i] not in eq[c] for i, c in enumerate(table.clustering) if c in eq):
                    continue
                rows.append(self._row_view(table, pk, ck))
                got = True
            if not got and not restricted and not p["rows"] and p["static"]:
                rows.append(self._row_view(table, pk, None))
        if st["order"]:
            for c, direction in reversed(st["order"]):
                if c not in table.clustering:
                    raise CqlInvalid("Order by is currently only supported on the clustered columns of the PRIMARY KEY, got %s" % c)
                rows.sort(key=lambda r: r[c], reverse=(direction == "DESC"))
        if st["count"]:
            return [{"count": len(rows) if st["limit"] is None else min(len(rows), max(st["limit"], 1))}]
        if st["limit"] is not None:
            rows = rows[:st["limit"]]
        if st["columns"] is not None:
            for c in st["columns"]:
                if c not in table.types:
                    raise CqlInvalid("Undefined column name %s" % c)
            rows = [{c: r[c] for c in st["columns"]} for r in rows]
        return rows
