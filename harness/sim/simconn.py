"""Socket-free doubles: SimConnection (a reactor-less Connection), SimWorld (clock, timers, nodes),
FakeNode (a scriptable Cassandra node speaking the protocol through harness/wire.py).

SimConnection reproduces the *reactor contract* of the shipped reactors (asyncore/libev/twisted):
  * __init__: Connection.__init__, "connect the socket", then _send_options_message()
  * push(data): hand bytes to the transport
  * incoming bytes: _iobuf.write(chunk); process_io_buffer()
  * close(): under lock set is_closed once; if not defunct: error_all_requests(ConnectionShutdown),
    set last_error if the handshake had not finished, connected_event.set()
  * create_timer(timeout, cb): a cassandra.connection.Timer registered with the loop
"""
import socket
import uuid

from harness import pyenv, wire

pyenv.setup()
import cassandra.connection as cconn          # noqa: E402
from cassandra.connection import Connection, ConnectionShutdown, Timer   # noqa: E402


class SimDeadlock(Exception):
    """The simulated (single-threaded) run would block forever."""


class SimClock:
    """Stands in for the `time` module inside cassandra.* modules."""

    def __init__(self, start=1000.0):
        self.now = start
        self.sleeps = 0

    def time(self):
        return self.now

    def monotonic(self):
        return self.now

    def sleep(self, dt):
        self.sleeps += 1
        if self.sleeps > 200000:
            raise SimDeadlock("busy-wait loop does not terminate")
        self.now += max(dt, 0)

    def advance(self, dt):
        self.now += dt

    def __getattr__(self, name):          # strftime etc.
        import time as _t
        return getattr(_t, name)


class SimEvent:
    """threading.Event for single-threaded simulation: wait() never blocks."""
    world = None

    def __init__(self):
        self._flag = False

    def is_set(self):
        return self._flag

    isSet = is_set

    def set(self):
        self._flag = True

    def clear(self):
        self._flag = False

    def wait(self, timeout=None):
        if self._flag:
            return True
        w = SimEvent.world
        if w is not None and w.on_block is not None:
            w.on_block(self, timeout)
            if self._flag:
                return True
        if timeout is None:
            raise SimDeadlock("Event.wait() without timeout on an unset event")
        if w is not None:
            w.clock.advance(max(timeout, 0))
        return False


class SimCondition:
    """threading.Condition for single-threaded simulation."""

    def __init__(self, lock=None):
        import threading
        self._lock = lock or threading.RLock()
        self.waits = 0

    def __enter__(self):
        return self._lock.__enter__()

    def __exit__(self, *a):
        return self._lock.__exit__(*a)

    def acquire(self, *a):
        return self._lock.acquire(*a)

    def release(self):
        return self._lock.release()

    def wait(self, timeout=None):
        self.waits += 1
        w = SimEvent.world
        if w is not None and w.on_block is not None:
            w.on_block(self, timeout)
            return True
        if timeout is None:
            raise SimDeadlock("Condition.wait() without timeout")
        if w is not None:
            w.clock.advance(max(timeout, 0))
        return False

    def notify(self, n=1):
        pass

    def notify_all(self):
        pass

    notifyAll = notify_all


class SimWorld:
    """Everything outside the driver: virtual clock, timers, nodes, the set of connections ever opened."""
    current = None

    def __init__(self):
        self.clock = SimClock()
        self.timers = []
        self.nodes = {}
        self.conns = []
        self.on_block = None
        self.log = []
        SimWorld.current = self
        SimEvent.world = self

    def add_node(self, node):
        self.nodes[node.address] = node
        node.world = self
        return node

    # ---- timers (what a reactor's TimerManager does)
    def add_timer(self, timer):
        self.timers.append(timer)

    def due_timers(self):
        return [t for t in self.timers if not t.canceled and t.end <= self.clock.now]

    def live_timers(self):
        self.timers = [t for t in self.timers if not t.canceled and not getattr(t, "_fired", False)]
        return list(self.timers)

    def fire(self, timer, advance=True):
        """Run one timer callback as the reactor would (only if not cancelled). With advance=False the
        virtual clock is left alone (the callback's own logic must not depend on the time then)."""
        if timer in self.timers:
            self.timers.remove(timer)
        timer._fired = True
        if timer.canceled:
            return False
        if advance and self.clock.now < timer.end:
            self.clock.now = timer.end
        timer.callback()
        return True

    def run_due_timers(self):
        n = 0
        while True:
            due = sorted(self.due_timers(), key=lambda t: t.end)
            if not due:
                return n
            self.fire(due[0])
            n += 1

    def open_connections(self):
        return [c for c in self.conns if not c.is_closed]

    def install(self, modules=("cassandra.connection", "cassandra.cluster", "cassandra.pool")):
        """Substitute time / Event / Condition as seen by the driver modules."""
        import importlib
        for name in modules:
            m = importlib.import_module(name)
            if hasattr(m, "time"):
                m.time = self.clock
            if hasattr(m, "Event"):
                m.Event = SimEvent
            if hasattr(m, "Condition"):
                m.Condition = SimCondition
        return self


class SimConnection(Connection):
    """A Connection whose transport is a FakeNode in a SimWorld."""
    sim_seq = 0

    def __init__(self, *args, **kwargs):
        Connection.__init__(self, *args, **kwargs)
        world = SimWorld.current
        self.world = world
        SimConnection.sim_seq += 1
        self.sim_id = SimConnection.sim_seq
        self.outbox = []          # every push, raw
        self.node = None
        self.close_log = []
        if world is None:
            raise RuntimeError("no SimWorld")
        # several nodes may sit behind one address, told apart by port: world.nodes[(address, port)] wins
        node = world.nodes.get((self.endpoint.address, self.endpoint.port)) or world.nodes.get(self.endpoint.address)
        if node is None or not node.accepting:
            # what _connect_socket raises when nothing listens
            raise socket.error(111, "Tried connecting to [(%r, %r)]. Last error: Connection refused"
                               % (self.endpoint.address, self.endpoint.port))
        world.conns.append(self)
        self.node = node
        node.on_open(self)
        self._send_options_message()

    @classmethod
    def initialize_reactor(cls):
        pass

    @classmethod
    def handle_fork(cls):
        pass

    @classmethod
    def create_timer(cls, timeout, callback):
        timer = Timer(timeout, callback)
        SimWorld.current.add_timer(timer)
        return timer

    def close(self):
        with self.lock:
            if self.is_closed:
                return
            self.is_closed = True
        self.close_log.append((self.world.clock.now, self.in_flight, len(self.orphaned_request_ids)))
        if self.node is not None:
            self.node.on_close(self)
        if not self.is_defunct:
            self.error_all_requests(ConnectionShutdown("Connection to %s was closed" % self.endpoint))
            if not self.connected_event.is_set():
                self.last_error = ConnectionShutdown("Connection to %s was closed" % self.endpoint)
            self.connected_event.set()

    def push(self, data):
        self.outbox.append(bytes(data))
        if self.is_closed:
            return          # the reactors queue the bytes but the closed socket never writes them
        if self.node is not None:
            self.node.on_bytes(self, bytes(data))

    # ---- what the reactor's read handler does
    def feed(self, data):
        """Bytes arrive from the node.  A real reactor's read handler is never re-entered: bytes that arrive while a
        response callback of THIS connection is still running (the callback sent a request and the simulated node
        answered at once) are handled after the callback has returned - otherwise process_io_buffer would find the
        frame it is in the middle of still in its buffer and process it a second time."""
        if self.is_closed or self.is_defunct:
            return False
        if getattr(self, "_sim_feeding", False):
            self._sim_backlog.append(bytes(data))
            return True
        self._sim_feeding = True
        self._sim_backlog = []
        try:
            self._iobuf.write(data)
            self.process_io_buffer()
            while self._sim_backlog and not (self.is_closed or self.is_defunct):
                self._iobuf.write(self._sim_backlog.pop(0))
                self.process_io_buffer()
        finally:
            self._sim_feeding = False
        return True

    def server_closed(self):
        """Peer closed the socket (handle_close)."""
        self.close()

    def socket_error(self, exc=None):
        """Transport error (handle_error)."""
        self.defunct(exc or socket.error(104, "Connection reset by peer"))


class Pending:
    """A request a FakeNode owes an answer to."""
    __slots__ = ("conn", "frame", "req", "seq", "_pages")

    def __init__(self, conn, frame, req, seq):
        self.conn, self.frame, self.req, self.seq = conn, frame, req, seq
        self._pages = 0

    def __repr__(self):
        return "Pending(#%d conn=%d stream=%d %s)" % (self.seq, self.conn.sim_id, self.frame.stream, self.req.get("op"))


class FakeNode:
    """Scriptable Cassandra node.

    * Handshake frames (OPTIONS/STARTUP/REGISTER/AUTH_RESPONSE) and queries on system tables are
      answered synchronously inside on_bytes (the driver blocks on them) unless `script_handshake`.
    * Every other request is queued in `pending`; the schedule answers with respond()/respond_error()
      /drop, or `auto` answers it at once with `auto_answer(req)`.
    """

    def __init__(self, address, dc="dc1", rack="r1", tokens=("00",), host_id=None, versions=(3, 4, 5),
                 release_version="4.0.0", partitioner="org.apache.cassandra.dht.ByteOrderedPartitioner"):
        self.address = address
        self.dc, self.rack, self.tokens = dc, rack, list(tokens)
        self.host_id = host_id or uuid.UUID(int=(hash(address) & 0xFFFFFFFF) + 1)
        self.versions = set(versions)
        self.release_version = release_version
        self.partitioner = partitioner
        self.schema_version = uuid.UUID(int=7)
        self.accepting = True
        self.world = None
        self.conns = []
        self.buffers = {}
        self.pending = []
        self.seq = 0
        self.received = []            # decoded requests, in arrival order: (conn sim_id, dict)
        self.auto = False
        self.auto_answer = None       # fn(node, pending) -> None (must call respond*)
        self.supported = {"CQL_VERSION": ["3.4.5"], "COMPRESSION": []}
        self.require_auth = False
        self.handshake_script = None  # fn(node, conn, req, frame) -> True if handled
        self.peers = None             # list of FakeNode (cluster view); default: world nodes
        self.keyspaces = {"ks", "ks2", "system"}
        self.registered = {}
        self.seg_state = {}           # conn -> bool (v5 framing on)
        self.beta_versions = set()

    # ---- transport
    def on_open(self, conn):
        self.conns.append(conn)
        self.buffers[conn] = b""
        self.seg_state[conn] = False

    def on_close(self, conn):
        if conn in self.conns:
            self.conns.remove(conn)
        self.pending = [p for p in self.pending if p.conn is not conn]

    def open_connections(self):
        return list(self.conns)

    def on_bytes(self, conn, data):
        buf = self.buffers.get(conn, b"") + data
        if self.seg_state.get(conn):
            segs, rest = wire.decode_segments(buf)
            self.buffers[conn] = rest
            payload = b"".join(p for p, _ in segs)
            frames, left = wire.parse_frames(self.buffers.get((conn, "f"), b"") + payload)
            self.buffers[(conn, "f")] = left
        else:
            frames, rest = wire.parse_frames(buf)
            self.buffers[conn] = rest
        for f in frames:
            self.on_frame(conn, f)

    def send(self, conn, version, stream, opcode, body, flags=0, chunks=None):
        """Deliver one response frame to the driver (optionally split into chunks)."""
        raw = wire.encode_frame(version, flags, stream, opcode, body, response=True)
        if self.seg_state.get(conn):
            raw = b"".join(wire.encode_segments(raw))
        if conn.is_closed or conn.is_defunct:
            return False
        if chunks:
            p = 0
            for n in chunks:
                conn.feed(raw[p:p + n])
                p += n
            if p < len(raw):
                conn.feed(raw[p:])
        else:
            conn.feed(raw)
        return True

    # ---- protocol
    def on_frame(self, conn, f):
        req = wire.parse_request(f)
        self.received.append((conn.sim_id, req))
        v = f.version
        if self.handshake_script is not None and self.handshake_script(self, conn, req, f):
            return
        if v not in self.versions:
            lowest = min(self.versions)
            self.send(conn, lowest if v > max(self.versions) else lowest, f.stream, wire.ERROR,
                      wire.body_error(wire.ERR_PROTOCOL, "Invalid or unsupported protocol version (%d)" % v))
            return
        if v in self.beta_versions and not (f.flags & wire.FLAG_BETA):
            self.send(conn, v, f.stream, wire.ERROR,
                      wire.body_error(wire.ERR_PROTOCOL, "Beta version of the protocol used (%d/v%d-beta), but USE_BETA flag is unset" % (v, v)))
            return
        op = f.opcode
        if op == wire.OPTIONS:
            if getattr(conn, "_sim_ready", False) and not self.auto and self.hold_options:
                self._queue(conn, f, req)
            else:
                self.send(conn, v, f.stream, wire.SUPPORTED, wire.body_supported(self.supported))
        elif op == wire.STARTUP:
            if self.require_auth:
                self.send(conn, v, f.stream, wire.AUTHENTICATE, wire.body_authenticate())
                if 5 <= v < 0x41:          # checksummed framing: v5/v6 only, not the DSE versions
                    self.seg_state[conn] = True
            else:
                self.send(conn, v, f.stream, wire.READY, wire.body_ready())
                if 5 <= v < 0x41:          # checksummed framing: v5/v6 only, not the DSE versions
                    self.seg_state[conn] = True
                conn._sim_ready = True
        elif op == wire.AUTH_RESPONSE:
            self.send(conn, v, f.stream, wire.AUTH_SUCCESS, wire.body_auth_success())
            conn._sim_ready = True
        elif op == wire.REGISTER:
            self.registered[conn] = req["events"]
            self.send(conn, v, f.stream, wire.READY, wire.body_ready())
        elif op == wire.QUERY and self._system_query(conn, f, req):
            pass
        else:
            p = self._queue(conn, f, req)
            if self.auto:
                (self.auto_answer or FakeNode.default_answer)(self, p)

    hold_options = False

    def _queue(self, conn, f, req):
        self.seq += 1
        p = Pending(conn, f, req, self.seq)
        self.pending.append(p)
        return p

    def default_answer(self, p):
        q = p.req.get("query", "")
        if p.req["op"] == "QUERY" and q.upper().startswith("USE "):
            ks = q[4:].strip().strip('"')
            if ks in self.keyspaces:
                self.respond(p, wire.RESULT, wire.body_set_keyspace(ks))
            else:
                self.respond(p, wire.ERROR, wire.body_error(wire.ERR_INVALID, "Keyspace '%s' does not exist" % ks))
        else:
            self.respond(p, wire.RESULT, wire.body_void())

    # ---- answering
    def take(self, p):
        if p in self.pending:
            self.pending.remove(p)

    def respond(self, p, opcode, body, flags=0, chunks=None):
        self.take(p)
        return self.send(p.conn, p.frame.version, p.frame.stream, opcode, body, flags, chunks)

    def respond_rows(self, p, columns, rows, **kw):
        return self.respond(p, wire.RESULT, wire.body_rows(columns, rows, **kw))

    def respond_void(self, p):
        return self.respond(p, wire.RESULT, wire.body_void())

    def respond_error(self, p, code, msg="err", tail=b""):
        return self.respond(p, wire.ERROR, wire.body_error(code, msg, tail))

    def drop(self, p):
        self.take(p)

    def push_event(self, conn, body, version=None):
        return self.send(conn, version or conn.protocol_version, -1, wire.EVENT, body)

    # ---- system tables for the control connection
    def cluster_nodes(self):
        if self.peers is not None:
            return [self] + [n for n in self.peers if n is not self]
        return [self] + [n for n in self.world.nodes.values() if n is not self]

    def local_row(self):
        cols = [("key", wire.T_VARCHAR), ("cluster_name", wire.T_VARCHAR), ("data_center", wire.T_VARCHAR),
                ("rack", wire.T_VARCHAR), ("partitioner", wire.T_VARCHAR), ("release_version", wire.T_VARCHAR),
                ("schema_version", wire.T_UUID), ("host_id", wire.T_UUID), ("rpc_address", wire.T_INET),
                ("tokens", ("set", wire.T_VARCHAR))]
        row = [wire.c_text("local"), wire.c_text("simcluster"), wire.c_text(self.dc), wire.c_text(self.rack),
               wire.c_text(self.partitioner), wire.c_text(self.release_version), wire.c_uuid(self.schema_version),
               wire.c_uuid(self.host_id), wire.c_inet(self.address), wire.c_set_text(self.tokens)]
        return cols, [row]

    def peers_rows(self, v2):
        if v2:
            cols = [("peer", wire.T_INET), ("peer_port", wire.T_INT), ("data_center", wire.T_VARCHAR),
                    ("rack", wire.T_VARCHAR), ("host_id", wire.T_UUID), ("native_address", wire.T_INET),
                    ("native_port", wire.T_INT), ("release_version", wire.T_VARCHAR),
                    ("schema_version", wire.T_UUID), ("tokens", ("set", wire.T_VARCHAR))]
        else:
            cols = [("peer", wire.T_INET), ("data_center", wire.T_VARCHAR), ("rack", wire.T_VARCHAR),
                    ("host_id", wire.T_UUID), ("rpc_address", wire.T_INET), ("release_version", wire.T_VARCHAR),
                    ("schema_version", wire.T_UUID), ("tokens", ("set", wire.T_VARCHAR))]
        rows = []
        src = self.peer_rows_override if self.peer_rows_override is not None else \
            [n.as_peer() for n in self.cluster_nodes()[1:]]
        for pr in src:
            if v2:
                rows.append([wire.c_inet(pr.get("peer")), wire.c_int(7000), wire.c_text(pr.get("data_center")),
                             wire.c_text(pr.get("rack")), wire.c_uuid(pr.get("host_id")),
                             wire.c_inet(pr.get("address")), wire.c_int(pr.get("native_port", 9042)),
                             wire.c_text(pr.get("release_version")), wire.c_uuid(pr.get("schema_version")),
                             wire.c_set_text(pr.get("tokens"))])
            else:
                rows.append([wire.c_inet(pr.get("peer")), wire.c_text(pr.get("data_center")),
                             wire.c_text(pr.get("rack")), wire.c_uuid(pr.get("host_id")),
                             wire.c_inet(pr.get("address")), wire.c_text(pr.get("release_version")),
                             wire.c_uuid(pr.get("schema_version")), wire.c_set_text(pr.get("tokens"))])
        return cols, rows

    peer_rows_override = None

    def as_peer(self):
        return {"peer": self.address, "address": self.address, "data_center": self.dc, "rack": self.rack,
                "host_id": self.host_id, "release_version": self.release_version,
                "schema_version": self.schema_version, "tokens": self.tokens}

    system_hook = None     # fn(node, conn, frame, req) -> True if it answered

    def _system_query(self, conn, f, req):
        q = req["query"]
        if "system." not in q and "system_schema" not in q:
            return False
        if self.system_hook is not None and self.system_hook(self, conn, f, req):
            return True
        v = f.version
        if "system.local" in q:
            cols, rows = self.local_row()
            self.send(conn, v, f.stream, wire.RESULT, wire.body_rows(cols, rows, ks="system", table="local"))
        elif "system.peers_v2" in q:
            if not self.has_peers_v2:
                self.send(conn, v, f.stream, wire.ERROR, wire.body_error(wire.ERR_INVALID, "unconfigured table peers_v2"))
            else:
                cols, rows = self.peers_rows(True)
                self.send(conn, v, f.stream, wire.RESULT, wire.body_rows(cols, rows, ks="system", table="peers_v2"))
        elif "system.peers" in q:
            cols, rows = self.peers_rows(False)
            self.send(conn, v, f.stream, wire.RESULT, wire.body_rows(cols, rows, ks="system", table="peers"))
        else:
            # schema tables etc.: empty result
            self.send(conn, v, f.stream, wire.RESULT, wire.body_rows([("x", wire.T_INT)], [], ks="system", table="x"))
        return True

    has_peers_v2 = False
