"""DetSched: deterministic scheduling of logical threads (greenlets) through real driver code.

A logical thread is a greenlet running a Python callable.  It runs until it reaches a *yield point*
and then hands control back to the scheduler, which decides who runs next (a TLC behaviour during
replay, a seeded RNG during recording).  Yield points are placed by instrumented doubles:

  * DLock / DRLock     : before every acquire (label "acq:<name>") -- the thread is *blocked* if another
                         logical thread holds the lock; after release (label "rel:<name>") when asked.
  * DDict              : before pop / __setitem__ / __getitem__ on chosen dicts (lock-free accesses).
  * line mode          : every source line of chosen functions (sys.settrace), label "line:<func>:<n>".
  * yield_point(label) : explicit, used by harness doubles (executor hop, callbacks).

Because switches happen only at yield points, a schedule (sequence of thread names, or of
(thread, label-to-stop-at)) reproduces an execution exactly.
"""
import sys
import threading

import greenlet


class Blocked(Exception):
    pass


class DetSched:
    current = None

    def __init__(self):
        self.main = greenlet.getcurrent()
        self.threads = {}          # name -> LThread
        self.trace = []            # (thread, label) log of yield points reached
        self.line_funcs = {}       # code object -> short name (line mode)
        self.line_files = set()    # source files all of whose functions are pre-empted line by line
        self.active = None
        DetSched.current = self

    # ---- thread management
    def spawn(self, name, fn, *args, **kwargs):
        t = LThread(self, name, fn, args, kwargs)
        self.threads[name] = t
        return t

    def runnable(self):
        return [t for t in self.threads.values() if not t.done and not t.is_blocked()]

    def alive(self):
        return [t for t in self.threads.values() if not t.done]

    def step(self, name):
        """Run logical thread `name` until its next yield point (or its end). Returns the label reached
        ('end' when the thread finished)."""
        t = self.threads[name]
        if t.done:
            raise Blocked("thread %s already finished" % name)
        if t.is_blocked():
            raise Blocked("thread %s is blocked on %s" % (name, t.waiting_for))
        self.active = t
        try:
            label = t.g.switch()
        finally:
            self.active = None
        if t.g.dead:
            t.done = True
            label = "end"
            if t.exc is not None:
                exc, t.exc = t.exc, None
                raise exc
        t.at = label
        self.trace.append((name, label))
        return label

    def run_until(self, name, stop, limit=10000):
        """Step `name` until it reaches a label for which stop(label) is true (or it ends)."""
        pred = stop if callable(stop) else (lambda l, s=stop: l == s or l.startswith(s))
        n = 0
        while True:
            label = self.step(name)
            n += 1
            if label == "end" or pred(label):
                return label
            if n > limit:
                raise RuntimeError("run_until: no such label")

    def finish(self, name, limit=100000):
        t = self.threads[name]
        n = 0
        while not t.done:
            self.step(name)
            n += 1
            if n > limit:
                raise RuntimeError("thread does not finish")
        return "end"

    def run_random(self, rng, limit=100000):
        """Run all threads to completion under a seeded random schedule; returns the schedule."""
        sched = []
        n = 0
        while True:
            r = self.runnable()
            if not r:
                if self.alive():
                    raise Blocked("deadlock: %s" % [(t.name, t.waiting_for) for t in self.alive()])
                return sched
            t = rng.choice(sorted(r, key=lambda x: x.name))
            self.step(t.name)
            sched.append(t.name)
            n += 1
            if n > limit:
                raise RuntimeError("schedule too long")

    # ---- called from inside logical threads
    def yield_point(self, label):
        g = greenlet.getcurrent()
        if g is self.main or self.active is None or self.active.g is not g:
            return                  # not inside a scheduled thread: no-op
        if self.active.atomic > 0:
            return
        if self.line_funcs or self.line_files:
            # Line mode (CPython 3.12): the tracer stays installed for the scheduler's lifetime - toggling
            # sys.settrace de-instruments suspended frames - and the switch happens through sys.call_tracing
            # because a line yield switches greenlets from inside the trace callback (tstate->tracing > 0),
            # a flag greenlet does not save: other logical threads would otherwise run untraced.
            sys.call_tracing(self.main.switch, (label,))
        else:
            self.main.switch(label)

    def _tracer(self, frame, event, arg):
        if event == "call":
            if frame.f_code in self.line_funcs or frame.f_code.co_filename in self.line_files:
                return self._line_tracer
            return None
        return None

    def _line_tracer(self, frame, event, arg):
        if event == "line":
            self.yield_point("line:%s:%d" % (self.line_funcs.get(frame.f_code) or frame.f_code.co_name, frame.f_lineno))
        return self._line_tracer

    def trace_lines(self, *funcs):
        for f in funcs:
            code = getattr(f, "__code__", None) or f.__func__.__code__
            self.line_funcs[code] = code.co_name
        if self.line_funcs and sys.gettrace() is not self._tracer:
            self._old_trace = sys.gettrace()
            sys.settrace(self._tracer)

    def trace_files(self, *filenames):
        """Line mode for every function defined in the given source files: the binding does not depend on how the code
        under test is cut into functions (a helper extracted from a traced method is pre-empted line by line too)."""
        self.line_files.update(filenames)
        if sys.gettrace() is not self._tracer:
            self._old_trace = sys.gettrace()
            sys.settrace(self._tracer)

    def close(self):
        """Uninstall the line tracer (line mode only)."""
        if (self.line_funcs or self.line_files) and sys.gettrace() == self._tracer:
            sys.settrace(getattr(self, "_old_trace", None))

    def current_thread(self):
        return self.active


class LThread:
    def __init__(self, sched, name, fn, args, kwargs):
        self.sched = sched
        self.name = name
        self.done = False
        self.at = "start"
        self.exc = None
        self.result = None
        self.waiting_for = None
        self.atomic = 0

        def body():
            try:
                self.result = fn(*args, **kwargs)
            except greenlet.GreenletExit:
                raise
            except BaseException as e:   # noqa
                self.exc = e
        self.g = greenlet.greenlet(body, parent=sched.main)

    def is_blocked(self):
        w = self.waiting_for
        if w is None:
            return False
        return not w._can_acquire(self)

    def __repr__(self):
        return "LThread(%s at %s%s)" % (self.name, self.at, " done" if self.done else "")


class DRLock:
    """Re-entrant lock for logical threads. Outside DetSched it behaves like a plain RLock."""

    def __init__(self, name="lock", yield_on_release=False):
        self.name = name
        self.owner = None
        self.count = 0
        self._real = threading.RLock()
        self.yield_on_release = yield_on_release
        self.log = []

    def _me(self):
        s = DetSched.current
        if s is None or s.active is None or greenlet.getcurrent() is not s.active.g:
            return None
        return s.active

    def _can_acquire(self, t):
        return self.owner is None or self.owner is t

    def acquire(self, blocking=True, timeout=-1):
        me = self._me()
        if me is None:
            if self.owner is not None:
                raise RuntimeError("lock %s held by logical thread %s while main code acquires it" % (self.name, self.owner))
            self.count += 1
            return True
        s = DetSched.current
        if me.atomic == 0:
            me.waiting_for = self
            s.yield_point("acq:" + self.name)
            me.waiting_for = None
        if not self._can_acquire(me):
            raise RuntimeError("scheduler resumed a blocked thread")
        self.owner = me
        self.count += 1
        return True

    def release(self):
        me = self._me()
        if me is None:
            self.count -= 1
            return
        if self.owner is not me:
            raise RuntimeError("release of un-owned lock %s" % self.name)
        self.count -= 1
        if self.count == 0:
            self.owner = None
            if self.yield_on_release:
                DetSched.current.yield_point("rel:" + self.name)

    __enter__ = acquire

    def __exit__(self, *a):
        self.release()

    def locked(self):
        return self.count > 0


class DLock(DRLock):
    """Non re-entrant flavour (same implementation; re-entry by the owner would be a driver bug and raises)."""

    def acquire(self, blocking=True, timeout=-1):
        me = self._me()
        if me is not None and self.owner is me:
            raise RuntimeError("non-reentrant lock %s re-acquired by its owner" % self.name)
        return DRLock.acquire(self, blocking, timeout)

    __enter__ = acquire


class DCondition:
    """Condition over a DLock for logical threads: wait() releases the lock, yields with label
    'wait:<name>' until notified (or `timeout_fires` decided by the scheduler), then re-acquires."""

    def __init__(self, lock=None, name="cond"):
        self.lock = lock or DLock(name + ".lock")
        self.name = name
        self.waiters = []
        self.notified = set()

    def __enter__(self):
        return self.lock.acquire()

    def __exit__(self, *a):
        self.lock.release()

    def acquire(self, *a):
        return self.lock.acquire()

    def release(self):
        self.lock.release()

    def _can_acquire(self, t):      # used as waiting_for target while waiting
        return t in self.notified or getattr(t, "timed_out", False)

    def wait(self, timeout=None):
        s = DetSched.current
        me = self.lock._me()
        if me is None:
            return False
        cnt = self.lock.count
        self.lock.count = 0
        self.lock.owner = None
        self.waiters.append(me)
        me.waiting_for = self
        me.timed_out = False
        me.wait_timeout = timeout
        s.yield_point("wait:" + self.name)
        me.waiting_for = None
        ok = me in self.notified
        self.notified.discard(me)
        if me in self.waiters:
            self.waiters.remove(me)
        # re-acquire
        me.waiting_for = self.lock
        while not self.lock._can_acquire(me):
            s.yield_point("reacq:" + self.name)
        me.waiting_for = None
        self.lock.owner = me
        self.lock.count = cnt
        return ok

    def notify(self, n=1):
        for t in list(self.waiters)[:n]:
            self.waiters.remove(t)
            self.notified.add(t)

    def notify_all(self):
        self.notify(len(self.waiters))

    notifyAll = notify_all

    def timeout(self, t):
        """Scheduler decision: the wait of logical thread t times out."""
        t.timed_out = True


class DDict(dict):
    """dict with a yield point before selected operations (lock-free shared accesses)."""
    yield_ops = ("pop",)
    name = "dict"

    def pop(self, *a):
        if "pop" in self.yield_ops and DetSched.current is not None:
            DetSched.current.yield_point("pop:" + self.name)
        return dict.pop(self, *a)

    def __setitem__(self, k, v):
        if "set" in self.yield_ops and DetSched.current is not None:
            DetSched.current.yield_point("set:" + self.name)
        return dict.__setitem__(self, k, v)


def yield_point(label):
    if DetSched.current is not None:
        DetSched.current.yield_point(label)
