"""Simulated Cluster: real cassandra.cluster.Cluster/Session/pools over SimConnections, with the
thread pool and the scheduler thread replaced by explicit, schedule-driven queues."""
import concurrent.futures as cf
from itertools import count

from harness import pyenv
from harness.sim import simconn
from harness.sim.simconn import SimWorld, SimConnection, FakeNode, SimDeadlock   # noqa: F401

pyenv.install_shim()
import cassandra.cluster as ccluster       # noqa: E402
import cassandra.pool as cpool             # noqa: E402
from cassandra.policies import RoundRobinPolicy, ConstantReconnectionPolicy   # noqa: E402


class SimTask:
    __slots__ = ("fn", "args", "kwargs", "future", "seq", "label")

    def __init__(self, fn, args, kwargs, seq):
        self.fn, self.args, self.kwargs, self.seq = fn, args, kwargs, seq
        self.future = cf.Future()
        name = getattr(fn, "__name__", None) or getattr(getattr(fn, "func", None), "__name__", repr(fn))
        self.label = name

    def __repr__(self):
        return "Task#%d(%s)" % (self.seq, self.label)


class SimExecutor:
    """ThreadPoolExecutor stand-in. inline=True runs tasks inside submit(); otherwise tasks wait in
    `queue` until the schedule calls run(task) / run_next() / drain()."""

    def __init__(self, inline=True):
        self.inline = inline
        self.queue = []
        self._seq = count(1)
        self.is_shutdown = False
        self.ran = 0
        self.depth = 0

    def submit(self, fn, *args, **kwargs):
        if self.is_shutdown:
            raise RuntimeError("cannot schedule new futures after shutdown")
        t = SimTask(fn, args, kwargs, next(self._seq))
        if self.inline and self.depth < 50:
            self._run(t)
        else:
            self.queue.append(t)
        return t.future

    def _run(self, t):
        if not t.future.set_running_or_notify_cancel():
            return
        self.ran += 1
        self.depth += 1
        try:
            r = t.fn(*t.args, **t.kwargs)
        except BaseException as exc:
            if isinstance(exc, SimDeadlock):
                self.depth -= 1
                raise
            t.future.set_exception(exc)
        else:
            t.future.set_result(r)
        self.depth -= 1

    def run(self, t):
        self.queue.remove(t)
        self._run(t)

    def run_next(self):
        if not self.queue:
            return False
        self._run(self.queue.pop(0))
        return True

    def drain(self, limit=10000):
        n = 0
        while self.queue:
            self.run_next()
            n += 1
            if n > limit:
                raise SimDeadlock("executor queue does not drain")
        return n

    def shutdown(self, wait=True):
        self.is_shutdown = True


class SimScheduler:
    """cassandra.cluster._Scheduler stand-in: same schedule/schedule_unique/shutdown interface; tasks fire
    when the schedule says (fire / fire_due), by submitting to the executor like the real one."""

    def __init__(self, executor):
        self._executor = executor
        self._scheduled_tasks = set()
        self.tasks = []           # (run_at, seq, task)
        self._count = count()
        self.is_shutdown = False

    def shutdown(self):
        self.is_shutdown = True

    def schedule(self, delay, fn, *args, **kwargs):
        self._insert_task(delay, (fn, args, tuple(kwargs.items())))

    def schedule_unique(self, delay, fn, *args, **kwargs):
        task = (fn, args, tuple(kwargs.items()))
        if task not in self._scheduled_tasks:
            self._insert_task(delay, task)

    def _insert_task(self, delay, task):
        if not self.is_shutdown:
            run_at = SimWorld.current.clock.time() + delay
            self._scheduled_tasks.add(task)
            self.tasks.append((run_at, next(self._count), task))

    def fire(self, entry, advance=True):
        """Run one scheduled task now (advancing the clock to its due time)."""
        self.tasks.remove(entry)
        run_at, _, task = entry
        if self.is_shutdown:
            return None
        clock = SimWorld.current.clock
        if advance and clock.now < run_at:
            clock.now = run_at
        self._scheduled_tasks.discard(task)
        fn, args, kwargs = task
        return self._executor.submit(fn, *args, **dict(kwargs))

    def fire_next(self):
        if not self.tasks:
            return False
        self.fire(min(self.tasks, key=lambda e: (e[0], e[1])))
        return True

    def fire_due(self):
        n = 0
        now = SimWorld.current.clock.now
        for e in sorted([e for e in self.tasks if e[0] <= now], key=lambda e: (e[0], e[1])):
            if e in self.tasks:
                self.fire(e)
                n += 1
        return n


def sim_wait_futures(fs, timeout=None, return_when=cf.ALL_COMPLETED):
    fs = set(fs)
    ex = SimCluster.current.executor if SimCluster.current else None
    while True:
        done = {f for f in fs if f.done()}
        if (return_when == cf.FIRST_COMPLETED and done) or done == fs or \
                (return_when == cf.FIRST_EXCEPTION and any(f.exception() for f in done if not f.cancelled())):
            return cf.wait(fs, timeout=0, return_when=return_when)
        if not fs:
            return cf.wait(fs, timeout=0)
        if ex is None or not ex.run_next():
            raise SimDeadlock("wait_futures on futures nobody will complete")


class SimCluster(ccluster.Cluster):
    current = None
    sim_inline = True

    def _create_thread_pool_executor(self, **kwargs):
        return SimExecutor(inline=self.sim_inline)


def install(world):
    """Patch module-level seams of cassandra.cluster / pool / connection for the simulation."""
    world.install()
    ccluster._Scheduler = SimScheduler
    ccluster.wait_futures = sim_wait_futures
    ccluster.atexit = _NoAtexit()
    ccluster._register_cluster_shutdown = lambda c: None
    ccluster._discard_cluster_shutdown = lambda c: None


class _NoAtexit:
    def register(self, *a, **k):
        pass

    def unregister(self, *a, **k):
        pass


def make_cluster(world, contact_points, *, protocol_version=4, inline=True, lbp=None, reconnection_policy=None,
                 **kwargs):
    install(world)
    SimCluster.sim_inline = inline
    from cassandra.cluster import ExecutionProfile, EXEC_PROFILE_DEFAULT
    profiles = kwargs.pop("execution_profiles", None)
    if profiles is None:
        profiles = {EXEC_PROFILE_DEFAULT: ExecutionProfile(load_balancing_policy=lbp or RoundRobinPolicy(),
                                                           request_timeout=kwargs.pop("request_timeout", 10.0))}
    opts = dict(contact_points=list(contact_points), protocol_version=protocol_version,
                connection_class=SimConnection, execution_profiles=profiles,
                reconnection_policy=reconnection_policy or ConstantReconnectionPolicy(1.0, max_attempts=None),
                schema_metadata_enabled=False, token_metadata_enabled=True, idle_heartbeat_interval=0,
                monitor_reporting_enabled=False, connect_timeout=5, control_connection_timeout=2.0,
                status_event_refresh_window=0, topology_event_refresh_window=0, schema_event_refresh_window=0)
    opts.update(kwargs)
    c = SimCluster(**opts)
    SimCluster.current = c
    return c
