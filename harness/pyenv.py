"""Import the driver from /repo's working tree (pure Python), with a stub default reactor.

cassandra.cluster refuses to import when no default connection class can be loaded (no libev
extension, no asyncore on this interpreter).  We register a stub `cassandra.io.libevreactor`
exporting `LibevConnection = SimConnection` before cassandra.cluster is imported.  Nothing in
/repo is modified.
"""
import importlib
import logging
import os
import sys
import types
import warnings

REPO = os.environ.get("VERIF_REPO", "/repo")

_ready = False


def setup():
    global _ready
    if _ready:
        return
    if REPO not in sys.path:
        sys.path.insert(0, REPO)
    os.environ.setdefault("CASS_DRIVER_NO_EXTENSIONS", "1")
    warnings.filterwarnings("ignore")
    logging.getLogger("cassandra").addHandler(logging.NullHandler())
    logging.getLogger("cassandra").propagate = False
    logging.getLogger("cassandra").setLevel(logging.CRITICAL + 1)
    import cassandra                                     # noqa: F401
    if not os.path.abspath(cassandra.__file__).startswith(os.path.abspath(REPO)):
        raise RuntimeError("cassandra imported from %s, not from %s" % (cassandra.__file__, REPO))
    _ready = True


def repo_import(name):
    setup()
    if name == "cassandra.cluster":
        install_shim()
    return importlib.import_module(name)


_shim = False


def install_shim():
    """Make cassandra.cluster importable: stub libev reactor whose connection class is SimConnection."""
    global _shim
    if _shim:
        return
    setup()
    from harness.sim import simconn
    stub = types.ModuleType("cassandra.io.libevreactor")
    stub.LibevConnection = simconn.SimConnection
    sys.modules["cassandra.io.libevreactor"] = stub
    import cassandra.io
    cassandra.io.libevreactor = stub
    _shim = True
