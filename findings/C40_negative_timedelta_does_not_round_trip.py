"""C40: a negative datetime.timedelta does not survive the GraphSON round trip (GraphSON 1, 2 and 3).

DurationTypeIO.serialize (cassandra/datastax/graph/graphson.py 318-328) computes days / hours / minutes / seconds with
divmod on int(value.total_seconds()) - for a negative duration that is a floor division, so the days become negative and
the other fields positive - and then ADDS value.microseconds, which for a negative timedelta is the microsecond field of
Python's normalised form (days=-1, seconds=86398, microseconds=500000 for -1.5 s), not the fraction of the magnitude:
    timedelta(seconds=-1)      -> "P-1DT23H59M59.0S"   which DurationTypeIO.deserialize rejects (its pattern has no sign)
    timedelta(seconds=-1.5)    -> "P-1DT23H59M59.5S"   rejected as well - and it denotes -0.5 s, not -1.5 s
    timedelta(microseconds=-1) -> "P0DT0H0M0.999999S"  read back as PLUS 0.999999 s: silently another value
The property names negative durations explicitly.  The same text goes to the server as the query parameter.

Run: /venv/bin/python /verif/findings/C40_negative_timedelta_does_not_round_trip.py
"""
import datetime
import json
import os
import sys

os.environ.setdefault("CASS_DRIVER_NO_EXTENSIONS", "1")
sys.path.insert(0, os.environ.get("VERIF_REPO", "/repo"))
from cassandra.datastax.graph import graphson as g                        # noqa: E402

td = datetime.timedelta
bad = 0
for value in (td(seconds=-1), td(seconds=-1.5), td(microseconds=-1), td(seconds=-0.5), td(days=-1), td(hours=-25, minutes=-1),
              td(seconds=1.5)):
    for name, ser, read in (("GraphSON1", lambda v: json.dumps(g.GraphSON1Serializer.serialize(v)),
                             lambda t: g.GraphSON1Deserializer.deserialize_duration(json.loads(t))),
                            ("GraphSON2", lambda v: json.dumps(g.GraphSON2Serializer().serialize(v)),
                             lambda t: g.GraphSON2Reader({}).read(t)),
                            ("GraphSON3", lambda v: json.dumps(g.GraphSON3Serializer({}).serialize(v)),
                             lambda t: g.GraphSON3Reader({}).read(t))):
        wire = ser(value)
        try:
            back = read(wire)
            ok = back == value
            shown = repr(back)
        except Exception as e:
            ok, shown = False, "%s: %s" % (type(e).__name__, e)
        if not ok:
            bad += 1
        print("%s %-45r -> %-60s -> %s  %s" % (name, value, wire, shown, "ok" if ok else "FAILS"))
print("FAILS: %d round trips of a negative timedelta" % bad if bad else "holds")
sys.exit(1 if bad else 0)
