"""C12 - HostConnectionPool (protocol v1/v2) lists a freshly opened connection after the pool was shut down.

cassandra/pool.py 712-735: _add_conn_if_under_max checks is_shutdown only in its first critical section, before
connecting.  When shutdown() runs while the executor task is connecting, the new connection is appended to
_connections afterwards; shutdown() has already gone through the list, so nobody ever closes it.  (Same defect as
the one repaired in HostConnection._replace.)

Schedule: request 1 brings the only connection to max_requests_per_connection -> _create_new_connection is submitted ->
the task passes its is_shutdown / open_count check -> shutdown() runs completely -> the task connects and publishes.
Signature: HostConnectionPool._add_conn_if_under_max:publishes-new-connection-after-shutdown
"""
import os
import sys

sys.path.insert(0, os.path.dirname(os.path.dirname(os.path.abspath(__file__))))
from harness.replay import poolv12 as rv        # noqa: E402

K = {"MaxId": 2, "Core": 1, "MaxConns": 2, "MaxReqs": 1, "MinReqs": 1, "Reqs": {1, 2}, "NConns": 2, "NTasks": 2,
     "MaxFails": 0, "MaxConnFails": 1}


def A(name, r=0, c=0, f=False):
    return {"name": name, "r": r, "c": c, "f": f}


print(__doc__.splitlines()[0])
h = rv.V12Harness(K)
for a in [A("BorrowStart", 1), A("BorrowTake", 1), A("Send", 1), A("Respond", 1, c=1),
          A("TaskCheck", 1),
          A("ShutdownMark"), A("ShutdownClose"),
          A("TaskOpen", 1, f=True), A("TaskPublish", 1)]:
    try:
        h.do(a)
    except rv.HarnessRefusal as ex:
        print("  %-14s not possible on this code: %s" % (a["name"], ex))
        continue
    p = h.project()
    print("  %-14s r=%s | list=%s closed=%s shutdown=%s queued tasks=%s st=%s" % (
        a["name"], a["r"], p["conns"], p["closed"], p["shutdown"], sorted(p["queued"]), p["st"]))
still = h.open_pool_connections()
print("pool shut down, no request pending, no task queued; pool connections still open:", still)
if still:
    print("DEFECT REPRODUCED (C12: every connection the pool opened must be closed): connection(s) %s never closed" % still)
    sys.exit(1)
print("not reproduced")
