"""Helper for the C12 reproductions: drive the real HostConnection pool through a schedule (harness/replay/pool.py)."""
import os
import sys

sys.path.insert(0, os.path.dirname(os.path.dirname(os.path.abspath(__file__))))
from harness.replay import pool as rp        # noqa: E402

K = {"MaxId": 2, "Threshold": 1, "Reqs": {1, 2}, "NConns": 3, "MaxFails": 0, "MaxConnFails": 1}


def A(name, r=0, c=0, f=False):
    return {"name": name, "r": r, "c": c, "f": f}


def run(title, schedule, expect_open):
    """Runs the schedule; the pool is shut down and quiescent at its end. Exit 1 if a pool connection is still open."""
    print(title)
    h = rp.PoolHarness(K)
    for a in schedule:
        try:
            h.do(a)
        except rp.HarnessRefusal as ex:
            print("  %-18s not possible on this code: %s" % (a["name"], ex))
            continue
        p = h.project()
        print("  %-18s r=%s c=%s f=%-5s | cur=%s trash=%s closed=%s in_flight=%s shutdown=%s st=%s" % (
            a["name"], a["r"], a["c"], a["f"], p["cur"], sorted(p["trash"]), p["closed"], p["inflight"], p["shutdown"], p["st"]))
    p = h.project()
    assert p["shutdown"] and not any(s in ("picked", "borrowed", "sent") for s in p["st"].values()), "schedule must end quiescent"
    assert not h.replace_tasks() and h.tphase is None and h.sphase == "done"
    still = h.open_pool_connections()
    print("pool shut down, no request pending, no task queued; pool connections still open:", still)
    if still:
        print("DEFECT REPRODUCED (C12: every connection the pool opened must be closed): connection(s) %s never closed" % still)
        sys.exit(1)
    print("not reproduced (expected open: %s)" % expect_open)
    sys.exit(0)
