"""Shared by the C36 reproductions: import cassandra.cqlengine.columns from the tree under test (cassandra.cluster needs a
default reactor to be importable on this interpreter: harness.pyenv installs a stub)."""
import os
import sys
import warnings

sys.path.insert(0, os.path.dirname(os.path.dirname(os.path.abspath(__file__))))
warnings.simplefilter("ignore")
from harness.pyenv import repo_import             # noqa: E402

repo_import("cassandra.cluster")
columns = repo_import("cassandra.cqlengine.columns")
cqltypes = repo_import("cassandra.cqltypes")


def ms(b):
    return int.from_bytes(b, "big", signed=True)
