"""C12 - HostConnection.shutdown() never closes the connections in _trash.

cassandra/pool.py 541-549: the trash set is saved in `trash_conns`, `self._trash` is replaced by an empty set, and the
loop then iterates `self._trash` (the new, empty set).  A replaced connection that still had a request in flight
when the pool is shut down stays open for ever (after shutdown a timed-out request is no longer returned to the pool,
cluster.py 4510, so nothing else closes it either).

Schedule: request 1 times out (orphan threshold 1 reached) -> request 2 borrows connection 1 and triggers _replace ->
connection 2 published, connection 1 trashed (request 2 live) -> shutdown() -> request 2 times out.
Signature: HostConnection.shutdown:trashed-connections-not-closed
"""
from _run_pool import A, run

run(__doc__.splitlines()[0], [
    A("BorrowStart", 1), A("BorrowTake", 1), A("Send", 1), A("Timeout", 1),
    A("BorrowStart", 2), A("BorrowTake", 2), A("Send", 2),
    A("ReplaceCheck"), A("ReplaceOpen", f=True), A("ReplacePublish"), A("ReplaceRetire"),
    A("ShutdownMark"), A("ShutdownCloseCur"), A("ShutdownCloseTrash"),
    A("Timeout", 2),
], expect_open=[1])
