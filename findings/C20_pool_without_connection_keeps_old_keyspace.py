"""C20 - a pool that has no connection during the switch later opens one on the *old* keyspace.

cassandra/pool.py 551-560: _set_keyspace_for_all_conns returns before `self._keyspace = keyspace` when _connection is
None (being replaced).  The connection its _replace task opens next selects pool._keyspace, i.e. the old keyspace (or
none), although session.keyspace is the new one.  (On the pinned tree the switch does not even complete in this
configuration - see C20_switch_never_completes_without_connection.py; this script shows the second half, which remains
if only the missing callback is added.)

Configuration: pool 1 answers ok, pool 2 is being replaced during the switch and reconnects afterwards.
Signature: HostConnection._set_keyspace_for_all_conns:keyspace-not-recorded-without-connection
"""
from _run_keyspace import run

run(__doc__.splitlines()[0], {1: "conn", 2: "noconn"}, {1: "ok", 2: "ok"}, [1],
    lambda h, p: "session.keyspace is %r but the connection pool 2 opened after the switch has keyspace %r (pool._keyspace=%r)"
    % (h.session.keyspace, p["borrowed"][2], h.pool[2]._keyspace) if p["borrowed"][2] != "new" else None)
