"""XEVENTS / D_handler_close - every reconnection made by the _ControlReconnectionHandler ends with the new control
connection CLOSED.

cassandra/pool.py, _ReconnectionHandler.run:

        conn = None
        try:
            conn = self.try_reconnect()
        except Exception as exc:
            ... schedule the next attempt ...
        else:
            if not self._cancelled:
                self.on_reconnection(conn)
                self.callback(*(self.callback_args), **(self.callback_kwargs))
        finally:
            if conn:
                conn.close()

For a host's handler (_HostReconnectionHandler) `conn` is a throw-away probe connection, closing it is right.  For the
control connection's handler (cassandra/cluster.py, _ControlReconnectionHandler)

        def try_reconnect(self):            return self.control_connection._reconnect_internal()
        def on_reconnection(self, connection):  self.control_connection._set_new_connection(connection)

`conn` is the connection that has just been registered for events, refreshed and INSTALLED as
ControlConnection._connection - and `finally` closes it.  The handler is used whenever a first reconnection attempt
found no host (ControlConnection._reconnect -> NoHostAvailable), i.e. exactly after an outage.  Afterwards
_connection is a closed connection, _reconnection_handler is None, nothing is scheduled: no TOPOLOGY / STATUS / SCHEMA
event reaches the driver any more.  Only the idle heartbeat (default every 30 s, Cluster(idle_heartbeat_interval=0)
disables it) or the next failing refresh_* call notices the closed connection and starts yet another reconnection
(which goes through ControlConnection._reconnect and therefore keeps its connection).

Found by TLC as a violation of InstalledOpen in spec/ControlEvents.tla (deviation D_handler_close); ./check XEVENTS
reports it with signature  deviation:D_handler_close .

Smallest fix (pool.py, _ReconnectionHandler.run + cluster.py, _ControlReconnectionHandler): let on_reconnection say
that it keeps the connection,

        else:
            if not self._cancelled:
                if self.on_reconnection(conn):      # the handler took the connection over
                    conn = None
                self.callback(*(self.callback_args), **(self.callback_kwargs))

        class _ControlReconnectionHandler:
            def on_reconnection(self, connection):
                self.control_connection._set_new_connection(connection)
                return True

(_HostReconnectionHandler.on_reconnection returns None: unchanged.)  With this change the intended model of
ControlEvents.tla is what ./check XEVENTS replays (checked on a patched copy of the package).

Run: /venv/bin/python /verif/findings/XEVENTS_control_connection_closed_after_handler_reconnection.py   (exit 1 = defect present)
"""
import os
import sys

sys.path.insert(0, os.path.dirname(os.path.dirname(os.path.abspath(__file__))))
from harness.sim.simcluster import SimWorld, FakeNode, make_cluster      # noqa: E402
from harness import wire                                                  # noqa: E402

w = SimWorld()
n1 = w.add_node(FakeNode("10.0.0.1", tokens=["10"]))
n2 = w.add_node(FakeNode("10.0.0.2", tokens=["20"]))
cluster = make_cluster(w, ["10.0.0.1"], inline=True)          # idle_heartbeat_interval=0: no heartbeat thread in the simulation
session = cluster.connect(wait_for_all_pools=True)
cluster.executor.inline = False
cc, ex, sch = cluster.control_connection, cluster.executor, cluster.scheduler

# an outage: the control connection breaks, no node accepts connections for a while
n1.accepting = n2.accepting = False
old = cc._connection
old.socket_error()
cc.return_connection(old)            # what the heartbeat does with a dead connection: ControlConnection.reconnect()
ex.drain()                           # _reconnect: NoHostAvailable -> _ControlReconnectionHandler started
handler = cc._reconnection_handler
print("after the failed reconnection: handler =", type(handler).__name__, " scheduled:", [e[2][0].__name__ for e in sch.tasks])

# node 2 is back; the handler's next attempt succeeds
n2.accepting = True
entry = next(e for e in sch.tasks if getattr(e[2][0], "__self__", None) is handler)
sch.fire(entry)
ex.drain()

conn = cc._connection
print("control connection now: %s  is_closed=%s is_defunct=%s   _reconnection_handler=%r   scheduled=%s  queued=%s"
      % (conn.endpoint, conn.is_closed, conn.is_defunct, cc._reconnection_handler,
         [e[2][0].__name__ for e in sch.tasks], ex.queue))

# consequence: the node cannot tell the driver anything
delivered = n2.push_event(conn, wire.body_event_status("DOWN", "10.0.0.1", 9042))
print("a STATUS_CHANGE pushed by node 2 reaches the driver:", bool(delivered))
bad = conn.is_closed
cluster.shutdown()
sys.exit(1 if bad else 0)
