"""C36 finding: a cqlengine Set(Blob) column - and a Map with Blob keys - cannot store any non-empty value: to_database raises
TypeError, while the core driver stores the same Python value as set<blob> / map<blob, ..>.

cassandra/cqlengine/columns.py
    class Blob:   def to_database(self, value): ... return bytearray(val)
    class Set:    def to_database(self, value): return set(self.value_col.to_database(v) for v in value)
    class Map:    def to_database(self, value): return dict((self.key_col.to_database(k), ...) ...)
A bytearray is not hashable, so building the set / dict fails: TypeError: unhashable type: 'bytearray'.  (bytearray was
needed on Python 2 to tell a blob from a str; on Python 3 bytes is encoded as a blob literal by cassandra.encoder as well.)

Smallest fix (Blob.to_database):      return bytes(val)

Run: /venv/bin/python /verif/findings/C36_set_or_map_key_of_blob_cannot_be_stored.py   (exit 1 while the defect is present)
"""
import sys

from _c36_env import columns

bad = 0
for name, col, value in (("Set(Blob)", columns.Set(columns.Blob), {b"\x00\xff"}), ("Map(Blob, Integer)", columns.Map(columns.Blob, columns.Integer), {b"k": 1}),
                         ("List(Blob)", columns.List(columns.Blob), [b"\x00\xff"]), ("Map(Integer, Blob)", columns.Map(columns.Integer, columns.Blob), {1: b"v"})):
    core = col.cql_type.serialize(value, 4).hex()
    try:
        out = col.to_database(value)
        print("%-20s to_database(%r) = %r -> %s   (core: %s)" % (name, value, out, col.cql_type.serialize(out, 4).hex(), core))
    except Exception as e:
        print("%-20s to_database(%r) raised %s: %s   (core stores it as %s)   <--" % (name, value, type(e).__name__, e, core))
        bad += 1
print("DEFECT PRESENT" if bad else "defect not present")
sys.exit(1 if bad else 0)
