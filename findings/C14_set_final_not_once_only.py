"""C14: ResponseFuture._set_final_result / _set_final_exception are not once-only.

A ResponseFuture can have several requests in flight (speculative executions; a retry on another host while a
speculative execution is still out) and an attempt that _on_timeout does not deregister (it only pops the
request designated by (self._connection, self._req_id), i.e. the LAST one sent by send_request).  Every such
request keeps its callback `partial(self._set_result, host, connection, pool)` registered on its connection, and
cassandra/cluster.py:4928-4969 set the outcome and run the registered callbacks/errbacks unconditionally:

    def _set_final_result(self, response):
        self._cancel_timer()
        ...
        with self._callback_lock:
            self._final_result = response            # overwrites whatever was delivered before
            to_call = tuple(partial(fn, response, ...) for (fn, args, kwargs) in self._callbacks)
        self._event.set()
        for callback_partial in to_call: callback_partial()

So a second answer for an already completed future
  (a) runs the user's callback a second time (two speculative executions both answered), or
  (b) runs the callback AFTER the errback (late answer after the client timeout failed the future), and result()
      then returns rows although OperationTimedOut was delivered (both _final_result and _final_exception set), or
  (c) runs the errback after the callback (_retry_task -> send_request -> NoHostAvailable after another attempt
      already delivered rows).

Smallest fix (cluster.py, both functions, inside `with self._callback_lock:` before the assignment):

            if self._final_result is not _NOT_SET or self._final_exception is not None:
                return

(start_fetching_next_page resets both fields, so the next page completes again as it must.)

Run: /venv/bin/python /verif/findings/C14_set_final_not_once_only.py     (exit 1 while the defect is present)
"""
import os
import sys

sys.path.insert(0, os.path.dirname(os.path.dirname(os.path.abspath(__file__))))
from harness.sim.simcluster import SimWorld, FakeNode, make_cluster          # noqa: E402
from harness import wire                                                      # noqa: E402
from cassandra.cluster import ExecutionProfile, EXEC_PROFILE_DEFAULT         # noqa: E402
from cassandra.policies import RoundRobinPolicy, ConstantSpeculativeExecutionPolicy   # noqa: E402
from cassandra.query import SimpleStatement                                   # noqa: E402


def setup():
    w = SimWorld()
    addrs = ["10.0.0.1", "10.0.0.2"]
    for i, a in enumerate(addrs):
        w.add_node(FakeNode(a, tokens=["%02x" % (16 * i)]))
    prof = ExecutionProfile(load_balancing_policy=RoundRobinPolicy(), request_timeout=10.0,
                            speculative_execution_policy=ConstantSpeculativeExecutionPolicy(1.0, 1))
    cluster = make_cluster(w, addrs[:1], execution_profiles={EXEC_PROFILE_DEFAULT: prof})
    session = cluster.connect(wait_for_all_pools=True)
    cluster.executor.inline = False
    return w, cluster, session


def pending(w):
    return [(n, p) for n in w.nodes.values() for p in n.pending]


failed = False
ROW = ([("v", wire.T_INT)], [[wire.w_int(1)]])

# ---- (a) two speculative executions, both answered -> callback runs twice
w, cluster, session = setup()
calls = []
fut = session.execute_async(SimpleStatement("SELECT v FROM ks.t", is_idempotent=True))
fut.add_callbacks(lambda rows: calls.append(("callback", len(rows))), lambda exc: calls.append(("errback", type(exc).__name__)))
w.fire(fut._timer)                                   # speculative execution -> second host
assert len(pending(w)) == 2, pending(w)
for node, p in pending(w):
    node.respond_rows(p, *ROW)
print("(a) both speculative executions answered: invocations =", [c[0] for c in calls])
if len(calls) != 1:
    failed = True
    print("    FAIL: the callback of ONE execution ran %d times" % len(calls))
cluster.shutdown()

# ---- (b) the timeout fails the future, then the first (not deregistered) attempt is answered
w, cluster, session = setup()
calls = []
fut = session.execute_async(SimpleStatement("SELECT v FROM ks.t", is_idempotent=True))
fut.add_callbacks(lambda rows: calls.append(("callback", len(rows))), lambda exc: calls.append(("errback", type(exc).__name__)))
w.fire(fut._timer)                                   # speculative execution -> second host; timer is now the timeout
first = [(n, p) for n, p in pending(w) if n.address == fut.attempted_hosts[0].endpoint.address][0]
w.fire(fut._timer)                                   # client timeout: errback(OperationTimedOut); deregisters the LAST request only
first[0].respond_rows(first[1], *ROW)                # late answer of the first attempt
try:
    res = "rows %r" % list(fut.result().current_rows)
except Exception as exc:                             # noqa: BLE001
    res = "raises %s" % type(exc).__name__
print("(b) timeout, then a late answer: invocations =", calls, "; result() ->", res)
if [c[0] for c in calls] != ["errback"] or not res.startswith("raises OperationTimedOut"):
    failed = True
    print("    FAIL: errback AND callback ran for one execution, and result() contradicts the delivered OperationTimedOut")
cluster.shutdown()

if failed:
    sys.exit(1)
print("ok")
