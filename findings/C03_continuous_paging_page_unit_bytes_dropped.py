"""C03 finding: ContinuousPagingOptions(page_unit=BYTES) is silently dropped (DSE_V1 / DSE_V2).

The driver documents the option (cassandra/cluster.py ContinuousPagingOptions.page_unit: "Units refer to the fetch_size",
PagingUnit.BYTES / ROWS, helper page_unit_bytes()) and the wire flag for it (cassandra/protocol.py:523
_PAGE_SIZE_BYTES_FLAG = 0x40000000), but nothing ever sets the flag: _QueryMessage._write_query_params only sets
_PAGING_OPTIONS_FLAG (0x80000000).  A request for pages measured in bytes goes out exactly like one measured in rows, so
the server interprets fetch_size as a number of rows.

Run: /venv/bin/python /verif/findings/C03_continuous_paging_page_unit_bytes_dropped.py     (exit 1 = defect present)
Smallest fix: in _QueryMessage._write_query_params, where _PAGING_OPTIONS_FLAG is set:
        if self.continuous_paging_options.page_unit_bytes():
            flags |= _PAGE_SIZE_BYTES_FLAG
"""
import os
import sys
import types

sys.path.insert(0, os.environ.get("VERIF_REPO", "/repo"))
os.environ.setdefault("CASS_DRIVER_NO_EXTENSIONS", "1")
from cassandra.protocol import QueryMessage, ProtocolHandler  # noqa: E402


def options(unit_bytes):
    # same attributes as cassandra.cluster.ContinuousPagingOptions (importing cassandra.cluster needs a reactor)
    o = types.SimpleNamespace(page_unit=1 if unit_bytes else 2, max_pages=3, max_pages_per_second=7, max_queue_size=2)
    o.page_unit_bytes = lambda: unit_bytes
    return o


bad = 0
for pv in (65, 66):
    rows, byts = [ProtocolHandler.encode_message(QueryMessage("q", 1, fetch_size=5000, continuous_paging_options=options(u)),
                                                 1, pv, None, False) for u in (False, True)]
    off = 9 + 4 + 1 + 2          # header, <query [long string] "q">, <consistency>
    f_rows, f_bytes = (int.from_bytes(x[off:off + 4], "big") for x in (rows, byts))
    print("pv=%#x flags page_unit=ROWS %#010x  page_unit=BYTES %#010x  frames identical: %s" % (pv, f_rows, f_bytes, rows == byts))
    if not f_bytes & 0x40000000:
        bad += 1
print("DEFECT: page_unit=BYTES requested but _PAGE_SIZE_BYTES_FLAG (0x40000000) never sent" if bad else "ok")
sys.exit(1 if bad else 0)
