#!/venv/bin/python
"""C06 finding 3: after a CRC failure process_io_buffer keeps going and hands a spliced (altered) frame to process_msg.

Protocol v5.  A large message travels in several segments.  When the CRC32 of a middle/last piece fails,
_process_segment_buffer() raises CrcMismatchException inside @defunct_on_error: the connection is defuncted, but the
exception is swallowed and process_io_buffer() carries on.  _segment_consumed is still True from the previous
(good) segment, so the loop does not return; the corrupted segment has already been dropped from the io buffer by
reset_io_buffer(), and the *following* segment (already in the same read) is decoded and appended to the frame
buffer right behind the first piece.  The frame length is now satisfied with bytes of the next message, and
process_msg() is called with a body that was never sent.

    cassandra/connection.py  _process_segment_buffer: except CrcException -> raise CrcMismatchException   (_segment_consumed untouched)
    cassandra/connection.py  process_io_buffer: `if ... not self._io_buffer.has_consumed_segment: return` does not fire

Effect: process_msg receives altered data on a connection that was just declared defunct.  The request handlers were
already failed by error_all_requests(), so for stream ids >= 0 the altered body is dropped there (KeyError path);
what follows in the buffer is parsed from a wrong offset.

Smallest fix (connection.py, _process_segment_buffer, the except clause):

            except CrcException as exc:
                # re-raise an exception that inherits from ConnectionException
    +           self._io_buffer._segment_consumed = False
                raise CrcMismatchException(str(exc), self.endpoint)

(process_io_buffer then returns right after the failed segment.)  Uses only the driver.  Exit status 1 when present.
"""
import io
import os
import sys

sys.path.insert(0, os.environ.get("VERIF_REPO", "/repo"))
os.environ.setdefault("CASS_DRIVER_NO_EXTENSIONS", "1")
import logging                                                    # noqa: E402
logging.disable(logging.CRITICAL)
from cassandra.connection import Connection, segment_codec_no_compression   # noqa: E402
from cassandra.segment import Segment                             # noqa: E402
from cassandra.protocol import ProtocolHandler                    # noqa: E402


class Conn(Connection):
    def close(self):
        self.is_closed = True


MAXP = Segment.MAX_PAYLOAD_LENGTH
body1 = bytes((i * 7) & 0xFF for i in range(MAXP + 1 - 9))        # frame 1: MAXP + 1 bytes -> two segments (MAXP, 1)
frame1 = bytes([0x85, 0x00, 0x00, 0x07, 0x08]) + len(body1).to_bytes(4, "big") + body1
frame2 = bytes([0x85, 0x00, 0x00, 0x08, 0x02, 0, 0, 0, 0])        # frame 2: READY on stream 8, its own segment
out = io.BytesIO()
segment_codec_no_compression.encode(out, frame1)
segment_codec_no_compression.encode(out, frame2)
wire = bytearray(out.getvalue())
seg1_len = 3 + 3 + MAXP + 4
wire[seg1_len + 6] ^= 0x04                                         # flip one bit in the 1-byte payload of segment 2

conn = Conn("127.0.0.1", protocol_version=5)
conn._enable_checksumming()
got = []
conn._requests[7] = (got.append, ProtocolHandler.decode_message, None)
conn._requests[8] = (got.append, ProtocolHandler.decode_message, None)
handed = []
real_process_msg = conn.process_msg
conn.process_msg = lambda header, body: (handed.append((header.stream, bytes(body))), real_process_msg(header, body))[1]

conn._iobuf.write(bytes(wire))                                     # the three segments arrive in one read
conn.process_io_buffer()

print("defunct:", conn.is_defunct, "last_error:", type(conn.last_error).__name__)
sent = {7: body1, 8: b""}
bad = 0
for stream, body in handed:
    same = sent.get(stream) == body
    print("process_msg got stream %d, body of %d bytes: %s" % (stream, len(body), "as sent" if same else "ALTERED (never sent)"))
    bad += not same
if not conn.is_defunct:
    print("corruption not detected")
    bad += 1
sys.exit(1 if bad else 0)
