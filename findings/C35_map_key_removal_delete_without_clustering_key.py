"""C35 (also seen by C37) finding: removing a key from a map attribute and saving sends
    DELETE "m"[%(0)s] FROM ks.r WHERE "k" = %(1)s
without the clustering key, for a REGULAR (non-static) map column of a table that has clustering columns.

cassandra/cqlengine/query.py, DMLQuery._delete_null_columns (1386-1410):
        static_only = True
        ...
            if v.deleted:
                ...
                static_only &= col.static
            elif isinstance(col, columns.Map):
                uc = MapDeleteClause(col.db_field_name, v.value, v.previous_value)
                if uc.get_context_size() > 0:
                    ds.add_field(uc)
                    deleted_fields = True
                    static_only |= col.static          # <-- `|=` keeps static_only True for a non-static map
        if deleted_fields:
            keys = self.model._partition_keys if static_only else self.model._primary_keys
When the only thing to delete are map entries (no column set to None in the same save), static_only stays True and the
WHERE clause names the partition key only.  Cassandra refuses a column deletion that does not restrict every primary
key column ("Some clustering keys are missing: ck" / 3.x: "Range deletions are not supported for specific columns"):
save() raises InvalidRequest and the entry is never removed - the row keeps {1: 1, 2: 2} while the instance says
{2: 2}.  (Inside a BatchQuery the whole batch is refused.)

Smallest fix (query.py line 1404):          static_only &= col.static

Run: /venv/bin/python /verif/findings/C35_map_key_removal_delete_without_clustering_key.py   (exit 1 while present)
"""
from _c35_env import harness, sent, row, run, finish

h, R = harness()
inst = R.create(k=1, ck=1, a=1, m={1: 1, 2: 2})
sent(h)
del inst.m[1]
print("del inst.m[1]; inst.save()")
err = run(h, inst.save)
stmts = sent(h)
print("    Cassandra:", err or "ok")
print("    row     :", row(h))
print("    instance:", dict(inst.m))
bad = any('DELETE "m"' in t and '"ck"' not in t for t, _ in stmts)
finish(bad or row(h).get("m") != {2: 2})
