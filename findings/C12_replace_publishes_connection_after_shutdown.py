"""C12 - HostConnection._replace publishes a freshly opened connection although the pool was shut down meanwhile.

cassandra/pool.py 505-514: is_shutdown is checked once at the start of the executor task; the connection is opened
and stored in self._connection without looking again.  When shutdown() runs in between, the new connection is
published into a dead pool and never closed.

Schedule: request 1 times out (threshold reached) -> request 2 starts a borrow, which submits _replace -> the task passes
its shutdown check -> shutdown() runs completely -> the task opens connection 2 and publishes it.
Signature: HostConnection._replace:publishes-new-connection-after-shutdown
"""
from _run_pool import A, run

run(__doc__.splitlines()[0], [
    A("BorrowStart", 1), A("BorrowTake", 1), A("Send", 1), A("Timeout", 1),
    A("BorrowStart", 2),
    A("ReplaceCheck"),
    A("ShutdownMark"), A("ShutdownCloseCur"), A("ShutdownCloseTrash"),
    A("ReplaceOpen", f=True), A("ReplacePublish"), A("ReplaceRetire"),
    A("BorrowTake", 2),
], expect_open=[2])
