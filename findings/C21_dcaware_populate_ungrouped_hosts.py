"""C21 finding - DCAwareRoundRobinPolicy.populate loses hosts when they do not arrive grouped by datacenter.

Signature: DCAware.populate:ungrouped-hosts
Where    : cassandra/policies.py, DCAwareRoundRobinPolicy.populate, lines 237-239
           for dc, dc_hosts in groupby(hosts, lambda h: self._dc(h)):
               self._dc_live_hosts[dc] = tuple(set(dc_hosts))
itertools.groupby only groups *consecutive* equal keys; Cluster hands over Metadata.all_hosts() (dict order, not
sorted by datacenter), so a later run of the same datacenter overwrites the earlier one.  The lost hosts are
live and LOCAL according to distance() but never appear in a query plan until they go down and up again.

Run: /venv/bin/python /verif/findings/C21_dcaware_populate_ungrouped_hosts.py     (exit 1 while the defect is present)
"""
import os
import sys

sys.path.insert(0, os.environ.get("VERIF_REPO", "/repo"))

from cassandra.connection import DefaultEndPoint                                   # noqa: E402
from cassandra.policies import DCAwareRoundRobinPolicy, SimpleConvictionPolicy, HostDistance   # noqa: E402
from cassandra.pool import Host                                                    # noqa: E402


def host(addr, dc):
    h = Host(DefaultEndPoint(addr), SimpleConvictionPolicy)
    h.set_location_info(dc, "r1")
    h.set_up()
    return h


h1, h2, h3 = host("h1", "A"), host("h2", "B"), host("h3", "A")
policy = DCAwareRoundRobinPolicy(local_dc="A", used_hosts_per_remote_dc=0)
policy.populate(None, [h1, h2, h3])                 # order A, B, A
plan = [h.address for h in policy.make_query_plan()]
print("populate([h1(A), h2(B), h3(A)]), local_dc=A -> plan", plan, " expected h1 and h3")
print("distance(h1) is LOCAL:", policy.distance(h1) == HostDistance.LOCAL)
failed = set(plan) != {"h1", "h3"}
print("DEFECT PRESENT" if failed else "ok")
sys.exit(1 if failed else 0)
