"""C33 finding: SortedSet.remove(x) raises TypeError instead of KeyError when the absent element x is a tuple.

cassandra/util.py, SortedSet.remove ends with
        raise KeyError('%r' % item)
With a tuple item the % operator takes the tuple as the *argument list* of the format string:
    '%r' % (0, 1)  -> TypeError: not all arguments converted during string formatting
    '%r' % ()      -> TypeError: not enough arguments for format string
    '%r' % (7,)    -> KeyError('7')   (right class, wrong text)
Tuples are the driver's representation of CQL tuple / UDT-as-tuple values, so set<frozen<tuple<..>>> columns give
SortedSets of tuples.  A caller doing `try: s.remove(x) except KeyError: ...` (the set protocol; the class's own
unit test test_remove asserts KeyError) gets an uncaught TypeError.

Smallest fix:   raise KeyError('%r' % (item,))

Run: /venv/bin/python /verif/findings/C33_sortedset_remove_absent_tuple.py   (exit 1 while the defect is present)
"""
import os
import sys

sys.path.insert(0, os.environ.get("VERIF_REPO", "/repo"))
os.environ.setdefault("CASS_DRIVER_NO_EXTENSIONS", "1")
from cassandra.util import SortedSet          # noqa: E402

bad = 0
for present, absent in (([(0, 2), (1,)], (0, 1)), ([(0, 2)], ()), ([], (1, 0)), ([(0, 2)], (7,))):
    s = SortedSet(present)
    try:
        s.remove(absent)
        print("remove(%r) from %r: no exception" % (absent, s))
        bad += 1
    except KeyError as e:
        print("remove(%r) from %r: KeyError(%s)   ok" % (absent, s, e))
    except Exception as e:
        print("remove(%r) from %r: %s: %s   <-- expected KeyError" % (absent, s, type(e).__name__, e))
        bad += 1
    assert list(s) == sorted(present), "contents changed"
# same call on the builtin, for reference
try:
    set([(0, 2)]).remove((0, 1))
except KeyError:
    print("builtin set.remove((0, 1)): KeyError")
print("DEFECT PRESENT" if bad else "defect not present")
sys.exit(1 if bad else 0)
