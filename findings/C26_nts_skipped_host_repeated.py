"""C26 finding - NetworkTopologyStrategy.make_token_replica_map returns a replica twice (and can lose one).

Signature: NTS:skipped-host-repeated
Where    : cassandra/metadata.py, NetworkTopologyStrategy.make_token_replica_map, lines 639-654
           (skipped_hosts.append(host) without a membership test; the fill-up loop appends every entry).

A host that owns two tokens between two rack changes is put on `skipped_hosts` twice; when all racks of the
datacenter are covered both entries are appended to the replica list.  With rf > racks + 1 the list returned by
Metadata.get_replicas contains the same Host twice, and because each copy consumes one of the remaining replica
slots a real replica is left out when the datacenter has enough nodes.

Cassandra (NetworkTopologyStrategy.calculateNaturalEndpoints) never repeats an endpoint: the old formulation
keeps skipped endpoints in a LinkedHashSet, the current one tests `endpoints.add(ep)`.

Run: /venv/bin/python /verif/findings/C26_nts_skipped_host_repeated.py      (exit 1 while the defect is present)
"""
import os
import sys

sys.path.insert(0, os.environ.get("VERIF_REPO", "/repo"))

from cassandra.connection import DefaultEndPoint            # noqa: E402
from cassandra.metadata import Metadata, KeyspaceMetadata    # noqa: E402
from cassandra.policies import SimpleConvictionPolicy        # noqa: E402
from cassandra.pool import Host                              # noqa: E402


def host(addr, rack):
    h = Host(DefaultEndPoint(addr), SimpleConvictionPolicy)
    h.set_location_info("dc1", rack)
    return h


def replicas(tokens, rf, key):
    md = Metadata()
    md.rebuild_token_map("org.apache.cassandra.dht.ByteOrderedPartitioner", tokens)
    md.keyspaces["ks"] = KeyspaceMetadata("ks", True, "NetworkTopologyStrategy", {"dc1": str(rf)})
    return [h.address for h in md.get_replicas("ks", key)]


A, B, C, D = host("A", "r1"), host("B", "r1"), host("C", "r2"), host("D", "r1")
failed = False

# ring: 10->A(r1) 20->B(r1) 30->B(r1) 40->C(r2);  3 nodes, rf 4: Cassandra places {A, B, C}
got = replicas({A: ["10"], B: ["20", "30"], C: ["40"]}, 4, b"\x10")
print("3 nodes, rf=4, key at A's token : get_replicas ->", got, " expected the set {A, B, C} without repetition")
failed |= len(got) != len(set(got)) or set(got) != {"A", "B", "C"}

# ring: 10->A(r1) 20->B(r1) 30->B(r1) 40->C(r2) 50->D(r1);  4 nodes, rf 4: Cassandra places {A, B, C, D}
got = replicas({A: ["10"], B: ["20", "30"], C: ["40"], D: ["50"]}, 4, b"\x10")
print("4 nodes, rf=4, key at A's token : get_replicas ->", got, " expected the set {A, B, C, D} without repetition")
failed |= len(got) != len(set(got)) or set(got) != {"A", "B", "C", "D"}

print("DEFECT PRESENT" if failed else "ok")
sys.exit(1 if failed else 0)
