"""C01 / C02: on protocol v1/v2 a decoded map whose key type is a (frozen) collection cannot be read.

MapType.deserialize_safe (cassandra/cqltypes.py 870-903; the compiled _deserialize_map in deserializers.pyx does the
same) decodes keys and values with inner_proto = max(3, protocol_version) - nested collections always use the v3
layout - but builds the result as util.OrderedMapSerializedKey(key_type, protocol_version) with the OUTER version.
The map indexes its entries by the key bytes as they were on the wire (32-bit lengths) and looks a key up by
re-serializing it with the stored version (16-bit lengths on v1/v2): every lookup misses.  items(), values(),
m[key], `key in m`, comparison with a dict raise KeyError / give the wrong answer.

Run: /venv/bin/python /verif/findings/C01_decoded_map_with_collection_key_unreadable_before_v3.py
"""
import os
import sys

os.environ.setdefault("CASS_DRIVER_NO_EXTENSIONS", "1")
sys.path.insert(0, os.environ.get("VERIF_REPO", "/repo"))
from cassandra import cqltypes                                            # noqa: E402

P = "org.apache.cassandra.db.marshal."
T = cqltypes.lookup_casstype("%sMapType(%sFrozenType(%sListType(%sInt32Type)),%sInt32Type)" % (P, P, P, P, P))
bad = 0
for pv in (1, 2, 3, 4):
    wire = T.to_binary({(1, 2): 7}, pv)
    m = T.from_binary(wire, pv)
    try:
        got = list(m.items())
        verdict = "ok"
    except KeyError as ex:
        got = "KeyError(%s)" % ex
        verdict = "UNREADABLE"
        bad += 1
    print("pv=%d  bytes=%s  keys=%r  items() -> %s  %s" % (pv, wire.hex(), list(m.keys()), got, verdict))
print("FAILS: decoded map unreadable on %d protocol versions" % bad if bad else "holds")
sys.exit(1 if bad else 0)
