"""C35 finding: after a save that deleted a column (attribute set to None, or a collection emptied in place), the value
manager keeps its old `previous_value` / `explicit` flag.  Consequences on LATER saves of the same instance:
  (a) the DELETE is sent again with every save although the attribute was not touched since - it wipes what anybody
      (another writer, a queryset update) stored in that column meanwhile;
  (b) putting the former content back into the emptied collection is not seen as a change: nothing is sent, the row
      keeps the column deleted while the instance shows the content.
Documented (Model.update): "execute an update against any modified fields. If no fields on the model have been
modified since loading, no query will be performed."; C35: reading the row back yields the instance's values.

cassandra/cqlengine/models.py, BaseModel._set_persisted (489-494):
        for v in [v for v in self._values.values() if v.changed or force]:
            v.reset_previous_value()
            v.explicit = False
cassandra/cqlengine/columns.py, BaseValueManager.changed (43-62) is False for an emptied container
(`not self.column._val_is_null(self.value) and ...`) and for None assigned over None (value == previous_value), while
BaseValueManager.deleted (39-41) is True for both - so the save sends the DELETE but _set_persisted skips the value.

Smallest fix (models.py line 491):
        for v in [v for v in self._values.values() if v.changed or v.deleted or force]:

Run: /venv/bin/python /verif/findings/C35_deleted_value_stays_pending_after_save.py   (exit 1 while present)
"""
from _c35_env import harness, sent, row, run, finish

h, R = harness()
bad = False

print("(a) the delete is repeated")
R.create(k=1, ck=1, a=1, s={1})
inst = R.objects(k=1, ck=1).get()
sent(h)
inst.s.remove(1)
inst.save()
print("inst.s.remove(1); inst.save()")
sent(h)
R.objects(k=1, ck=1).update(s__add={2})
print("R.objects(k=1, ck=1).update(s__add={2})      # somebody else")
sent(h)
inst.b = 1
inst.save()
print("inst.b = 1; inst.save()                      # s was not touched since the last save")
stmts = sent(h)
print("    row     :", row(h), "   (documented: s {2})")
bad = bad or any('DELETE "s"' in t for t, _ in stmts) or row(h).get("s") != {2}

print("(b) putting the content back is lost")
h.reset()
R.create(k=1, ck=1, a=1, l=[2])
inst = R.objects(k=1, ck=1).get()
sent(h)
inst.l.pop()
inst.save()
print("inst.l.pop(); inst.save()")
sent(h)
inst.l.append(2)
inst.save()
print("inst.l.append(2); inst.save()")
stmts = sent(h)
print("    row     :", row(h), "   instance:", list(inst.l), "   (documented: l [2])")
bad = bad or row(h).get("l") != [2]
finish(bad)
