"""C24: ConstantReconnectionPolicy(delay, max_attempts=0) yields an INFINITE schedule.

The documentation of `max_attempts` says "a total number of attempts to be made before giving up, or None to
continue reconnection attempts forever"; 0 therefore means "no attempts" (ExponentialReconnectionPolicy(…,
max_attempts=0) indeed yields an empty schedule).  cassandra/policies.py:649-652 tests the truthiness of
max_attempts, so 0 is treated like None:

    def new_schedule(self):
        if self.max_attempts:                       # 0 is falsy
            return repeat(self.delay, self.max_attempts)
        return repeat(self.delay)                   # -> never ends

Consequence: a cluster configured to never reconnect (max_attempts=0) reconnects forever
(_ReconnectionHandler.run never sees StopIteration).

Smallest fix:  `if self.max_attempts is not None:`  (repeat(x, 0) is the empty iterator).

Run: /venv/bin/python /verif/findings/C24_constant_zero_attempts.py     (exit 1 while the defect is present)
"""
import itertools
import os
import sys

sys.path.insert(0, os.environ.get("VERIF_REPO", "/repo"))
from cassandra.policies import ConstantReconnectionPolicy, ExponentialReconnectionPolicy  # noqa: E402

got = list(itertools.islice(ConstantReconnectionPolicy(2.0, max_attempts=0).new_schedule(), 2000))
ref = list(itertools.islice(ExponentialReconnectionPolicy(2.0, 60.0, max_attempts=0).new_schedule(), 2000))
print("ExponentialReconnectionPolicy(2, 60, max_attempts=0): %d items" % len(ref))
print("ConstantReconnectionPolicy(2, max_attempts=0):        %d items (first 2000 requested)" % len(got))
if got:
    print("FAIL: max_attempts=0 must mean no attempts; the schedule does not end")
    sys.exit(1)
print("ok")
