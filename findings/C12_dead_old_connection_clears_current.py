"""C12 - return_connection() of a dead *replaced* connection drops the healthy current connection without closing it.

cassandra/pool.py 478-484: when a defunct/closed connection is returned and the host is not convicted, the pool sets
self._connection = None whatever connection failed.  If the failed one is an old connection sitting in _trash (or
between publish and retire), the current, healthy connection is forgotten: it is neither closed now nor by shutdown()
(and _replace opens yet another one).  Needs a conviction policy that does not convict on the first failure.

Schedule: request 1 times out -> request 2 on connection 1, _replace publishes connection 2, connection 1 trashed ->
socket error on connection 1 (request 2 errored, returned) -> _replace task opens connection 3 -> shutdown().
Signature: HostConnection.return_connection:dead-old-connection-clears-current
"""
from _run_pool import A, run

run(__doc__.splitlines()[0], [
    A("BorrowStart", 1), A("BorrowTake", 1), A("Send", 1), A("Timeout", 1),
    A("BorrowStart", 2), A("BorrowTake", 2), A("Send", 2),
    A("ReplaceCheck"), A("ReplaceOpen", f=True), A("ReplacePublish"), A("ReplaceRetire"),
    A("ConnFails", c=1, f=False),
    A("ReplaceCheck"), A("ReplaceOpen", f=True), A("ReplacePublish"), A("ReplaceRetire"),
    A("ShutdownMark"), A("ShutdownCloseCur"), A("ShutdownCloseTrash"),
], expect_open=[2])
