#!/venv/bin/python
"""C09 / C12 (in-flight accounting) - after a re-prepare the driver hands back a connection it did not borrow.

Found by the composed system model (spec/Driver.tla, trace validation of whole-driver runs): a recorded run was
rejected when the node answered the PREPARE of a re-preparation - the queued _execute_after_prepare task named another
connection than the one the PREPARE had been sent on.

ResponseFuture._set_result (UNPREPARED answer on connection A of pool PA) submits
    self._reprepare(prepare_message, host, connection=A, pool=PA)
and _reprepare builds the PREPARE's callback from those arguments,
    cb = partial(self.session.submit, self._execute_after_prepare, host, connection, pool)
before self._query(host, prepare_message, cb=cb) borrows a connection for the PREPARE.  The borrowed connection B need
not be A: the host's pool may have been replaced meanwhile (host went down and came back, pool renewed), and a
protocol v1/v2 pool (HostConnectionPool) simply picks its least busy connection.  _execute_after_prepare then does
PA.return_connection(A): A's in_flight is decremented once too often (or a closed connection is "returned", which
signals a connection failure for the host), and B's slot is never given back - its in_flight stays one too high for
the life of the connection.

Schedule (one node; protocol v4):
  1. stmt = session.prepare(...); fut = execute_async(stmt.bind(..))   -> EXECUTE on connection A
  2. node answers UNPREPARED                                          -> _reprepare(.., A, PA) queued in the executor
  3. the pool of the host is renewed (Session.add_or_renew_pool)      -> pool PB with connection B, PA shut down
  4. run the _reprepare task                                          -> PREPARE on B (B.in_flight = 1)
  5. node answers PREPARE; run _execute_after_prepare                 -> PA.return_connection(A); EXECUTE re-sent on B
  6. node answers the EXECUTE with rows                               -> request done; B.in_flight is 1, not 0

Smallest fix (cassandra/cluster.py): bind the callback to what _query really borrowed, e.g. in _reprepare
    cb = partial(self.session.submit, self._execute_after_prepare)
and in _query, when a cb is given, `cb = partial(cb, host, connection, pool)` after borrow_connection().

Run: /venv/bin/python /verif/findings/C09_reprepare_returns_the_wrong_connection.py      (exit 1 while present)
"""
import os
import sys

sys.path.insert(0, os.path.dirname(os.path.dirname(os.path.abspath(__file__))))
from harness.sim.simcluster import SimWorld, FakeNode, make_cluster      # noqa: E402
from harness import wire                                                # noqa: E402

world = SimWorld()
node = world.add_node(FakeNode("10.0.0.1"))
cluster = make_cluster(world, ["10.0.0.1"], protocol_version=4, inline=True, prepare_on_all_hosts=False,
                       reprepare_on_up=False)
session = cluster.connect()
QID = b"stmt-1"


def prepared():
    return wire.body_prepared(QID, [("k", wire.T_INT)], [0], [("p", wire.T_INT)], 4)


node.auto = True
node.auto_answer = lambda n, p: n.respond(p, wire.RESULT, prepared()) if p.req["op"] == "PREPARE" else None
stmt = session.prepare("SELECT p FROM t WHERE k=?")
node.auto = False
host = list(session._pools)[0]
pool_a = session._pools[host]
conn_a = pool_a._connection

cluster.executor.inline = False
fut = session.execute_async(stmt.bind((1,)))                                                         # 1
node.respond_error(node.pending[0], wire.ERR_UNPREPARED, "unprepared", wire.tail_unprepared(QID))    # 2
reprepare = cluster.executor.queue.pop(0)
cluster.executor.inline = True
session.add_or_renew_pool(host, is_host_addition=False)                                              # 3
cluster.executor.inline = False
pool_b = session._pools[host]
conn_b = pool_b._connection
assert conn_b is not conn_a and conn_a.is_closed
reprepare.fn(*reprepare.args)                                                                        # 4
print("PREPARE sent on the new connection:", node.pending[0].conn is conn_b, "; its in_flight =", conn_b.in_flight)
node.respond(node.pending[0], wire.RESULT, prepared())                                               # 5
task = cluster.executor.queue.pop(0)
print("_execute_after_prepare was queued with the connection the PREPARE used:", task.args[1] is conn_b,
      "(it names the", "old" if task.args[1] is conn_a else "?", "connection)")
task.fn(*task.args)
node.respond_rows(node.pending[0], [("p", wire.T_INT)], [[wire.w_int(7)]])                           # 6
print("request completed with", fut._final_result, "; in_flight of the new connection afterwards =", conn_b.in_flight)
bad = conn_b.in_flight != 0
cluster.shutdown()
print("C09 re-prepare connection accounting: %s" % ("VIOLATED (a slot of the new connection is never given back)" if bad else "holds"))
sys.exit(1 if bad else 0)
