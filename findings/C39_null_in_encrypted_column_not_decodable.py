"""C39 finding - a result set with a NULL in an encrypted column cannot be decoded.

Signature: decode:null-in-encrypted-column
Where    : cassandra/protocol.py, ResultMessage.recv_results_rows / decode_val, lines 751-755
           (same shape in the compiled parser: cassandra/obj_parser.pyx, TupleRowParser.unpack_row, lines 77-84)

        def decode_val(val, col_md, col_desc):
            uses_ce = column_encryption_policy and column_encryption_policy.contains_column(col_desc)
            col_type = column_encryption_policy.column_type(col_desc) if uses_ce else col_md[3]
            raw_bytes = column_encryption_policy.decrypt(col_desc, val) if uses_ce else val     # val is None for a null cell
            return col_type.from_binary(raw_bytes, protocol_version)

BoundStatement.bind keeps None as None for an encrypted column (query.py:622-623, nothing to encrypt), the server
stores and returns a null cell ([bytes] of length -1, read_value -> None), and decode_val hands that None to
AES256ColumnEncryptionPolicy.decrypt, which slices it: TypeError "'NoneType' object is not subscriptable", reported as
DriverException('Failed decoding result column "..." ...').  One null in an encrypted column makes the WHOLE result
set (all rows, all columns) undecodable - e.g. every row inserted without that column, or after the column was deleted.

Property C39: "any value (including null) bound for an encrypted column ... decode[s] back to the original value".

Smallest fix (protocol.py:754): do not decrypt a null

            raw_bytes = column_encryption_policy.decrypt(col_desc, val) if uses_ce and val is not None else val

(col_type.from_binary(None, ...) already returns None), and in obj_parser.pyx:79  `if uses_ce and buf.size >= 0:`.

Run: /venv/bin/python /verif/findings/C39_null_in_encrypted_column_not_decodable.py     (exit 1 while present)
"""
import io
import os
import struct
import sys

sys.path.insert(0, os.environ.get("VERIF_REPO", "/repo"))
os.environ.setdefault("CASS_DRIVER_NO_EXTENSIONS", "1")
from cassandra.column_encryption.policies import AES256ColumnEncryptionPolicy   # noqa: E402
from cassandra.cqltypes import BytesType, Int32Type                             # noqa: E402
from cassandra.policies import ColDesc                                          # noqa: E402
from cassandra.protocol import ColumnMetadata, ProtocolHandler                   # noqa: E402
from cassandra.query import PreparedStatement                                   # noqa: E402

policy = AES256ColumnEncryptionPolicy()
policy.add_column(ColDesc("ks", "t", "secret"), os.urandom(32), "int")
handler = type("H", (ProtocolHandler,), {"column_encryption_policy": policy})      # as Session.__init__ does

# INSERT INTO ks.t (id, secret) VALUES (?, ?)    the table stores the ciphertext in a blob column
bind_meta = [ColumnMetadata("ks", "t", "id", Int32Type), ColumnMetadata("ks", "t", "secret", BytesType)]
prepared = PreparedStatement(bind_meta, b"id", [0], "INSERT ...", "ks", 4, bind_meta, None, policy)


def string(s):
    return struct.pack(">H", len(s)) + s.encode()


def cell(b):
    return struct.pack(">i", -1) if b is None else struct.pack(">i", len(b)) + b


def rows_body(rows):
    # kind=ROWS, flags=global table spec, 2 columns, ks, table, (name, type id) x 2, row count, cells
    out = struct.pack(">iii", 2, 1, 2) + string("ks") + string("t") + string("id") + struct.pack(">H", 0x0009) + \
        string("secret") + struct.pack(">H", 0x0003) + struct.pack(">i", len(rows))
    for r in rows:
        out += b"".join(cell(c) for c in r)
    return out


failed = False
for inputs in ([(1, 42)], [(1, 42), (2, None)]):
    stored = [prepared.bind(r).values for r in inputs]            # what is sent = what the server returns
    try:
        msg = handler.decode_message(4, {}, 1, 0, 0x08, rows_body(stored), None, None)
        got = [tuple(r) for r in msg.parsed_rows]
        print("rows %r -> decoded %r" % (inputs, got))
        failed |= got != inputs
    except Exception as ex:                                         # noqa
        print("rows %r -> decoder raised %s: %s" % (inputs, type(ex).__name__, ex))
        failed = True
if failed:
    print("FAIL: a null in an encrypted column does not come back as null")
    sys.exit(1)
print("ok")
