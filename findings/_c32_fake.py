"""Shared by the C32 reproductions: a minimal stand-in for Session whose execute_async behaves as scripted."""
import os
import sys

sys.path.insert(0, os.path.dirname(os.path.dirname(os.path.abspath(__file__))))
from harness.pyenv import repo_import            # noqa: E402  (installs the stub reactor so cassandra.cluster imports)

repo_import("cassandra.cluster")
concurrent = repo_import("cassandra.concurrent")


class Boom(Exception):
    pass


class DoneFuture:
    """A ResponseFuture that is already complete when callbacks are attached (callbacks run immediately)."""
    _col_names = _col_types = None
    has_more_pages = False

    def __init__(self, rows=None, exc=None):
        self.rows, self.exc = rows, exc

    def add_callbacks(self, callback, errback, callback_args=(), callback_kwargs=None, errback_args=(), errback_kwargs=None):
        if self.exc is None:
            callback(self.rows, *callback_args, **(callback_kwargs or {}))
        else:
            errback(self.exc, *errback_args, **(errback_kwargs or {}))

    def clear_callbacks(self):
        pass


class Session:
    """behaviour per statement: "raise" (execute_async raises), "ok" / "err" (future already complete)."""

    def __init__(self, behaviours):
        self.behaviours = behaviours

    def execute_async(self, statement, params=None, timeout=None, execution_profile=None):
        b = self.behaviours[statement]
        if b == "raise":
            raise Boom("statement %r" % (statement,))
        return DoneFuture(rows=[statement]) if b == "ok" else DoneFuture(exc=Boom("statement %r" % (statement,)))
