"""C45 - a pool created by an executor task that runs after Session.shutdown() is never closed.

Schedule (every step is something a thread of the driver does on its own):
  1. host 10.0.0.2 goes down and its reconnector succeeds: Cluster.on_up submits run_add_or_renew_pool to the executor;
  2. before a worker picks that task up, the application calls Cluster.shutdown(): Session.shutdown() closes the pools
     that exist, then ThreadPoolExecutor.shutdown(wait=True) lets the queued task run;
  3. run_add_or_renew_pool (cluster.py:3323-3369) opens a HostConnection and stores it in Session._pools although the
     session is shut down.  Nobody closes it: the connection stays open for the life of the process, and
     session.execute_async() after shutdown is *sent* on it instead of being refused.

Run: /venv/bin/python /verif/findings/C45_late_pool_after_session_shutdown.py      (exit 1 = defect present)
"""
import os
import sys

sys.path.insert(0, os.path.dirname(os.path.dirname(os.path.abspath(__file__))))
from harness.sim.simcluster import SimWorld, FakeNode, make_cluster      # real cassandra.cluster over simulated sockets

w = SimWorld()
n1 = w.add_node(FakeNode("10.0.0.1", tokens=["10"]))
n2 = w.add_node(FakeNode("10.0.0.2", tokens=["20"]))
cluster = make_cluster(w, ["10.0.0.1"], inline=True)
session = cluster.connect(wait_for_all_pools=True)
cluster.executor.inline = False                       # from here on submitted tasks wait until a "worker" runs them
h2 = [h for h in cluster.metadata.all_hosts() if h.address == "10.0.0.2"][0]

pool = session._pools[h2]
conn = pool._connection
conn.socket_error()                                    # the connection breaks ...
pool.return_connection(conn)                           # ... the heartbeat hands it back: host convicted, on_down submitted
cluster.executor.drain()                               # on_down: host down, reconnector scheduled
cluster.scheduler.fire_next()                          # the reconnection delay elapses
cluster.executor.run_next()                            # reconnector.run(): probe ok -> on_up -> add_or_renew_pool submitted
print("queued when shutdown() is called:", cluster.executor.queue)

cluster.shutdown()                                     # scheduler, control connection, sessions, executor.shutdown()
cluster.executor.drain()                               # what ThreadPoolExecutor.shutdown(wait=True) still runs

still_open = [str(c.endpoint) for c in w.open_connections()]
print("connections open after Cluster.shutdown() returned:", still_open)
print("node side:", {a: len(n.open_connections()) for a, n in w.nodes.items()})
fut = session.execute_async("SELECT * FROM ks.t")
pending = fut._final_exception is None and not n2.pending == []
print("execute_async after shutdown:", "left pending on the leaked pool" if pending else "refused (%r)" % (fut._final_exception,))
sys.exit(1 if still_open or pending else 0)
