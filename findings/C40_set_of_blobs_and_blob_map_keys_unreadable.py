"""C40: a set of blobs, and a map with blob keys, cannot be read back from GraphSON 3.

BlobTypeIO.deserialize (cassandra/datastax/graph/graphson.py 272-274) returns a bytearray, which is not hashable;
SetTypeIO.deserialize (593-603) does set(lst) and MapTypeIO.deserialize (538-547) does out[key] = value, so
    {b'\\x00\\xff'}        -> {"@type": "g:Set", "@value": [{"@type": "gx:ByteBuffer", "@value": "AP8="}]}
    {b'\\x00\\xff': 'a'}   -> {"@type": "g:Map", "@value": [{"@type": "gx:ByteBuffer", "@value": "AP8="}, "a"]}
are written fine and raise TypeError: unhashable type: 'bytearray' when the driver reads them (its own output, or the
value of a set<blob> / map<blob, ...> property returned by a Core graph).  A list of blobs and blob map VALUES are fine.

Run: /venv/bin/python /verif/findings/C40_set_of_blobs_and_blob_map_keys_unreadable.py
"""
import json
import os
import sys

os.environ.setdefault("CASS_DRIVER_NO_EXTENSIONS", "1")
sys.path.insert(0, os.environ.get("VERIF_REPO", "/repo"))
from cassandra.datastax.graph import graphson as g                        # noqa: E402



def same(back, value):
    """equal; a set may come back as a set or (documented: 'set or list') as a list"""
    if isinstance(value, set):
        return isinstance(back, (set, list)) and len(back) == len(value) and all(any(same(b, v) for v in value) for b in back)
    if isinstance(value, list):
        return isinstance(back, list) and len(back) == len(value) and all(same(b, v) for b, v in zip(back, value))
    if isinstance(value, dict):
        return isinstance(back, dict) and len(back) == len(value) and all(k in back and same(back[k], v) for k, v in value.items())
    return back == value


bad = 0
for value in ({b"\x00\xff"}, {1, b"\x00\xff"}, {b"\x00\xff": "a"}, {"a": 1, b"\x00\xff": b"\x01"}, [{b"\x00\xff"}],
              [b"\x00\xff"], {"a": b"\x00\xff"}):
    wire = json.dumps(g.GraphSON3Serializer({}).serialize(value))
    try:
        back = g.GraphSON3Reader({}).read(wire)
        ok = same(back, value)
        shown = repr(back)
    except Exception as e:
        ok, shown = False, "%s: %s" % (type(e).__name__, e)
    if not ok:
        bad += 1
    print("%-40r -> %s\n%40s -> %s  %s" % (value, wire, "", shown, "ok" if ok else "FAILS"))
print("FAILS: %d round trips of a set of blobs / a map with blob keys" % bad if bad else "holds")
sys.exit(1 if bad else 0)
