"""C45 - a control connection reconnect that overlaps Cluster.shutdown() installs its new connection afterwards.

ControlConnection._reconnect (cluster.py:3756-3759) does  self._set_new_connection(self._reconnect_internal()).
_try_connect checks _is_shutdown right after the TCP/handshake (cluster.py:3692) but then registers for events and reads
system.local / system.peers (several round trips).  When Cluster.shutdown() -> ControlConnection.shutdown() runs in that
window, _set_new_connection (cluster.py:3639-3649) still stores the fresh connection: nothing ever closes it.

The window is made deterministic here by calling cluster.shutdown() from the other "thread" exactly when _reconnect is
about to call _set_new_connection.

Run: /venv/bin/python /verif/findings/C45_control_connection_installed_after_shutdown.py      (exit 1 = defect present)
"""
import os
import sys

sys.path.insert(0, os.path.dirname(os.path.dirname(os.path.abspath(__file__))))
from harness.sim.simcluster import SimWorld, FakeNode, make_cluster

w = SimWorld()
w.add_node(FakeNode("10.0.0.1", tokens=["10"]))
w.add_node(FakeNode("10.0.0.2", tokens=["20"]))
cluster = make_cluster(w, ["10.0.0.1"], inline=True)
session = cluster.connect(wait_for_all_pools=True)
cluster.executor.inline = False
cc = cluster.control_connection

install = cc._set_new_connection


def install_while_application_shuts_down(conn):
    cluster.shutdown()                  # the application thread: runs to completion while the worker is between the two calls
    return install(conn)


cc._set_new_connection = install_while_application_shuts_down

old = cc._connection
old.socket_error()                      # the control connection breaks
cc.return_connection(old)               # heartbeat: ControlConnection.reconnect() -> _reconnect submitted
cluster.executor.run_next()             # the worker runs _reconnect
cluster.executor.drain()

still_open = [(str(c.endpoint), "control" if c.is_control_connection else "pool") for c in w.open_connections()]
print("cluster.is_shutdown =", cluster.is_shutdown, " control_connection._is_shutdown =", cc._is_shutdown)
print("connections open after Cluster.shutdown() returned:", still_open)
sys.exit(1 if still_open else 0)
