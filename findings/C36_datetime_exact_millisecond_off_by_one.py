"""C36 finding: cqlengine's DateTime column stores some datetimes one millisecond away from their exact millisecond instant
(the core driver stores the same datetime exactly).

cassandra/cqlengine/columns.py, DateTime.to_database
        return int((get_total_seconds(value - epoch) - offset) * 1000)
total_seconds() is a double of seconds; multiplied by 1000 it lands just below the integer for many exact millisecond
values (1.001 s -> 1000.9999999999999) and int() truncates towards zero:
    DateTime().to_database(datetime(1970, 1, 1, 0, 0, 1, 1000))                 == 1000      (the instant is 1001 ms)
    DateTime().to_database(datetime(1969, 12, 31, 0, 0, 1, 123000, tzinfo=timezone(timedelta(hours=-8))))
                                                                                == -57598876 (the instant is -57598877 ms)
About 0.6 % of the datetimes with whole milliseconds are affected, naive or aware, also inside lists / maps / tuples / user
types.  cassandra.cqltypes.DateType.serialize (what a prepared statement of the core driver does) is exact for them, so the
same Python value is stored as two different CQL timestamps depending on the API used.

Smallest fix (integer arithmetic on the timedelta; also removes the float for large years):
        delta = value - epoch                       # epoch as today
        seconds = delta.days * 86400 + delta.seconds - int(offset)
        return seconds * 1000 + delta.microseconds // 1000

Run: /venv/bin/python /verif/findings/C36_datetime_exact_millisecond_off_by_one.py   (exit 1 while the defect is present)
"""
import datetime
import random
import sys

from _c36_env import columns, cqltypes, ms

E = datetime.datetime(1970, 1, 1)
col = columns.DateTime()
bad = 0
for v in (datetime.datetime(1970, 1, 1, 0, 0, 1, 1000), datetime.datetime(2026, 9, 22, 12, 34, 56, 789000),
          datetime.datetime(1969, 12, 31, 0, 0, 1, 123000, tzinfo=datetime.timezone(datetime.timedelta(hours=-8))),
          datetime.datetime(1970, 1, 1, 0, 0, 1, 1000, tzinfo=datetime.timezone.utc)):
    exact = ((v - v.utcoffset()).replace(tzinfo=None) if v.tzinfo else v) - E
    exact = exact // datetime.timedelta(milliseconds=1)
    got, core = col.to_database(v), ms(cqltypes.DateType.serialize(v, 4))
    print("%-40s exact %d ms   cqlengine %d   core %d%s" % (v, exact, got, core, "" if got == exact else "   <-- cqlengine is off"))
    bad += got != exact
r = random.Random(1)
n = off = 0
for _ in range(20000):
    v = E + datetime.timedelta(seconds=r.randrange(-2 * 10 ** 9, 4 * 10 ** 9), milliseconds=r.randrange(1000))
    n += 1
    off += col.to_database(v) != (v - E) // datetime.timedelta(milliseconds=1)
print("%d of %d random datetimes with whole milliseconds are stored one millisecond off" % (off, n))
print("DEFECT PRESENT" if bad or off else "defect not present")
sys.exit(1 if bad or off else 0)
