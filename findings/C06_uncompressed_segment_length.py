#!/venv/bin/python
"""C06 finding 2: with compression negotiated, an uncompressed segment is decoded two bytes early.

Protocol v5, compression negotiated (segment header = 5 bytes + CRC24).  A sender may leave a segment uncompressed
(uncompressed-length field 0; the driver's own encoder does so whenever compression does not help).
SegmentHeader.segment_length then computes the segment's size with the *3-byte* header length, although the header
on the wire has 5 bytes because the codec is a compressing one:

    cassandra/segment.py:75-77   hl = UNCOMPRESSED_HEADER_LENGTH if self.uncompressed_payload_length < 1 else COMPRESSED_...

so _process_segment_buffer() believes the segment complete when its last one or two bytes (of the CRC32) have not
arrived yet, decodes it, reads a short CRC and defuncts the connection (struct.error / CrcMismatchException).
No corruption is involved; only a TCP read boundary 1 or 2 bytes before the end of such a segment.

Smallest fix (segment.py line 75; decode_header sets -1 when the codec has no compression, >= 0 when it has):

    -        hl = SegmentCodec.UNCOMPRESSED_HEADER_LENGTH if self.uncompressed_payload_length < 1 \
    +        hl = SegmentCodec.UNCOMPRESSED_HEADER_LENGTH if self.uncompressed_payload_length < 0 \

Uses only the driver (lz4 is not needed: any compressor/decompressor pair behind SegmentCodec shows it; here one
that never helps, so the driver's own encoder leaves the segment uncompressed).  Exit status 1 when present.
"""
import io
import os
import sys
import zlib

sys.path.insert(0, os.environ.get("VERIF_REPO", "/repo"))
os.environ.setdefault("CASS_DRIVER_NO_EXTENSIONS", "1")
import logging                                                    # noqa: E402
logging.disable(logging.CRITICAL)
from cassandra.connection import Connection                       # noqa: E402
from cassandra.segment import SegmentCodec                        # noqa: E402
from cassandra.marshal import int32_pack                          # noqa: E402
from cassandra.protocol import ProtocolHandler                    # noqa: E402


def compress(data):                 # lz4_compress's convention: int32 uncompressed length || block
    return int32_pack(len(data)) + zlib.compress(data)


def decompress(data):
    return zlib.decompress(data[4:])


codec = SegmentCodec(compress, decompress)        # how connection.py builds segment_codec_lz4


class Conn(Connection):
    def close(self):
        self.is_closed = True


def one_run(missing):
    conn = Conn("127.0.0.1", protocol_version=5)
    conn._enable_checksumming()
    conn._segment_codec = codec                   # "compression negotiated"
    got = []
    conn._requests[7] = (got.append, ProtocolHandler.decode_message, None)
    frame = bytes([0x85, 0x00, 0x00, 0x07, 0x02, 0, 0, 0, 0])       # READY, 9 bytes: zlib cannot shrink it
    out = io.BytesIO()
    codec.encode(out, frame)                      # driver's encoder: payload left uncompressed, uncompressed length 0
    wire = out.getvalue()
    assert len(wire) == 5 + 3 + 9 + 4
    cut = len(wire) - missing
    for chunk in (wire[:cut], wire[cut:]):
        if chunk and not conn.is_defunct:
            conn._iobuf.write(chunk)
            conn.process_io_buffer()
    return conn, got, wire


bad = 0
for missing in (0, 1, 2, 3, 4):
    conn, got, wire = one_run(missing)
    ok = (not conn.is_defunct) and len(got) == 1
    print("segment of %d bytes, last %d byte(s) in a second read: %s" % (
        len(wire), missing, "delivered" if ok else "defunct, last_error=%r" % (conn.last_error,)))
    bad += not ok
sys.exit(1 if bad else 0)
