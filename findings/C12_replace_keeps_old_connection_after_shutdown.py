"""C12 - HostConnection._replace puts the old connection into _trash after shutdown() has already emptied it.

cassandra/pool.py 519-527: the retire step does not look at is_shutdown.  When shutdown() ran between publishing the
new connection and retiring the old one, the old connection (a request still in flight) lands in a trash nobody will
empty; if that request then times out it is not returned to the pool any more (cluster.py 4510: pool.is_shutdown),
so the connection is never closed.

Schedule: request 1 times out -> request 2 on connection 1 -> _replace: check, open, publish connection 2 ->
shutdown() completely (closes connection 2, trash empty) -> _replace retires connection 1 into _trash -> request 2 times out.
Signature: HostConnection._replace:old-connection-kept-open-after-shutdown
"""
from _run_pool import A, run

run(__doc__.splitlines()[0], [
    A("BorrowStart", 1), A("BorrowTake", 1), A("Send", 1), A("Timeout", 1),
    A("BorrowStart", 2), A("BorrowTake", 2), A("Send", 2),
    A("ReplaceCheck"), A("ReplaceOpen", f=True), A("ReplacePublish"),
    A("ShutdownMark"), A("ShutdownCloseCur"), A("ShutdownCloseTrash"),
    A("ReplaceRetire"),
    A("Timeout", 2),
], expect_open=[1])
