"""C40: a datetime.timedelta whose seconds-of-the-minute are 0 and whose fraction is below 100 microseconds does not
survive the GraphSON round trip (GraphSON 1, 2 and 3).

DurationTypeIO.serialize (cassandra/datastax/graph/graphson.py 318-328) formats the seconds as a Python float
(total_seconds += value.microseconds / 1e6; "{seconds}".format(...)): below 1e-4 the float prints in exponent notation,
    timedelta(microseconds=1)           -> "P0DT0H0M1e-06S"
    timedelta(days=1, microseconds=99)  -> "P1DT0H0M9.9e-05S"
which is not an ISO-8601 duration (java.time.Duration.parse rejects it on the server) and which the driver's own
DurationTypeIO.deserialize rejects too ("Invalid duration").  100 microseconds and more, or any non-zero seconds, are fine.

Run: /venv/bin/python /verif/findings/C40_timedelta_below_100_microseconds_written_with_exponent.py
"""
import datetime
import json
import os
import sys

os.environ.setdefault("CASS_DRIVER_NO_EXTENSIONS", "1")
sys.path.insert(0, os.environ.get("VERIF_REPO", "/repo"))
from cassandra.datastax.graph import graphson as g                        # noqa: E402

td = datetime.timedelta
bad = 0
for value in (td(microseconds=1), td(microseconds=99), td(days=1, microseconds=1), td(minutes=2, microseconds=50),
              td(microseconds=100), td(seconds=1, microseconds=1)):
    for name, ser, read in (("GraphSON1", lambda v: json.dumps(g.GraphSON1Serializer.serialize(v)),
                             lambda t: g.GraphSON1Deserializer.deserialize_duration(json.loads(t))),
                            ("GraphSON2", lambda v: json.dumps(g.GraphSON2Serializer().serialize(v)),
                             lambda t: g.GraphSON2Reader({}).read(t)),
                            ("GraphSON3", lambda v: json.dumps(g.GraphSON3Serializer({}).serialize(v)),
                             lambda t: g.GraphSON3Reader({}).read(t))):
        wire = ser(value)
        try:
            back = read(wire)
            ok = back == value
            shown = repr(back)
        except Exception as e:
            ok, shown = False, "%s: %s" % (type(e).__name__, e)
        if not ok:
            bad += 1
        print("%s %-45r -> %-60s -> %s  %s" % (name, value, wire, shown, "ok" if ok else "FAILS"))
print("FAILS: %d round trips of a tiny timedelta" % bad if bad else "holds")
sys.exit(1 if bad else 0)
