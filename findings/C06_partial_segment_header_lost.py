#!/venv/bin/python
"""C06 finding 1: a read that ends inside a v5 segment header throws the bytes away.

Protocol v5 (checksummed framing).  When the transport hands over fewer than header_length + 3 bytes of a new
segment (1..5 bytes without compression, 1..7 with), Connection._process_segment_buffer() takes its else-branch,
which does not rewind the io buffer; process_io_buffer() then calls _ConnectionIOBuffer.reset_io_buffer(),
which keeps only what is *after* the current position - nothing, because the position is at the end after the
write.  The bytes are lost, the next read is parsed from the middle of the header, the CRC24 check fails and the
connection is defuncted with a spurious CrcMismatchException.  No corruption is involved; only TCP chunking.

    cassandra/connection.py:1203-1204   else: self._io_buffer._segment_consumed = False      (no seek(0))
    cassandra/connection.py:1210        self._io_buffer.reset_io_buffer()
    cassandra/connection.py:660-662     reset_io_buffer: io.BytesIO(self._io_buffer.read())

Smallest fix (connection.py, _process_segment_buffer, else-branch at line 1203):

            else:
                self._io_buffer._segment_consumed = False
    +           self._io_buffer.io_buffer.seek(0)

Uses only the driver: the driver's own SegmentCodec encodes the message the driver then fails to read.
Exit status 1 when the defect is present.
"""
import io
import os
import sys

sys.path.insert(0, os.environ.get("VERIF_REPO", "/repo"))
os.environ.setdefault("CASS_DRIVER_NO_EXTENSIONS", "1")
import logging                                                    # noqa: E402
logging.disable(logging.CRITICAL)
from cassandra.connection import Connection, segment_codec_no_compression   # noqa: E402
from cassandra.protocol import ProtocolHandler                    # noqa: E402


class Conn(Connection):
    """A Connection without a socket; close() does what the reactors' close() does."""

    def close(self):
        self.is_closed = True


def one_run(first_read):
    conn = Conn("127.0.0.1", protocol_version=5)
    conn._enable_checksumming()                  # what the STARTUP/READY handshake does for v5
    got = []
    conn._requests[7] = (got.append, ProtocolHandler.decode_message, None)
    # a READY response on stream 7, v5 frame, wrapped into one self-contained segment by the driver's own codec
    frame = bytes([0x85, 0x00, 0x00, 0x07, 0x02, 0, 0, 0, 0])
    out = io.BytesIO()
    segment_codec_no_compression.encode(out, frame)
    wire = out.getvalue()
    for chunk in (wire[:first_read], wire[first_read:]):
        if chunk and not conn.is_defunct:
            conn._iobuf.write(chunk)             # exactly what the reactors' handle_read does
            conn.process_io_buffer()
    return conn, got, wire


bad = 0
for first in range(0, 8):
    conn, got, wire = one_run(first)
    ok = (not conn.is_defunct) and len(got) == 1
    print("segment of %d bytes, first read %d byte(s): %s" % (
        len(wire), first, "delivered" if ok else "LOST -> defunct=%s last_error=%r" % (conn.is_defunct, conn.last_error)))
    bad += not ok
print("%d of 8 splits fail" % bad)
sys.exit(1 if bad else 0)
