"""C15: page fetches started by ResponseFuture.start_fetching_next_page have no client timeout.

cassandra/cluster.py:4679-4698

    def start_fetching_next_page(self):
        ...
        self._make_query_plan()
        self.message.paging_state = self._paging_state
        self._event.clear()
        self._final_result = _NOT_SET
        self._final_exception = None
        self._start_timer()
        self.send_request()

and cluster.py:4466-4474

    def _start_timer(self):
        if self._timer is None:
            ...create the speculative / timeout timer...

self._timer still holds the timer of the previous page (cancelled by _set_final_result -> _cancel_timer, never
reset to None), so _start_timer() does nothing: no timeout timer (and no speculative execution) exists for
page >= 2.  self._start_time is not reset either, so even a fresh timer would measure from the first page.
If the node never answers the page request, the future never completes: result() / ResultSet iteration
(fetch_next_page) blocks forever although a finite timeout was given.

Smallest fix (start_fetching_next_page, before self._start_timer()):

        self._timer = None
        self._start_time = time.time()

Run: /venv/bin/python /verif/findings/C15_next_page_has_no_timeout.py     (exit 1 while the defect is present)
"""
import os
import sys

sys.path.insert(0, os.path.dirname(os.path.dirname(os.path.abspath(__file__))))
from harness.sim.simcluster import SimWorld, FakeNode, make_cluster          # noqa: E402
from harness import wire                                                      # noqa: E402
import cassandra                                                              # noqa: E402
from cassandra.cluster import ExecutionProfile, EXEC_PROFILE_DEFAULT         # noqa: E402
from cassandra.policies import RoundRobinPolicy                               # noqa: E402

TIMEOUT = 10.0
w = SimWorld()
node = w.add_node(FakeNode("10.0.0.1"))
prof = ExecutionProfile(load_balancing_policy=RoundRobinPolicy(), request_timeout=TIMEOUT)
cluster = make_cluster(w, ["10.0.0.1"], execution_profiles={EXEC_PROFILE_DEFAULT: prof})
session = cluster.connect(wait_for_all_pools=True)

fut = session.execute_async("SELECT v FROM ks.t")
t1 = fut._timer
print("page 1: timer live =", t1 is not None and not t1.canceled, "(due in %.1fs)" % (t1.end - w.clock.now))
node.respond_rows(node.pending[0], [("v", wire.T_INT)], [[wire.w_int(1)]], paging_state=b"next")
assert fut.has_more_pages and len(fut.result().current_rows) == 1

start = w.clock.now
fut.start_fetching_next_page()                     # the node stays silent from now on
t2 = fut._timer
live = t2 is not None and not t2.canceled and not getattr(t2, "_fired", False)
print("page 2: request sent =", len(node.pending) == 1, "; timer live =", live, "; same (cancelled) timer object as page 1 =", t2 is t1)

w.clock.advance(TIMEOUT + 0.05)                    # virtual time passes beyond the timeout
fired = w.run_due_timers()
done = fut._event.is_set()
print("after %.2fs of silence: timers fired = %d, future complete = %s, exception = %r"
      % (w.clock.now - start, fired, done, fut._final_exception))
cluster.shutdown()
if not live or not done or not isinstance(fut._final_exception, cassandra.OperationTimedOut):
    print("FAIL: the page fetch has no timeout; it never completes if the node stays silent")
    sys.exit(1)
print("ok")
