"""C34 finding: uuid_from_time / min_uuid_from_time / max_uuid_from_time lose the microseconds of a datetime that lies more
than 2^53 microseconds (about 285 years) from 1970: the time-UUID generated for an instant does not decode back to it.

cassandra/util.py, uuid_from_time, datetime branch:
        seconds = int(calendar.timegm(time_arg.utctimetuple()))
        microseconds = (seconds * 1e6) + time_arg.time().microsecond        # a float
        ...
        intervals = int(microseconds * 10) + 0x01b21dd213814000
The exact integer `seconds` is turned into a double before the microseconds are added.  A double holds integers up to
2^53 = 9007199254740992 only: for datetimes after 2255-06-05 or before 1684-07-28 (both inside the 60-bit range of a
version-1 UUID, 1582-10-15 .. 5236-03-31) the microsecond field is rounded away: uuid_from_time(datetime(2300, 1, 1, 0, 0,
0, 1)) carries the timestamp of 2300-01-01 00:00:00.000000.  (Nearer to now the product `microseconds * 10` exceeds 2^54
from 2027-02-01 on and the count of 100-ns intervals is off by 2 for every odd microsecond - less than a microsecond, so
not a violation of "to the microsecond", but the same cause.)

Smallest fix: keep the datetime branch in integers
        microseconds = seconds * 1000000 + time_arg.time().microsecond
        ...
        intervals = int(microseconds * 10) + 0x01b21dd213814000            # exact for an int; unchanged for the float branch

Run: /venv/bin/python /verif/findings/C34_uuid_from_time_loses_microseconds_far_from_epoch.py   (exit 1 while present)
"""
import datetime
import os
import sys

sys.path.insert(0, os.environ.get("VERIF_REPO", "/repo"))
os.environ.setdefault("CASS_DRIVER_NO_EXTENSIONS", "1")
from cassandra.util import uuid_from_time, min_uuid_from_time, max_uuid_from_time     # noqa: E402

EPOCH = datetime.datetime(1970, 1, 1)
OFFSET = 0x01B21DD213814000
bad = 0
for dt in (datetime.datetime(2026, 9, 22, 12, 0, 0, 1), datetime.datetime(2255, 6, 5, 23, 47, 34, 740991),
           datetime.datetime(2255, 6, 7, 0, 0, 0, 1), datetime.datetime(2300, 1, 1, 0, 0, 0, 1), datetime.datetime(5236, 3, 30, 0, 0, 0, 999999),
           datetime.datetime(1684, 7, 27, 0, 0, 0, 1), datetime.datetime(1600, 2, 29, 23, 59, 59, 999999)):
    us = (dt - EPOCH) // datetime.timedelta(microseconds=1)
    for fn in (lambda t: uuid_from_time(t, 0, 0), min_uuid_from_time, max_uuid_from_time):
        u = fn(dt)
        off = u.time - (10 * us + OFFSET)                      # in 100-ns intervals
        back = EPOCH + datetime.timedelta(microseconds=(u.time - OFFSET) // 10)
        ok = abs(off) < 10
        bad += not ok
        print("%s -> %s  timestamp %+d x 100ns from the instant; decodes (exactly) to %s%s"
              % (dt, u, off, back, "" if ok else "   <-- not the instant"))
print("DEFECT PRESENT" if bad else "defect not present")
sys.exit(1 if bad else 0)
