"""C30 finding - before protocol v4 a short positional bind() that leaves out a partition key component is accepted.

Signature: seq:v3:missing_key_component:accepted
Where    : cassandra/query.py, BoundStatement.bind, lines 611-617
The pre-v4 "fail fast" test compares the NUMBER of values with the NUMBER of routing key indexes:

        if proto_version < 4 and self.prepared_statement.routing_key_indexes and \
           value_len < len(self.prepared_statement.routing_key_indexes):
            raise ValueError("Too few arguments provided to bind() (got %d, required %d for routing key)" ...

which only works when the partition key columns are the first bind markers.  For the most common UPDATE shape
`UPDATE t SET v = ? WHERE k = ?` (routing_key_indexes == [1]) `bind((v,))` passes the test on protocol v1-v3:
the missing partition key component is not rejected (on v4+ the same call is rejected: "Cannot bind UNSET_VALUE as
a part of the routing key"), `.values` has one element, and reading `.routing_key` - which every token-aware query
plan does - raises IndexError (or TypeError from len(None) for a composite key with a null component).

Property C30: missing trailing values "... are rejected for partition-key components", and the routing key equals
Cassandra's encoding of the partition key.

Smallest fix (query.py:613-614): test the highest routing key index instead of the count

        if proto_version < 4 and self.prepared_statement.routing_key_indexes and \
           value_len <= max(self.prepared_statement.routing_key_indexes):

(tests/unit/test_parameter_binding.py::test_too_few_parameters_for_routing_key keeps passing: indexes [1, 0],
bind((1,)) raises, bind((1, 2)) binds.)

Run: /venv/bin/python /verif/findings/C30_pre_v4_short_bind_missing_key_component.py     (exit 1 while present)
"""
import os
import sys

sys.path.insert(0, os.environ.get("VERIF_REPO", "/repo"))
from cassandra.cqltypes import Int32Type, UTF8Type                       # noqa: E402
from cassandra.protocol import ColumnMetadata                            # noqa: E402
from cassandra.query import PreparedStatement                            # noqa: E402

failed = False
for pv in (3, 4):
    # UPDATE ks.t SET v = ? WHERE k = ?      -> bind markers (v, k), partition key = marker 1
    meta = [ColumnMetadata("ks", "t", "v", UTF8Type), ColumnMetadata("ks", "t", "k", Int32Type)]
    prepared = PreparedStatement(meta, b"id", [1], "UPDATE ks.t SET v = ? WHERE k = ?", "ks", pv, [], None)
    try:
        bound = prepared.bind(("x",))
    except ValueError as ex:
        print("protocol v%d: bind(('x',)) rejected: %s" % (pv, ex))
        continue
    print("protocol v%d: bind(('x',)) ACCEPTED, values=%r" % (pv, bound.values))
    failed = True
    try:
        print("   routing_key = %r" % (bound.routing_key,))
    except Exception as ex:                                              # noqa
        print("   routing_key raises %s: %s" % (type(ex).__name__, ex))
if failed:
    print("FAIL: a missing partition key component was not rejected")
    sys.exit(1)
print("ok")
