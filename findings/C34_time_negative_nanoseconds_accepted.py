"""C34 finding: cassandra.util.Time accepts a negative nanosecond count ("only accepts times within one day").

cassandra/util.py, Time._from_timestamp
        if t >= Time.DAY:
            raise ValueError("value must be less than number of nanoseconds in a day (%d)" % Time.DAY)
        self.nanosecond_time = t
checks the upper end of the day only.  Time(-1) is built, prints as '-1:59:59.999999999', has hour == -1, and
TimeType.serialize(-1) (which goes through Time) writes ff ff ff ff ff ff ff ff - a value Cassandra's TimeSerializer
refuses ("Input long out of bounds").  Time(n) for n >= 86400 * 10**9 is refused as documented.

Smallest fix (cassandra/util.py Time._from_timestamp):
        if not 0 <= t < Time.DAY:
            raise ValueError("value must be non-negative and less than the number of nanoseconds in a day (%d)" % Time.DAY)

Run: /venv/bin/python /verif/findings/C34_time_negative_nanoseconds_accepted.py   (exit 1 while the defect is present)
"""
import os
import sys

sys.path.insert(0, os.environ.get("VERIF_REPO", "/repo"))
os.environ.setdefault("CASS_DRIVER_NO_EXTENSIONS", "1")
from cassandra.util import Time               # noqa: E402
from cassandra.cqltypes import TimeType       # noqa: E402

bad = 0
for n in (-1, -86400 * 10 ** 9, -(2 ** 62)):
    try:
        t = Time(n)
        print("Time(%d) accepted: nanosecond_time=%d str=%s hour=%d   <-- not a time of day" % (n, t.nanosecond_time, t, t.hour))
        bad += 1
    except ValueError as e:
        print("Time(%d) refused: %s   ok" % (n, e))
    try:
        print("TimeType.serialize(%d) = %s   <-- not a CQL time" % (n, TimeType.serialize(n, 4).hex()))
        bad += 1
    except Exception as e:
        print("TimeType.serialize(%d) refused: %s   ok" % (n, type(e).__name__))
for n in (86400 * 10 ** 9, 86400 * 10 ** 9 + 1):            # reference: the upper end is guarded
    try:
        Time(n)
        print("Time(%d) accepted   <-- upper end" % n)
        bad += 1
    except ValueError:
        print("Time(%d) refused   ok" % n)
print("DEFECT PRESENT" if bad else "defect not present")
sys.exit(1 if bad else 0)
