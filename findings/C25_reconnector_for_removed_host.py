"""C25 - a host that was removed from the cluster gets a reconnector (and is reconnected to, forever).

Schedule:
  1. 10.0.0.2 stops accepting connections while a pool for it is being created (here: the pool Cluster.on_up asks for
     after a successful reconnection; the same happens with a session's initial pool): run_add_or_renew_pool fails and calls
     signal_connection_failure(..., expect_host_to_be_down=True) -> Cluster.on_down is submitted to the executor;
  2. the node is decommissioned: REMOVED_NODE arrives, Cluster.remove_host / on_remove run first (another worker):
     the host leaves the metadata, its reconnection handler (none yet) is "cancelled";
  3. the queued on_down task runs (cluster.py:1974-2010): nothing in it (nor in _start_reconnector, 1949-1971) looks at
     whether the host is still part of the cluster -> a _HostReconnectionHandler is created and scheduled for a host
     that no longer exists; every attempt opens a connection to the decommissioned address, and when one succeeds
     on_up() re-creates pools for a host the metadata does not know.
  The second route to the same state is _cleanup_failed_on_up_handling -> _start_reconnector when on_remove ran while
  on_up's pool futures were pending.

Run: /venv/bin/python /verif/findings/C25_reconnector_for_removed_host.py      (exit 1 = defect present)
"""
import os
import sys

sys.path.insert(0, os.path.dirname(os.path.dirname(os.path.abspath(__file__))))
from harness.sim.simcluster import SimWorld, FakeNode, make_cluster
from harness import wire

w = SimWorld()
n1 = w.add_node(FakeNode("10.0.0.1", tokens=["10"]))
n2 = w.add_node(FakeNode("10.0.0.2", tokens=["20"]))
cluster = make_cluster(w, ["10.0.0.1"], inline=True)
session = cluster.connect(wait_for_all_pools=True)
cluster.executor.inline = False
h2 = [h for h in cluster.metadata.all_hosts() if h.address == "10.0.0.2"][0]

# the host goes down and its reconnector succeeds: on_up waits for the pool future
pool = session._pools[h2]
conn = pool._connection
conn.socket_error()
pool.return_connection(conn)
cluster.executor.drain()
cluster.scheduler.fire_next()
cluster.executor.run_next()                       # reconnector.run -> on_up -> add_or_renew_pool queued
n2.accepting = False                              # 1. the node stops accepting connections ...
cluster.executor.run_next()                       #    ... pool creation fails -> on_up cleanup starts a reconnector, on_down(expect) queued
print("queued:", cluster.executor.queue)

n1.peers = []                                     # 2. the node leaves the ring
n1.push_event(cluster.control_connection._connection, wire.body_event_topology("REMOVED_NODE", "10.0.0.2", 9042))
cluster.scheduler.fire(next(e for e in cluster.scheduler.tasks if e[2][0].__name__ == "remove_host"))
removal = next(t for t in cluster.executor.queue if t.label == "remove_host")
cluster.executor.run(removal)                     #    remove_host + on_remove run before the queued on_down
print("in metadata:", cluster.metadata.get_host(h2.endpoint), " handler after on_remove:", h2._reconnection_handler)

cluster.executor.drain()                          # 3. the queued on_down(expect_host_to_be_down=True) runs now
handler = h2._reconnection_handler
scheduled = [e for e in cluster.scheduler.tasks if getattr(e[2][0], "__self__", None) is handler]
print("handler after the late on_down:", handler, "cancelled =", getattr(handler, "_cancelled", None), " scheduled attempts:", len(scheduled))
bad = handler is not None and not handler._cancelled and bool(scheduled)
if bad:
    n2.accepting = True
    before = len(w.conns)
    cluster.scheduler.fire(scheduled[0])
    cluster.executor.drain()
    print("connections opened to the removed host by the next attempt:", len(w.conns) - before,
          " pool for it in the session:", h2 in session._pools, " is_up:", h2.is_up)
cluster.shutdown()
sys.exit(1 if bad else 0)
