"""C29 finding - a parameter whose type is a SUBCLASS of a supported type is substituted unencoded (injection).

Signature: Encoder.mapping:exact-type-dispatch:subclass-of-supported-type-falls-to-str
Where    : cassandra/encoder.py:211 (cql_encode_all_types) and :173, :188-189, :197, :204 (elements of sequences, maps,
           lists, sets): the encoder function is looked up with  self.mapping.get(type(val), self.cql_encode_object)

The lookup uses the exact type, so an instance of `class MyStr(str)` (any str subclass: enum.StrEnum members,
numpy.str_, markupsafe.Markup, ORM/validation wrappers ...) is not found and falls to cql_encode_object = str(val):
the text is pasted into the statement WITHOUT quotes or quote escaping.  bind_params("... WHERE k = %s", [MyStr("x' OR
k2 = 'y")]) changes the structure of the statement; a harmless value simply yields a syntax error or an identifier.
The same fall-through happens for subclasses of bytes (python repr b'..'), float ('inf' instead of Infinity), list /
dict / set (python repr: double-quoted "it's" is a quoted IDENTIFIER in CQL, MySet() prints 'MySet()') and
tuple (namedtuple prints 'NT(f0=1)'), at top level and for elements nested in plain collections.

Smallest fix: resolve the encoder along the MRO, once, and use it at the six call sites:
    def _encoder_for(self, val):
        for klass in type(val).__mro__:
            encoder = self.mapping.get(klass)
            if encoder is not None:
                return encoder
        return self.cql_encode_object
    ...  self._encoder_for(v)(v)   instead of   self.mapping.get(type(v), self.cql_encode_object)(v)
(exact entries still win: ValueSequence before list, datetime before date, OrderedDict before dict.)

Run: /venv/bin/python /verif/findings/C29_subclass_parameters_unquoted.py      (exit 1 while the defect is present)
"""
import collections
import os
import sys

sys.path.insert(0, os.environ.get("VERIF_REPO", "/repo"))
from cassandra.encoder import Encoder      # noqa: E402
from cassandra.query import bind_params    # noqa: E402


class MyStr(str):
    pass


class MyBytes(bytes):
    pass


class MyFloat(float):
    pass


class MyDict(dict):
    pass


class MySet(set):
    pass


NT = collections.namedtuple("NT", "f0")
cases = [
    ("str subclass", MyStr("x' OR k2 = 'y"), "x' OR k2 = 'y"),
    ("bytes subclass", MyBytes(b"\x27\xff"), b"\x27\xff"),
    ("float subclass", MyFloat("inf"), float("inf")),
    ("dict subclass", MyDict({"it's": 1}), {"it's": 1}),
    ("set subclass", MySet(), set()),
    ("namedtuple", NT(1), (1,)),
    ("str subclass inside a list", [MyStr("a'b")], ["a'b"]),
]
bad = 0
for what, sub, base in cases:
    q = "SELECT * FROM t WHERE k = %s"
    got_sub = bind_params(q, [sub], Encoder())
    got_base = bind_params(q, [base], Encoder())
    same = got_sub == got_base
    bad += not same
    print("%-28s %s\n%-28s %s   <- same value as the base type%s" % (what, got_sub, "", got_base, "" if same else "  DIFFERENT"))
    named = bind_params("SELECT * FROM t WHERE k = %(a)s", {"a": sub}, Encoder())
    assert named == got_sub
if bad:
    print("FAIL: %d values were not encoded as CQL literals" % bad)
    sys.exit(1)
print("ok")
