"""C35 finding: Model.objects(...).update(column=None) deletes the column under its ATTRIBUTE name, not under the
name it is stored with (db_field).

cassandra/cqlengine/query.py, ModelQuerySet.update (1298-1332):
        for name, val in values.items():
            col_name, col_op = self._parse_filter_arg(name)
            col = self.model._columns.get(col_name)
            ...
            if val is None:
                nulled_columns.add(col_name)            # <-- attribute name
                continue
        ...
            ds = DeleteStatement(self.column_family_name, fields=nulled_columns, ...)
For a column declared as  a = columns.Integer(db_field="aa")  the statement is  DELETE "a" FROM ...  : Cassandra
answers "Undefined column name a" (or, worse, deletes another column that happens to be stored as "a").  The
documented meaning ("# sets name to null  User.objects(id=1).update(name=None)") is not delivered.
Instance.update(a=None) is not affected (DMLQuery uses col.db_field_name).

Smallest fix (query.py line 1318):          nulled_columns.add(col.db_field_name)

Run: /venv/bin/python /verif/findings/C35_queryset_update_none_uses_attribute_name.py   (exit 1 while present)
"""
from _c35_env import harness, sent, row, run, finish

h, R = harness()
R.create(k=1, ck=1, a=1, b=1)
sent(h)
print("R.objects(k=1, ck=1).update(a=None)        # a is stored as \"aa\"")
err = run(h, lambda: R.objects(k=1, ck=1).update(a=None))
stmts = sent(h)
print("    Cassandra:", err or "ok")
print("    row     :", row(h))
finish(any('DELETE "a"' in t for t, _ in stmts) or row(h).get("aa") is not None)
