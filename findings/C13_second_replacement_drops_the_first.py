"""C12/C13 - a second _replace of the same overloaded connection drops the connection the first one published.

cassandra/pool.py 422-432: borrow_connection reads self._connection without the lock (conn = self._get_connection()),
finds its orphan threshold reached and only then takes the pool lock, where it submits _replace(conn) whenever
_is_replacing is clear.  Borrower X reads connection 1 and is pre-empted before the lock; borrower Y triggers the
replacement, _replace(1) runs to completion (_connection = 2, _is_replacing = False); X now takes the lock and submits
_replace(1) AGAIN: a third connection is opened and stored over connection 2, which is referenced by nobody any more -
never trashed, never closed, not even by shutdown().  (Owner: C12 "every connection the pool ever opened is closed";
C13's replacement guarantees and C45 are affected through it.)

Schedule: request 1 times out (orphan threshold 1) -> request 2 reads connection 1, parks before the pool lock ->
request 3 borrows, submits _replace(1); the task runs: connection 2 published, 1 retired -> request 2 takes the lock:
_replace(1) submitted again; it runs: connection 3 published -> shutdown().
Signature: HostConnection.borrow_connection:replace-submitted-for-a-connection-that-is-no-longer-current
"""
import os
import sys

sys.path.insert(0, os.path.dirname(os.path.abspath(__file__)))
from _run_pool import A, run, rp        # noqa: E402
import _run_pool                         # noqa: E402

_run_pool.K = {"MaxId": 2, "Threshold": 1, "Reqs": {1, 2, 3}, "NConns": 3, "MaxFails": 0, "MaxConnFails": 0}

run(__doc__.splitlines()[0], [
    A("BorrowStart", 1), A("BorrowTake", 1), A("Send", 1), A("Timeout", 1), A("RespondLate", 1, c=1),
    A("BorrowStart", 2),                                   # reads connection 1 (threshold reached), parks before the pool lock
    A("BorrowStart", 3), A("BorrowMark", 3),               # submits _replace(1)
    A("ReplaceCheck"), A("ReplaceOpen", f=True), A("ReplacePublish"), A("ReplaceRetire"),
    A("BorrowMark", 2),                                    # _is_replacing is clear again: _replace(1) submitted a second time
    A("ReplaceCheck"), A("ReplaceOpen", f=True), A("ReplacePublish"), A("ReplaceRetire"),
    A("BorrowTake", 2), A("Send", 2), A("Respond", 2, c=3),
    A("BorrowTake", 3), A("Send", 3), A("Respond", 3, c=3),
    A("ShutdownMark"), A("ShutdownCloseCur"), A("ShutdownCloseTrash"),
], expect_open=[2])
