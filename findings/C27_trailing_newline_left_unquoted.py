r"""C27 finding - a name that ends in a newline is left unquoted.

Signature: is_valid_name:trailing-newline-left-unquoted
Where    : cassandra/metadata.py:1583   valid_cql3_word_re = re.compile(r'^[a-z][0-9a-z_]*$')
           (used by is_valid_name -> maybe_escape_name -> protect_name)

In Python's re, `$` also matches just before a trailing newline, so 'abc\n' "matches" [a-z][0-9a-z_]* and
protect_name / maybe_escape_name return it bare.  CQL's lexer reads the bare characters as the identifier `abc`
followed by white space: the generated statement (schema export, USE <keyspace>, index/column lists) names a
different table / column than the one the metadata describes.  Quoted ("abc\n") it reads back unchanged.

Smallest fix: end the pattern with \Z (or use fullmatch):
    valid_cql3_word_re = re.compile(r'^[a-z][0-9a-z_]*\Z')

Run: /venv/bin/python /verif/findings/C27_trailing_newline_left_unquoted.py      (exit 1 while the defect is present)
"""
import os
import sys

sys.path.insert(0, os.environ.get("VERIF_REPO", "/repo"))
from cassandra.metadata import protect_name, maybe_escape_name, escape_name   # noqa: E402

bad = 0
for name in ("abc\n", "a\n", "t_1\n"):
    for fn in (protect_name, maybe_escape_name):
        out = fn(name)
        quoted = out.startswith('"') and out.endswith('"')
        print("%s(%r) -> %r   %s" % (fn.__name__, name, out, "quoted" if quoted else
                                     "BARE: CQL reads the identifier %r, not %r" % (out.strip().lower(), name)))
        bad += not quoted
print("escape_name(%r) -> %r (reads back unchanged)" % ("abc\n", escape_name("abc\n")))
if bad:
    print("FAIL: %d names ending in a newline were left unquoted" % bad)
    sys.exit(1)
print("ok")
