"""C07: the compiled DesDecimalType decodes a decimal whose scale is -2^31 with the wrong sign of the exponent.

A decimal is [int] scale ++ varint unscaled and means unscaled * 10^-scale.  The pure-Python DecimalType.deserialize
negates the scale as a Python integer: scale -2^31 -> Decimal('1E+2147483648').  The compiled path
(deserializers.pyx, DesDecimalType.deserialize: `cdef int32_t scale = unpack_num[int32_t](buf)` ...
`Decimal('%de%d' % (unscaled, -scale))`) negates an int32 in C: -(-2^31) wraps back to -2^31, so the same cell decodes
to Decimal('1E-2147483648') - a different number (and the two builds differ).

Needs the compiled build of the current tree: reuses /verif/.cache/c07/<hash>/ or builds it (a few minutes).
Run: /venv/bin/python /verif/findings/C07_compiled_decimal_scale_int32_min.py      (exit 1 while the defect is present)
"""
import os
import subprocess
import sys

VERIF = os.path.dirname(os.path.dirname(os.path.abspath(__file__)))
sys.path.insert(0, VERIF)

CHILD = r'''
import sys
sys.path.insert(0, sys.argv[1]); sys.path.append(sys.argv[2])
from harness import wire
import cassandra.protocol as proto, cassandra.deserializers as des
print("build:", des.__file__)
bad = 0
for cell in ("8000000001", "80000001" "01", "7fffffff" "01"):
    body = wire.body_rows([("c", wire.T_DECIMAL)], [[bytes.fromhex(cell)]])
    pure = proto._ProtocolHandler.decode_message(4, {}, 1, 0, 0x08, body, None, None).parsed_rows
    print("cell %s  pure-Python row decoder: %r" % (cell, pure))
    for h in (proto.ProtocolHandler, proto.LazyProtocolHandler):
        rows = list(h.decode_message(4, {}, 1, 0, 0x08, body, None, None).parsed_rows)
        same = [r[0].as_tuple() for r in rows] == [r[0].as_tuple() for r in pure]
        print("    %-12s: %r  %s" % (type(h.col_parser).__name__, rows, "same" if same else "DIFFERENT"))
        bad += not same
print("FAILS: compiled and pure-Python builds differ" if bad else "holds")
sys.exit(1 if bad else 0)
'''


def main():
    from harness import tlc
    from harness.ctx import Ctx
    from checks import c07
    with tlc.Scratch("verif_C07_repro") as scratch:
        build_dir, info = c07.build_compiled(Ctx("C07", "quick", 0, scratch))
        print("compiled build: %s (%s)" % (build_dir, info.get("cache")))
        env = dict(os.environ)
        env.pop("CASS_DRIVER_NO_EXTENSIONS", None)
        return subprocess.call([sys.executable, "-c", CHILD, build_dir, VERIF], cwd=scratch, env=env)


if __name__ == "__main__":
    sys.exit(main())
