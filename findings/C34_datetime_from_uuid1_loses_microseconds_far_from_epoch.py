"""C34 finding: datetime_from_uuid1 does not return the instant of a time-UUID to the microsecond once the instant is more
than 2^55 x 100 ns from 1970 (after 2084-03-02, or before 1855-10-31) - well inside the 60-bit range of a version-1 UUID
(1582-10-15 .. 5236-03-31).  About 7 % of the instants of the year 2085 come back one microsecond off, half of them in 2250.

cassandra/util.py
    def unix_time_from_uuid1(uuid_arg):   return (uuid_arg.time - 0x01B21DD213814000) / 1e7         # a float of seconds
    def datetime_from_uuid1(uuid_arg):    return datetime_from_timestamp(unix_time_from_uuid1(uuid_arg))
The integer count of 100-ns intervals is converted to a double (exact only below 2^53; spacing 8 = 0.8 us from 2^55 on),
divided by 1e7 into a double of seconds (spacing 0.48 us from 2^31 s on, 0.95 us from 2^32 s) and rounded to microseconds
by timedelta.  unix_time_from_uuid1 documents float precision ("the same precision as time.time()"); datetime_from_uuid1
returns a datetime - which has microsecond resolution over the whole range - but inherits the float: the UUID of
2106-02-07 00:00:00.000002 decodes to ...000001, the one of 2300-01-01 00:00:00.000001 to ...000002, the last representable
instant 5236-03-31 21:21:00.684697 to ...684692.

Smallest fix (cassandra/util.py):
    def datetime_from_uuid1(uuid_arg):
        return DATETIME_EPOC + datetime.timedelta(microseconds=(uuid_arg.time - 0x01B21DD213814000) // 10)

Run: /venv/bin/python /verif/findings/C34_datetime_from_uuid1_loses_microseconds_far_from_epoch.py   (exit 1 while present)
"""
import datetime
import os
import sys
import uuid

sys.path.insert(0, os.environ.get("VERIF_REPO", "/repo"))
os.environ.setdefault("CASS_DRIVER_NO_EXTENSIONS", "1")
from cassandra.util import datetime_from_uuid1          # noqa: E402

EPOCH = datetime.datetime(1970, 1, 1)
OFFSET = 0x01B21DD213814000


def v1(count):          # a version-1 UUID with this 60-bit count, built from the RFC 4122 layout (not by the driver)
    return uuid.UUID(fields=(count & 0xFFFFFFFF, (count >> 32) & 0xFFFF, ((count >> 48) & 0x0FFF) | 0x1000, 0x80, 0, 0))


bad = 0
for dt in (datetime.datetime(2026, 9, 22, 12, 0, 0, 1), datetime.datetime(2084, 3, 2, 0, 0, 0, 7), datetime.datetime(2106, 2, 7, 0, 0, 0, 2),
           datetime.datetime(2242, 3, 17, 0, 0, 0, 1), datetime.datetime(2300, 1, 1, 0, 0, 0, 1),
           datetime.datetime(5236, 3, 31, 21, 21, 0, 684697), datetime.datetime(1600, 2, 29, 0, 0, 0, 1)):
    us = (dt - EPOCH) // datetime.timedelta(microseconds=1)
    u = v1(10 * us + OFFSET)
    got = datetime_from_uuid1(u)
    ok = got == dt
    bad += not ok
    print("%s (uuid.time = instant exactly) -> datetime_from_uuid1 = %s%s" % (u, got, "" if ok else "   <-- the instant is %s" % dt))
print("DEFECT PRESENT" if bad else "defect not present")
sys.exit(1 if bad else 0)
