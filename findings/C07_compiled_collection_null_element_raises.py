"""C07: the compiled (Cython) deserializers cannot decode a null element inside a list / set / map; pure Python can.

A collection element in protocol v3+ is a [bytes]: a negative length means null.  The pure-Python
_SimpleParameterizedType.deserialize_safe / MapType.deserialize_safe read it as None (PYTHON-1123, "Support NULL in
collection deserializer").  The compiled path - deserializers.pyx subelem(), used by DesListType / DesSetType /
DesMapType - passes the negative length to slice_buffer(), which raises ValueError("Length must be positive"); the row
parser turns that into DriverException and the whole result set is lost.

Needs the compiled build of the current tree: reuses /verif/.cache/c07/<hash>/ or builds it (a few minutes).
Run: /venv/bin/python /verif/findings/C07_compiled_collection_null_element_raises.py
"""
import os
import subprocess
import sys

VERIF = os.path.dirname(os.path.dirname(os.path.abspath(__file__)))
sys.path.insert(0, VERIF)

CHILD = r'''
import sys
sys.path.insert(0, sys.argv[1]); sys.path.append(sys.argv[2])
from harness import wire
import cassandra.protocol as proto, cassandra.deserializers as des
print("build:", des.__file__)
body = wire.body_rows([("c", ("list", wire.T_INT))], [[bytes.fromhex("00000002" "ffffffff" "00000004" "0000002a")]])
pure = proto._ProtocolHandler.decode_message(4, {}, 1, 0, 0x08, body, None, None).parsed_rows
print("pure-Python row decoder :", pure)
bad = 0
for h in (proto.ProtocolHandler, proto.LazyProtocolHandler):
    try:
        rows = list(h.decode_message(4, {}, 1, 0, 0x08, body, None, None).parsed_rows)
        print("%-24s: %r" % (type(h.col_parser).__name__, rows))
        bad += rows != pure
    except Exception as ex:
        print("%-24s: raised %s: %s" % (type(h.col_parser).__name__, type(ex).__name__, ex))
        bad += 1
print("FAILS: compiled and pure-Python builds differ" if bad else "holds")
sys.exit(1 if bad else 0)
'''


def main():
    from harness import tlc
    from harness.ctx import Ctx
    from checks import c07
    with tlc.Scratch("verif_C07_repro") as scratch:
        build_dir, info = c07.build_compiled(Ctx("C07", "quick", 0, scratch))
        print("compiled build: %s (%s)" % (build_dir, info.get("cache")))
        env = dict(os.environ)
        env.pop("CASS_DRIVER_NO_EXTENSIONS", None)
        return subprocess.call([sys.executable, "-c", CHILD, build_dir, VERIF], cwd=scratch, env=env)


if __name__ == "__main__":
    sys.exit(main())
