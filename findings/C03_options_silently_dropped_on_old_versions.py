"""C03 finding: options a protocol version cannot carry are dropped silently instead of being refused.

(a) BatchMessage.send_body (cassandra/protocol.py:940-982) writes <flags>[<serial_consistency>][<timestamp>][<keyspace>]
    only `if protocol_version >= 3` and has no else-branch: on v2 (BATCH = <type><n><query_i>...<consistency>) a requested
    serial consistency level or keyspace simply disappears.  The session layer passes Statement.serial_consistency_level
    through for a BatchStatement on v2 (Session._create_response_future), so a conditional batch asked to run at
    LOCAL_SERIAL is executed at the server default SERIAL without any error.  (QueryMessage / ExecuteMessage refuse the
    same request on v1 with UnsupportedOperation.)
(b) ExecuteMessage._write_query_params (cassandra/protocol.py:650-666), v1 branch: serial consistency and paging are
    refused, continuous_paging_options is not looked at - QueryMessage refuses it on the same version.

Run: /venv/bin/python /verif/findings/C03_options_silently_dropped_on_old_versions.py     (exit 1 = defect present)
Smallest fix: (a) in BatchMessage.send_body add
        else:
            if self.serial_consistency_level: raise UnsupportedOperation("Serial consistency levels on batches require protocol version 3 or higher ...")
            if self.keyspace is not None:     raise UnsupportedOperation("Keyspaces may only be set on queries with protocol version 5 or higher ...")
    (b) in the v1 branch of ExecuteMessage._write_query_params add
            if self.continuous_paging_options: raise UnsupportedOperation("Continuous paging may only be used with protocol version ProtocolVersion.DSE_V1 or higher ...")
"""
import os
import sys
import types

sys.path.insert(0, os.environ.get("VERIF_REPO", "/repo"))
os.environ.setdefault("CASS_DRIVER_NO_EXTENSIONS", "1")
from cassandra import UnsupportedOperation  # noqa: E402
from cassandra.protocol import BatchMessage, ExecuteMessage, QueryMessage, ProtocolHandler  # noqa: E402
from cassandra.query import BatchType  # noqa: E402


def outcome(msg, pv):
    try:
        return "encoded " + ProtocolHandler.encode_message(msg, 1, pv, None, False).hex()
    except UnsupportedOperation as ex:
        return "refused (%s...)" % str(ex)[:50]


cpo = types.SimpleNamespace(page_unit=2, max_pages=0, max_pages_per_second=0, max_queue_size=4, page_unit_bytes=lambda: False)
cases = [
    ("BATCH v2, serial_consistency_level=LOCAL_SERIAL", BatchMessage(BatchType.LOGGED, [(False, "q", [])], 1, serial_consistency_level=9), 2),
    ("BATCH v2, keyspace='ks'", BatchMessage(BatchType.LOGGED, [(False, "q", [])], 1, keyspace="ks"), 2),
    ("EXECUTE v1, continuous paging", ExecuteMessage(b"\x01\x02", [], 1, continuous_paging_options=cpo), 1),
]
reference = [
    ("QUERY v1, serial consistency (reference: refused)", QueryMessage("q", 1, serial_consistency_level=9), 1),
    ("QUERY v1, continuous paging  (reference: refused)", QueryMessage("q", 1, continuous_paging_options=cpo), 1),
    ("BATCH v4, keyspace='ks'      (reference: refused)", BatchMessage(BatchType.LOGGED, [(False, "q", [])], 1, keyspace="ks"), 4),
]
bad = 0
for name, msg, pv in cases + reference:
    o = outcome(msg, pv)
    print("%-52s -> %s" % (name, o))
    if (name, msg, pv) in cases and o.startswith("encoded"):
        bad += 1
print("DEFECT: %d requests encoded with the option silently dropped" % bad if bad else "ok: all refused")
sys.exit(1 if bad else 0)
