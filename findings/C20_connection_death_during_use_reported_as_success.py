"""C20 - a connection that dies while the fanned-out USE is outstanding is reported as success.

cassandra/connection.py 1574-1576: set_keyspace_async's process_result does
`callback(self, self.defunct(ConnectionException(...)))`.  defunct() returns the exception only when it actually
defuncts the connection; for a connection that is already defunct/closed (its requests are being errored with
ConnectionShutdown) it returns None, so the pool's callback receives "no error".

Configuration: two pools; pool 2's connection gets a socket error while its USE is outstanding, pool 1 answers ok.
Signature: Connection.set_keyspace_async:connection-death-during-USE-reported-as-success
"""
from _run_keyspace import run

run(__doc__.splitlines()[0], {1: "conn", 2: "conn"}, {1: "ok", 2: "died"}, [2, 1],
    lambda h, p: "selecting the keyspace failed on pool 2 (connection died) but the USE future reports success" if p["result"] == "ok" else None)
