"""C25 - with two sessions, a host stays marked up while one session has lost its pool for good.

  1. the connection of session B's pool to 10.0.0.2 breaks; HostConnection.return_connection (pool.py:460-477) signals the
     failure, the host is convicted (is_down = True) and the pool shuts itself down; Cluster.on_down is submitted;
  2. Cluster.on_down (cluster.py:1984-1994) finds session A still connected to the host and, because of
     _discount_down_events, returns without doing anything.
  Result at quiescence: host.is_up is True, nothing is queued or scheduled, and session B's pool for the host is shut
  down; nothing will re-create it (update_created_pools only runs on later up/down/add/remove events of some host), so
  every request of session B skips the host ("Pool is shutdown").

Run: /venv/bin/python /verif/findings/C25_discounted_down_leaves_session_without_pool.py      (exit 1 = defect present)
"""
import os
import sys

sys.path.insert(0, os.path.dirname(os.path.dirname(os.path.abspath(__file__))))
from harness.sim.simcluster import SimWorld, FakeNode, make_cluster

w = SimWorld()
w.add_node(FakeNode("10.0.0.1", tokens=["10"]))
w.add_node(FakeNode("10.0.0.2", tokens=["20"]))
cluster = make_cluster(w, ["10.0.0.1"], inline=True)
a = cluster.connect(wait_for_all_pools=True)
b = cluster.connect(wait_for_all_pools=True)
cluster.executor.inline = False
h2 = [h for h in cluster.metadata.all_hosts() if h.address == "10.0.0.2"][0]

pool = b._pools[h2]
conn = pool._connection
conn.socket_error()                     # one connection breaks
pool.return_connection(conn)            # heartbeat hands it back
cluster.executor.drain()                # on_down runs and discounts the event
cluster.scheduler.fire_due()
cluster.executor.drain()

state = {"host.is_up": h2.is_up, "reconnector": h2._reconnection_handler,
         "session A pool shut down": a._pools[h2].is_shutdown,
         "session B pool": "shut down" if (h2 in b._pools and b._pools[h2].is_shutdown) else b._pools.get(h2),
         "executor queue": list(cluster.executor.queue), "scheduler": list(cluster.scheduler.tasks)}
for k, v in state.items():
    print("%-26s %s" % (k, v))
bad = h2.is_up is True and (h2 not in b._pools or b._pools[h2].is_shutdown)
cluster.shutdown()
sys.exit(1 if bad else 0)
