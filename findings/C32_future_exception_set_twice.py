"""C32: execute_concurrent_async sets the exception on a future that _put_result has already completed.

cassandra/concurrent.py:205-211

    try:
        executor.execute(concurrency=concurrency, fail_fast=raise_on_first_error)
    except Exception as e:
        future.set_exception(e)                 # no "already done" test

With raise_on_first_error=True the failing _put_result already did future.set_exception(self._exception) when it was
the last outstanding statement; execute() then re-raises the same exception from _results(), the except clause sets
it a second time -> concurrent.futures.InvalidStateError propagates to the caller and no future is returned.
(With statements still in flight the order is reversed: execute_concurrent_async sets the exception first and the
last _put_result raises InvalidStateError on the event-loop thread.)

Smallest fix:      except Exception as e:
                       with executor._condition:
                           if not future.done():
                               future.set_exception(e)
(together with the `not self.future.done()` test in ConcurrentExecutorFutureResults._put_result).

Run: /venv/bin/python /verif/findings/C32_future_exception_set_twice.py   (exit 1 while the defect is present)
"""
import sys

from _c32_fake import Boom, Session, concurrent

try:
    f = concurrent.execute_concurrent_async(Session({1: "raise"}), [(1, None)], concurrency=1, raise_on_first_error=True)
except Exception as ex:                        # noqa
    print("FAIL: execute_concurrent_async raised %s: %s (expected a future that fails with the statement's error)"
          % (type(ex).__name__, ex))
    sys.exit(1)
exc = f.exception(timeout=1)
print("future failed with", type(exc).__name__)
sys.exit(0 if isinstance(exc, Boom) else 1)
