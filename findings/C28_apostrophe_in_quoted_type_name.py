r"""C28 finding - a CQL type string with an apostrophe inside a quoted identifier cannot be parsed.

Signature: cqltype_to_python:apostrophe-in-quoted-name:raises
Where    : cassandra/cqltypes.py:129-138 (cqltype_to_python), :155 (python_to_cqltype); reached from strip_frozen
           (cqltypes.py:176-185), i.e. from Function/Aggregate metadata export (metadata.py:1030-1032, :1146)

A user type may be named  "it's"  (a quoted CQL identifier takes any character; only the double quote is doubled).
cqltype_to_python turns the type string into Python source and evaluates it with ast.literal_eval; the quoted
identifier is pasted between single quotes ("'{}'".format(t)), so an apostrophe ends the Python string early:
    cqltype_to_python('frozen<"it\'s">')   -> SyntaxError: unterminated string literal
    strip_frozen('list<frozen<"it\'s">>')  -> SyntaxError (same function)
"Parsing a CQL type string and printing it back is the identity" fails for every type that mentions such a name.

Smallest fix (two lines): let Python quote the token, and undo that quoting when printing
    cqltypes.py:133   (r'".*?"', lambda s, t: repr(t)),
    cqltypes.py:155   (r'\'".*?"\'', lambda s, t: t[1:-1].replace("\\'", "'")),
(with it: frozen<"it's"> -> ['frozen', ['"it\'s"']] -> frozen<"it's">, strip_frozen -> "it's"; names with spaces,
dashes and doubled double quotes keep working.)

Run: /venv/bin/python /verif/findings/C28_apostrophe_in_quoted_type_name.py      (exit 1 while the defect is present)
"""
import os
import sys

sys.path.insert(0, os.environ.get("VERIF_REPO", "/repo"))
from cassandra.cqltypes import cqltype_to_python, python_to_cqltype, strip_frozen   # noqa: E402

bad = 0
for s, stripped in (('frozen<"it\'s">', '"it\'s"'), ('list<frozen<"it\'s">>', 'list<"it\'s">'), ('frozen<"Big Type">', '"Big Type"')):
    try:
        back = python_to_cqltype(cqltype_to_python(s))
        sf = strip_frozen(s)
        ok = back.replace(" ", "") == s.replace(" ", "") and sf.replace(" ", "") == stripped.replace(" ", "")
        print("%-24s -> %r, strip_frozen %r  %s" % (s, back, sf, "ok" if ok else "DIFFERENT"))
        bad += not ok
    except Exception as ex:
        bad += 1
        print("%-24s -> raised %s: %s" % (s, type(ex).__name__, ex))
if bad:
    print("FAIL")
    sys.exit(1)
print("ok")
