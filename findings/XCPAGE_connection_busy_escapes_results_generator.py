#!/venv/bin/python
"""XCPAGE - ConnectionBusy raised while asking for more pages escapes from the results() generator: a page is lost, the
iteration is dead, the session stays registered and its stream id is never given back; cancel() fails the same way
before it stops the consumer.

Found by TLC on spec/ContinuousPaging.tla (invariant NoOrphanSession with Busy = TRUE; shortest counterexample:
NodeSendPage(1), Deliver, NodeSendPage(2), Deliver, Call, SocketBusy, Enter) and reproduced on the real objects by the
binding (harness/replay/cpaging.py).

Connection.send_msg raises ConnectionBusy while the reactor's write buffer is full (_socket_writable = False, set by the
libev reactor on EAGAIN until its deque drains).  ContinuousPagingSession.update_next_pages only catches
ConnectionShutdown:
  * results(): `names, rows, err = self._page_queue.pop()` has already happened, `self._state.num_pages_requested +=
    num_next_pages` too, and get_request_id() has taken a stream id for the REVISE_REQUEST.  ConnectionBusy propagates out
    of the generator (the `finally` only releases the condition): the rows of the popped page are never handed out, the
    generator is finished, the application sees a transient socket condition as a failed query.
  * nobody stops or cancels the session: it stays in Connection._continuous_paging_sessions; the node goes on until its
    window is used up and then waits for a "more pages" request that will never come: the paging stream id is never
    recycled (neither is the id taken for the REVISE_REQUEST that was not sent), the queued pages stay referenced.
  * cancel(): the same ConnectionBusy escapes from `self.connection.send_msg(...)` BEFORE `self._stop = True`, so a cancel
    issued at that moment neither reaches the node nor stops the consumer.

Smallest fix (cassandra/connection.py, ContinuousPagingSession): treat ConnectionBusy in update_next_pages like a failed
back-pressure update that can be retried, and never leave cancel() half done, e.g.
    def update_next_pages(self, num_next_pages):
        try:
            with self.connection.lock:
                request_id = self.connection.get_request_id()
                try:
                    self.connection.send_msg(ReviseRequestMessage(...), request_id, self._on_backpressure_response)
                except ConnectionBusy:
                    self.connection.request_ids.append(request_id)     # not sent: give the id back, ask again at the next pop
                    return
            self._state.num_pages_requested += num_next_pages          # only once the request is on its way
        except ConnectionShutdown as ex: ...
    (the wait loop in results() already wakes every 5 s: calling maybe_request_more() there when the queue is empty
    covers the case of no further pop) and in cancel(): `except (ConnectionShutdown, ConnectionBusy)` - or set _stop first.

Run: /venv/bin/python /verif/findings/XCPAGE_connection_busy_escapes_results_generator.py   (exit 1 while present)
"""
import os
import sys

sys.path.insert(0, os.path.dirname(os.path.dirname(os.path.abspath(__file__))))
from harness.sim.simcluster import SimWorld, FakeNode, make_cluster      # noqa: E402
from harness import wire                                                # noqa: E402
from cassandra.cluster import ExecutionProfile, EXEC_PROFILE_DEFAULT, ContinuousPagingOptions   # noqa: E402
from cassandra.connection import ConnectionBusy                          # noqa: E402
from cassandra.policies import RoundRobinPolicy, FallthroughRetryPolicy  # noqa: E402
from cassandra.query import SimpleStatement                              # noqa: E402

DSE_V2 = 0x42
world = SimWorld()
node = world.add_node(FakeNode("10.0.0.1", versions=(3, 4, 0x41, DSE_V2)))
prof = ExecutionProfile(load_balancing_policy=RoundRobinPolicy(), retry_policy=FallthroughRetryPolicy(), request_timeout=10.0)
cp = ExecutionProfile(load_balancing_policy=RoundRobinPolicy(), retry_policy=FallthroughRetryPolicy(), request_timeout=10.0,
                      continuous_paging_options=ContinuousPagingOptions(max_queue_size=2))
cluster = make_cluster(world, ["10.0.0.1"], protocol_version=DSE_V2, execution_profiles={EXEC_PROFILE_DEFAULT: prof, "cp": cp})
session = cluster.connect()
cluster.executor.inline = False
fut = session.execute_async(SimpleStatement("SELECT * FROM t"), execution_profile="cp")
p = [x for x in node.pending if x.req["op"] == "QUERY"][0]
conn, sid = p.conn, p.frame.stream
for seq in (1, 2):                              # the node uses its whole window (max_queue_size = 2); more pages exist
    node.send(conn, p.frame.version, sid, wire.RESULT,
              wire.body_rows([("v", wire.T_INT)], [[wire.w_int(seq * 10 + 1)]], cp_seq=seq, cp_last=False))
rs = fut.result()
rows = iter(rs)
free_before = len(conn.request_ids)
conn._socket_writable = False                   # the reactor's write buffer is full for a moment
got, outcome = [], None
try:
    got.append(tuple(next(rows)))
except ConnectionBusy as ex:
    outcome = "ConnectionBusy: %s" % ex
conn._socket_writable = True                    # ... and drains again
print("first next() with an unwritable socket: rows handed out = %s, raised = %s" % (got, outcome))
after = None
try:
    after = tuple(next(rows))
except StopIteration:
    after = "StopIteration"
sess = fut._continuous_paging_session
print("next() afterwards: %s ; pages still queued in the session: %d ; session registered on the connection: %s"
      % (after, len(sess._page_queue), conn._continuous_paging_sessions.get(sid) is sess))
print("num_pages_requested = %d (the node was never told), free stream ids: %d before, %d after (one taken for a request "
      "that was not sent)" % (sess._state.num_pages_requested, free_before, len(conn.request_ids)))
revise = [x for x in node.pending if x.req["op"] == "REVISE_REQUEST"]
print("REVISE_REQUESTs the node received: %d (no 'more pages', no cancel): the stream is stuck" % len(revise))

# cancel() under the same condition
conn._socket_writable = False
cancel_outcome = "returned"
try:
    rs.cancel_continuous_paging()
except ConnectionBusy:
    cancel_outcome = "raised ConnectionBusy"
conn._socket_writable = True
print("cancel() with an unwritable socket: %s ; session._stop = %s" % (cancel_outcome, sess._stop))

bad = outcome is not None and conn._continuous_paging_sessions.get(sid) is sess and not revise
cluster.shutdown()
print("XCPAGE ConnectionBusy in maybe_request_more: %s" % ("VIOLATED (page 1 lost, generator dead, session orphaned)" if bad else "holds"))
sys.exit(1 if bad else 0)
