"""C04 finding: AUTH_SUCCESS with a token that is not valid UTF-8 cannot be decoded.

native_protocol_v2..v5.spec 4.2.8 AUTH_SUCCESS: "The body of this message is a single [bytes] token holding final
information from the server that the client may require to finish the authentication process. What that token contains
and whether it can be null depends on the actual authenticator used."  AuthSuccessMessage.recv_body
(cassandra/protocol.py:485-487) reads it with read_longstring(), i.e. decodes the bytes as UTF-8 text, whereas
AuthChallengeMessage (same [bytes] type) uses read_binary_longstring().  A binary final token (SASL mechanisms with a
server signature / GSSAPI wrap token) raises UnicodeDecodeError inside decode_message, which the connection treats as a
decoding error and becomes defunct - authentication fails although the server accepted it.

Run: /venv/bin/python /verif/findings/C04_auth_success_token_decoded_as_utf8.py     (exit 1 = defect present)
Smallest fix: AuthSuccessMessage.recv_body: `return cls(read_binary_longstring(f))`
(Authenticator.on_authenticate_success then receives bytes, like evaluate_challenge already does).
"""
import os
import struct
import sys

sys.path.insert(0, os.environ.get("VERIF_REPO", "/repo"))
os.environ.setdefault("CASS_DRIVER_NO_EXTENSIONS", "1")
from cassandra.protocol import ProtocolHandler  # noqa: E402

token = b"\x00\xff\x80\x01"
body = struct.pack(">i", len(token)) + token
bad = 0
for opcode, name in ((0x0E, "AUTH_CHALLENGE"), (0x10, "AUTH_SUCCESS")):
    try:
        msg = ProtocolHandler.decode_message(4, {}, 1, 0, opcode, body, None, None)
        print("%-14s decoded: %r" % (name, getattr(msg, "challenge", None) if opcode == 0x0E else msg.token))
    except Exception as ex:
        print("%-14s decode_message raised %s: %s" % (name, type(ex).__name__, ex))
        bad += 1
print("DEFECT: a well-formed AUTH_SUCCESS body is not decodable" if bad else "ok")
sys.exit(1 if bad else 0)
