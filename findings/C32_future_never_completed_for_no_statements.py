"""C32: execute_concurrent_async(session, []) returns a future that never completes.

execute_concurrent() special-cases the empty sequence (`return []`); execute_concurrent_async() does not: the
executor starts nothing, no _put_result ever runs, and _put_result is the only place that completes the future
(cassandra/concurrent.py:175-211).  `session.execute_concurrent_async([]).result()` blocks forever.

Smallest fix (execute() only returns once every started statement has finished, so this is safe):
        try:
            results = executor.execute(concurrency=concurrency, fail_fast=raise_on_first_error)
            with executor._condition:
                if not future.done():
                    future.set_result(results)
        except Exception as e: ...

Run: /venv/bin/python /verif/findings/C32_future_never_completed_for_no_statements.py   (exit 1 while the defect is present)
"""
import sys

from _c32_fake import Session, concurrent

f = concurrent.execute_concurrent_async(Session({}), [], concurrency=1)
print("execute_concurrent([])               ->", concurrent.execute_concurrent(Session({}), []))
print("execute_concurrent_async([]).done()  ->", f.done())
if not f.done():
    print("FAIL: nothing will ever complete this future")
    sys.exit(1)
print("result:", f.result())
