"""XTIMER - TimerManager.service_timeouts serves a timer whose callback raised again (and again).

cassandra/connection.py TimerManager.service_timeouts:

        while queue:
            try:
                timer = queue[0][1]
                if timer.finish(now):
                    heappop(queue)
                else:
                    return timer.end
            except Exception:
                log.exception("Exception while servicing timeout callback: ")

Timer.finish calls the callback; when the callback raises, the exception skips heappop, is logged, and the
`while queue` loop looks at the same head again: finish() runs the callback a second time, and so on for as long
as it raises.  A callback that always raises keeps the reactor's loop thread inside service_timeouts for ever
(100% CPU, one log record per turn, no socket is served any more, no other timer fires).  A callback that raises
once is simply run twice: e.g. ResponseFuture._on_timeout with a user errback that raises (errbacks run inside
_set_final_exception, not isolated) is executed a second time.

The `except Exception: log` shows the intent (isolate callback failures); spec/Timers.tla states it as
PopOnRaise = TRUE and the invariant FiresOnce; the pinned code is the named deviation PopOnRaise = FALSE.

History: one timer, timeout 0, callback raising on its first two invocations; one service_timeouts() call.
Expected: 1 invocation.  Signature: service_timeouts:raising-callback-not-popped

Smallest fix: finish the timer whatever its callback does, e.g.

                timer = queue[0][1]
                try:
                    done = timer.finish(now)
                except Exception:
                    log.exception("Exception while servicing timeout callback: ")
                    done = True
                if done:
                    heappop(queue)
                else:
                    return timer.end

Exit status 1 while the defect is present.
"""
import logging
import os
import sys

sys.path.insert(0, os.environ.get("VERIF_REPO", "/repo"))
os.environ.setdefault("CASS_DRIVER_NO_EXTENSIONS", "1")
logging.getLogger("cassandra").addHandler(logging.NullHandler())
logging.getLogger("cassandra").propagate = False

from cassandra.connection import Timer, TimerManager   # noqa: E402

calls = []
other = []


def callback():
    calls.append(len(calls) + 1)
    if len(calls) <= 2:
        raise ValueError("callback fails (invocation %d)" % len(calls))


tm = TimerManager()
tm.add_timer(Timer(0, callback))
tm.add_timer(Timer(0, lambda: other.append(1)))
ret = tm.service_timeouts()
print(__doc__.splitlines()[0])
print("invocations of the raising callback in one service_timeouts() call: %d (expected 1)" % len(calls))
print("invocations of the other due timer: %d (expected 1); returned %r; timers left in the heap: %d" % (len(other), ret, len(tm._queue)))
if len(calls) != 1:
    print("DEFECT PRESENT: the timer was served %d times; a callback that always raises would never let service_timeouts return" % len(calls))
    sys.exit(1)
print("ok: the timer was finished after its first invocation")
sys.exit(0)
