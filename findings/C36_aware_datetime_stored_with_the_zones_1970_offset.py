"""C36 finding: cqlengine's DateTime column converts a timezone-aware datetime with the UTC offset its zone had on 1970-01-01,
not with the offset in force at the datetime: in a zone with daylight saving time every summer datetime is stored one hour
off (the core driver stores the right instant).

cassandra/cqlengine/columns.py, DateTime.to_database
        epoch = datetime(1970, 1, 1, tzinfo=value.tzinfo)
        offset = get_total_seconds(epoch.tzinfo.utcoffset(epoch)) if epoch.tzinfo else 0
        return int((get_total_seconds(value - epoch) - offset) * 1000)
`value - epoch` of two datetimes that share one tzinfo object is the difference of their WALL CLOCKS (Python ignores the
offsets then); subtracting utcoffset(epoch) - the offset of 1 January 1970 - is right only for a zone whose offset never
changes.  2026-07-01 12:00 America/New_York (-04:00) is 16:00Z = 1782921600000 ms; cqlengine stores 1782925200000 (17:00Z).
The two readings of the repeated hour at the end of daylight saving time (fold = 0 / 1) are stored as the same instant.

Smallest fix:
        if value.tzinfo is not None:
            value = value.astimezone(timezone.utc).replace(tzinfo=None)        # the instant, as a naive UTC reading
        delta = value - datetime(1970, 1, 1)
        return (delta.days * 86400 + delta.seconds) * 1000 + delta.microseconds // 1000

Run: /venv/bin/python /verif/findings/C36_aware_datetime_stored_with_the_zones_1970_offset.py   (exit 1 while present)
"""
import datetime
import sys

from _c36_env import columns, cqltypes, ms

UTC = datetime.timezone.utc
col = columns.DateTime()
try:
    import zoneinfo
    NY, BERLIN = zoneinfo.ZoneInfo("America/New_York"), zoneinfo.ZoneInfo("Europe/Berlin")
except Exception:                                           # no tz database: a zone with the same rule, hand made
    class Rule(datetime.tzinfo):
        def __init__(self, std, dst):
            self.std, self.d = std, dst

        def utcoffset(self, dt):
            return datetime.timedelta(minutes=self.d if dt is not None and 4 <= dt.month <= 9 else self.std)

        def dst(self, dt):
            return datetime.timedelta(0)
    NY, BERLIN = Rule(-300, -240), Rule(60, 120)
bad = 0
for v in (datetime.datetime(2026, 7, 1, 12, 0, tzinfo=NY), datetime.datetime(2026, 1, 15, 12, 0, tzinfo=NY),
          datetime.datetime(2026, 7, 1, 12, 0, tzinfo=BERLIN), datetime.datetime(2026, 10, 25, 2, 30, tzinfo=BERLIN, fold=0),
          datetime.datetime(2026, 10, 25, 2, 30, tzinfo=BERLIN, fold=1),
          datetime.datetime(2026, 7, 1, 12, 0, tzinfo=datetime.timezone(datetime.timedelta(hours=-4)))):
    exact = (v - datetime.datetime(1970, 1, 1, tzinfo=UTC)) // datetime.timedelta(milliseconds=1)
    got, core = col.to_database(v), ms(cqltypes.DateType.serialize(v, 4))
    print("%s (utcoffset %s) fold=%d: instant %d ms   cqlengine %d   core %d%s"
          % (v, v.utcoffset(), v.fold, exact, got, core, "" if got == exact else "   <-- cqlengine is %+d min off" % ((got - exact) // 60000)))
    bad += got != exact
print("DEFECT PRESENT" if bad else "defect not present")
sys.exit(1 if bad else 0)
