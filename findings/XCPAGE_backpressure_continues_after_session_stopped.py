#!/venv/bin/python
"""XCPAGE - a continuous-paging session keeps doing back-pressure bookkeeping after it has stopped; a completely received
result can end in an exception, and a REVISE_REQUEST is sent for a stream id the session no longer owns.

Found by TLC on spec/ContinuousPaging.tla (properties CompleteMeansEnd / NoRequestAfterStop with the pinned behaviour,
constant LateBP = TRUE; shortest counterexample: NodeSendPage(1, last), Deliver, Call, Enter) and confirmed on the real
objects by the binding (harness/replay/cpaging.py).

ContinuousPagingSession.results() calls maybe_request_more() after EVERY pop, also after the page flagged "last" has
been received (self._stop is set, self.released is set, Connection.process_msg has already removed the session and
appended its stream id to request_ids).  maybe_request_more() only looks at the queue arithmetic, so with
max_queue_size back-pressure (DSE_V2) the pops of the final pages satisfy `space_in_queue >= max_queue_size / 2` and
update_next_pages() runs:

  A. healthy connection: REVISE_REQUEST(PAGING_BACKPRESSURE, op_id=<old stream id>, next_pages=n) goes out although the
     stream is finished and its id is free - any request that has meanwhile been given that id (another continuous
     paging query in particular: its window grows beyond its own max_queue_size) is the one the node applies it to; if
     the node answers such a request with an error, _on_backpressure_response -> on_error queues that error behind the
     last page and the application gets an exception after the complete result.
  B. connection closed / defunct AFTER the complete result was received: send_msg raises ConnectionShutdown,
     update_next_pages calls self.on_error(ex): the error is queued behind the remaining pages and the application gets
     ConnectionShutdown after the last row instead of StopIteration.  (defunct() itself correctly leaves finished
     sessions alone: they are no longer registered.)
  C. same root: a REVISE_REQUEST that was legitimately outstanding when the last page arrived and then fails with the
     connection (error_all_requests -> _on_backpressure_response(ConnectionShutdown) -> on_error) also turns the
     complete result into an error.

Smallest fix (cassandra/connection.py, ContinuousPagingSession):
    def maybe_request_more(self):
        if not self._state or self._stop:      # nothing to ask for once the last page / a cancel / an error is in
            return
    ...
    def _on_backpressure_response(self, response):
        ...
        else:
            log.error(...)
            if not self._stop:                  # a stopped session has nothing left to fail
                self.on_error(response)
(spec: constant LateBP = FALSE is exactly this design; TLC proves CompleteMeansEnd, NoRequestAfterStop, the window
invariants and termination for it.)

Run: /venv/bin/python /verif/findings/XCPAGE_backpressure_continues_after_session_stopped.py   (exit 1 while present)
"""
import os
import sys

sys.path.insert(0, os.path.dirname(os.path.dirname(os.path.abspath(__file__))))
from harness.sim.simcluster import SimWorld, FakeNode, make_cluster      # noqa: E402
from harness import wire                                                # noqa: E402
from cassandra.cluster import ExecutionProfile, EXEC_PROFILE_DEFAULT, ContinuousPagingOptions   # noqa: E402
from cassandra.policies import RoundRobinPolicy, FallthroughRetryPolicy  # noqa: E402
from cassandra.query import SimpleStatement                              # noqa: E402

DSE_V2 = 0x42


def start():
    world = SimWorld()
    node = world.add_node(FakeNode("10.0.0.1", versions=(3, 4, 0x41, DSE_V2)))
    prof = ExecutionProfile(load_balancing_policy=RoundRobinPolicy(), retry_policy=FallthroughRetryPolicy(), request_timeout=10.0)
    cp = ExecutionProfile(load_balancing_policy=RoundRobinPolicy(), retry_policy=FallthroughRetryPolicy(), request_timeout=10.0,
                          continuous_paging_options=ContinuousPagingOptions(max_queue_size=2))
    cluster = make_cluster(world, ["10.0.0.1"], protocol_version=DSE_V2, execution_profiles={EXEC_PROFILE_DEFAULT: prof, "cp": cp})
    session = cluster.connect()
    cluster.executor.inline = False
    fut = session.execute_async(SimpleStatement("SELECT * FROM t"), execution_profile="cp")
    p = [x for x in node.pending if x.req["op"] == "QUERY"][0]
    return cluster, node, fut, p


def page(node, p, seq, last):
    body = wire.body_rows([("v", wire.T_INT)], [[wire.w_int(seq * 10 + 1)]], cp_seq=seq, cp_last=last)
    node.send(p.conn, p.frame.version, p.frame.stream, wire.RESULT, body)


bad = False

# ---- A: one page, flagged last, healthy connection
cluster, node, fut, p = start()
conn, sid = p.conn, p.frame.stream
page(node, p, 1, True)
node.take(p)
print("A. after the only page: session registered = %s, stream id %d back in request_ids = %s"
      % (sid in conn._continuous_paging_sessions, sid, sid in conn.request_ids))
rows = iter(fut.result())
print("   first row:", next(rows))
revise = [x for x in node.pending if x.req["op"] == "REVISE_REQUEST"]
for x in revise:
    r = wire.Reader(x.frame.body)
    print("   the node received REVISE_REQUEST type=%d op_id=%d next_pages=%d on stream %d" % (r.int(), r.int(), r.int(), x.frame.stream))
if revise:
    bad = True
    print("   -> a back-pressure request for a finished stream whose id is free (VIOLATED: NoRequestAfterStop)")
cluster.shutdown()

# ---- B: two pages, complete, then the connection is closed; the application reads afterwards
cluster, node, fut, p = start()
conn = p.conn
page(node, p, 1, False)
page(node, p, 2, True)
node.take(p)
conn.close()
got, outcome = [], None
rows = iter(fut.result())
try:
    while True:
        got.append(tuple(next(rows)))
except StopIteration:
    outcome = "StopIteration"
except Exception as ex:      # noqa
    outcome = "%s: %s" % (type(ex).__name__, ex)
print("B. both pages were received before the connection closed; the application got rows %s and then: %s" % (got, outcome))
if outcome != "StopIteration":
    bad = True
    print("   -> the complete result ends in an exception (VIOLATED: CompleteMeansEnd)")
cluster.shutdown()

print("XCPAGE back-pressure after stop: %s" % ("VIOLATED" if bad else "holds"))
sys.exit(1 if bad else 0)
