"""C20 - a keyspace switch reports success although selecting the keyspace failed on a pool.

cassandra/cluster.py 3450-3456: pool_finished_setting_keyspace collects errors in `errors` but completes with
`callback(host_errors)`, the errors of the pool that happened to finish last.  When an earlier pool failed and the last
one succeeded the USE future completes without error.

Configuration: two pools with a connection; pool 1 answers InvalidRequest, pool 2 answers ok; pool 1 finishes first.
Signature: Session._set_keyspace_for_all_pools:reports-only-the-last-pool's-errors
"""
from _run_keyspace import run

run(__doc__.splitlines()[0], {1: "conn", 2: "conn"}, {1: "invalid", 2: "ok"}, [1, 2],
    lambda h, p: "USE reported success, but the connection borrowed from pool 1 has keyspace %r" % p["borrowed"][1]
    if p["result"] == "ok" and p["borrowed"][1] != "new" else None)
