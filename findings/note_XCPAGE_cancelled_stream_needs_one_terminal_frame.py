#!/venv/bin/python
"""XCPAGE NOTE (environment assumption made explicit, not a claimed defect; this script always exits 0): after
ContinuousPagingSession.cancel() the driver gives the paging stream id back if and only if the node sends EXACTLY ONE
more frame on that stream after (or before) its answer to the cancel request.

spec/ContinuousPaging.tla, constant CancelTerminal.  _on_cancel_response only sets `self.released = True`; the session
is unregistered (and the stream id appended to request_ids) by Connection.process_msg when the NEXT frame on the paging
stream has been handled and the session says `released`.  Hence, for a stream cancelled while the node was still sending:
  * the node ends the stream with one frame (an ErrorMessage, or a page flagged last): released, unregistered, id back
    once - the behaviour the code is written for (TLC: NoOrphanSession and IdOnce hold with CancelTerminal = TRUE);
  * the node only answers the REVISE_REQUEST and then stays silent: the session stays in
    Connection._continuous_paging_sessions for the life of the connection, the stream id is never reused, the queued
    pages stay referenced (TLC: NoOrphanSession violated with CancelTerminal = FALSE; evidence key
    Assumption_CancelTerminal; shortest history NodeSendPage, Deliver, CancelSend, NodeRecv, CancelStop, Deliver, ...);
  * the node still flushes TWO OR MORE frames after its answer (pages it had already built): the first unregisters the
    session and frees the id, the second finds no handler and process_msg's `except KeyError: request_ids.append(stream_id)`
    frees the same id AGAIN - two later requests can then be given the same stream id (the situation C09 forbids).
A release that does not depend on the node's behaviour: unregister in _on_cancel_response itself and let process_msg drop
frames for ids that are neither registered nor orphaned without recycling them (or keep the id orphaned until a terminal
frame arrives, as orphaned request ids are handled).

Run: /venv/bin/python /verif/findings/note_XCPAGE_cancelled_stream_needs_one_terminal_frame.py     (informational, exit 0)
"""
import os
import sys

sys.path.insert(0, os.path.dirname(os.path.dirname(os.path.abspath(__file__))))
from harness.sim.simcluster import SimWorld, FakeNode, make_cluster      # noqa: E402
from harness import wire                                                # noqa: E402
from cassandra.cluster import ExecutionProfile, EXEC_PROFILE_DEFAULT, ContinuousPagingOptions   # noqa: E402
from cassandra.policies import RoundRobinPolicy, FallthroughRetryPolicy  # noqa: E402
from cassandra.query import SimpleStatement                              # noqa: E402

DSE_V1 = 0x41


def start():
    world = SimWorld()
    node = world.add_node(FakeNode("10.0.0.1", versions=(3, 4, DSE_V1)))
    prof = ExecutionProfile(load_balancing_policy=RoundRobinPolicy(), retry_policy=FallthroughRetryPolicy(), request_timeout=10.0)
    cp = ExecutionProfile(load_balancing_policy=RoundRobinPolicy(), retry_policy=FallthroughRetryPolicy(), request_timeout=10.0,
                          continuous_paging_options=ContinuousPagingOptions())
    cluster = make_cluster(world, ["10.0.0.1"], protocol_version=DSE_V1, execution_profiles={EXEC_PROFILE_DEFAULT: prof, "cp": cp})
    session = cluster.connect()
    cluster.executor.inline = False
    fut = session.execute_async(SimpleStatement("SELECT * FROM t"), execution_profile="cp")
    p = [x for x in node.pending if x.req["op"] == "QUERY"][0]
    return cluster, node, fut, p


def page(node, p, seq, last=False):
    node.send(p.conn, p.frame.version, p.frame.stream, wire.RESULT,
              wire.body_rows([("v", wire.T_INT)], [[wire.w_int(seq)]], cp_seq=seq, cp_last=last))


for late_frames in (0, 1, 2):
    cluster, node, fut, p = start()
    conn, sid = p.conn, p.frame.stream
    page(node, p, 1)
    rs = fut.result()
    rs.cancel_continuous_paging()
    c = [x for x in node.pending if x.req["op"] == "REVISE_REQUEST"][0]
    node.respond_void(c)                                   # the node's answer to the cancel request
    for i in range(late_frames):
        page(node, p, 2 + i)                               # frames the node still flushes on the paging stream
    print("cancel, answer, then %d more frame(s) on the stream: session still registered = %s, stream id %d occurs %d time(s) "
          "in request_ids" % (late_frames, sid in conn._continuous_paging_sessions, sid, list(conn.request_ids).count(sid)))
    cluster.shutdown()
sys.exit(0)
