"""C25 - a remote-datacenter host that loses its connection is marked down and never reconnected.

Policy: DCAwareRoundRobinPolicy(local_dc="dc1", used_hosts_per_remote_dc=1) (the documented way to keep fallback
hosts in another datacenter).

  1. The remote host 10.0.1.1 (dc2) is discovered while connecting.  Cluster.on_add (cluster.py) asks
     profile_manager.distance(host) FIRST, before profile_manager.on_add(host) tells the policy about the host; the
     policy does not list it yet and answers IGNORED, so on_add takes the "ignored" path:
     _finalize_add(host, set_up=False) - host.is_up stays None.
  2. Right after, the policy knows the host (distance REMOTE) and the sessions open a pool for it
     (update_created_pools / Session.__init__ accept is_up in (True, None)).  The host is used, but is_up is None.
  3. Its connection breaks: HostConnection.return_connection convicts the host, the pool shuts down, Cluster.on_down
     is submitted.  on_down does

            was_up = host.is_up                       # None
            ...
            host.set_down()                           # is_up = False
            if (not was_up and not expect_host_to_be_down) or host.is_currently_reconnecting():
                return                                # <- taken: `not None`

     so the policies are not told, no listener hears on_down, and no reconnector is started.
  Result at quiescence: host marked down, distance REMOTE (not ignored), no pool, no reconnection attempt scheduled:
  the driver never uses that host again unless the server happens to push an UP event.

Run: /venv/bin/python /verif/findings/C25_unknown_host_down_without_reconnector.py      (exit 1 = defect present)
"""
import os
import sys

sys.path.insert(0, os.path.dirname(os.path.dirname(os.path.abspath(__file__))))
from harness.sim.simcluster import SimWorld, FakeNode, make_cluster
from cassandra.policies import DCAwareRoundRobinPolicy, HostDistance

w = SimWorld()
w.add_node(FakeNode("10.0.0.1", dc="dc1", tokens=["10"]))
w.add_node(FakeNode("10.0.1.1", dc="dc2", tokens=["20"]))
policy = DCAwareRoundRobinPolicy(local_dc="dc1", used_hosts_per_remote_dc=1)
cluster = make_cluster(w, ["10.0.0.1"], inline=True, lbp=policy)
session = cluster.connect(wait_for_all_pools=True)
cluster.executor.inline = False
remote = [h for h in cluster.metadata.all_hosts() if h.address == "10.0.1.1"][0]
pool = session._pools.get(remote)
print("after connect: is_up =", remote.is_up, " distance =", cluster.profile_manager.distance(remote),
      " pool open =", bool(pool and not pool.is_shutdown))

conn = pool._connection
conn.socket_error()                      # the connection to the remote host breaks
pool.return_connection(conn)             # heartbeat hands it back: convicted, on_down submitted
cluster.executor.drain()
cluster.scheduler.fire_due()
cluster.executor.drain()

dist = cluster.profile_manager.distance(remote)
handler = remote._reconnection_handler
print("after the failure: is_up =", remote.is_up, " distance =", dist, " reconnector =", handler,
      " scheduled =", list(cluster.scheduler.tasks), " pool =", session._pools.get(remote) and
      ("shut down" if session._pools[remote].is_shutdown else "open"))
bad = remote.is_up is False and dist != HostDistance.IGNORED and handler is None and not cluster.scheduler.tasks
cluster.shutdown()
sys.exit(1 if bad else 0)
