"""C03 NOTE (not a finding - lead triage: an empty keyspace name is no request the property speaks about; the check records
these cases as `open`, it does not judge them; this script always exits 0): keyspace="" (a set, zero-length [string]) makes PREPARE and BATCH frames whose flags contradict their body.

The per-request keyspace is a [string] announced by a flag (v5 / DSE_V2: PREPARE <flags> 0x01, BATCH <flags> 0x80).
QueryMessage tests `self.keyspace is not None` both for the flag and for the field; PrepareMessage and BatchMessage mix
`is not None` with truthiness (cassandra/protocol.py PrepareMessage.send_body, BatchMessage.send_body):
  * PREPARE v5, keyspace="": flag 0x01 is set (`is not None`) but the string is not written (`if self.keyspace:`):
    the body ends where the server expects <keyspace> - a protocol error on a conforming server;
  * BATCH v5, keyspace="": flag 0x80 is NOT set (`if self.keyspace:`) but the string IS written (`is not None`):
    two bytes the flags do not announce;
  * BATCH v2-v4 / DSE_V1, keyspace="": not refused (`if self.keyspace:`), silently dropped - QUERY and PREPARE refuse it.

Run: /venv/bin/python /verif/findings/note_C03_empty_keyspace_flag_body_mismatch.py     (informational, exit 0)
Smallest fix: test `self.keyspace is not None` everywhere: PrepareMessage.send_body (the write), BatchMessage.send_body
(the flag computation and the refusal on versions without per-request keyspace).
"""
import os
import sys

sys.path.insert(0, os.environ.get("VERIF_REPO", "/repo"))
os.environ.setdefault("CASS_DRIVER_NO_EXTENSIONS", "1")
from cassandra import UnsupportedOperation  # noqa: E402
from cassandra.protocol import BatchMessage, PrepareMessage, QueryMessage, ProtocolHandler  # noqa: E402
from cassandra.query import BatchType  # noqa: E402


def enc(msg, pv):
    try:
        return ProtocolHandler.encode_message(msg, 1, pv, None, False)
    except UnsupportedOperation:
        return None


bad = 0
f = enc(PrepareMessage("q", keyspace=""), 5)              # header 9, <query> 4+1, <flags> 4, [<keyspace> 2+0]
flags, rest = int.from_bytes(f[14:18], "big"), f[18:]
print("PREPARE v5 keyspace='': flags=%#x, bytes after flags=%r" % (flags, rest.hex()))
if bool(flags & 0x01) != (len(rest) == 2):
    print("  NOTE: with_keyspace flag %s but keyspace field %s" % ("set" if flags & 1 else "clear", "present" if rest else "absent"))
    bad += 1
f = enc(BatchMessage(BatchType.LOGGED, [], 1, keyspace=""), 5)   # header 9, <type> 1, <n> 2, <consistency> 2, <flags> 4, [<keyspace>]
flags, rest = int.from_bytes(f[14:18], "big"), f[18:]
print("BATCH   v5 keyspace='': flags=%#x, bytes after flags=%r" % (flags, rest.hex()))
if bool(flags & 0x80) != (len(rest) == 2):
    print("  NOTE: with_keyspace flag %s but keyspace field %s" % ("set" if flags & 0x80 else "clear", "present" if rest else "absent"))
    bad += 1
for name, msg in (("QUERY  ", QueryMessage("q", 1, keyspace="")), ("PREPARE", PrepareMessage("q", keyspace="")),
                  ("BATCH  ", BatchMessage(BatchType.LOGGED, [], 1, keyspace=""))):
    r = enc(msg, 4)
    print("%s v4 keyspace='': %s" % (name, "refused" if r is None else "encoded, keyspace silently dropped"))
    if r is not None:
        bad += 1
print("NOTE: %d inconsistencies (not judged)" % bad if bad else "ok")
sys.exit(0)
