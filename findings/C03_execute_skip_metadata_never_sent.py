"""C03 finding: ExecuteMessage(skip_meta=True) never sets the Skip_metadata flag (0x02).

Protocol (native_protocol_v2..v5.spec, QUERY/EXECUTE <flags>): "0x02: Skip_metadata. If set, the Result Set returned as a
response to the query (if any) will have the NO_METADATA flag".  The session layer asks for it for every bound statement
whose prepared statement has result metadata (cassandra/cluster.py Session._create_response_future:
skip_meta=bool(prepared_statement.result_metadata)), but _QueryMessage._write_query_params (cassandra/protocol.py:543-619)
never looks at self.skip_meta: the requested option is silently dropped on every version (v2..v6, DSE_V1, DSE_V2) and the
server sends the full metadata with every page.

Run: /venv/bin/python /verif/findings/C03_execute_skip_metadata_never_sent.py     (exit 1 = defect present)
Smallest fix: in _QueryMessage._write_query_params, next to the other flag tests:
        if self.skip_meta:
            flags |= _SKIP_METADATA_FLAG
"""
import os
import sys

sys.path.insert(0, os.environ.get("VERIF_REPO", "/repo"))
os.environ.setdefault("CASS_DRIVER_NO_EXTENSIONS", "1")
from cassandra.protocol import ExecuteMessage, ProtocolHandler  # noqa: E402

bad = 0
for pv in (2, 3, 4, 5, 66):
    rmid = b"\x09\x09" if pv in (5, 6, 66) else None
    frames = [ProtocolHandler.encode_message(ExecuteMessage(b"\x01\x02\x03\x04", [], 1, skip_meta=skip, result_metadata_id=rmid),
                                             1, pv, None, False) for skip in (False, True)]
    # body: <id [short bytes]>[<result_metadata_id>]<consistency [short]><flags>...
    off = (9 if pv >= 3 else 8) + 2 + 4 + (2 + len(rmid) if rmid else 0) + 2
    width = 4 if pv >= 5 else 1
    flags = [int.from_bytes(f[off:off + width], "big") for f in frames]
    print("pv=%-2d flags without skip_meta=%#x with skip_meta=%#x  frames identical: %s" % (pv, flags[0], flags[1], frames[0] == frames[1]))
    if not flags[1] & 0x02:
        bad += 1
print("DEFECT: Skip_metadata (0x02) requested but never sent" if bad else "ok: Skip_metadata flag is sent")
sys.exit(1 if bad else 0)
