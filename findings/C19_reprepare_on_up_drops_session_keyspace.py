"""C19 / prepared-statement cache: statements prepared under the session's keyspace are NOT re-prepared when a node
comes (back) up - the driver re-sends them without any keyspace and the node refuses them.

cassandra/cluster.py:3236-3239 (Session.prepare)

        prepared_keyspace = keyspace if keyspace else None
        prepared_statement = PreparedStatement.from_message(
            response.query_id, response.bind_metadata, response.pk_indexes, self.cluster.metadata, query, prepared_keyspace,
            ...

PreparedStatement.keyspace therefore is only ever the keyspace passed *explicitly* to Session.prepare (possible on
protocol v5+ only; on v4 PrepareMessage refuses a keyspace).  The common case - cluster.connect("ks") followed by
session.prepare("SELECT ... FROM tbl ...") - records keyspace None, although the node prepared the statement under
the connection's keyspace "ks" (Cassandra derives the query id from keyspace + query text).

cassandra/cluster.py:2319-2355 (Cluster._prepare_all_queries, run by on_up / on_add before the host is marked up)
opens a fresh connection (no keyspace) and

    protocol < v5:   for keyspace, ks_statements in groupby(statements, lambda s: s.keyspace):
                         if keyspace is not None:
                             connection.set_keyspace_blocking(keyspace)         # never happens: keyspace is always None
                         ... PREPARE ...
    protocol >= v5:  PrepareMessage(query=s.query_string, keyspace=s.keyspace)  # None for these statements

so the node answers every such PREPARE with "No keyspace has been specified. USE a keyspace, or explicitly specify
keyspace.tablename"; _send_chunks only logs that at DEBUG level.  The host is marked up with the cached statements
missing; Cluster.reprepare_on_up ("all known prepared statements should be prepared on a node when it comes up") is
void for them and the first request per statement and node pays the UNPREPARED round trips it is meant to save.  The
keyspace grouping / USE switching of the pre-v5 branch is dead code.

Smallest fix (cluster.py:3237-3239, Session.prepare): remember the keyspace the statement was really prepared under

        prepared_statement = PreparedStatement.from_message(
            response.query_id, response.bind_metadata, response.pk_indexes, self.cluster.metadata, query,
            prepared_keyspace or self.keyspace,
            self._protocol_version, response.column_metadata, response.result_metadata_id, self.cluster.column_encryption_policy)

(`prepared_keyspace` itself must stay as it is: it is also what prepare_on_all_hosts puts into its PREPARE frames, which
 protocol v4 cannot carry.)  With this, _prepare_all_queries does USE <session keyspace> on its throwaway connection
(v4) / sends the keyspace in the PREPARE frame (v5) and the node returns the cached id again; the existing guard in
the PreparedQueryNotFound branch (:4833-4841, "The Session's current keyspace does not match the keyspace the statement
was prepared with") becomes effective again on v4 for sessions that changed keyspace after preparing.
Checked: with this change run_prepcache (checks/_prepcache.py) is clean (12,248 state x action pairs, 240/240 traces).

Signature reported by run_prepcache:  prepcache:HostUp:session-keyspace-statement-reprepared-without-keyspace

Run: /venv/bin/python /verif/findings/C19_reprepare_on_up_drops_session_keyspace.py     (exit 1 while the defect is present)
"""
import os
import sys

sys.path.insert(0, os.path.dirname(os.path.dirname(os.path.abspath(__file__))))
from harness.replay.prepcache import PrepHarness          # noqa: E402

bad = 0
for v5 in (False, True):
    h = PrepHarness([0, 1], v5, True)                     # 2 nodes, session keyspace k1, prepare_on_all_hosts
    h.do({"name": "Prepare", "s": "A"})                   # SELECT v FROM gks.ta WHERE k=?   (names its keyspace)
    h.do({"name": "Prepare", "s": "B"})                   # SELECT v FROM tb WHERE k=?       (session keyspace k1)
    print("protocol v%d: PreparedStatement.keyspace of the k1 statement: %r" % (5 if v5 else 4, h.held["B"].keyspace))
    h.do({"name": "HostDown", "h": 1})                    # node 1 restarts: connections die, prepared statements forgotten
    obs = h.do({"name": "HostUp", "h": 1})                # reconnection succeeds -> Cluster.on_up -> _prepare_all_queries
    p = h.project()
    print("   PREPAREs node 1 received while coming up (query, keyspace it was evaluated under):", obs["prepares"])
    print("   node 1 is up: %s; prepared on node 1: %s; cached by the driver: %s"
          % (p["up"][1], sorted(p["srv"][1]), sorted(p["cache"])))
    if set(p["cache"]) - p["srv"][1]:
        bad += 1
    obs = h.do({"name": "Execute", "s": "B", "h": 1})
    print("   first execute on node 1 afterwards: UNPREPARED round trip needed = %s" % obs["unprepared"])
    h.shutdown()
if bad:
    print("FAIL: the host was marked up with cached statements missing (re-prepared without their keyspace and refused)")
    sys.exit(1)
print("ok")
