"""C03 finding (cosmetic): a v1 QUERY frame carries one byte the v1 document does not define.

native_protocol_v1.spec 4.1.4: "QUERY ... The body of the message consists of a CQL query as a [long string] followed by
the [consistency] for the operation."  QueryMessage.send_body calls _write_query_params for every version, which always
appends the v2+ <flags> byte (0x00 on v1, since every flag-bearing option is refused there).  The frame is internally
consistent (header length = body length) and Cassandra 1.2-2.2 ignores the trailing byte, but a parser written from the
document reads <query><consistency> and is left with one unexplained byte.

Run: /venv/bin/python /verif/findings/C03_v1_query_trailing_flags_byte.py     (exit 1 = deviation present)
Smallest fix: QueryMessage.send_body: on protocol_version 1 write only the consistency level (as ExecuteMessage already
special-cases v1), e.g. in _QueryMessage._write_query_params guard the flags write with `if protocol_version >= 2`.
"""
import os
import struct
import sys

sys.path.insert(0, os.environ.get("VERIF_REPO", "/repo"))
os.environ.setdefault("CASS_DRIVER_NO_EXTENSIONS", "1")
from cassandra.protocol import QueryMessage, ProtocolHandler  # noqa: E402

frame = ProtocolHandler.encode_message(QueryMessage("q", 4), 1, 1, None, False)
expected = bytes([1, 0, 1, 7]) + struct.pack(">i", 4 + 1 + 2) + struct.pack(">i", 1) + b"q" + struct.pack(">H", 4)
print("driver  :", frame.hex())
print("v1 spec :", expected.hex())
print("DEVIATION: %d trailing byte(s) after <query><consistency>" % (len(frame) - len(expected)) if frame != expected else "ok")
sys.exit(1 if frame != expected else 0)
