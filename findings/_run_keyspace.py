"""Helper for the C20 reproductions: a real Session over FakeNodes executes `USE ks2` (harness/replay/keyspace.py)."""
import os
import sys

sys.path.insert(0, os.path.dirname(os.path.dirname(os.path.abspath(__file__))))
from harness.replay import keyspace as rk        # noqa: E402


def run(title, pstate, outcome, order, judge):
    """pstate/outcome: per pool (1-based dicts); order: pools whose USE is answered, in that order.
    judge(harness, projection) -> text of the defect or None."""
    print(title)
    print("  pools:", pstate, " outcome of USE on each connection:", outcome)
    h = rk.KsHarness(pstate, outcome)
    steps = [{"name": "Start", "p": 0}] + [{"name": "PoolFinish", "p": p} for p in order]
    for a in steps:
        h.do(a)
        p = h.project()
        print("  %-10s %s | USE future: completions=%s result=%s | connection keyspace=%s pool keyspace=%s outstanding=%s" % (
            a["name"], a["p"] or "", p["completions"], p["result"], p["connks"], p["poolks"], sorted(p["outstanding"])))
    for q in sorted(pstate):
        if pstate[q] != "shutdown" and h.project()["connks"][q] == "none" and h._replace_task(q):
            h.do({"name": "Reconnect", "p": q})
        h.do({"name": "Borrow", "p": q})
    p = h.project()
    print("  afterwards: USE future completions=%s result=%s exception=%r; keyspace of the connection borrowed from each pool: %s"
          % (p["completions"], p["result"], h.exc, p["borrowed"]))
    bad = judge(h, p)
    if bad:
        print("DEFECT REPRODUCED (C20): " + bad)
        sys.exit(1)
    print("not reproduced")
    sys.exit(0)
