"""XEVENTS / D_func_dedup - repeated SCHEMA_CHANGE events for a FUNCTION or AGGREGATE are not folded into one refresh.

ControlConnection._handle_schema_change (cassandra/cluster.py):

        delay = self._delay_for_event_type('schema_change', self._schema_event_refresh_window)
        self._cluster.scheduler.schedule_unique(delay, self.refresh_schema, **event)

schedule_unique de-duplicates on the tuple (fn, args, tuple(kwargs.items())).  For KEYSPACE / TABLE / TYPE events the
kwargs are strings and a second event inside the window is recognised.  For FUNCTION / AGGREGATE events
EventMessage.recv_schema_change (cassandra/protocol.py) puts a fresh UserFunctionDescriptor / UserAggregateDescriptor
object into the event; SignatureDescriptor (cassandra/__init__.py) defines neither __eq__ nor __hash__, so two events
for the same function never compare equal and every event inside schema_event_refresh_window schedules its own
refresh_schema (each one a schema-agreement wait plus the function query).  Every node that applies the change pushes
the event, and each schema change is typically pushed more than once, which is what the window is for.

Found by the replay of spec/ControlEvents.tla (OnePending: "however many events arrive inside the window, one refresh
of a kind is pending"; deviation D_func_dedup); ./check XEVENTS reports it with signature  deviation:D_func_dedup .

Smallest fix (cassandra/__init__.py, class SignatureDescriptor):

        def __eq__(self, other):
            return (type(self) is type(other) and self.name == other.name
                    and list(self.argument_types) == list(other.argument_types))

        def __ne__(self, other):
            return not self == other

        def __hash__(self):
            return hash((type(self).__name__, self.name, tuple(self.argument_types)))

Run: /venv/bin/python /verif/findings/XEVENTS_function_schema_events_not_deduplicated.py   (exit 1 = defect present)
"""
import os
import sys

sys.path.insert(0, os.path.dirname(os.path.dirname(os.path.abspath(__file__))))
from harness.sim.simcluster import SimWorld, FakeNode, make_cluster      # noqa: E402
from harness import wire                                                  # noqa: E402

w = SimWorld()
n1 = w.add_node(FakeNode("10.0.0.1", tokens=["10"]))
cluster = make_cluster(w, ["10.0.0.1"], inline=True, schema_event_refresh_window=2)
session = cluster.connect(wait_for_all_pools=True)
cluster.executor.inline = False
conn = cluster.control_connection._connection
v = conn.protocol_version

for _ in range(3):
    n1.push_event(conn, wire.body_event_schema(v, "UPDATED", "TABLE", "ks", "t"))
for _ in range(3):
    n1.push_event(conn, wire.body_event_schema(v, "UPDATED", "FUNCTION", "ks", "f", ["int", "text"]))
for _ in range(3):
    n1.push_event(conn, wire.body_event_schema(v, "UPDATED", "AGGREGATE", "ks", "a", ["int"]))

count = {}
for run_at, _, (fn, args, kwargs) in cluster.scheduler.tasks:
    kw = dict(kwargs)
    key = kw["target_type"]
    count[key] = count.get(key, 0) + 1
    print("pending: %s(%s)" % (fn.__name__, ", ".join("%s=%r" % i for i in kw.items())))
print("3 events each inside the 2 s window -> pending refreshes:", count)
bad = count.get("FUNCTION", 0) != 1 or count.get("AGGREGATE", 0) != 1
cluster.shutdown()
sys.exit(1 if bad else 0)
