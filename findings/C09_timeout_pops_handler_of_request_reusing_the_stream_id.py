#!/venv/bin/python
"""C09 / C14 - a request's client timeout removes the response handler of ANOTHER request that reuses its stream id.

Found by the composed system model (spec/Driver.tla, trace validation of whole-driver runs): a recorded run was
rejected at a FireTimer event because the real connection lost a handler the specification says belongs to a
different request.

ResponseFuture._on_timeout does `self._connection._requests.pop(self._req_id)` with the (connection, stream id) of the
request's LAST attempt - also when that attempt is already over: the node answered it with an error the retry policy
retries (or the attempt's connection errored) and ResponseFuture._retry_task is still waiting in the executor.  By then
process_msg has recycled the stream id, and another request may have been sent under it.  The timeout then
  * pops that other request's handler,
  * puts the id into orphaned_request_ids although a live request is using it.
The other request's response is thrown away as an "orphaned" response; the request hangs until its own timeout.

Schedule (one node, one connection; the id space is shrunk to a single id so that the reuse is immediate - with the
default id space it needs ~300 requests on the connection between the error answer and the retry task):
  1. A = execute_async(...)              -> connection c, stream 0
  2. node answers A with OVERLOADED      -> retry policy: RETRY_NEXT_HOST, _retry_task queued in the executor; id 0 recycled
  3. B = execute_async(...)              -> connection c, stream 0 again
  4. A's client timeout fires            -> pops B's handler, orphans id 0, A fails with OperationTimedOut (correct for A)
  5. node answers B with rows            -> dropped; B is never completed

Smallest fix (cassandra/cluster.py, ResponseFuture._on_timeout): only remove the handler if it is this future's own, e.g.
    entry = self._connection._requests.get(self._req_id)
    if entry is None or getattr(entry[0], 'func', None) != self._set_result:
        -> take the existing KeyError branch (fail with OperationTimedOut, touch nothing on the connection)
or forget (_connection, _req_id) in _set_result as soon as the attempt they name has been answered.

Run: /venv/bin/python /verif/findings/C09_timeout_pops_handler_of_request_reusing_the_stream_id.py   (exit 1 while present)
"""
import os
import sys
from collections import deque

sys.path.insert(0, os.path.dirname(os.path.dirname(os.path.abspath(__file__))))
from harness.sim.simcluster import SimWorld, FakeNode, make_cluster      # noqa: E402
from harness import wire                                                # noqa: E402
from cassandra.cluster import _NOT_SET                                   # noqa: E402

world = SimWorld()
node = world.add_node(FakeNode("10.0.0.1"))
cluster = make_cluster(world, ["10.0.0.1"], protocol_version=4, inline=True)
session = cluster.connect()
cluster.executor.inline = False
conn = list(session._pools.values())[0]._connection
conn.request_ids = deque([0])                  # one reusable stream id
conn.highest_request_id = 0

A = session.execute_async("SELECT a", timeout=10.0)                                     # 1
pa = node.pending[0]
node.respond_error(pa, wire.ERR_OVERLOADED, "overloaded")                               # 2
print("after the error answer to A: executor queue =", cluster.executor.queue, " A._req_id =", A._req_id)
B = session.execute_async("SELECT b", timeout=10.0)                                     # 3
pb = node.pending[0]
print("B was sent on stream", pb.frame.stream, "; handlers registered on the connection:", sorted(conn._requests))
world.fire(A._timer, advance=False)                                                     # 4
print("after A's timeout: A failed with", type(A._final_exception).__name__,
      "; handlers registered:", sorted(conn._requests), "; orphaned ids:", sorted(conn.orphaned_request_ids))
node.respond_rows(pb, [("a", wire.T_INT)], [[wire.w_int(5)]])                           # 5
done = B._final_result is not _NOT_SET or B._final_exception is not None
print("after the node answered B: B completed =", done)
bad = not done
cluster.shutdown()
print("C09 timeout-vs-reused-stream-id: %s" % ("VIOLATED (B's handler was removed by A's timeout, B's response dropped)" if bad else "holds"))
sys.exit(1 if bad else 0)
