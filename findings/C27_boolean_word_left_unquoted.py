"""C27 finding - the names `true` and `false` are left unquoted although CQL never reads them as identifiers.

Signature: is_valid_name:boolean-word-left-unquoted
Where    : cassandra/metadata.py:47-88 (cql_keywords / cql_keywords_reserved) and :1586-1591 (is_valid_name)

Cassandra's lexer (src/antlr/Lexer.g) has the token  BOOLEAN : T R U E | F A L S E  ahead of IDENT, and the
identifier rules of Parser.g (ident / cident / noncol_ident: IDENT | QUOTED_NAME | unreserved_keyword) do not
accept BOOLEAN.  BOOLEAN is not a K_ keyword, so it is missing from the driver's keyword sets (which were derived
from the K_ tokens) and from Cassandra's ReservedKeywords list, but a bare `true` can only be a boolean constant:
    CREATE TABLE ks.t (true int PRIMARY KEY)     -> SyntaxException (no viable alternative at input 'true')
    CREATE TABLE ks.t ("true" int PRIMARY KEY)   -> fine
protect_name('true') returns the bare word, so schema exported for such a table/column/keyspace does not parse.
(The same word in any other case, e.g. 'True', is quoted because of the upper-case letter.)

Smallest fix: treat the two words as reserved, e.g. add 'true', 'false' to cql_keywords (metadata.py:47-58);
they are not in cql_keywords_unreserved, so they land in cql_keywords_reserved.

Run: /venv/bin/python /verif/findings/C27_boolean_word_left_unquoted.py      (exit 1 while the defect is present)
"""
import os
import sys

sys.path.insert(0, os.environ.get("VERIF_REPO", "/repo"))
from cassandra.metadata import protect_name   # noqa: E402

bad = 0
for name in ("true", "false"):
    out = protect_name(name)
    print("protect_name(%r) -> %r%s" % (name, out, "" if out.startswith('"') else
                                         "   BARE: the CQL lexer reads the BOOLEAN constant, not an identifier"))
    bad += not out.startswith('"')
if bad:
    print("FAIL")
    sys.exit(1)
print("ok")
