"""C35 finding: objects(...).update(m={2: 2}) MERGES the given dict into the stored map instead of overwriting it.

Documented (ModelQuerySet.update docstring):
    Using the syntax `.update(column_name={x, y, z})` will overwrite the contents of the container, like updating a
    non container column. However, adding `__<operation>` to the end of the keyword arg, makes the update call add
    or remove items from the collection, without overwriting then entire column.
Sets and lists do that ("s" = %(n)s, "l" = %(n)s).  For a map the statement is
    UPDATE ... SET "m"[%(k)s] = %(v)s            (one element assignment per key)
which is what m__update is documented to do; entries that are not in the given dict survive.

cassandra/cqlengine/statements.py, MapUpdateClause._analyze (379-389): without an operation and without a previous
value the clause still renders element assignments (`self._updates = sorted(keys)`), on the assumption that "no
previous value" means "the cell is empty" - true for a new instance, not for a blind queryset update.

Possible fix (statements.py, UpdateStatement.add_update line 827): use the plain assignment for a map that comes with
neither an operation nor a previous value
        if container_update_type and not (col_type is columns.Map and operation is None and previous is None):
(or correct the documentation, if merging is what is wanted).

Run: /venv/bin/python /verif/findings/C35_queryset_map_assignment_merges.py   (exit 1 while present)
"""
from _c35_env import harness, sent, row, run, finish

h, R = harness()
R.create(k=1, ck=1, a=1, s={1}, l=[1], m={1: 1})
sent(h)
print("R.objects(k=1, ck=1).update(s={2}, l=[2], m={2: 2})")
err = run(h, lambda: R.objects(k=1, ck=1).update(s={2}, l=[2], m={2: 2}))
sent(h)
print("    Cassandra:", err or "ok")
print("    row     :", row(h), "   (documented: s {2}, l [2], m {2: 2})")
finish(row(h).get("m") != {2: 2})
