"""XEVENTS / D_stale_clear - a _ControlReconnectionHandler that was cancelled and replaced still clears
ControlConnection._reconnection_handler: the NEWER handler goes on unreferenced, two reconnection loops can run at once.

cassandra/pool.py, _ReconnectionHandler.run:

            if not self._cancelled:                      # (1) checked once
                self.on_reconnection(conn)               # (2) ControlConnection._set_new_connection(conn)
                self.callback(...)                       # (3) ControlConnection._get_and_set_reconnection_handler(None)

cassandra/cluster.py, ControlConnection._reconnect (another worker thread; reconnect() is called by the heartbeat's
return_connection, by on_down, on_remove and _signal_error, and does not look at _reconnection_handler):

        except NoHostAvailable:
            with self._reconnection_lock:
                if self._reconnection_handler:
                    self._reconnection_handler.cancel()                      # cancels H1 - after (1): no effect on H1
                self._reconnection_handler = _ControlReconnectionHandler(...)   # H2
                self._reconnection_handler.start()

(3) runs `self._reconnection_handler = None` whatever handler that is: H2.  H2 keeps rescheduling itself, but
  * the next _reconnect that finds no host does not cancel it (`if self._reconnection_handler:` is false) and starts H3:
    two handlers retry side by side, each opening control connections and replacing the other's;
  * ControlConnection.on_down (`self._reconnection_handler is None`) starts a further reconnection although one is under way;
  * ControlConnection.shutdown() cannot cancel it (the scheduler being shut down is what stops it).
The window between (1) and (3) contains _set_new_connection's lock and the close of the old connection; the cancelling
_reconnect only needs to have started its (long) query-plan loop before.  Found by TLC as a violation of OneHandler in
spec/ControlEvents.tla (deviation D_stale_clear); ./check XEVENTS reports it with signature  deviation:D_stale_clear .

Smallest fix (cluster.py): let the callback clear only its own handler -

        except NoHostAvailable:
            ...
                handler = _ControlReconnectionHandler(self, self._cluster.scheduler, schedule, self._reconnection_handler_done)
                handler.callback_args = (handler,)
                self._reconnection_handler = handler
                handler.start()

    def _reconnection_handler_done(self, handler):
        with self._reconnection_lock:
            if self._reconnection_handler is handler:
                self._reconnection_handler = None

(H1's connection is still installed - it is a good connection - and H2, still referenced, replaces it at its next
attempt or is cancelled by the next _reconnect.)  Checked on a patched copy of the package: ./check XEVENTS conforms.

The window is made deterministic by doing the other thread's work from a wrapper around _set_new_connection.

Run: /venv/bin/python /verif/findings/XEVENTS_stale_handler_callback_clears_newer_handler.py   (exit 1 = defect present)
"""
import os
import sys

sys.path.insert(0, os.path.dirname(os.path.dirname(os.path.abspath(__file__))))
from harness.sim.simcluster import SimWorld, FakeNode, make_cluster      # noqa: E402

w = SimWorld()
n1 = w.add_node(FakeNode("10.0.0.1", tokens=["10"]))
n2 = w.add_node(FakeNode("10.0.0.2", tokens=["20"]))
cluster = make_cluster(w, ["10.0.0.1"], inline=True)
session = cluster.connect(wait_for_all_pools=True)
cluster.executor.inline = False
cc, ex, sch = cluster.control_connection, cluster.executor, cluster.scheduler


def handlers_scheduled():
    return [e[2][0].__self__ for e in sch.tasks if type(getattr(e[2][0], "__self__", None)).__name__ == "_ControlReconnectionHandler"]


# an outage: the control connection breaks, nobody accepts connections: _reconnect -> NoHostAvailable -> handler H1
n1.accepting = n2.accepting = False
old = cc._connection
old.socket_error()
cc.return_connection(old)                       # heartbeat
ex.drain()
H1 = cc._reconnection_handler
n2.accepting = True                             # node 2 is back: H1's next attempt will succeed

install = cc._set_new_connection


def install_while_another_reconnect_gives_up(conn):
    # --- H1 is past `if not self._cancelled`; another worker thread, meanwhile: ---
    cc._set_new_connection = install
    n2.accepting = False                        # (it had started its query-plan loop while node 2 still refused)
    cc.return_connection(cc._connection)        # heartbeat again: the installed connection is still the dead one
    ex.run(next(t for t in ex.queue if t.label == "_reconnect"))     # NoHostAvailable: cancels H1, starts H2
    n2.accepting = True
    print("another _reconnect found no host: H1 cancelled =", H1._cancelled, "; new handler H2 referenced =",
          cc._reconnection_handler is not H1)
    # ------------------------------------------------------------------------------
    return install(conn)


cc._set_new_connection = install_while_another_reconnect_gives_up
sch.fire(next(e for e in sch.tasks if getattr(e[2][0], "__self__", None) is H1))
ex.run(next(t for t in ex.queue if t.label == "run"))               # H1.run: connects to node 2, installs, callback
H2 = handlers_scheduled()[0]
print("after H1 finished: _reconnection_handler =", cc._reconnection_handler, "; H2 scheduled =", H2 in handlers_scheduled(),
      "cancelled =", H2._cancelled)
orphaned = cc._reconnection_handler is None and not H2._cancelled

# consequence: the next outage starts a third handler next to H2
n1.accepting = n2.accepting = False
c = cc._connection
if not c.is_closed:
    c.socket_error()
cc.return_connection(c)
ex.drain()
live = [h for h in handlers_scheduled() if not h._cancelled]
print("after the next failed _reconnect: live reconnection handlers scheduled =", len(live))
cluster.shutdown()
sys.exit(1 if orphaned or len(live) > 1 else 0)
