"""C22 finding - TokenAwarePolicy.make_query_plan drops a host of the wrapped plan.

Signature: TokenAware:down-local-replica-dropped
Where    : cassandra/policies.py, TokenAwarePolicy.make_query_plan, lines 382-391
The first loop yields a replica only if `replica.is_up and child.distance(replica) == LOCAL`; the second loop
skips every host that is `in replicas` unless its distance is REMOTE, assuming the first loop has yielded it.
A LOCAL replica whose is_up is False/None but which the wrapped policy still lists is yielded by neither loop.
The wrapped policies do list such hosts: RoundRobinPolicy.populate / DCAwareRoundRobinPolicy.populate take every
known host (Cluster.add_execution_profile populates with Metadata.all_hosts() and calls on_up only for hosts
that are up), and ControlConnection._update_location_info calls on_up for a host that is marked down.
For a key whose only local replica is such a host, and a child plan of just that host, the token-aware plan is empty.

Run: /venv/bin/python /verif/findings/C22_tokenaware_down_local_replica_dropped.py   (exit 1 while present)
"""
import os
import sys

sys.path.insert(0, os.environ.get("VERIF_REPO", "/repo"))

from cassandra.connection import DefaultEndPoint                                              # noqa: E402
from cassandra.metadata import Metadata, KeyspaceMetadata                                      # noqa: E402
from cassandra.policies import RoundRobinPolicy, TokenAwarePolicy, SimpleConvictionPolicy      # noqa: E402
from cassandra.pool import Host                                                               # noqa: E402
from cassandra.query import SimpleStatement                                                   # noqa: E402


class FakeCluster(object):
    def __init__(self, metadata):
        self.metadata = metadata


def host(addr):
    h = Host(DefaultEndPoint(addr), SimpleConvictionPolicy)
    h.set_location_info("dc1", "r1")
    return h


h1, h2, h3 = host("h1"), host("h2"), host("h3")
h1.set_up(); h3.set_up(); h2.set_down()                       # h2 is known but down
md = Metadata()
for h in (h1, h2, h3):
    md.add_or_return_host(h)
md.rebuild_token_map("org.apache.cassandra.dht.ByteOrderedPartitioner", {h1: ["10"], h2: ["20"], h3: ["30"]})
md.keyspaces["ks"] = KeyspaceMetadata("ks", True, "SimpleStrategy", {"replication_factor": "1"})

policy = TokenAwarePolicy(RoundRobinPolicy())
policy.populate(FakeCluster(md), md.all_hosts())              # as add_execution_profile does: every known host
stmt = SimpleStatement("SELECT * FROM t WHERE k = 0", routing_key=b"\x18", keyspace="ks")   # replica: h2
child_plan = sorted(h.address for h in policy._child_policy.make_query_plan("ks", stmt))
plan = [h.address for h in policy.make_query_plan(None, stmt)]
print("replicas      :", [h.address for h in md.get_replicas("ks", b"\x18")], "(h2.is_up = %s)" % h2.is_up)
print("wrapped plan  :", child_plan)
print("token-aware   :", plan, " expected every host of the wrapped plan")
failed = sorted(plan) != child_plan
print("DEFECT PRESENT" if failed else "ok")
sys.exit(1 if failed else 0)
