"""XEVENTS / D_lost_refresh - a NEW_NODE (or REMOVED_NODE) received while the control connection is being replaced is
consumed without effect: the metadata stays stale although the event arrived.

ControlConnection._try_connect registers the new connection for events (register_watchers) BEFORE it reads
system.local / system.peers and long before _set_new_connection makes it ControlConnection._connection (in between:
the node-list refresh with on_add for every new host, the schema refresh).  An event pushed on the new connection in
that window is handled (the watchers point at the ControlConnection, not at the connection) and schedules
_refresh_nodes_if_not_up / refresh_node_list_and_token_map / remove_host.  The scheduled refresh runs through
`self._connection` - still the OLD connection:

    def refresh_node_list_and_token_map(self, force_token_rebuild=False):
        try:
            if self._connection:
                self._refresh_node_list_and_token_map(self._connection, ...)      # ConnectionShutdown on the dead connection
                return True
        ...
        except Exception:
            self._signal_error()
        return False

    def _signal_error(self):
        with self._lock:
            ...
            if self._connection and self._connection.is_defunct:
                host = self._cluster.metadata.get_host(self._connection.endpoint)
                if host:
                    self._cluster.signal_connection_failure(host, self._connection.last_error, is_host_addition=False)
                    return                      # "this will trigger a reconnect as part of marking the host down"
        self.reconnect()

The comment's assumption does not hold: Cluster.on_down does nothing when the host is already down
(`not was_up and not expect_host_to_be_down`), when it is being reconnected, when a session still has an open pool to
it (_discount_down_events), and ControlConnection.on_down reconnects only if the control connection *still* points at
that host - by the time the on_down task runs the switch is over.  The failed refresh is never made up for: the new
connection was read before the membership changed, the event is gone.

Schedule below (node 1 crashes; the driver reconnects to node 2; node 3 joins while that reconnection sits between its
refresh and _set_new_connection).  The window is made deterministic by doing the other threads' work from a wrapper
around _set_new_connection, as findings/C45_control_connection_installed_after_shutdown.py does.

Found by TLC as a violation of Fresh in spec/ControlEvents.tla (deviation D_lost_refresh, 13 steps); ./check XEVENTS
reports it with signature  deviation:D_lost_refresh .

Smallest fix (cluster.py, ControlConnection._signal_error): do not rely on on_down to reconnect -

                if host:
                    self._cluster.signal_connection_failure(host, self._connection.last_error, is_host_addition=False)
                    # no `return`: fall through to self.reconnect()

(reconnect() only submits _reconnect; a second one caused by on_down is harmless, _set_new_connection closes the
connection it replaces.)  The reconnection it starts reads the tables again, after the event.  With this change TLC
finds Fresh to hold for every configuration of ./check XEVENTS --tier thorough and the replay conforms (checked on a
patched copy of the package).

Run: /venv/bin/python /verif/findings/XEVENTS_topology_event_lost_during_control_connection_switch.py   (exit 1 = defect present)
"""
import os
import sys

sys.path.insert(0, os.path.dirname(os.path.dirname(os.path.abspath(__file__))))
from harness.sim.simcluster import SimWorld, FakeNode, make_cluster      # noqa: E402
from harness import wire                                                  # noqa: E402

w = SimWorld()
n1 = w.add_node(FakeNode("10.0.0.1", tokens=["10"]))
n2 = w.add_node(FakeNode("10.0.0.2", tokens=["20"]))
n3 = w.add_node(FakeNode("10.0.0.3", tokens=["30"]))
n3.accepting = False                                  # not a member yet
n1.peers, n2.peers = [n2], [n1]
cluster = make_cluster(w, ["10.0.0.1"], inline=True)
session = cluster.connect(wait_for_all_pools=True)
cluster.executor.inline = False
cc, ex, sch = cluster.control_connection, cluster.executor, cluster.scheduler


def task(label):
    return next(t for t in ex.queue if t.label == label)


# node 1 crashes: its connections break, it refuses new ones
n1.accepting = False
host1 = cluster.metadata.get_host("10.0.0.1", 9042)
pool1 = session._pools[host1]
old = cc._connection
for c in list(n1.conns):
    c.socket_error()
pool1.return_connection(pool1._connection)     # heartbeat on the pool connection: host 1 signalled down
ex.run(task("on_down"))                        # host 1 marked down; ControlConnection.on_down -> reconnect()
print("host 1 is_up =", host1.is_up, "  queued:", [t.label for t in ex.queue])

install = cc._set_new_connection


def install_while_node_3_joins(conn):
    # --- the other threads, while _reconnect is between _reconnect_internal() and _set_new_connection() ---
    n3.accepting = True
    n1.peers, n2.peers, n3.peers = [n2, n3], [n1, n3], [n1, n2]
    n2.push_event(conn, wire.body_event_topology("NEW_NODE", "10.0.0.3", 9042))     # event loop thread: watchers are registered
    print("NEW_NODE 10.0.0.3 delivered on the new connection; scheduled:", [e[2][0].__name__ for e in sch.tasks if e[2][0].__name__ != "run"])
    sch.fire(next(e for e in sch.tasks if e[2][0].__name__ == "_refresh_nodes_if_not_up"))      # scheduler thread
    ex.run(task("_refresh_nodes_if_not_up"))                                        # worker: refresh on the OLD connection
    print("refresh ran on", cc._connection.endpoint, "(defunct=%s)" % cc._connection.is_defunct, "  queued:", [t.label for t in ex.queue])
    # --------------------------------------------------------------------------------------------------------
    return install(conn)


cc._set_new_connection = install_while_node_3_joins
ex.run(task("_reconnect"))                     # connects to node 2 (node 1 refuses), refreshes, ... installs
ex.drain()

known = sorted(h.address for h in cluster.metadata.all_hosts())
pending = [e[2][0].__qualname__ for e in sch.tasks]
print("control connection: %s open=%s" % (cc._connection.endpoint, not cc._connection.is_closed))
print("members reported by node 2: ", sorted([n2.address] + [p.address for p in n2.peers]))
print("hosts in cluster.metadata:  ", known)
print("executor queue:", ex.queue, " scheduler:", pending, " _reconnection_handler:", cc._reconnection_handler)
stale = "10.0.0.3" not in known
cluster.shutdown()
sys.exit(1 if stale else 0)
