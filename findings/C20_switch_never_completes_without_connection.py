"""C20 - a keyspace switch never completes when some pool is shut down (or has no connection at the moment).

cassandra/pool.py 551-553: HostConnection._set_keyspace_for_all_conns returns without invoking the callback when the
pool is shut down or _connection is None.  Session._set_keyspace_for_all_pools (cluster.py 3434-3459) waits for one
callback per pool, so ResponseFuture._set_keyspace_completed is never called: session.execute("USE ks2") /
session.set_keyspace() hangs until the client timeout although every reachable connection switched.

Configuration: pool 1 has a connection and answers ok, pool 2 is shut down (still in session._pools).
Signature: Session._set_keyspace_for_all_pools:never-completes-when-a-pool-has-no-connection-or-is-shut-down
"""
from _run_keyspace import run

run(__doc__.splitlines()[0], {1: "conn", 2: "shutdown"}, {1: "ok", 2: "ok"}, [1],
    lambda h, p: "no USE answer is outstanding, yet the future was completed %d times" % p["completions"] if p["completions"] != 1 else None)
