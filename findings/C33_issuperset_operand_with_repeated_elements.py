"""C33 finding: SortedSet.issuperset / >= / > / < miscount an operand that repeats elements.

cassandra/util.py, class SortedSet:
    def issuperset(self, other):
        return len(self._intersect(other)) == len(other)            # line ~568
    def __lt__(self, other):
        return len(other) > len(self._items) and self.issubset(other)
    def __gt__(self, other):
        return len(self._items) > len(other) and self.issuperset(other)
`len(other)` is taken for the number of DISTINCT elements of the operand.  That holds for sets, but every one of these
accepts any sized iterable (issubset / isdisjoint / union / & / - right next to them read a list as the set of its
elements, and so does the builtin: set([1]).issuperset([1, 1]) is True).  With a list or tuple that repeats an element:
    sortedset([1]).issuperset([1, 1])      -> False   (True)
    sortedset([1, 2]) >= [1, 1]            -> False   (True)      [1, 1] <= sortedset([1, 2]) likewise (reflected)
    sortedset([1, 2]) >  [1, 1]            -> False   (True: {1,2} is a proper superset of {1})
    sortedset([1])    <  [1, 1]            -> True    (False: {1} is not a proper subset of {1})

Smallest fix (verified with ./check C33 on a patched copy: exit 0):
    def issuperset(self, other):
        return all(item in self for item in other)
    def __lt__(self, other):
        return self.issubset(other) and not self.issuperset(other)
    def __gt__(self, other):
        return self.issuperset(other) and not self.issubset(other)

Run: /venv/bin/python /verif/findings/C33_issuperset_operand_with_repeated_elements.py   (exit 1 while the defect is present)
"""
import os
import sys

sys.path.insert(0, os.environ.get("VERIF_REPO", "/repo"))
os.environ.setdefault("CASS_DRIVER_NO_EXTENSIONS", "1")
from cassandra.util import SortedSet          # noqa: E402

CASES = [
    ("issuperset", [1], [1, 1], lambda s, o: s.issuperset(o), True),
    ("issuperset", [1, 2], (2, 1, 2), lambda s, o: s.issuperset(o), True),
    ("issuperset", [[0], [1]], [[1], [1]], lambda s, o: s.issuperset(o), True),        # unhashable elements
    (">=", [1, 2], [1, 1], lambda s, o: s >= o, True),
    ("<= reflected", [1, 2], [1, 1], lambda s, o: o <= s, True),
    (">", [1, 2], [1, 1], lambda s, o: s > o, True),
    (">", [1, 2], [1, 2, 1], lambda s, o: s > o, False),
    ("<", [1], [1, 1], lambda s, o: s < o, False),
    ("<", [1], [1, 2, 1], lambda s, o: s < o, True),
    # controls: the neighbours read the same operands as sets
    ("issubset", [1, 2], [1, 2, 1], lambda s, o: s.issubset(o), True),
    ("isdisjoint", [1, 2], [3, 3], lambda s, o: s.isdisjoint(o), True),
    ("issuperset of a set", [1, 2], {1}, lambda s, o: s.issuperset(o), True),
]
bad = 0
for name, items, other, f, want in CASES:
    s = SortedSet(items)
    try:
        got = f(s, other)
    except Exception as e:
        got = "%s: %s" % (type(e).__name__, e)
    flag = "ok" if got == want else "<-- expected %r" % (want,)
    bad += got != want
    print("%-22s %r vs %r: %r   %s" % (name, s, other, got, flag))
print("builtin: set([1]).issuperset([1, 1]) =", set([1]).issuperset([1, 1]))
print("DEFECT PRESENT (%d wrong answers)" % bad if bad else "defect not present")
sys.exit(1 if bad else 0)
