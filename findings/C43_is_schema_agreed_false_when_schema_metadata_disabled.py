"""C43: with Cluster(schema_metadata_enabled=False) every DDL result says is_schema_agreed == False, although the
agreement wait ran and succeeded.

cassandra/cluster.py:4349-4358

    def refresh_schema_and_set_result(control_conn, response_future, connection, **kwargs):
        try:
            response_future.is_schema_agreed = control_conn._refresh_schema(connection, **kwargs)

cassandra/cluster.py:3829-3847

    def _refresh_schema(self, connection, preloaded_results=None, schema_agreement_wait=None, force=False, **kwargs):
        ...
        agreed = self.wait_for_schema_agreement(connection, ...)

        if not self._schema_meta_enabled and not force:
            log.debug("[control connection] Skipping schema refresh because schema metadata is disabled")
            return False                                        # <- "not refreshed" is stored as "not agreed"

        if not agreed:
            return False
        self._cluster.metadata.refresh(connection, self._timeout, **kwargs)
        return True

_refresh_schema answers "was the schema metadata refreshed?", refresh_schema_and_set_result stores that answer as
"was schema agreement reached?".  The two coincide only while schema metadata is enabled.  With it disabled (the
documented way to save the schema queries on large clusters) ResponseFuture.is_schema_agreed / ResultSet
.response_future.is_schema_agreed is False for every CREATE/ALTER/DROP, and a client timeout during the wait is
reported as "Request timed out while waiting for schema agreement" (cluster.py:4525-4531) - applications that check
the flag (as the documentation of is_schema_agreed tells them to) see a permanent disagreement.

C43: "... a schema-changing request's result records whether agreement was reached."

Smallest fix (cluster.py:3837-3839): report the verdict of the wait that was just made

        if not self._schema_meta_enabled and not force:
            log.debug("[control connection] Skipping schema refresh because schema metadata is disabled")
            return bool(agreed)

(the only callers that look at the value are refresh_schema_and_set_result, and Cluster.refresh_*_metadata which
pass force=True and never reach this branch).

Signature reported by ./check C43:  agree:ddl_nometa:is_schema_agreed-False-instead-of-True

Run: /venv/bin/python /verif/findings/C43_is_schema_agreed_false_when_schema_metadata_disabled.py   (exit 1 while present)
"""
import os
import sys

sys.path.insert(0, os.path.dirname(os.path.dirname(os.path.abspath(__file__))))
from harness.sim.simcluster import SimWorld, FakeNode, make_cluster          # noqa: E402
from harness import wire                                                      # noqa: E402

bad = 0
for enabled in (True, False):
    w = SimWorld()
    n1 = w.add_node(FakeNode("10.0.0.1", tokens=["00"], release_version="3.11.4"))
    w.add_node(FakeNode("10.0.0.2", tokens=["10"], release_version="3.11.4"))
    cluster = make_cluster(w, ["10.0.0.1"], schema_metadata_enabled=enabled)
    session = cluster.connect(wait_for_all_pools=True)
    cluster.control_connection._time = w.clock                    # virtual clock for the wait loop
    direct = cluster.control_connection.wait_for_schema_agreement()        # all nodes report the same schema version
    cluster.executor.inline = False
    fut = session.execute_async("CREATE TABLE ks.t (k int PRIMARY KEY)")
    node, p = [(n, p) for n in w.nodes.values() for p in n.pending][0]
    node.respond(p, wire.RESULT, wire.body_schema_change(p.frame.version, "CREATED", "TABLE", "ks", "t"))
    cluster.executor.drain()                                      # refresh_schema_and_set_result
    print("schema_metadata_enabled=%-5s wait_for_schema_agreement() -> %s   DDL future.is_schema_agreed -> %s"
          % (enabled, direct, fut.is_schema_agreed))
    if direct is True and fut.is_schema_agreed is not True:
        bad += 1
    cluster.shutdown()
if bad:
    print("FAIL: agreement was reached but the schema-changing request's result says it was not")
    sys.exit(1)
print("ok")
