"""C35 (also seen by C37) finding: a save that changes a static column and only REMOVES keys from a map sends
    UPDATE ks.r SET "st" = %(0)s WHERE "k" = %(1)s AND "ck" = %(2)s
i.e. an UPDATE that assigns only a static column but restricts the clustering key.

cassandra/cqlengine/query.py, DMLQuery.update (1431-1455):
                static_changed_only = static_changed_only and col.static      # counted for every changed column ...
                statement.add_update(col, val, previous=val_mgr.previous_value)  # ... but add_update drops a map
                                                                                 # clause that only removes keys
        if statement.assignments:
            for name, col in self.model._primary_keys.items():
                # only include clustering key if clustering key is not null, and non-static columns are changed to avoid cql error
                if (null_clustering_key or static_changed_only) and (not col.partition_key):
                    continue
The changed map makes static_changed_only False although its clause is not part of the UPDATE (UpdateStatement.add_update
skips clauses of context size 0; the removals go into the separate DELETE).  Cassandra answers "Invalid restrictions
on clustering columns since the UPDATE statement modifies only static columns" - the very error the comment wants to
avoid; neither the static column nor the map entry is written.

Smallest fix (query.py 1445-1446): decide after add_update whether the clause was kept, e.g.
                before = len(statement.assignments)
                statement.add_update(col, val, previous=val_mgr.previous_value)
                if len(statement.assignments) > before:
                    static_changed_only = static_changed_only and col.static

Run: /venv/bin/python /verif/findings/C35_static_update_restricted_by_clustering_key.py   (exit 1 while present)
"""
from _c35_env import harness, sent, row, run, finish

h, R = harness()
inst = R.create(k=1, ck=1, a=1, m={1: 1, 2: 2})
sent(h)
inst.st = 2
del inst.m[1]
print("inst.st = 2; del inst.m[1]; inst.save()")
err = run(h, inst.save)
stmts = sent(h)
print("    Cassandra:", err or "ok")
print("    row     :", row(h))
bad = any(t.startswith("UPDATE") and 'SET "st" = %' in t and '"ck"' in t and "," not in t.split("WHERE")[0] for t, _ in stmts)
finish(bad)
