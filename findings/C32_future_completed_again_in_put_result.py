"""C32: ConcurrentExecutorFutureResults._put_result completes the future again (no "already done" test).

cassandra/concurrent.py:175-183

    def _put_result(self, result, idx, success):
        super()._put_result(result, idx, success)          # may start (and synchronously finish) further statements
        with self._condition:
            if self._current == self._exec_count:          # true again in every frame while the recursion unwinds,
                ... self.future.set_result(...)            # and true again later when the remaining statements end

Statements that complete synchronously (execute_async raises, or the future is already complete when callbacks are
attached) recurse: _put_result(0) -> _execute_next -> _put_result(1) -> ...  The innermost frame sees "all done"
and completes the future; every outer frame then sees "all done" too and completes it AGAIN ->
concurrent.futures.InvalidStateError.  Depending on the path the error reaches the caller of
execute_concurrent_async (no future is returned at all), or is swallowed by `except Exception` in _execute and
recorded as a bogus extra result.  The same happens without recursion when a fail-fast failure completed the future
early and the remaining in-flight statements finish later (second set_exception on the event-loop thread).

Smallest fix: test the future under the lock,
        if self._current == self._exec_count and not self.future.done():

Run: /venv/bin/python /verif/findings/C32_future_completed_again_in_put_result.py   (exit 1 while the defect is present)
"""
import sys

from _c32_fake import Session, concurrent

failed = False
# (1) two statements whose execute_async raises, errors are to be collected (raise_on_first_error=False)
try:
    f = concurrent.execute_concurrent_async(Session({1: "raise", 2: "raise"}), [(1, None), (2, None)], concurrency=1,
                                            raise_on_first_error=False)
    print("(1) future returned, result:", [(r.success, type(r.result_or_exc).__name__) for r in f.result(timeout=1)])
except Exception as ex:                        # noqa
    failed = True
    print("(1) FAIL: execute_concurrent_async raised %s: %s (expected a future carrying 2 error results)" % (type(ex).__name__, ex))

# (2) same with futures that are already complete: the InvalidStateError becomes a bogus third "result"
from cassandra.concurrent import ConcurrentExecutorFutureResults       # noqa: E402
seen = []
orig = ConcurrentExecutorFutureResults._put_result


def spy(self, result, idx, success):
    seen.append((idx, success, type(result).__name__))
    return orig(self, result, idx, success)


ConcurrentExecutorFutureResults._put_result = spy
try:
    f = concurrent.execute_concurrent_async(Session({1: "ok", 2: "ok"}), [(1, None), (2, None)], concurrency=1,
                                            raise_on_first_error=False)
    print("(2) _put_result calls:", seen)
    if len(seen) != 2:
        failed = True
        print("(2) FAIL: %d results were recorded for 2 statements (the extra one is the swallowed InvalidStateError)" % len(seen))
except Exception as ex:                        # noqa
    failed = True
    print("(2) FAIL: raised %s: %s" % (type(ex).__name__, ex))
finally:
    ConcurrentExecutorFutureResults._put_result = orig
sys.exit(1 if failed else 0)
