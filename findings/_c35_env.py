"""Shared by the C35 / C37 reproductions: the model R of spec/MapperRow.tla on the real cqlengine, a recording session
registered through connection.register_connection(session=...), and the in-memory CQL interpreter behind it
(harness/replay/cql_interp.py: Cassandra's semantics for the CQL subset cqlengine emits).

    k int (partition key), ck int (clustering key), a int stored as "aa", b int, st int STATIC,
    s set<int>, l list<int>, m map<int,int>      (the check itself uses timestamp elements)
"""
import os
import sys
import warnings

sys.path.insert(0, os.path.dirname(os.path.dirname(os.path.abspath(__file__))))
from harness.replay import mapper as M           # noqa: E402
from harness.replay import cql_interp as CI      # noqa: E402

warnings.simplefilter("ignore")


def harness():
    h = M.RowHarness("row", plain_elements=True)       # the reproductions write collections of plain integers
    return h, h.R


def sent(h):
    """What the last operation sent, then forget it."""
    out = h.statements()
    h.session.executed = []
    for text, params in out:
        print("    sent:", text, " <- ", params)
    return out


def row(h, ck=1):
    snap = h.tr.snapshot().get((1,), {"static": {}, "rows": {}})
    r = dict(snap["rows"].get((ck,), {}))
    r.pop("marker", None)
    r.update(snap["static"])
    return r


def run(h, fn):
    """Run a mapper call; -> None | the exception Cassandra (the interpreter) / the mapper answered with."""
    h.session.executed = []
    try:
        fn()
        return None
    except CI.CqlInvalid as ex:
        return "InvalidRequest: %s" % ex
    except h.query.LWTException as ex:
        return "LWTException: %s" % ex


def finish(present):
    print("DEFECT PRESENT" if present else "defect not present")
    sys.exit(1 if present else 0)
