"""C17: with an explicit target host (execute_async(..., host=h)) the one-host plan is never exhausted.

cassandra/cluster.py:4557-4567

    def _make_query_plan(self):
        if self._host:
            # returning a single value effectively disables retries
            self.query_plan = [self._host]
        else:
            # convert the list/generator/etc to an iterator so that subsequent
            # calls to send_request (which retries may do) will resume where they last left off
            self.query_plan = iter(self._load_balancer.make_query_plan(self.session.keyspace, self.query))

send_request() does `for host in self.query_plan:`.  For a load-balancing plan this resumes an iterator; for an
explicit host it iterates the LIST again from the start on every call.  Therefore, contrary to the comment,
  * a RETRY_NEXT_HOST decision re-sends to the same (only) host instead of failing with NoHostAvailable - as often
    as the policy says so;
  * a speculative execution (idempotent statement) sends a second copy of the request to the same host;
the host is tried again although no retry decision named it, and the plan "is exactly that host" is never exhausted.

Smallest fix:   self.query_plan = iter([self._host])

Run: /venv/bin/python /verif/findings/C17_explicit_host_plan_reiterated.py     (exit 1 while the defect is present)
"""
import os
import sys

sys.path.insert(0, os.path.dirname(os.path.dirname(os.path.abspath(__file__))))
from harness.sim.simcluster import SimWorld, FakeNode, make_cluster          # noqa: E402
from harness import wire                                                      # noqa: E402
from cassandra.cluster import ExecutionProfile, EXEC_PROFILE_DEFAULT, NoHostAvailable   # noqa: E402
from cassandra.policies import RoundRobinPolicy, RetryPolicy, ConstantSpeculativeExecutionPolicy   # noqa: E402
from cassandra.query import SimpleStatement                                   # noqa: E402


class NextHost(RetryPolicy):
    def on_unavailable(self, query, consistency, required_replicas, alive_replicas, retry_num):
        return self.RETRY_NEXT_HOST, None


def setup(spec):
    w = SimWorld()
    addrs = ["10.0.0.1", "10.0.0.2"]
    for i, a in enumerate(addrs):
        w.add_node(FakeNode(a, tokens=["%02x" % (16 * i)]))
    prof = ExecutionProfile(load_balancing_policy=RoundRobinPolicy(), retry_policy=NextHost(), request_timeout=10.0,
                            speculative_execution_policy=ConstantSpeculativeExecutionPolicy(1.0, spec))
    cluster = make_cluster(w, addrs[:1], execution_profiles={EXEC_PROFILE_DEFAULT: prof})
    session = cluster.connect(wait_for_all_pools=True)
    cluster.executor.inline = False
    host = [h for h in cluster.metadata.all_hosts() if h.endpoint.address == "10.0.0.2"][0]
    return w, cluster, session, host


failed = False

# ---- RETRY_NEXT_HOST with an explicit host
w, cluster, session, host = setup(0)
node = w.nodes["10.0.0.2"]
fut = session.execute_async(SimpleStatement("SELECT v FROM ks.t"), host=host)
rounds = 0
while node.pending and rounds < 5:
    node.respond_error(node.pending[0], wire.ERR_UNAVAILABLE, "unavailable", wire.tail_unavailable(1, 2, 1))
    cluster.executor.drain()                        # the queued _retry_task
    rounds += 1
print("explicit host, policy answers RETRY_NEXT_HOST: attempted_hosts =", [h.endpoint.address for h in fut.attempted_hosts],
      "; final exception =", type(fut._final_exception).__name__ if fut._final_exception else None)
if len(fut.attempted_hosts) != 1 or not isinstance(fut._final_exception, NoHostAvailable):
    failed = True
    print("    FAIL: the only host of the plan was tried %d times; expected one attempt, then NoHostAvailable" % len(fut.attempted_hosts))
cluster.shutdown()

# ---- speculative execution with an explicit host
w, cluster, session, host = setup(1)
node = w.nodes["10.0.0.2"]
fut = session.execute_async(SimpleStatement("SELECT v FROM ks.t", is_idempotent=True), host=host)
w.fire(fut._timer)                                  # speculative execution timer
print("explicit host, speculative execution fired: requests the host received =", len(node.pending),
      "; attempted_hosts =", [h.endpoint.address for h in fut.attempted_hosts])
if len(node.pending) != 1:
    failed = True
    print("    FAIL: the speculative execution re-sent the request to the same host")
cluster.shutdown()

if failed:
    sys.exit(1)
print("ok")
