#!/venv/bin/python
"""C47 finding: a peer that closes the socket in the middle of the handshake makes Connection.factory()
RETURN the (closed) connection as ready, on every reactor whose close() does not record last_error.

Statement (C47): "a connection is reported ready only after the server sent READY or AUTH_SUCCESS ... every other
failure [surfaces] as a connection error".

Mechanism.  On EOF the reactor's read handler calls self.close().  close() marks the connection closed and calls
error_all_requests(ConnectionShutdown), which runs the handshake callback (_handle_options_response /
_handle_startup_response / _handle_auth_response); the callback raises the ConnectionShutdown, @defunct_on_error
calls defunct(exc) - which returns at once because is_closed is already True, so last_error stays None - and
finally close() does connected_event.set().  Connection.factory wakes up, sees no last_error and a set event, and
returns the connection.  asyncorereactor.close() has the missing statement
    if not self.connected_event.is_set():
        self.last_error = ConnectionShutdown("Connection to %s was closed" % self.endpoint)
asyncioreactor._close(), eventletreactor.close(), geventreactor.close() and twistedreactor.close() do not
(libevreactor.close() does not set the event at all: factory raises OperationTimedOut after the full timeout).

This script drives the REAL cassandra.io.asyncioreactor.AsyncioConnection.factory over a socket.socketpair()
against a scripted peer that answers OPTIONS with SUPPORTED, reads STARTUP and closes the socket.

exit 1 while the defect is present (factory returned a connection), 0 when factory raises a connection error.
Minimal fix: in each of those close()/_close() add, before connected_event.set():
    if not self.connected_event.is_set():
        self.last_error = ConnectionShutdown("Connection to %s was closed" % self.endpoint)
"""
import os
import socket
import struct
import sys
import threading

sys.path.insert(0, os.environ.get("VERIF_REPO", "/repo"))

from cassandra.connection import DefaultEndPoint            # noqa: E402
from cassandra.io.asyncioreactor import AsyncioConnection   # noqa: E402


def _string(s):
    b = s.encode()
    return struct.pack(">H", len(b)) + b


def frame(version, stream, opcode, body):
    return struct.pack(">BBhBI", 0x80 | version, 0, stream, opcode, len(body)) + body


def supported_body():
    opts = {"CQL_VERSION": ["3.4.5"], "COMPRESSION": []}
    out = struct.pack(">H", len(opts))
    for k, vs in opts.items():
        out += _string(k) + struct.pack(">H", len(vs)) + b"".join(_string(v) for v in vs)
    return out


def recv_frame(sock):
    hdr = b""
    while len(hdr) < 9:
        chunk = sock.recv(9 - len(hdr))
        if not chunk:
            return None
        hdr += chunk
    version, flags, stream, opcode, length = struct.unpack(">BBhBI", hdr)
    body = b""
    while len(body) < length:
        body += sock.recv(length - len(body))
    return version & 0x7F, stream, opcode, body


def peer(sock, close_after):
    """answer OPTIONS with SUPPORTED; close the socket after `close_after` requests have been read"""
    seen = 0
    while True:
        f = recv_frame(sock)
        if f is None:
            break
        seen += 1
        if seen >= close_after:
            break
        version, stream, opcode, body = f
        if opcode == 0x05:
            sock.sendall(frame(version, stream, 0x06, supported_body()))
    sock.close()


def attempt(close_after):
    ours, theirs = socket.socketpair()

    class Conn(AsyncioConnection):
        def _connect_socket(self):
            self._socket = ours

    t = threading.Thread(target=peer, args=(theirs, close_after), daemon=True)
    t.start()
    AsyncioConnection.initialize_reactor()
    try:
        conn = Conn.factory(DefaultEndPoint("127.0.0.1", 9042), 5.0, protocol_version=4)
    except Exception as exc:
        return "raised %s: %s" % (type(exc).__name__, exc), None
    return "returned", conn


def main():
    bad = 0
    for close_after, what in ((1, "after reading OPTIONS"), (2, "after reading STARTUP")):
        result, conn = attempt(close_after)
        if conn is not None:
            bad += 1
            print("peer closes %s: factory() RETURNED the connection: is_closed=%s is_defunct=%s last_error=%r "
                  "connected_event=%s  (server never sent READY)"
                  % (what, conn.is_closed, conn.is_defunct, conn.last_error, conn.connected_event.is_set()))
        else:
            print("peer closes %s: factory() %s" % (what, result))
    if bad:
        print("FAIL: a connection whose handshake never completed was reported ready")
        return 1
    print("PASS")
    return 0


if __name__ == "__main__":
    sys.exit(main())
