"""C35 finding: objects(...).iff(a=1).update(a=2, b=None) applies the UPDATE, then raises LWTException and leaves b set,
when the conditioned column is stored under another name (db_field).

cassandra/cqlengine/query.py, ModelQuerySet.update (1298-1332):
            us.add_update(col, val, operation=col_op)
            updated_columns.add(col_name)                                  # <-- attribute name
        ...
        if nulled_columns:
            delete_conditional = [condition for condition in self._conditional
                                  if condition.field not in updated_columns] if self._conditional else None
`condition.field` is the stored name ("aa"), updated_columns holds attribute names ("a"), so the condition on the
column the UPDATE has just changed is NOT removed from the DELETE that nulls the other column:
    UPDATE ks.r SET "aa" = 2 WHERE ... IF "aa" = 1          -> applied
    DELETE "b" FROM ks.r WHERE ... IF "aa" = 1              -> not applied (aa is 2 now) -> LWTException
The caller sees LWTException although the condition held; half of the requested change is persisted.
DMLQuery.update (instance path, line 1447) adds col.db_field_name and is not affected.

Smallest fix (query.py line 1322):          updated_columns.add(col.db_field_name)

Run: /venv/bin/python /verif/findings/C35_iff_condition_kept_for_delete_of_renamed_column.py   (exit 1 while present)
"""
from _c35_env import harness, sent, row, run, finish

h, R = harness()
R.create(k=1, ck=1, a=1, b=1)
sent(h)
print("R.objects(k=1, ck=1).iff(a=1).update(a=2, b=None)        # row has a = 1: the condition holds")
err = run(h, lambda: R.objects(k=1, ck=1).iff(a=1).update(a=2, b=None))
sent(h)
print("    answer  :", err or "applied")
print("    row     :", row(h), "   (documented: aa = 2 and b deleted, no exception)")
finish(err is not None or row(h).get("b") is not None)
