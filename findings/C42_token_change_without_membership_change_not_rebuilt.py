"""C42: a node-list refresh that sees changed *tokens* (same hosts, same dc/rack) leaves the token map stale.

cassandra/cluster.py:3944-3993 (ControlConnection._refresh_node_list_and_token_map)

        should_rebuild_token_map = force_token_rebuild or self._cluster.metadata.partitioner is None
        for row in peers_result:
            ...
            if host is None:
                host, _ = self._cluster.add_host(...)
                should_rebuild_token_map = True
            else:
                should_rebuild_token_map |= self._update_location_info(host, datacenter, rack)
            ...
            tokens = row.get("tokens", None)
            if partitioner and tokens and self._token_meta_enabled:
                token_map[host] = tokens
        for old_host in self._cluster.metadata.all_hosts():
            if ... not in found_hosts:
                should_rebuild_token_map = True
                ...
        if partitioner and should_rebuild_token_map:
            self._cluster.metadata.rebuild_token_map(partitioner, token_map)

The freshly read `token_map` is thrown away unless a host was added or removed or a *peer* changed dc/rack (the
result of _update_location_info for the control node, :3901, is ignored as well).  When only token ownership
changed - a node was moved (`nodetool move`), num_tokens changed, a token was handed from one node to another, or
the refresh simply runs without the TOPOLOGY_CHANGE event having been received/processed (refresh after a control
connection reconnect, an explicit Cluster.refresh_nodes()) - Metadata.token_map keeps the old ring.  The
TOPOLOGY_CHANGE/MOVED_NODE event does not help either: _handle_topology_change (:4035-4043) schedules
_refresh_nodes_if_not_up(host), which does nothing for a host that is up and otherwise runs this same unforced
refresh.  So after a token move the ring stays stale until some host is added, removed or relocated:
TokenAwarePolicy and Metadata.get_replicas route by tokens that no longer exist.

C42: "... the token map is rebuilt whenever membership or tokens changed."

Smallest fix (cluster.py; remember the rows the current token map was built from and rebuild when they differ):

    class ControlConnection:
        _token_map_rows = None                       # new class attribute, next to _uses_peers_v2

    # :3991-3993 becomes
        if partitioner and (should_rebuild_token_map or token_map != self._token_map_rows):
            log.debug("[control connection] Rebuilding token map due to topology changes")
            self._cluster.metadata.rebuild_token_map(partitioner, token_map)
            self._token_map_rows = token_map

Signature reported by ./check C42:  refresh:token-change-no-rebuild

Run: /venv/bin/python /verif/findings/C42_token_change_without_membership_change_not_rebuilt.py   (exit 1 while present)
"""
import os
import sys

sys.path.insert(0, os.path.dirname(os.path.dirname(os.path.abspath(__file__))))
from harness.sim.simcluster import SimWorld, FakeNode, make_cluster          # noqa: E402


def ring(cluster):
    tm = cluster.metadata.token_map
    return sorted((t.value.hex(), h.address) for t, h in tm.token_to_host_owner.items())


w = SimWorld()
n1 = w.add_node(FakeNode("10.0.0.1", tokens=["00"]))
n2 = w.add_node(FakeNode("10.0.0.2", tokens=["10"]))
cluster = make_cluster(w, ["10.0.0.1"])
cluster.connect()
print("ring after connect          :", ring(cluster))

n2.tokens = ["10", "18"]            # system.peers now reports a second token for 10.0.0.2; nothing else changed
ok = cluster.control_connection.refresh_node_list_and_token_map()
after = ring(cluster)
print("system.peers tokens of .2   : ['10', '18']")
print("ring after refresh (ok=%s) :" % ok, after)
cluster.control_connection.refresh_node_list_and_token_map(force_token_rebuild=True)
print("ring after a forced rebuild :", ring(cluster))
cluster.shutdown()
if ("18", "10.0.0.2") not in after:
    print("FAIL: tokens changed but the token map was not rebuilt (stale ring)")
    sys.exit(1)
print("ok")
