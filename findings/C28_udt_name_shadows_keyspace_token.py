"""C28 finding - parsing a marshal descriptor depends on what was parsed before: the class made for a user type is
registered under the type's bare NAME and then shadows every plain-name token equal to it.

Signature: lookup_casstype:udt-class-registered-under-its-name-shadows-plain-name-token
Where    : cassandra/cqltypes.py:104-111 (CassandraTypeType.__new__ registers EVERY class whose name does not start
           with '_' in _casstypes / _cqltypes), reached from UserType.make_udt_class (:992, type(udt_name, (cls,), ...));
           consumed by lookup_casstype_simple (:198-203) for every token of parse_casstype_args, including the
           keyspace token of UserType(<keyspace>,<hex name>,...) (UserType.apply_parameters :1011).

1. Type `shop` in keyspace `shop`:  UserType(shop,73686f70,6631:Int32Type)
     first parse : keyspace 'shop'                     (token 'shop' -> unrecognized placeholder -> its name)
     second parse: keyspace 'UserType(Int32Type)'      (token 'shop' -> the class made by the first parse)
   and every other type of that keyspace parsed afterwards (shop.shopitem) gets the same wrong keyspace; twice in ONE
   descriptor (TupleType(UserType(shop,73686f70,..),UserType(shop,73686f70,..))) the second member is already wrong.
   The class is cached under the wrong (keyspace, name) and a class registered with Cluster.register_user_type for
   ('shop', 'shop') is no longer the one deserialization uses.
2. Same for a type called like the keyspace of OTHER types (ks.ks breaks every later ks.<type>).
3. A type called like a marshal class (CREATE TYPE "Int32Type" ...) replaces that class in the registry: afterwards
   ListType(Int32Type) parses as list<frozen<Int32Type>> - every int column of every table.
So lookup_casstype(d) is not a function of d. Descriptors are parsed for Cassandra <= 2.2 schemas and for custom types
in result metadata.

Smallest fix (cqltypes.py:107): do not register the classes made for a keyspace's user types as global type names
        if not name.startswith('_') and 'keyspace' not in dct:
(make_udt_class is the only creator that passes 'keyspace'; UserType._cache keeps them addressable by
(keyspace, name); nothing looks a user type up by bare name.)  With it the unit suite is unchanged and the check passes.

Run: /venv/bin/python /verif/findings/C28_udt_name_shadows_keyspace_token.py      (exit 1 while the defect is present)
"""
import binascii
import os
import sys

sys.path.insert(0, os.environ.get("VERIF_REPO", "/repo"))
from cassandra.cqltypes import lookup_casstype   # noqa: E402

P = "org.apache.cassandra.db.marshal."


def hx(s):
    return binascii.hexlify(s.encode()).decode()


def udt(ks, name, ftype):
    return "%sUserType(%s,%s,%s:%s%s)" % (P, ks, hx(name), hx("f1"), P, ftype)


bad = 0
d = udt("shop", "shop", "Int32Type")
first, second = lookup_casstype(d), lookup_casstype(d)
print("shop.shop parsed twice   : keyspace %r, then %r" % (first.keyspace, second.keyspace))
bad += second.keyspace != "shop"
other = lookup_casstype(udt("shop", "shopitem", "UTF8Type"))
print("shop.shopitem afterwards : keyspace %r" % (other.keyspace,))
bad += other.keyspace != "shop"
before = lookup_casstype("%sListType(%sInt32Type)" % (P, P)).cql_parameterized_type()
lookup_casstype(udt("ks", "Int32Type", "UTF8Type"))
after = lookup_casstype("%sListType(%sInt32Type)" % (P, P)).cql_parameterized_type()
print("ListType(Int32Type)      : %r, after parsing a user type named Int32Type: %r" % (before, after))
bad += after != before
if bad:
    print("FAIL: %d results depend on what was parsed before" % bad)
    sys.exit(1)
print("ok")
