"""C35 finding: objects(...).update(m__update={}) and objects(...).update(m__remove=set()) delete the whole map.

Documented (ModelQuerySet.update docstring, docs/api/cassandra/cqlengine/query.rst "blind updates"):
    `update`: adds the given keys/values to the columns, creating new entries if they didn't exist, and overwriting
    old ones if they did          - no keys given: nothing to add, the map must stay as it is;  likewise removing no keys.
Compare: update(s__add=set()) and update(l__append=[]) send nothing.

cassandra/cqlengine/statements.py, MapUpdateClause (371-429):
    def _analyze(self):
        if self._operation == "update":
            self._updates = self.value.keys()              # empty
        elif self._operation == "remove":
            self._removals = {v for v in self.value.keys()}   # empty
    ...
    @property
    def is_assignment(self):
        return self.previous is None and not self._updates and not self._removals     # True for both
    def __unicode__(self):
        if self.is_assignment:
            qs += ['"{0}" = %({1})s'.format(self.field, ctx_id)]       # bound to {} by update_context
so the statement is  UPDATE ... SET "m" = {}  which deletes every entry.  Typical trigger: a computed dict / set of
changes that happens to be empty.

Smallest fix (statements.py line 413):
        return self._operation is None and self.previous is None and not self._updates and not self._removals
(get_context_size then returns 0 for an empty __update / __remove and UpdateStatement.add_update drops the clause).

Run: /venv/bin/python /verif/findings/C35_map_update_with_no_keys_clears_the_map.py   (exit 1 while present)
"""
from _c35_env import harness, sent, row, run, finish

h, R = harness()
bad = False
for kw, val in (("m__update", {}), ("m__remove", set())):
    h.reset()
    R.create(k=1, ck=1, a=1, m={1: 1, 2: 2})
    sent(h)
    print("R.objects(k=1, ck=1).update(%s=%r)" % (kw, val))
    err = run(h, lambda: R.objects(k=1, ck=1).update(**{kw: val}))
    sent(h)
    print("    Cassandra:", err or "ok")
    print("    row     :", row(h), "   (documented: m still {1: 1, 2: 2})")
    bad = bad or row(h).get("m") != {1: 1, 2: 2}
finish(bad)
