"""C01: a None element inside a list / set / map of text, ascii or blob does not survive the round trip.

_SimpleParameterizedType.serialize_safe / MapType.serialize_safe (cassandra/cqltypes.py 836-850, 905-923) write an
element through subtype.to_binary(item), which turns None into b'' - a zero-length element - instead of the null
element the v3+ format has (length -1, which the deserializer a few lines above reads back as None, PYTHON-1123).
For the string-like types a zero-length element IS a value (the empty string), so [u'a', None] is written, stored
and read back as [u'a', u''] - silently a different value.  (For the other element types the zero-length "legacy
empty" value happens to decode as None again.)  Tuples and UDTs do write -1 for None.

Run: /venv/bin/python /verif/findings/C01_null_collection_element_becomes_empty_string.py
"""
import os
import sys

os.environ.setdefault("CASS_DRIVER_NO_EXTENSIONS", "1")
sys.path.insert(0, os.environ.get("VERIF_REPO", "/repo"))
from cassandra import cqltypes                                            # noqa: E402

P = "org.apache.cassandra.db.marshal."
bad = 0
for tname, value in [("ListType(%sUTF8Type)" % P, ["a", None]),
                     ("ListType(%sBytesType)" % P, [b"\x01", None]),
                     ("SetType(%sAsciiType)" % P, [None, "x"]),
                     ("MapType(%sInt32Type,%sUTF8Type)" % (P, P), {1: None}),
                     ("ListType(%sFrozenType(%sListType(%sUTF8Type)))" % (P, P, P), [[None]])]:
    T = cqltypes.lookup_casstype(P + tname)
    for pv in (3, 4, 5):
        wire = T.to_binary(value, pv)
        back = T.from_binary(wire, pv)
        flat = list(back.items()) if hasattr(back, "items") else [list(x) if isinstance(x, list) else x for x in back]
        orig = list(value.items()) if hasattr(value, "items") else value
        ok = flat == orig
        if not ok:
            bad += 1
        if pv == 4:
            print("%-70s %r -> %s -> %r  %s" % (T.cql_parameterized_type(), value, wire.hex(), back, "ok" if ok else "CHANGED"))
# the reader side understands the null element the writer never produces:
T = cqltypes.lookup_casstype(P + "ListType(%sUTF8Type)" % P)
print("from_binary(count=2, 'a', length -1) =", T.from_binary(bytes.fromhex("000000020000000161ffffffff"), 4))
print("FAILS: %d round trips changed None into an empty value" % bad if bad else "holds")
sys.exit(1 if bad else 0)
