"""C28 finding - a UserType descriptor whose hex-encoded name consists of decimal digits cannot be parsed.

Signature: parse_casstype_args:all-digit-hex-udt-name-read-as-int
Where    : cassandra/cqltypes.py:229-233 (parse_casstype_args), reached from lookup_casstype;
           the crash is in UserType.apply_parameters, cqltypes.py:1009

Cassandra prints a UDT as  org.apache.cassandra.db.marshal.UserType(<keyspace>,<hex(name)>,<hex(field)>:<type>,...).
Since vector support was added, parse_casstype_args tries int(tok) on EVERY token before looking it up as a type
name (the integer is meant for the dimension of VectorType).  The hex encoding of a name is all decimal digits
whenever every character of the name has both nibbles <= 9: the letters a-i, p-y, A-I, P-Y, the digits.
'test' = 74657374, 'user' = 75736572, 'address' = 61646472657373, 'type' = 74797065, 'u' = 75 ...
For such a name the token becomes an int, UserType.apply_parameters does subtypes[1].cassname and
lookup_casstype raises AttributeError (not even the ValueError it documents).  The same happens to a keyspace
whose name is all digits.  Schema parsing of Cassandra <= 2.2 (validators are descriptors) and custom-type
descriptors in result metadata go through this function.

Smallest fix (cqltypes.py:229-233): only read an integer where one is expected, i.e. directly inside a VectorType
            enclosing = args[-2][0][-1] if len(args) > 1 else None
            if tok.isdigit() and isinstance(enclosing, type) and issubclass(enclosing, VectorType):
                ctype = int(tok)                       # dimension of a vector
            else:
                ctype = lookup_casstype_simple(tok)

Run: /venv/bin/python /verif/findings/C28_udt_hex_name_read_as_int.py      (exit 1 while the defect is present)
"""
import binascii
import os
import sys

sys.path.insert(0, os.environ.get("VERIF_REPO", "/repo"))
from cassandra.cqltypes import lookup_casstype   # noqa: E402

P = "org.apache.cassandra.db.marshal."
bad = 0
for name in ("kj", "test", "user", "address", "u"):
    hx = binascii.hexlify(name.encode()).decode()
    desc = "%sUserType(ks,%s,%s:%sInt32Type)" % (P, hx, binascii.hexlify(b"f1").decode(), P)
    try:
        cls = lookup_casstype(desc)
        print("UDT %-8s hex %-16s -> %s, fields %r" % (name, hx, cls.cql_parameterized_type(), cls.fieldnames))
    except Exception as ex:
        bad += 1
        print("UDT %-8s hex %-16s -> lookup_casstype raised %s: %s" % (name, hx, type(ex).__name__, ex))
if bad:
    print("FAIL: %d descriptors of well-formed user types could not be parsed" % bad)
    sys.exit(1)
print("ok")
