"""C28 finding - the CQL name printed for a vector type is not CQL.

Signature: VectorType.cql_parameterized_type:marshal-class-name-instead-of-vector
Where    : cassandra/cqltypes.py:1433 (typename) and :1495-1497 (VectorType.cql_parameterized_type)

lookup_casstype('org.apache.cassandra.db.marshal.VectorType(org.apache.cassandra.db.marshal.FloatType , 3)')
  .cql_parameterized_type()  ==  'org.apache.cassandra.db.marshal.VectorType<float, 3>'
The CQL name of that type is  vector<float, 3>  (Cassandra 5.0: CQL3Type.Vector.toString); the printed text is
neither CQL (a Java class name followed by <...>) nor the marshal notation, also when nested:
  map<org.apache.cassandra.db.marshal.VectorType<text, 2>, int>.
cql_typename() ("Translate a Cassandra-style type specifier into a CQL-style type specifier") returns it, and it is
what ColumnMetadata.cql_type / error messages show.

NOTE: tests/unit/test_types.py:460-469 (VectorTests.test_cql_parameterized_type) pin the current text, so a
repair has to touch that test as well.
Smallest fix (cqltypes.py:1497):
        return "vector<%s, %s>" % (cls.subtype.cql_parameterized_type(), cls.vector_size)

Run: /venv/bin/python /verif/findings/C28_vector_cql_name_is_marshal_class.py      (exit 1 while the defect is present)
"""
import os
import sys

sys.path.insert(0, os.environ.get("VERIF_REPO", "/repo"))
from cassandra.cqltypes import lookup_casstype   # noqa: E402

P = "org.apache.cassandra.db.marshal."
cases = [("%sVectorType(%sFloatType , 3)" % (P, P), "vector<float, 3>"),
         ("%sMapType(%sVectorType(%sUTF8Type , 2),%sInt32Type)" % (P, P, P, P), "map<vector<text, 2>, int>")]
bad = 0
for desc, want in cases:
    got = lookup_casstype(desc).cql_parameterized_type()
    print("%s\n   prints %r, CQL name %r" % (desc, got, want))
    bad += got.replace(" ", "") != want.replace(" ", "")
if bad:
    print("FAIL")
    sys.exit(1)
print("ok")
