#!/venv/bin/python
"""C19 - after an id mismatch while re-preparing, the driver still re-sends the EXECUTE (and may report success).

Property C19: "... if re-preparing yields a different statement id ... the request fails with that error and
nothing further is sent for it."

Schedule (one node, protocol v4; the same happens with v5 and on any host of the plan):
  1. session.prepare(q)                      -> id A
  2. session.execute_async(bound)            -> EXECUTE(A) to the node
  3. node answers ERROR UNPREPARED(A)        -> executor task ResponseFuture._reprepare
  4. run the task                            -> PREPARE(q) to the node
  5. node answers RESULT prepared(id B != A) -> executor task ResponseFuture._execute_after_prepare
  6. run the task

Code: cassandra/cluster.py, ResponseFuture._execute_after_prepare (lines 4887-4904 of the pinned tree): the
`query_id != response.query_id` branch calls self._set_final_exception(DriverException("ID mismatch ...")) but
does not return; control falls through to `request_id = self._query(host)`, which sends the original EXECUTE again
(to the next host of the plan, or NoHostAvailable replaces the DriverException, when that host's pool is unusable).
If the node then answers with rows, _set_final_result is applied on top of the exception and result() *returns the
rows* although errbacks already fired with the DriverException.  The statement's result metadata is also overwritten
with that of the other statement.

Smallest fix: add `return` after that _set_final_exception(...) call.

Run: /venv/bin/python /verif/findings/C19_id_mismatch_execute_resent.py      (exit 1 while the defect is present)
"""
import os
import sys

sys.path.insert(0, os.path.dirname(os.path.dirname(os.path.abspath(__file__))))
from harness.sim.simcluster import SimWorld, FakeNode, make_cluster      # noqa: E402
from harness import wire                                                # noqa: E402

world = SimWorld()
node = world.add_node(FakeNode("10.0.0.1"))
cluster = make_cluster(world, ["10.0.0.1"], protocol_version=4, inline=True, prepare_on_all_hosts=False)
session = cluster.connect()
ID_A, ID_B = b"id-A", b"id-B"


def prepared(qid):
    return wire.body_prepared(qid, [("k", wire.T_INT)], [0], [("a", wire.T_INT)], 4)


node.auto = True
node.auto_answer = lambda n, p: n.respond(p, wire.RESULT, prepared(ID_A)) if p.req["op"] == "PREPARE" else None
stmt = session.prepare("SELECT a FROM t WHERE k=?")                     # 1
node.auto = False
cluster.executor.inline = False
del node.received[:]
errbacks = []

fut = session.execute_async(stmt.bind((1,)))                            # 2
fut.add_errback(errbacks.append)
node.respond_error(node.pending[0], wire.ERR_UNPREPARED, "unprepared", wire.tail_unprepared(ID_A))   # 3
cluster.executor.run_next()                                             # 4
node.respond(node.pending[0], wire.RESULT, prepared(ID_B))              # 5
cluster.executor.run_next()                                             # 6

frames = [(r["op"], r.get("id") or r.get("query")) for _, r in node.received if r["op"] in ("PREPARE", "EXECUTE")]
print("frames received by the node :", frames)
print("future failed with           :", repr(fut._final_exception)[:90])
print("errbacks fired               :", [type(e).__name__ for e in errbacks])
print("answers the node still owes  :", node.pending)
bad = False
if len(frames) != 2 or node.pending:
    bad = True
    print("DEFECT: the EXECUTE was sent again after the request had failed with the id mismatch")
    node.respond_rows(node.pending[0], [("a", wire.T_INT)], [[wire.w_int(5)]])
    try:
        print("DEFECT: result() now returns", list(fut.result()), "although the errback received", type(errbacks[0]).__name__)
    except Exception as exc:                                            # noqa: BLE001
        print("result() raises", type(exc).__name__)
cluster.shutdown()
print("C19 id-mismatch: %s" % ("VIOLATED" if bad else "holds"))
sys.exit(1 if bad else 0)
