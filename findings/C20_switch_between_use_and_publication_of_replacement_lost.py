"""C20 - a keyspace switch that lands between the USE on a replacement connection and its publication is lost.

cassandra/pool.py 511-517: HostConnection._replace selects self._keyspace on the new connection
(set_keyspace_blocking, a network round trip) and afterwards stores it in self._connection without looking at
self._keyspace again.  A session keyspace switch in between finds the pool without connection:
_set_keyspace_for_all_conns records the keyspace and reports success at once.  The pool then installs the connection
on the OLD keyspace; nothing re-issues the USE, and requests routed to that host run against the old keyspace although
the switch succeeded.

Configuration: pool 1 answers ok; pool 2 is being replaced, its _replace task has already selected the old keyspace on
the new connection when the switch begins, and publishes it afterwards.
Signature: HostConnection._replace:keyspace-switch-between-USE-and-publication-of-the-replacement-lost
"""
import os
import sys

sys.path.insert(0, os.path.dirname(os.path.dirname(os.path.abspath(__file__))))
from harness.replay import keyspace as rk        # noqa: E402

print(__doc__.splitlines()[0])
h = rk.KsHarness({1: "conn", 2: "noconn"}, {1: "ok", 2: "ok"}, {2: "publish"})
print("  before the switch:", {k: v for k, v in h.project().items() if k in ("connks", "poolks", "newks")})
for a in [{"name": "Start", "p": 0}, {"name": "PoolFinish", "p": 1}, {"name": "RPublish", "p": 2},
          {"name": "Borrow", "p": 1}, {"name": "Borrow", "p": 2}]:
    h.do(a)
    p = h.project()
    print("  %-10s %s | USE future: completions=%s result=%s | connection keyspace=%s pool keyspace=%s unpublished=%s" % (
        a["name"], a["p"] or "", p["completions"], p["result"], p["connks"], p["poolks"], p["newks"]))
p = h.project()
print("  session.keyspace=%r; keyspace of the connection borrowed from each pool: %s" % (h.session.keyspace, p["borrowed"]))
if p["result"] == "ok" and p["borrowed"][2] != "new":
    print("DEFECT REPRODUCED (C20): the switch reported success, but pool 2 hands out a connection on keyspace %r"
          % h.pool[2]._connection.keyspace)
    sys.exit(1)
print("not reproduced")
