"""C21 finding - DCAwareRoundRobinPolicy with auto-detected local_dc: hosts populated before the local dc is known
stay filed under the placeholder datacenter '' forever.

Signature: DCAware.auto-local-dc:unlocated-hosts-orphaned
Where    : cassandra/policies.py, DCAwareRoundRobinPolicy._dc (234-235), on_up (283-299), on_down (301-310)
Contact points are populated without datacenter, so with local_dc='' they are stored in _dc_live_hosts[''].
When the first contact point comes up located, on_up sets self.local_dc = 'A'.  From then on _dc(h) of a still
unlocated host is 'A', so on_down(h) looks into the 'A' group, does not find h and leaves it in the '' group;
the following on_up(h) adds it to its real group as well.  The '' group is now treated as a remote datacenter:
  * used_hosts_per_remote_dc >= 1: the host is yielded twice (local part and "remote" part) - duplicate in the plan;
    a host of that group that went down or was removed keeps being yielded;
  * used_hosts_per_remote_dc == 0: a live contact point that has not been relocated yet reports LOCAL but is in no plan.
This is the normal start-up sequence of a cluster with two contact points (Cluster.connect: populate, then
ControlConnection._refresh_node_list_and_token_map -> _update_location_info for every contact point).

Run: /venv/bin/python /verif/findings/C21_dcaware_auto_local_dc_orphans_unlocated_hosts.py   (exit 1 while present)
"""
import os
import sys

sys.path.insert(0, os.environ.get("VERIF_REPO", "/repo"))

from cassandra.connection import DefaultEndPoint                                   # noqa: E402
from cassandra.policies import DCAwareRoundRobinPolicy, SimpleConvictionPolicy      # noqa: E402
from cassandra.pool import Host                                                    # noqa: E402


class FakeCluster(object):
    def __init__(self, endpoints):
        self.endpoints_resolved = endpoints


def relocate(policy, h, dc):
    # ControlConnection._update_location_info (cluster.py 4001-4011)
    policy.on_down(h)
    h.set_location_info(dc, "r1")
    policy.on_up(h)


failed = False

# --- start-up with two contact points, one remote host allowed per remote dc
h1 = Host(DefaultEndPoint("h1"), SimpleConvictionPolicy)
h2 = Host(DefaultEndPoint("h2"), SimpleConvictionPolicy)
for h in (h1, h2):
    h.set_up()
policy = DCAwareRoundRobinPolicy(used_hosts_per_remote_dc=1)          # local_dc auto-detected
policy.populate(FakeCluster([h1.endpoint, h2.endpoint]), [h1, h2])     # contact points, no location yet
relocate(policy, h1, "A")                                              # first refresh: h1 is in A -> local_dc = A
relocate(policy, h2, "A")                                              # h2 is in A as well
plan = [h.address for h in policy.make_query_plan()]
print("two contact points, both in A, used_hosts_per_remote_dc=1 -> plan", plan, " expected h1 and h2 once each")
failed |= sorted(plan) != ["h1", "h2"]
policy.on_down(h2)
plan = [h.address for h in policy.make_query_plan()]
print("after on_down(h2) -> plan", plan, " expected ['h1']")
failed |= plan != ["h1"]

# --- same start-up, default used_hosts_per_remote_dc=0, plan taken between the two refresh steps
h1 = Host(DefaultEndPoint("h1"), SimpleConvictionPolicy)
h2 = Host(DefaultEndPoint("h2"), SimpleConvictionPolicy)
for h in (h1, h2):
    h.set_up()
policy = DCAwareRoundRobinPolicy()
policy.populate(FakeCluster([h1.endpoint, h2.endpoint]), [h1, h2])
relocate(policy, h1, "A")
plan = [h.address for h in policy.make_query_plan()]
print("k=0, h2 not relocated yet: distance(h2) =", policy.distance(h2), "(0 = LOCAL), plan", plan, " expected h1 and h2")
failed |= sorted(plan) != ["h1", "h2"]

print("DEFECT PRESENT" if failed else "ok")
sys.exit(1 if failed else 0)
