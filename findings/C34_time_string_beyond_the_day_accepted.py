"""C34 finding: cassandra.util.Time accepts strings that spell a time at or beyond 24:00:00.

cassandra/util.py, Time._from_timestring parses 'HH:MM:SS' with time.strptime(.., "%H:%M:%S"); %S admits the seconds 60
and 61 (leap seconds of struct_time), and the result is stored without the range check Time(int) applies:
    Time('23:59:60').nanosecond_time == 86400000000000  == Time.DAY      (Time(86400000000000) itself raises ValueError)
    Time('23:59:61.999999999')       == Time.DAY + 1999999999
TimeType.serialize('23:59:60') sends 86400000000000, which Cassandra refuses.  The class breaks its own invariant
"value must be less than number of nanoseconds in a day".

Smallest fix (cassandra/util.py Time._from_timestring): compute the value into a local and finish with the existing check
            self._from_timestamp(nanosecond_time)
(together with the two-sided check proposed in C34_time_negative_nanoseconds_accepted.py).

Run: /venv/bin/python /verif/findings/C34_time_string_beyond_the_day_accepted.py   (exit 1 while the defect is present)
"""
import os
import sys

sys.path.insert(0, os.environ.get("VERIF_REPO", "/repo"))
os.environ.setdefault("CASS_DRIVER_NO_EXTENSIONS", "1")
from cassandra.util import Time               # noqa: E402

DAY = 86400 * 10 ** 9
bad = 0
for s in ("23:59:60", "23:59:60.000", "23:59:61", "23:59:61.999999999", "24:00:00", "25:00:00", "23:60:00"):
    try:
        t = Time(s)
    except ValueError as e:
        print("Time(%r) refused   ok" % s)
        continue
    inside = 0 <= t.nanosecond_time < DAY
    print("Time(%r) accepted: nanosecond_time=%d %s" % (s, t.nanosecond_time, "" if inside else "  <-- outside the day"))
    bad += not inside
print("DEFECT PRESENT" if bad else "defect not present")
sys.exit(1 if bad else 0)
