"""C25 - with two sessions, one down->up transition can mark the host up and notify every listener twice.

Cluster.on_up (cluster.py:1920-1929) submits one add_or_renew_pool per session and, inside the same loop, attaches
_on_up_future_completed to each future *before* the next one is added to `futures`:

    for session in tuple(self.sessions):
        future = session.add_or_renew_pool(host, is_host_addition=False)
        if future is not None:
            have_future = True
            future.add_done_callback(callback)
            futures.add(future)

When the first session's pool is ready (a worker thread completes the future) before the loop reaches the second
session, _on_up_future_completed (cluster.py:1840-1875) finds `futures` empty, marks the host up, calls
listener.on_up(host) for every listener and clears _currently_handling_node_up.  The loop then submits the second pool;
when that future completes `futures` is empty again: set_up() and listener.on_up(host) a second time.
(Cluster.on_add, cluster.py:2060-2066, has the same loop and the same effect on listener.on_add.)

The window is made deterministic by letting the "worker" run between the two iterations.

Run: /venv/bin/python /verif/findings/C25_on_up_notifies_listeners_twice.py      (exit 1 = defect present)
"""
import os
import sys

sys.path.insert(0, os.path.dirname(os.path.dirname(os.path.abspath(__file__))))
from harness.sim.simcluster import SimWorld, FakeNode, make_cluster
from cassandra.policies import HostStateListener


class Listener(HostStateListener):
    def __init__(self):
        self.calls = []

    def on_up(self, host):
        self.calls.append(("on_up", str(host)))

    def on_down(self, host):
        self.calls.append(("on_down", str(host)))

    def on_add(self, host):
        pass

    def on_remove(self, host):
        pass


w = SimWorld()
w.add_node(FakeNode("10.0.0.1", tokens=["10"]))
w.add_node(FakeNode("10.0.0.2", tokens=["20"]))
cluster = make_cluster(w, ["10.0.0.1"], inline=True)
listener = Listener()
cluster.register_listener(listener)
a = cluster.connect(wait_for_all_pools=True)
b = cluster.connect(wait_for_all_pools=True)
cluster.executor.inline = False                      # submitted tasks wait until a "worker" runs them
h2 = [h for h in cluster.metadata.all_hosts() if h.address == "10.0.0.2"][0]

for s in (a, b):                                     # both sessions lose their connection to 10.0.0.2
    pool = s._pools[h2]
    conn = pool._connection
    conn.socket_error()
    pool.return_connection(conn)
cluster.executor.drain()                             # on_down: host down, reconnector scheduled
assert h2.is_up is False and h2._reconnection_handler is not None

second = list(cluster.sessions)[1]                   # the session on_up's loop reaches second
add_or_renew_pool = second.add_or_renew_pool


def worker_is_faster(host, is_host_addition):
    cluster.executor.drain()                         # a worker thread completes the first session's pool future now
    return add_or_renew_pool(host, is_host_addition)


second.add_or_renew_pool = worker_is_faster
cluster.scheduler.fire_next()                        # the reconnection delay elapses
cluster.executor.run_next()                          # reconnector.run(): probe ok -> Cluster.on_up(host)
cluster.executor.drain()                             # the second pool future completes

print("listener calls:", listener.calls)
ups = [c for c in listener.calls if c[0] == "on_up"]
print("on_up notifications for the one down->up transition:", len(ups))
cluster.shutdown()
sys.exit(1 if len(ups) != 1 else 0)
