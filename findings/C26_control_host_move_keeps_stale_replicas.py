"""C26 finding - when the CONTROL host changes rack/datacenter the token map is not rebuilt and the replica maps
cached before the move keep being reported.

Signature: move(control-host)->NTS:replica-set-differs
Where    : cassandra/cluster.py, ControlConnection._refresh_node_list_and_token_map, the system.local branch
           (`self._update_location_info(host, datacenter, rack)` - the return value is dropped) versus the
           system.peers branch (`should_rebuild_token_map |= self._update_location_info(...)`).
For a peer whose location changed the refresh rebuilds the token map (new TokenMap, empty per-keyspace replica
cache).  For the host the control connection is connected to, the change is applied to the Host object but
should_rebuild_token_map stays False and the token rows are unchanged, so Metadata.rebuild_token_map is not called;
NetworkTopologyStrategy replica maps computed for the old layout (TokenMap.tokens_to_hosts_by_ks) survive.

Smallest fix: remember the result for the local row and let it force the rebuild, e.g.
    local_moved = False                                   (before `if local_result.parsed_rows:`)
    local_moved = self._update_location_info(host, datacenter, rack)
    should_rebuild_token_map = force_token_rebuild or local_moved or self._cluster.metadata.partitioner is None

Run: /venv/bin/python /verif/findings/C26_control_host_move_keeps_stale_replicas.py   (exit 1 while present)
"""
import sys

sys.path.insert(0, "/verif")

from harness.pyenv import repo_import                        # noqa: E402  (imports the driver from VERIF_REPO or /repo)

repo_import("cassandra.cluster")
from harness.sim.simcluster import SimWorld, FakeNode, make_cluster   # noqa: E402
import cassandra.metadata as M                                        # noqa: E402

w = SimWorld()
n1 = w.add_node(FakeNode("10.0.0.1", dc="dc1", rack="r1", tokens=["10"]))
n2 = w.add_node(FakeNode("10.0.0.2", dc="dc1", rack="r1", tokens=["20"]))
cluster = make_cluster(w, ["10.0.0.1"])                      # the control connection talks to 10.0.0.1
cluster.connect()
md = cluster.metadata
md._update_keyspace(M.KeyspaceMetadata("ks", True, "NetworkTopologyStrategy", {"dc2": "1"}))


def replicas():
    return [h.address for h in md.get_replicas("ks", b"\x08")]


before = replicas()                                          # nobody lives in dc2: no replica; the map is now cached
n1.dc = "dc2"                                                # the control host is re-provisioned in dc2
cluster.control_connection.refresh_node_list_and_token_map()
host = md.get_host(cluster.control_connection._connection.endpoint)
after = replicas()
print("before the move:", before)
print("driver knows the new location:", host.datacenter, "- replicas of the key now:", after, " expected ['10.0.0.1']")
failed = after != ["10.0.0.1"]
cluster.shutdown()
print("DEFECT PRESENT" if failed else "ok")
sys.exit(1 if failed else 0)
