r"""C28 finding - the CQL name of a user type whose name needs quoting is printed bare.

Signature: UserType.cql_parameterized_type:udt-name-not-quoted
Where    : cassandra/cqltypes.py:1013-1015 (UserType.cql_parameterized_type: "frozen<%s>" % cls.typename)

A type created as  CREATE TYPE ks."Kj" (...)  is described by UserType(ks,4b6a,...) ; the driver prints its CQL
name as  frozen<Kj> , which CQL reads as the (different, probably non-existent) type kj.  Cassandra prints
frozen<"Kj"> (CQL3Type.UserDefined: ColumnIdentifier.maybeQuote).  The text ends up in ColumnMetadata.cql_type and in
the CREATE TABLE / CREATE TYPE statements exported for Cassandra <= 2.2 schemas, and nested in every enclosing type.

Smallest fix (cqltypes.py:1015), cqltypes cannot import metadata.protect_name (circular), so inline the rule:
        name = cls.typename
        if not re.match(r'[a-z][a-z0-9_]*\Z', name):
            name = '"%s"' % name.replace('"', '""')
        return "frozen<%s>" % (name,)
(reserved words as type names would additionally need the keyword set that lives in metadata.py.)

Run: /venv/bin/python /verif/findings/C28_udt_name_not_quoted_in_cql_name.py      (exit 1 while the defect is present)
"""
import os
import sys

sys.path.insert(0, os.environ.get("VERIF_REPO", "/repo"))
from cassandra.cqltypes import lookup_casstype   # noqa: E402

P = "org.apache.cassandra.db.marshal."
desc = "%sListType(%sUserType(ks,4b6a,6631:%sInt32Type))" % (P, P, P)
got = lookup_casstype(desc).cql_parameterized_type()
want = 'list<frozen<"Kj">>'
print("%s\n   prints %r, CQL name %r" % (desc, got, want))
if got.replace(" ", "") != want:
    print("FAIL: the bare name is case-folded by CQL to 'kj'")
    sys.exit(1)
print("ok")
