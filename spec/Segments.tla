------------------------------ MODULE Segments ------------------------------
(* Protocol v5 checksummed framing: the byte stream is a sequence of segments  *)
(*                                                                            *)
(*     header (3 bytes, or 5 when compression was negotiated) | CRC24 (3)      *)
(*     payload (<= MaxPayload bytes as sent)                  | CRC32 (4)      *)
(*                                                                            *)
(* A frame that fits travels in a self-contained segment (several small frames  *)
(* may share one); a larger frame is cut into MaxPayload pieces sent as         *)
(* non-self-contained segments.  With compression negotiated the sender decides *)
(* per segment whether the payload is compressed (uncompressed-length field 0   *)
(* = "left as it is"); the header is 5 bytes either way.                        *)
(*                                                                            *)
(* Code anchors:                                                              *)
(*   cassandra/connection.py  process_io_buffer (1206-1238), _process_segment_buffer (1183-1204), *)
(*                            _ConnectionIOBuffer (io buffer / cql frame buffer, _segment_consumed) *)
(*   cassandra/segment.py     SegmentCodec.decode_header / decode, SegmentHeader.segment_length,   *)
(*                            header_length_with_crc, CrcException                                  *)
(*                                                                            *)
(* This module describes the *protocol-correct receiver* with the loop structure *)
(* of process_io_buffer (per turn: at most one segment taken, at most one frame   *)
(* delivered).  The frame layer is Framing.tla (EXTENDS): its `wire`/`sent` are   *)
(* here the frame-level byte stream not yet / already handed over by the segment  *)
(* layer, so Framing's invariants are checked on the messages.  Sizes are scaled: *)
(* the model's MaxPayload is 4 and a frame header AbsHdr = 2 bytes; header and    *)
(* CRC lengths are the real ones.  The harness maps model offsets to real offsets *)
(* (MAX_PAYLOAD_LENGTH = 131071) boundary by boundary.                            *)
(*                                                                            *)
(* Bytes on the network are tagged <<s, r, o>>: byte o of region r of segment s, *)
(* r in "h" (header) "c" (CRC24) "p" (payload as is) "z" (compressed payload)    *)
(* "q" (CRC32).  A CRC check passes iff the bytes checked are exactly the run of *)
(* one segment and none of them is corrupted (single corruptions are always      *)
(* caught by a CRC; that arithmetic is exercised on the real code bit by bit).   *)
EXTENDS Framing

CONSTANTS MaxPayload,    \* largest payload of one segment (model: 4)
          CLen,          \* length on the wire of a compressed payload (model: 2; arbitrary in reality)
          Codecs,        \* subset of {"plain", "comp"}: was compression negotiated for the connection
          MaxSegs,       \* only configurations with at most this many segments
          CorruptRegs,   \* regions in which the fault model may corrupt one segment: subset of {"h","c","p","q"}
          FreeFlags      \* TRUE: sender's compressed flag is free per segment; FALSE: all or nothing

VARIABLES codec,         \* "plain" / "comp"                           (fixed by Init)
          segs,          \* Seq of [lo, hi, sc, z]: frame-stream range carried, self-contained flag, compressed flag
          corrupt,       \* [seg, reg]: the one corruption on the wire; seg = 0: none
          net,           \* tagged bytes still in the network
          nsent,         \* bytes handed to the connection so far
          segbuf,        \* io buffer: bytes read, not yet consumed by the segment layer
          nseg,          \* segments consumed (payload moved to the frame buffer)
          defunct        \* connection failed (CrcMismatchException -> defunct)
svars == <<codec, segs, corrupt, net, nsent, segbuf, nseg, defunct>>
allvars == <<fvars, svars>>

HL == IF codec = "comp" THEN 5 ELSE 3          \* depends on the connection's codec only
HLc(cd) == IF cd = "comp" THEN 5 ELSE 3
NoCorruption == [seg |-> 0, reg |-> "none"]

(* ---------------- what the sender puts on the wire ---------------- *)
RECURSIVE StartOf(_, _)
StartOf(fs, i) == IF i = 1 THEN 0 ELSE StartOf(fs, i - 1) + FrameLenOf(fs[i - 1])

Min(a, b) == IF a < b THEN a ELSE b

(* pieces of a large frame occupying frame-stream offsets s .. s+F *)
RECURSIVE Pieces(_, _, _)
Pieces(s, F, acc) ==
    IF F = 0 THEN acc
    ELSE Pieces(s + Min(F, MaxPayload), F - Min(F, MaxPayload),
                Append(acc, [lo |-> s, hi |-> s + Min(F, MaxPayload), sc |-> FALSE, z |-> FALSE]))

(* pk[i]: frame i is put into the same self-contained segment as frame i-1 *)
RECURSIVE Build(_, _, _, _)
Build(fs, pk, i, acc) ==
    IF i > Len(fs) THEN acc
    ELSE LET F == FrameLenOf(fs[i])
             s == StartOf(fs, i) IN
         IF F > MaxPayload THEN Build(fs, pk, i + 1, Pieces(s, F, acc))
         ELSE IF pk[i] /\ acc # <<>> /\ acc[Len(acc)].sc /\ acc[Len(acc)].hi - acc[Len(acc)].lo + F <= MaxPayload
              THEN Build(fs, pk, i + 1, [acc EXCEPT ![Len(acc)].hi = @ + F])
              ELSE Build(fs, pk, i + 1, Append(acc, [lo |-> s, hi |-> s + F, sc |-> TRUE, z |-> FALSE]))

PackOK(fs, pk) ==      \* canonical: a pack flag is set only where it has an effect
    /\ ~pk[1]
    /\ \A i \in 2..Len(pk) : pk[i] =>
          /\ i <= Len(fs)
          /\ Len(Build(fs, pk, 1, <<>>)) < Len(Build(fs, [pk EXCEPT ![i] = FALSE], 1, <<>>))

PLenOf(sg) == IF sg.z THEN CLen ELSE sg.hi - sg.lo
SegBytes(cd, sgs, s) ==
    [o \in 1..HLc(cd) |-> <<s, "h", o>>] \o [o \in 1..3 |-> <<s, "c", o>>]
    \o [o \in 1..PLenOf(sgs[s]) |-> <<s, IF sgs[s].z THEN "z" ELSE "p", o>>]
    \o [o \in 1..4 |-> <<s, "q", o>>]
SegLenOf(cd, sg) == HLc(cd) + 3 + PLenOf(sg) + 4
RECURSIVE NetOf(_, _, _)
NetOf(cd, sgs, n) == IF n = 0 THEN <<>> ELSE NetOf(cd, sgs, n - 1) \o SegBytes(cd, sgs, n)
RECURSIVE NetLen(_, _, _)
NetLen(cd, sgs, n) == IF n = 0 THEN 0 ELSE NetLen(cd, sgs, n - 1) + SegLenOf(cd, sgs[n])

RegOf(r) == IF r = "z" THEN "p" ELSE r
Bad(b) == corrupt.seg # 0 /\ b[1] = corrupt.seg /\ RegOf(b[2]) = corrupt.reg

(* ---------------- initial states: every configuration ---------------- *)
SInit(fs, cd, sgs, cr) ==
    /\ InitWith(fs)
    /\ codec = cd /\ segs = sgs /\ corrupt = cr
    /\ net = NetOf(cd, sgs, Len(sgs)) /\ nsent = 0 /\ segbuf = <<>> /\ nseg = 0 /\ defunct = FALSE

Init_S ==
    \E fs \in FrameSeqs, cd \in Codecs, pk \in [1..MaxFrames -> BOOLEAN] :
      /\ PackOK(fs, pk)
      /\ LET base == Build(fs, pk, 1, <<>>) IN
         /\ Len(base) <= MaxSegs
         /\ \E fl \in [1..Len(base) -> BOOLEAN] :
              /\ cd = "plain" => \A s \in 1..Len(base) : ~fl[s]
              /\ ~FreeFlags => \A s, t \in 1..Len(base) : fl[s] = fl[t]
              /\ LET sgs == [s \in 1..Len(base) |-> [base[s] EXCEPT !.z = fl[s]]] IN
                 \E cr \in {NoCorruption} \cup [seg : 1..Len(base), reg : CorruptRegs] :
                    SInit(fs, cd, sgs, cr)

(* ---------------- the receiver ---------------- *)
(* the decoded payload of segment s: its piece of the frame stream *)
ChunkOf(s) == SubSeq(Wire, segs[s].lo + 1, segs[s].hi)

(* _process_segment_buffer: one attempt to take one segment out of the io buffer *)
TrySegment(st) ==     \* st = [segbuf, nseg, defunct, consumed, f (frame layer record), fsent]
    IF Len(st.segbuf) < HL + 3 THEN [st EXCEPT !.consumed = FALSE]          \* not even a header: wait
    ELSE
      LET hb == SubSeq(st.segbuf, 1, HL + 3)
          s  == hb[1][1]
          hdrRun == /\ \A o \in 1..HL : hb[o] = <<s, "h", o>>
                    /\ \A o \in 1..3 : hb[HL + o] = <<s, "c", o>>
      IN
      IF ~hdrRun \/ \E o \in 1..(HL + 3) : Bad(hb[o])
      THEN [st EXCEPT !.defunct = TRUE]                                    \* decode_header: CRC24 mismatch
      ELSE
        LET n   == PLenOf(segs[s])                                         \* payload_length field
            tot == HL + 3 + n + 4                                          \* the whole segment on the wire
        IN
        IF Len(st.segbuf) < tot THEN [st EXCEPT !.consumed = FALSE]        \* header only so far: wait
        ELSE
          LET pb == SubSeq(st.segbuf, HL + 3 + 1, HL + 3 + n)
              qb == SubSeq(st.segbuf, HL + 3 + n + 1, tot)
              k  == IF segs[s].z THEN "z" ELSE "p"
              run == /\ \A o \in 1..n : pb[o] = <<s, k, o>>
                     /\ \A o \in 1..4 : qb[o] = <<s, "q", o>>
              bad == (\E o \in 1..n : Bad(pb[o])) \/ (\E o \in 1..4 : Bad(qb[o]))
          IN
          IF ~run \/ bad THEN [st EXCEPT !.defunct = TRUE]                  \* decode: CRC32 mismatch
          ELSE [st EXCEPT !.segbuf = SubSeq(@, tot + 1, Len(@)),           \* reset_io_buffer keeps the tail
                          !.nseg = @ + 1, !.consumed = TRUE,
                          !.f = [@ EXCEPT !.buf = @ \o ChunkOf(s)],        \* payload -> cql frame buffer
                          !.fsent = @ + Len(ChunkOf(s))]

(* the `while True` of process_io_buffer with checksumming: per turn at most one segment is taken and at *)
(* most one frame delivered; the loop gives up as soon as a segment attempt did not yield a segment,    *)
(* even if complete frames are still waiting in the frame buffer (they are delivered by a later read;   *)
(* when the io buffer is empty nothing complete is left behind - Inv_Eager_S)                            *)
RECURSIVE Loop(_)
Loop(st) ==
    LET s1 == IF Len(st.segbuf) > 0 THEN TrySegment(st) ELSE st IN
    IF s1.defunct \/ ~s1.consumed THEN s1
    ELSE LET f1 == ParseHeader(frames, s1.f) IN
         IF CanDeliver(frames, f1) THEN Loop([s1 EXCEPT !.f = Deliver(frames, f1)])
         ELSE IF Len(s1.segbuf) > 0 /\ ~f1.desync THEN Loop([s1 EXCEPT !.f = f1])
         ELSE [s1 EXCEPT !.f = f1]

SRead(k) ==
    /\ ~defunct
    /\ k \in 1..Len(net)
    /\ nsent' = nsent + k
    /\ net' = SubSeq(net, k + 1, Len(net))
    /\ LET r == Loop([segbuf |-> segbuf \o SubSeq(net, 1, k), nseg |-> nseg, defunct |-> FALSE,
                       consumed |-> FALSE,      \* _segment_consumed: recomputed by the first turn (io buffer not empty)
                       f |-> FState, fsent |-> sent]) IN
       /\ segbuf' = r.segbuf /\ nseg' = r.nseg /\ defunct' = r.defunct
       /\ SetF(r.f)
       /\ sent' = r.fsent
       /\ wire' = SubSeq(wire, r.fsent - sent + 1, Len(wire))
    /\ UNCHANGED <<frames, codec, segs, corrupt>>

Next_S == \E k \in 1..Len(net) : SRead(k)

(* ------------------------------ invariants ------------------------------ *)
NSegs == Len(segs)
FullNetLen == NetLen(codec, segs, NSegs)
SegStart(s) == NetLen(codec, segs, s - 1)

TypeOK_S ==
    /\ nseg \in 0..NSegs
    /\ defunct \in BOOLEAN
    /\ nsent + Len(net) = FullNetLen

(* the segment layer loses nothing and hands over whole segments only, in order *)
Inv_SegNoLoss ==
    ~defunct =>
      /\ nsent = SegStart(nseg + 1) + Len(segbuf)
      /\ segbuf \o net = SubSeq(NetOf(codec, segs, NSegs), nsent - Len(segbuf) + 1, FullNetLen)
      /\ sent = IF nseg = 0 THEN 0 ELSE segs[nseg].hi

(* a segment that is completely there has been consumed (its messages are not held back) *)
Inv_SegEager ==
    ~defunct => (nseg < NSegs => Len(segbuf) < SegLenOf(codec, segs[nseg + 1])) /\ (nseg = NSegs => segbuf = <<>>)

Inv_NoSpuriousCrc == corrupt.seg = 0 => ~defunct

(* Framing's Inv_Eager (every complete frame delivered, header parsed as soon as it is there) holds whenever *)
(* no partial segment is waiting in the io buffer; in particular at the end of the stream                   *)
Inv_Eager_S == (~defunct /\ segbuf = <<>>) => Inv_Eager

Inv_Complete == (corrupt.seg = 0 /\ net = <<>>) => (NDone = N /\ buf = <<>> /\ segbuf = <<>>)

(* where a corruption must have been noticed: header regions as soon as header+CRC24 are in, *)
(* payload regions as soon as the whole segment is in                                       *)
DetectAt == IF corrupt.reg \in {"h", "c"} THEN SegStart(corrupt.seg) + HL + 3
            ELSE SegStart(corrupt.seg) + SegLenOf(codec, segs[corrupt.seg])
FrameEnd(i) == StartOf(frames, i) + FrameLenOf(frames[i])

Inv_Detect ==
    corrupt.seg # 0 =>
      /\ defunct <=> nsent >= DetectAt
      /\ net = <<>> => defunct
      /\ nseg < corrupt.seg                                          \* the corrupted segment is never handed over
      /\ \A j \in 1..NDone : FrameEnd(order[j]) <= segs[corrupt.seg].lo   \* only messages wholly before it

(* ------------------------- vacuity witnesses (must be violated) ---------- *)
Witness_Defunct     == ~defunct
Witness_MultiSeg    == ~(\E j \in 1..NDone : FrameLenOf(frames[order[j]]) > MaxPayload)
Witness_Packed      == ~(\E s \in 1..NSegs : segs[s].sc /\ nseg >= s /\ \E i \in 1..N : StartOf(frames, i) > segs[s].lo /\ StartOf(frames, i) < segs[s].hi)
Witness_PlainInComp == ~(codec = "comp" /\ nseg >= 1 /\ ~segs[1].z)
Witness_ZInComp     == ~(nseg >= 1 /\ segs[1].z)
Witness_WaitPayload == ~(~defunct /\ Len(segbuf) >= HL + 3)
Witness_AllDone_S   == ~(net = <<>> /\ NDone = N /\ NSegs >= 2)
Witness_Lag         == ~(~defunct /\ segbuf # <<>> /\ ~Inv_Eager)      \* a complete frame waits behind a partial segment

SWitnessNames == <<"Witness_Defunct", "Witness_MultiSeg", "Witness_Packed", "Witness_PlainInComp", "Witness_ZInComp",
                   "Witness_WaitPayload", "Witness_AllDone_S", "Witness_Lag">>
SWitnessReached(i) == CASE i = 1 -> ~Witness_Defunct [] i = 2 -> ~Witness_MultiSeg [] i = 3 -> ~Witness_Packed
                        [] i = 4 -> ~Witness_PlainInComp [] i = 5 -> ~Witness_ZInComp [] i = 6 -> ~Witness_WaitPayload
                        [] i = 7 -> ~Witness_AllDone_S [] i = 8 -> ~Witness_Lag
WitnessScan_S == \A i \in 1..Len(SWitnessNames) :
    (SWitnessReached(i) /\ TLCGet(100 + i) = 0) => (TLCSet(100 + i, 1) /\ PrintT(<<"WITNESS", SWitnessNames[i]>>))
=============================================================================
