----------------------------- MODULE Timestamps -----------------------------
(* cassandra/timestamps.py  MonotonicTimestampGenerator: N threads, each       *)
(* calling the generator K times, with a system clock that may return any      *)
(* value in 0..M at any time (standing still, jumping backwards).              *)
(*                                                                            *)
(* Code anchors:                                                              *)
(*   __call__          with self.lock:                         Acquire         *)
(*                       now  = int(time.time() * 1e6)          ReadClock(v)    *)
(*                       last = self.last                       (same step)    *)
(*   _next_timestamp     if now > last: self.last = now         Compute         *)
(*                       else:          self.last = last + 1                   *)
(*   __call__          leaving the with block, returning       Release         *)
(*                                                                            *)
(* One action per step that another thread could observe or interleave with   *)
(* if the lock were missing; with the lock only Acquire is a real scheduling   *)
(* choice (Mutex).  `hist` is the lock-order history of finished calls.        *)
EXTENDS Integers, Sequences, FiniteSets, TLC

CONSTANTS N,    \* threads 1..N
          K,    \* calls per thread
          M     \* clock values 0..M

Threads == 1..N
Clock   == 0..M

VARIABLES lock,   \* 0 = free, else the owner
          last,   \* self.last
          pc,     \* per thread: "idle", "locked", "read", "computed"
          now,    \* per thread: clock value read by the current call
          snap,   \* per thread: value of self.last passed to _next_timestamp
          ret,    \* per thread: value the current / last call returns
          calls,  \* per thread: finished calls
          hist,   \* finished calls in lock order: [t, x, v]
          act     \* last action, for replay

vars == <<lock, last, pc, now, snap, ret, calls, hist, act>>

A(name, t, v) == [name |-> name, t |-> t, v |-> v]

Init ==
    /\ lock = 0
    /\ last = 0
    /\ pc = [t \in Threads |-> "idle"]
    /\ now = [t \in Threads |-> 0]
    /\ snap = [t \in Threads |-> 0]
    /\ ret = [t \in Threads |-> 0]
    /\ calls = [t \in Threads |-> 0]
    /\ hist = <<>>
    /\ act = A("Init", 0, 0)

Acquire(t) ==
    /\ pc[t] = "idle" /\ calls[t] < K
    /\ lock = 0                                  \* otherwise the thread blocks
    /\ lock' = t
    /\ pc' = [pc EXCEPT ![t] = "locked"]
    /\ act' = A("Acquire", t, 0)
    /\ UNCHANGED <<last, now, snap, ret, calls, hist>>

ReadClock(t, v) ==
    /\ pc[t] = "locked"
    /\ now' = [now EXCEPT ![t] = v]
    /\ snap' = [snap EXCEPT ![t] = last]
    /\ pc' = [pc EXCEPT ![t] = "read"]
    /\ act' = A("ReadClock", t, v)
    /\ UNCHANGED <<lock, last, ret, calls, hist>>

Compute(t) ==
    /\ pc[t] = "read"
    /\ LET x == IF now[t] > snap[t] THEN now[t] ELSE snap[t] + 1 IN
       /\ last' = x
       /\ ret' = [ret EXCEPT ![t] = x]
       /\ act' = A("Compute", t, x)
    /\ pc' = [pc EXCEPT ![t] = "computed"]
    /\ UNCHANGED <<lock, now, snap, calls, hist>>

Release(t) ==
    /\ pc[t] = "computed"
    /\ lock = t
    /\ lock' = 0
    /\ pc' = [pc EXCEPT ![t] = "idle"]
    /\ calls' = [calls EXCEPT ![t] = @ + 1]
    /\ hist' = Append(hist, [t |-> t, x |-> ret[t], v |-> now[t]])
    /\ act' = A("Release", t, ret[t])
    /\ UNCHANGED <<last, now, snap, ret>>

Next == \E t \in Threads : \/ Acquire(t)
                           \/ \E v \in Clock : ReadClock(t, v)
                           \/ Compute(t)
                           \/ Release(t)

Spec == Init /\ [][Next]_vars
FairSpec == Spec /\ WF_vars(Next)

-----------------------------------------------------------------------------
TypeOK ==
    /\ lock \in 0..N
    /\ last \in Nat
    /\ pc \in [Threads -> {"idle", "locked", "read", "computed"}]
    /\ calls \in [Threads -> 0..K]

Mutex ==
    /\ \A t \in Threads : (pc[t] # "idle") <=> (lock = t)
    /\ Cardinality({t \in Threads : pc[t] # "idle"}) <= 1

\* returned values strictly increase in lock order (hence are pairwise distinct, and increase per thread)
StrictlyIncreasing == \A i, j \in 1..Len(hist) : i < j => hist[i].x < hist[j].x
\* never behind the clock reading taken for that call
NotBehindClock == \A i \in 1..Len(hist) : hist[i].x >= hist[i].v
\* last is the greatest value handed out
LastIsMax ==
    /\ \A i \in 1..Len(hist) : hist[i].x <= last
    /\ (hist # <<>> /\ lock = 0) => last = hist[Len(hist)].x

Finished == \A t \in Threads : calls[t] = K
Terminates == <>[]Finished

\* vacuity witnesses (each must be violated = reachable)
Witness_Drift == ~(\E i \in 1..Len(hist) : hist[i].x > hist[i].v + 1)
Witness_BackwardsClock == ~(\E i, j \in 1..Len(hist) : i < j /\ hist[j].v < hist[i].v)
Witness_Contention == ~(lock # 0 /\ \E t \in Threads : t # lock /\ pc[t] = "idle" /\ calls[t] < K /\ calls[t] > 0)
Witness_AllDone == ~Finished
\* the same witnesses as stuttering probe actions: with NEXT NextW and -coverage, a non-zero count for W_x
\* shows x is reachable without a separate TLC run (NextW is used for nothing else)
W_Drift == ~Witness_Drift /\ UNCHANGED vars
W_BackwardsClock == ~Witness_BackwardsClock /\ UNCHANGED vars
W_Contention == ~Witness_Contention /\ UNCHANGED vars
W_AllDone == ~Witness_AllDone /\ UNCHANGED vars
NextW == Next \/ W_Drift \/ W_BackwardsClock \/ W_Contention \/ W_AllDone
=============================================================================
