----------------------------- MODULE Timestamps -----------------------------
(* cassandra/timestamps.py  MonotonicTimestampGenerator: N threads, each       *)
(* calling the generator K times, with a system clock that may return any      *)
(* value in 0..M at any time (standing still, jumping backwards).              *)
(*                                                                            *)
(* Code anchors:                                                              *)
(*   __call__          with self.lock:                         Acquire         *)
(*                       now  = int(time.time() * 1e6)          ReadClock(v)    *)
(*                       last = self.last                       (same step)    *)
(*   _next_timestamp     if now > last: self.last = now         Compute         *)
(*                       else:          self.last = last + 1                   *)
(*   __call__          leaving the with block, returning       Release         *)
(*                                                                            *)
(* Design choice ReadOutsideLock.  The property does not say where the clock   *)
(* is read, only that each call takes ONE reading and is never behind it.      *)
(*   FALSE  the reading is taken under the lock (the pinned code):             *)
(*          Acquire, ReadClock(v) [+ snapshot of last], Compute, Release       *)
(*   TRUE   the reading is taken before the lock is requested:                 *)
(*          ReadClock(v), Acquire [+ snapshot of last], Compute, Release       *)
(* Both designs satisfy the invariants below (TLC checks both); a probe on the *)
(* real code decides which one it is replayed / trace-validated against.       *)
(* In both designs `last` is read and written only by the lock holder, and a   *)
(* call reads the clock exactly once.                                          *)
(*                                                                            *)
(* Configuration.  The constructor options only govern LOGGING: warn_on_drift  *)
(* switches the "clock skew" warning off, warning_threshold / warning_interval *)
(* (seconds) rate-limit it.  conf = [warn, eager]: eager stands for threshold  *)
(* = interval = 0 (warn at every drifted call whose clock reading is not       *)
(* before the last warning); otherwise the defaults (1 s, 1 s), which the      *)
(* microsecond-sized clock values of the model never reach.  The value handed  *)
(* out and recorded in `last` does not depend on conf (ConfIrrelevant below:   *)
(* Compute's effect on last / ret is the same expression for every conf).      *)
(*                                                                            *)
(* One action per step that another thread could observe or interleave with   *)
(* if the lock were missing; with the lock only Acquire is a real scheduling   *)
(* choice (Mutex).  `hist` is the lock-order history of finished calls.        *)
EXTENDS Integers, Sequences, FiniteSets, TLC

CONSTANTS N,    \* threads 1..N
          K,    \* calls per thread
          M,    \* clock values 0..M
          Confs, \* generator configurations: subset of [warn : BOOLEAN, eager : BOOLEAN]
          ReadOutsideLock   \* design choice, see above

Threads == 1..N
AllConfs == [warn : BOOLEAN, eager : BOOLEAN]
DefaultConf == {[warn |-> TRUE, eager |-> FALSE]}
EagerConfs == {[warn |-> TRUE, eager |-> TRUE], [warn |-> FALSE, eager |-> TRUE]}
Clock   == 0..M

VARIABLES conf,   \* the generator's configuration (fixed by Init)
          lastWarn, \* self._last_warn
          warnings, \* number of warnings logged
          lock,   \* 0 = free, else the owner
          last,   \* self.last
          pc,     \* per thread: "idle", "clock" (reading taken, lock not yet held), "locked", "read", "computed"
          now,    \* per thread: clock value read by the current call
          snap,   \* per thread: value of self.last passed to _next_timestamp
          ret,    \* per thread: value the current / last call returns
          calls,  \* per thread: finished calls
          hist,   \* finished calls in lock order: [t, x, v]
          act     \* last action, for replay

vars == <<conf, lastWarn, warnings, lock, last, pc, now, snap, ret, calls, hist, act>>

AW(name, t, v, w) == [name |-> name, t |-> t, v |-> v, w |-> w]    \* w = 1: this step logged a warning
A(name, t, v) == AW(name, t, v, 0)

Init ==
    /\ conf \in Confs
    /\ lastWarn = 0 /\ warnings = 0
    /\ lock = 0
    /\ last = 0
    /\ pc = [t \in Threads |-> "idle"]
    /\ now = [t \in Threads |-> 0]
    /\ snap = [t \in Threads |-> 0]
    /\ ret = [t \in Threads |-> 0]
    /\ calls = [t \in Threads |-> 0]
    /\ hist = <<>>
    /\ act = A("Init", 0, 0)

\* the thread is at the point where it asks for the lock
WantsLock(t) == IF ReadOutsideLock THEN pc[t] = "clock" ELSE pc[t] = "idle" /\ calls[t] < K

Acquire(t) ==
    /\ WantsLock(t)
    /\ lock = 0                                  \* otherwise the thread blocks
    /\ lock' = t
    /\ IF ReadOutsideLock
       THEN \* the reading is already there; `last` is looked at now, under the lock
            pc' = [pc EXCEPT ![t] = "read"] /\ snap' = [snap EXCEPT ![t] = last]
       ELSE pc' = [pc EXCEPT ![t] = "locked"] /\ UNCHANGED snap
    /\ act' = A("Acquire", t, 0)
    /\ UNCHANGED <<conf, lastWarn, warnings, last, now, ret, calls, hist>>

ReadClock(t, v) ==
    /\ now' = [now EXCEPT ![t] = v]
    /\ IF ReadOutsideLock
       THEN /\ pc[t] = "idle" /\ calls[t] < K
            /\ pc' = [pc EXCEPT ![t] = "clock"]
            /\ UNCHANGED snap
       ELSE /\ pc[t] = "locked"
            /\ snap' = [snap EXCEPT ![t] = last]
            /\ pc' = [pc EXCEPT ![t] = "read"]
    /\ act' = A("ReadClock", t, v)
    /\ UNCHANGED <<conf, lastWarn, warnings, lock, last, ret, calls, hist>>

\* _maybe_warn (drift branch only): diff = self.last - now >= threshold and now - _last_warn >= interval
Warns(t) == /\ now[t] <= snap[t]
            /\ conf.warn /\ conf.eager
            /\ now[t] - lastWarn >= 0

Compute(t) ==
    /\ pc[t] = "read"
    /\ LET x == IF now[t] > snap[t] THEN now[t] ELSE snap[t] + 1 IN
       /\ last' = x                                  \* recorded whatever the logging configuration is
       /\ ret' = [ret EXCEPT ![t] = x]
       /\ act' = AW("Compute", t, x, IF Warns(t) THEN 1 ELSE 0)
    /\ IF Warns(t) THEN warnings' = warnings + 1 /\ lastWarn' = now[t]
                   ELSE UNCHANGED <<warnings, lastWarn>>
    /\ pc' = [pc EXCEPT ![t] = "computed"]
    /\ UNCHANGED <<conf, lock, now, snap, calls, hist>>

Release(t) ==
    /\ pc[t] = "computed"
    /\ lock = t
    /\ lock' = 0
    /\ pc' = [pc EXCEPT ![t] = "idle"]
    /\ calls' = [calls EXCEPT ![t] = @ + 1]
    /\ hist' = Append(hist, [t |-> t, x |-> ret[t], v |-> now[t]])
    /\ act' = A("Release", t, ret[t])
    /\ UNCHANGED <<conf, lastWarn, warnings, last, now, snap, ret>>

Next == \E t \in Threads : \/ Acquire(t)
                           \/ \E v \in Clock : ReadClock(t, v)
                           \/ Compute(t)
                           \/ Release(t)

Spec == Init /\ [][Next]_vars
FairSpec == Spec /\ WF_vars(Next)

-----------------------------------------------------------------------------
TypeOK ==
    /\ conf \in Confs /\ warnings \in Nat
    /\ lock \in 0..N
    /\ last \in Nat
    /\ pc \in [Threads -> {"idle", "clock", "locked", "read", "computed"}]
    /\ ReadOutsideLock \in BOOLEAN
    /\ calls \in [Threads -> 0..K]

Mutex ==
    /\ \A t \in Threads : (pc[t] \notin {"idle", "clock"}) <=> (lock = t)
    /\ Cardinality({t \in Threads : pc[t] \notin {"idle", "clock"}}) <= 1

\* returned values strictly increase in lock order (hence are pairwise distinct, and increase per thread)
StrictlyIncreasing == \A i, j \in 1..Len(hist) : i < j => hist[i].x < hist[j].x
\* never behind the clock reading taken for that call
NotBehindClock == \A i \in 1..Len(hist) : hist[i].x >= hist[i].v
\* last is the greatest value handed out
LastIsMax ==
    /\ \A i \in 1..Len(hist) : hist[i].x <= last
    /\ (hist # <<>> /\ lock = 0) => last = hist[Len(hist)].x

\* logging never replaces the bookkeeping: whatever conf is, a finished call's value is what `last` held when the
\* lock was released, and warnings are only ever logged by a generator that is configured to warn
ConfIrrelevant ==
    /\ (~conf.warn) => warnings = 0
    /\ \A t \in Threads : pc[t] = "computed" => (last = ret[t] /\ ret[t] > snap[t] /\ ret[t] >= now[t])

Finished == \A t \in Threads : calls[t] = K
Terminates == <>[]Finished

\* vacuity witnesses (each must be violated = reachable)
Witness_Drift == ~(\E i \in 1..Len(hist) : hist[i].x > hist[i].v + 1)
Witness_BackwardsClock == ~(\E i, j \in 1..Len(hist) : i < j /\ hist[j].v < hist[i].v)
Witness_Contention == ~(lock # 0 /\ \E t \in Threads : t # lock /\ WantsLock(t) /\ calls[t] > 0)
Witness_AllDone == ~Finished
Witness_Warned == ~(warnings >= 2)
Witness_DriftTwiceSilently == ~(~conf.warn /\ \E i, j \in 1..Len(hist) : i < j /\ hist[i].x > hist[i].v /\ hist[j].x > hist[j].v)
\* the same witnesses as stuttering probe actions: with NEXT NextW and -coverage, a non-zero count for W_x
\* shows x is reachable without a separate TLC run (NextW is used for nothing else)
W_Drift == ~Witness_Drift /\ UNCHANGED vars
W_BackwardsClock == ~Witness_BackwardsClock /\ UNCHANGED vars
W_Contention == ~Witness_Contention /\ UNCHANGED vars
W_AllDone == ~Witness_AllDone /\ UNCHANGED vars
W_Warned == ~Witness_Warned /\ UNCHANGED vars
W_DriftTwiceSilently == ~Witness_DriftTwiceSilently /\ UNCHANGED vars
NextW == Next \/ W_Drift \/ W_BackwardsClock \/ W_Contention \/ W_AllDone \/ W_Warned \/ W_DriftTwiceSilently
=============================================================================
