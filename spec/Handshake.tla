------------------------------ MODULE Handshake ------------------------------
(* C47 - a connection is usable only after a successful handshake.               *)
(*                                                                                *)
(* State machine of cassandra.connection.Connection between construction and     *)
(* connected_event / last_error, one action per callback:                        *)
(*   OptionsReply  = Connection._handle_options_response   (connection.py:1327)   *)
(*   StartupReply  = Connection._handle_startup_response   (connection.py:1414)   *)
(*                   (also the callback of CREDENTIALS, did_authenticate=True)    *)
(*   AuthReply     = Connection._handle_auth_response      (connection.py:1477)   *)
(*   ServerProtoError = Connection.process_msg defuncting on a ProtocolException  *)
(*                   before the callback runs                (connection.py:1284) *)
(*   Disconnect    = reactor close(): error_all_requests(ConnectionShutdown),     *)
(*                   last_error set because connected_event is not set            *)
(*   Silence       = Connection.factory: connected_event.wait() times out,        *)
(*                   close(), OperationTimedOut              (connection.py:848)  *)
(*   Probe         = any request sent on the ready connection (send_msg)          *)
(* The environment (server) chooses every reply freely.                           *)
EXTENDS Naturals, Sequences, FiniteSets, TLC

CONSTANTS Versions,      \* protocol versions explored, subset of 1..6
          MaxLen         \* bound on the number of server replies

Algos        == {"lz4", "snappy"}          \* keys of locally_supported_compressions, lz4 first (preferred)
AuthKinds    == {"none", "sasl", "dict"}   \* authenticator: None / Authenticator object / credentials dict
CompSettings == {"off", "any", "lz4", "snappy"}   \* compression = False / True / "lz4" / "snappy"
ErrKinds     == {"badcreds", "server", "protocol", "badversion"}
ProtoKinds   == {"protocol", "badversion"} \* ERROR 0x000A: decoded as ProtocolException
Phases       == {"OptionsSent", "StartupSent", "CredsSent", "AuthSent", "Ready", "Failed"}
Outcomes     == {"pending", "ready", "auth_failed", "conn_error"}

Configs == [ver : Versions, auth : AuthKinds, comp : CompSettings, local : SUBSET Algos]

Cks(v) == v >= 5 /\ v < 65                 \* ProtocolVersion.has_checksumming_support

R(k, algos, kind) == [k |-> k, algos |-> algos, kind |-> kind]
Simple(k) == R(k, {}, "")
Replies(ph) ==
    (IF ph = "OptionsSent" THEN {R("SUPPORTED", a, "") : a \in SUBSET Algos} ELSE {Simple("SUPPORTED")})
    \cup {Simple(k) : k \in {"READY", "AUTHENTICATE", "AUTH_SUCCESS", "Unexpected"}}
    \cup {R("AUTH_CHALLENGE", {}, t) : t \in {"valid", "bad"}}
    \cup {R("ERROR", {}, e) : e \in ErrKinds}

VARIABLES cfg,          \* configuration of this connection (constant along a behaviour)
          phase, prev,  \* prev = phase in which the last reply was received
          hist,         \* replies received so far
          remote,       \* algorithms advertised by SUPPORTED
          negotiated,   \* COMPRESSION option of STARTUP ("none": option absent)
          compOn,       \* Connection.compressor is set (applied by send_msg / segment codec)
          cksum,        \* Connection._is_checksumming_enabled
          accepted,     \* history: the server answered STARTUP/CREDENTIALS with READY or AUTHENTICATE
          outcome,
          sent,         \* frames written by the connection, in order
          probed,
          act
vars == <<cfg, phase, prev, hist, remote, negotiated, compOn, cksum, accepted, outcome, sent, probed, act>>

\* what a frame sent now looks like on the wire. OPTIONS has an empty body and is never compressed.
Frame(op, c, s, acc) == [op |-> op, comp |-> c /\ op # "OPTIONS", seg |-> s,
                         alg |-> IF c /\ op # "OPTIONS" THEN negotiated ELSE "none", after |-> acc]

InitWith(c) ==
    /\ cfg = c
    /\ phase = "OptionsSent" /\ prev = "OptionsSent"
    /\ hist = <<>> /\ remote = {} /\ negotiated = "none"
    /\ compOn = FALSE /\ cksum = FALSE /\ accepted = FALSE
    /\ outcome = "pending"
    /\ sent = <<[op |-> "OPTIONS", comp |-> FALSE, seg |-> FALSE, alg |-> "none", after |-> FALSE]>>
    /\ probed = FALSE
    /\ act = [name |-> "Init", m |-> Simple("")]

Init == \E c \in Configs : InitWith(c)

\* ---- _handle_options_response: choice of the algorithm ("fail": an exception is raised)
Overlap(a) == cfg.local \cap a
Pick(a)    == IF "lz4" \in Overlap(a) THEN "lz4" ELSE "snappy"
Choice(a)  ==
    IF cfg.comp = "off" \/ Overlap(a) = {} THEN "none"
    ELSE IF cfg.comp \in Algos
         THEN IF cfg.comp \notin a THEN "fail"                             \* ProtocolError: not supported by server
              ELSE IF cfg.comp = "snappy" /\ Cks(cfg.ver) THEN "none"      \* snappy disabled under checksumming
              ELSE IF cfg.comp \notin cfg.local THEN "fail"                \* lookup fails (KeyError) -> defunct
              ELSE cfg.comp
         ELSE IF Pick(a) = "snappy" /\ Cks(cfg.ver) THEN "none" ELSE Pick(a)

Live == phase \notin {"Ready", "Failed"} /\ Len(hist) < MaxLen
ProtoErr(m) == m.k = "ERROR" /\ m.kind \in ProtoKinds

Step(m) == /\ hist' = Append(hist, m) /\ prev' = phase
           /\ act' = [name |-> "Reply", m |-> m]
           /\ UNCHANGED <<cfg, probed>>

Fail(o) == /\ phase' = "Failed" /\ outcome' = o
           /\ UNCHANGED <<negotiated, compOn, cksum, sent>>

OptionsReply(m) ==
    /\ Live /\ phase = "OptionsSent" /\ ~ProtoErr(m)
    /\ Step(m)
    /\ IF m.k = "SUPPORTED"
       THEN /\ remote' = m.algos
            /\ IF Choice(m.algos) = "fail"
               THEN Fail("conn_error") /\ UNCHANGED accepted
               ELSE /\ negotiated' = Choice(m.algos)
                    /\ phase' = "StartupSent"
                    /\ sent' = Append(sent, Frame("STARTUP", compOn, cksum, accepted))
                    /\ UNCHANGED <<compOn, cksum, accepted, outcome>>
       ELSE Fail("conn_error") /\ UNCHANGED <<remote, accepted>>   \* ConnectionException("Did not get expected SupportedMessage")

\* _enable_compression + _enable_checksumming
Accept == /\ compOn' = (negotiated # "none")
          /\ cksum' = Cks(cfg.ver)
          /\ accepted' = TRUE

StartupReply(m) ==
    /\ Live /\ phase \in {"StartupSent", "CredsSent"} /\ ~ProtoErr(m)
    /\ Step(m)
    /\ UNCHANGED <<remote, negotiated>>
    /\ CASE m.k = "READY" ->
                /\ Accept /\ phase' = "Ready" /\ outcome' = "ready" /\ UNCHANGED sent
         [] m.k = "AUTHENTICATE" /\ cfg.auth = "none" ->          \* AuthenticationFailed('Remote end requires authentication')
                /\ phase' = "Failed" /\ outcome' = "auth_failed" /\ accepted' = TRUE
                /\ UNCHANGED <<compOn, cksum, sent>>
         [] m.k = "AUTHENTICATE" /\ cfg.auth = "dict" ->          \* CredentialsMessage: only protocol v1 can encode it
                /\ Accept
                /\ IF cfg.ver > 1
                   THEN phase' = "Failed" /\ outcome' = "conn_error" /\ UNCHANGED sent      \* UnsupportedOperation
                   ELSE /\ phase' = "CredsSent" /\ UNCHANGED outcome
                        /\ sent' = Append(sent, Frame("CREDENTIALS", negotiated # "none", Cks(cfg.ver), TRUE))
         [] m.k = "AUTHENTICATE" /\ cfg.auth = "sasl" ->
                /\ Accept /\ phase' = "AuthSent" /\ UNCHANGED outcome
                /\ sent' = Append(sent, Frame("AUTH_RESPONSE", negotiated # "none", Cks(cfg.ver), TRUE))
         [] m.k = "ERROR" ->
                /\ phase' = "Failed" /\ UNCHANGED <<compOn, cksum, accepted, sent>>
                /\ outcome' = IF phase = "CredsSent" THEN "auth_failed" ELSE "conn_error"
         [] OTHER ->                                               \* ProtocolError("Unexpected response during Connection setup")
                /\ phase' = "Failed" /\ outcome' = "conn_error" /\ UNCHANGED <<compOn, cksum, accepted, sent>>

AuthReply(m) ==
    /\ Live /\ phase = "AuthSent" /\ ~ProtoErr(m)
    /\ Step(m)
    /\ UNCHANGED <<remote, negotiated, cksum, accepted>>
    /\ CASE m.k = "AUTH_SUCCESS" ->
                /\ phase' = "Ready" /\ outcome' = "ready" /\ compOn' = (negotiated # "none") /\ UNCHANGED sent
         [] m.k = "AUTH_CHALLENGE" /\ m.kind = "valid" ->          \* authenticator.evaluate_challenge answers
                /\ sent' = Append(sent, Frame("AUTH_RESPONSE", compOn, cksum, accepted))
                /\ UNCHANGED <<phase, outcome, compOn>>
         [] m.k = "AUTH_CHALLENGE" /\ m.kind = "bad" ->            \* evaluate_challenge raises -> defunct
                /\ phase' = "Failed" /\ outcome' = "conn_error" /\ UNCHANGED <<compOn, sent>>
         [] m.k = "ERROR" ->
                /\ phase' = "Failed" /\ outcome' = "auth_failed" /\ UNCHANGED <<compOn, sent>>
         [] OTHER ->
                /\ phase' = "Failed" /\ outcome' = "conn_error" /\ UNCHANGED <<compOn, sent>>

\* ERROR 0x000A in any phase: process_msg defuncts the connection with the ProtocolException itself
ServerProtoError(m) ==
    /\ Live /\ ProtoErr(m)
    /\ Step(m)
    /\ Fail("conn_error") /\ UNCHANGED <<remote, accepted>>

Disconnect ==
    /\ Live
    /\ Step(Simple("Disconnect"))
    /\ Fail("conn_error") /\ UNCHANGED <<remote, accepted>>

Silence ==
    /\ Live
    /\ Step(Simple("Silence"))
    /\ Fail("conn_error") /\ UNCHANGED <<remote, accepted>>

Probe ==
    /\ phase = "Ready" /\ ~probed
    /\ probed' = TRUE
    /\ sent' = Append(sent, Frame("QUERY", compOn, cksum, accepted))
    /\ act' = [name |-> "Probe", m |-> Simple("")]
    /\ UNCHANGED <<cfg, phase, prev, hist, remote, negotiated, compOn, cksum, accepted, outcome>>

AnyOptionsReply == \E m \in Replies(phase) : OptionsReply(m)
AnyStartupReply == \E m \in Replies(phase) : StartupReply(m)
AnyAuthReply    == \E m \in Replies(phase) : AuthReply(m)
AnyProtoError   == \E m \in Replies(phase) : ServerProtoError(m)

Next == AnyOptionsReply \/ AnyStartupReply \/ AnyAuthReply \/ AnyProtoError \/ Disconnect \/ Silence \/ Probe

Spec == Init /\ [][Next]_vars

\* ------------------------------------------------------------------ properties
Last == hist[Len(hist)]

TypeOK ==
    /\ cfg \in Configs /\ phase \in Phases /\ prev \in Phases /\ outcome \in Outcomes
    /\ remote \subseteq Algos /\ negotiated \in Algos \cup {"none"}
    /\ compOn \in BOOLEAN /\ cksum \in BOOLEAN /\ accepted \in BOOLEAN /\ probed \in BOOLEAN
    /\ Len(hist) <= MaxLen

\* reported ready only after the server sent READY or AUTH_SUCCESS
ReadyOnlyAfterReadyOrAuthSuccess ==
    /\ (outcome = "ready") <=> (phase = "Ready")
    /\ phase = "Ready" => Len(hist) > 0 /\ Last.k \in {"READY", "AUTH_SUCCESS"}
    /\ phase = "Failed" <=> outcome \in {"auth_failed", "conn_error"}

\* authentication failures -> authentication error, every other failure -> connection error.
\* MustAuth: refused credentials, or the server demands authentication and none is configured.
\* MayAuth : the statement leaves open how other ERROR kinds after the credentials are classified.
InAuth   == prev \in {"CredsSent", "AuthSent"}
MustAuth == \/ Last.k = "ERROR" /\ Last.kind = "badcreds" /\ InAuth
            \/ Last.k = "AUTHENTICATE" /\ prev = "StartupSent" /\ cfg.auth = "none"
MayAuth  == \/ Last.k = "ERROR" /\ InAuth
            \/ Last.k = "AUTHENTICATE" /\ prev = "StartupSent" /\ cfg.auth = "none"
OutcomeClasses ==
    phase = "Failed" =>
        /\ Len(hist) > 0
        /\ MustAuth => outcome = "auth_failed"
        /\ outcome = "auth_failed" => MayAuth
        /\ ~MayAuth => outcome = "conn_error"

\* the algorithm put into STARTUP is one both sides support
NegotiatedCommon == negotiated # "none" => negotiated \in cfg.local \cap remote

\* compressor applied to outgoing frames only once the server has accepted STARTUP - and then it is
CompressorAfterAccept ==
    /\ compOn => accepted /\ negotiated # "none"
    /\ \A i \in 1..Len(sent) :
          LET f == sent[i] IN
          /\ f.comp => f.after /\ f.alg = negotiated /\ negotiated # "none"
          /\ f.op \in {"OPTIONS", "STARTUP"} => ~f.comp /\ ~f.after
          /\ f.after /\ negotiated # "none" /\ f.op # "OPTIONS" => f.comp

\* checksummed segment framing exactly for v5 (has_checksumming_support), from the acceptance on
ChecksummingExactlyV5 ==
    /\ cksum => Cks(cfg.ver) /\ accepted
    /\ phase \in {"Ready", "CredsSent", "AuthSent"} => (cksum <=> Cks(cfg.ver))
    /\ \A i \in 1..Len(sent) : sent[i].seg <=> (Cks(cfg.ver) /\ sent[i].after)

\* ------------------------------------------------------------------ vacuity witnesses (must be violated)
Witness_ReadyCompressedChecksummed == ~(phase = "Ready" /\ probed /\ compOn /\ cksum)
Witness_AuthFailed   == ~(outcome = "auth_failed" /\ prev = "AuthSent")
Witness_ChallengeLoop == ~(phase = "AuthSent" /\ Len(hist) = MaxLen)
Witness_SnappyDroppedV5 == ~(phase = "Ready" /\ Cks(cfg.ver) /\ "snappy" \in Overlap(remote) /\ negotiated = "none"
                             /\ cfg.comp = "snappy")
Witness_CredsReady == ~(phase = "Ready" /\ prev = "CredsSent")
=============================================================================
