------------------------------ MODULE Handshake ------------------------------
(* C47 - a connection is usable only after a successful handshake.               *)
(*                                                                                *)
(* State machine of cassandra.connection.Connection between construction and     *)
(* connected_event / last_error, one action per callback:                        *)
(*   OptionsReply  = Connection._handle_options_response   (connection.py:1327)   *)
(*   StartupReply  = Connection._handle_startup_response   (connection.py:1414)   *)
(*                   (also the callback of CREDENTIALS, did_authenticate=True)    *)
(*   AuthReply     = Connection._handle_auth_response      (connection.py:1477)   *)
(*   ServerProtoError = Connection.process_msg defuncting on a ProtocolException  *)
(*                   before the callback runs                (connection.py:1284) *)
(*   Disconnect    = reactor close(): error_all_requests(ConnectionShutdown),     *)
(*                   last_error set because connected_event is not set            *)
(*   Silence       = Connection.factory: connected_event.wait() times out,        *)
(*                   close(), OperationTimedOut              (connection.py:848)  *)
(*   Probe         = any request sent on the ready connection (send_msg)          *)
(* Two threads: the event loop runs the callbacks above; the caller sits in        *)
(* Connection.factory blocked on connected_event.wait().  With Fine = TRUE the     *)
(* failure path is split into the steps of Connection.defunct (connection.py:982)  *)
(* resp. the reactor's close(): mark defunct/closed (part of the reply action),    *)
(* record last_error, close, error the pending requests, connected_event.set() -   *)
(* action FailStep - and the factory thread's wake-up (FactoryObserve: reads       *)
(* last_error, raises it or returns the connection) is enabled at any moment at    *)
(* which connected_event is set.  With Fine = FALSE those steps and the wake-up    *)
(* are taken atomically (sound because of NoEarlyWake, checked on the fine model). *)
(* EarlySet = TRUE is the wrong order (event set before last_error is recorded);   *)
(* it must violate FactoryReturnsOnlyAfterReady - the vacuity witness of the race. *)
(* The environment (server) chooses every reply freely.                           *)
EXTENDS Naturals, Sequences, FiniteSets, TLC

CONSTANTS Versions,      \* protocol versions explored: subset of 1..6 and 65, 66 (DSE_V1 = 0x41, DSE_V2 = 0x42)
          MaxLen,        \* bound on the number of server replies
          Fine,          \* BOOLEAN: failure path and factory wake-up as separate steps
          EarlySet,      \* BOOLEAN: (witness only) connected_event set before last_error is recorded
          CloseKinds     \* which reactors' close() contracts the peer's disconnect is explored with (see CloseSteps)

Algos        == {"lz4", "snappy"}          \* keys of locally_supported_compressions, lz4 first (preferred)
AuthKinds    == {"none", "sasl", "dict"}   \* authenticator: None / Authenticator object / credentials dict
CompSettings == {"off", "any", "lz4", "snappy"}   \* compression = False / True / "lz4" / "snappy"
ErrKinds     == {"badcreds", "server", "protocol", "badversion"}
ProtoKinds   == {"protocol", "badversion"} \* ERROR 0x000A: decoded as ProtocolException
Phases       == {"OptionsSent", "StartupSent", "CredsSent", "AuthSent", "Ready", "Failed"}
Outcomes     == {"pending", "ready", "auth_failed", "conn_error"}

Configs == [ver : Versions, auth : AuthKinds, comp : CompSettings, local : SUBSET Algos]

\* checksummed segment framing is defined by native protocol v5+ only; the DSE versions (numerically above) do not have it
Cks(v) == v >= 5 /\ v < 65                 \* ProtocolVersion.has_checksumming_support

R(k, algos, kind) == [k |-> k, algos |-> algos, kind |-> kind]
Simple(k) == R(k, {}, "")
Replies(ph) ==
    (IF ph = "OptionsSent" THEN {R("SUPPORTED", a, "") : a \in SUBSET Algos} ELSE {Simple("SUPPORTED")})
    \cup {Simple(k) : k \in {"READY", "AUTHENTICATE", "AUTH_SUCCESS", "Unexpected"}}
    \cup {R("AUTH_CHALLENGE", {}, t) : t \in {"valid", "bad"}}
    \cup {R("ERROR", {}, e) : e \in ErrKinds}

VARIABLES cfg,          \* configuration of this connection (constant along a behaviour)
          phase, prev,  \* prev = phase in which the last reply was received
          hist,         \* replies received so far
          remote,       \* algorithms advertised by SUPPORTED
          negotiated,   \* COMPRESSION option of STARTUP ("none": option absent)
          compOn,       \* Connection.compressor is set (applied by send_msg / segment codec)
          cksum,        \* Connection._is_checksumming_enabled
          accepted,     \* history: the server answered STARTUP/CREDENTIALS with READY or AUTHENTICATE
          outcome,
          sent,         \* frames written by the connection, in order
          probed,
          evt,          \* connected_event.is_set()
          lastErr,      \* Connection.last_error: "none" / "auth" (AuthenticationFailed) / "conn" (anything else)
          todo,         \* remaining steps of the failure path in progress
          factory,      \* the thread in Connection.factory: waiting / returned / raised_auth / raised_conn
          act
vars == <<cfg, phase, prev, hist, remote, negotiated, compOn, cksum, accepted, outcome, sent, probed,
          evt, lastErr, todo, factory, act>>
thr  == <<evt, lastErr, todo, factory>>

\* what a frame sent now looks like on the wire. OPTIONS has an empty body and is never compressed.
Frame(op, c, s, acc) == [op |-> op, comp |-> c /\ op # "OPTIONS", seg |-> s,
                         alg |-> IF c /\ op # "OPTIONS" THEN negotiated ELSE "none", after |-> acc]

InitWith(c) ==
    /\ cfg = c
    /\ phase = "OptionsSent" /\ prev = "OptionsSent"
    /\ hist = <<>> /\ remote = {} /\ negotiated = "none"
    /\ compOn = FALSE /\ cksum = FALSE /\ accepted = FALSE
    /\ outcome = "pending"
    /\ sent = <<[op |-> "OPTIONS", comp |-> FALSE, seg |-> FALSE, alg |-> "none", after |-> FALSE]>>
    /\ probed = FALSE
    /\ evt = FALSE /\ lastErr = "none" /\ todo = <<>> /\ factory = "waiting"
    /\ act = [name |-> "Init", m |-> Simple("")]

Init == \E c \in Configs : InitWith(c)

\* ---- _handle_options_response: choice of the algorithm ("fail": an exception is raised)
Overlap(a) == cfg.local \cap a
Pick(a)    == IF "lz4" \in Overlap(a) THEN "lz4" ELSE "snappy"
Choice(a)  ==
    IF cfg.comp = "off" \/ Overlap(a) = {} THEN "none"
    ELSE IF cfg.comp \in Algos
         THEN IF cfg.comp \notin a THEN "fail"                             \* ProtocolError: not supported by server
              ELSE IF cfg.comp = "snappy" /\ Cks(cfg.ver) THEN "none"      \* snappy disabled under checksumming
              ELSE IF cfg.comp \notin cfg.local THEN "fail"                \* lookup fails (KeyError) -> defunct
              ELSE cfg.comp
         ELSE IF Pick(a) = "snappy" /\ Cks(cfg.ver) THEN "none" ELSE Pick(a)

Live == phase \notin {"Ready", "Failed"} /\ Len(hist) < MaxLen
ProtoErr(m) == m.k = "ERROR" /\ m.kind \in ProtoKinds

Step(m) == /\ hist' = Append(hist, m) /\ prev' = phase
           /\ act' = [name |-> "Reply", m |-> m]
           /\ UNCHANGED <<cfg, probed>>

\* Connection.defunct(exc) after is_defunct = True:  last_error = exc; close(); error_all_requests(exc);
\* connected_event.set()          reactor close() after is_closed = True: error_all_requests;
\* last_error = ConnectionShutdown (handshake unfinished); connected_event.set()
DefunctSteps == IF EarlySet THEN <<"set", "record", "close", "errreq">> ELSE <<"record", "close", "errreq", "set">>
\* what the reactor's close() does after is_closed = True when the peer closed the socket (not defunct):
\*   "record_set": asyncorereactor  - error_all_requests; last_error = ConnectionShutdown (handshake unfinished); event.set()
\*   "set_only"  : asyncio / eventlet / gevent / twisted close() - error_all_requests; event.set()   (last_error NOT recorded:
\*                 the handshake callback's defunct() returns at once because is_closed is already True)
\*   "no_set"    : libevreactor - error_all_requests only; Connection.factory runs into its timeout
CloseSteps(rk) == IF rk = "record_set" THEN <<"errreq", "record", "set">>
                  ELSE IF rk = "set_only" THEN <<"errreq", "set">> ELSE <<"errreq">>
Cls(o)    == IF o = "auth_failed" THEN "auth" ELSE "conn"
Raised(e) == IF e = "auth" THEN "raised_auth" ELSE "raised_conn"

\* the handler raised (defunct_on_error) / the transport closed: the connection is dead from here on
Die(o, steps) ==
    /\ phase' = "Failed" /\ outcome' = o
    /\ IF Fine THEN todo' = steps /\ UNCHANGED <<lastErr, evt, factory>>
               ELSE todo' = <<>> /\ lastErr' = Cls(o) /\ evt' = TRUE /\ factory' = Raised(Cls(o))

\* handshake complete: connected_event.set() with last_error still None
Wake == /\ evt' = TRUE /\ UNCHANGED <<lastErr, todo>>
        /\ factory' = IF Fine THEN factory ELSE "returned"

Fail(o) == /\ Die(o, DefunctSteps)
           /\ UNCHANGED <<negotiated, compOn, cksum, sent>>

OptionsReply(m) ==
    /\ Live /\ phase = "OptionsSent" /\ ~ProtoErr(m)
    /\ Step(m)
    /\ IF m.k = "SUPPORTED"
       THEN /\ remote' = m.algos
            /\ IF Choice(m.algos) = "fail"
               THEN Fail("conn_error") /\ UNCHANGED accepted
               ELSE /\ negotiated' = Choice(m.algos)
                    /\ phase' = "StartupSent"
                    /\ sent' = Append(sent, Frame("STARTUP", compOn, cksum, accepted))
                    /\ UNCHANGED <<compOn, cksum, accepted, outcome>> /\ UNCHANGED thr
       ELSE Fail("conn_error") /\ UNCHANGED <<remote, accepted>>   \* ConnectionException("Did not get expected SupportedMessage")

\* _enable_compression + _enable_checksumming
Accept == /\ compOn' = (negotiated # "none")
          /\ cksum' = Cks(cfg.ver)
          /\ accepted' = TRUE

StartupReply(m) ==
    /\ Live /\ phase \in {"StartupSent", "CredsSent"} /\ ~ProtoErr(m)
    /\ Step(m)
    /\ UNCHANGED <<remote, negotiated>>
    /\ CASE m.k = "READY" ->
                /\ Accept /\ phase' = "Ready" /\ outcome' = "ready" /\ Wake /\ UNCHANGED sent
         [] m.k = "AUTHENTICATE" /\ cfg.auth = "none" ->          \* AuthenticationFailed('Remote end requires authentication')
                /\ Die("auth_failed", DefunctSteps) /\ accepted' = TRUE
                /\ UNCHANGED <<compOn, cksum, sent>>
         [] m.k = "AUTHENTICATE" /\ cfg.auth = "dict" ->          \* CredentialsMessage: only protocol v1 can encode it
                /\ Accept
                /\ IF cfg.ver > 1
                   THEN Die("conn_error", DefunctSteps) /\ UNCHANGED sent      \* UnsupportedOperation
                   ELSE /\ phase' = "CredsSent" /\ UNCHANGED outcome /\ UNCHANGED thr
                        /\ sent' = Append(sent, Frame("CREDENTIALS", negotiated # "none", Cks(cfg.ver), TRUE))
         [] m.k = "AUTHENTICATE" /\ cfg.auth = "sasl" ->
                /\ Accept /\ phase' = "AuthSent" /\ UNCHANGED outcome /\ UNCHANGED thr
                /\ sent' = Append(sent, Frame("AUTH_RESPONSE", negotiated # "none", Cks(cfg.ver), TRUE))
         [] m.k = "ERROR" ->
                /\ Die(IF phase = "CredsSent" THEN "auth_failed" ELSE "conn_error", DefunctSteps)
                /\ UNCHANGED <<compOn, cksum, accepted, sent>>
         [] OTHER ->                                               \* ProtocolError("Unexpected response during Connection setup")
                /\ Die("conn_error", DefunctSteps) /\ UNCHANGED <<compOn, cksum, accepted, sent>>

AuthReply(m) ==
    /\ Live /\ phase = "AuthSent" /\ ~ProtoErr(m)
    /\ Step(m)
    /\ UNCHANGED <<remote, negotiated, cksum, accepted>>
    /\ CASE m.k = "AUTH_SUCCESS" ->
                /\ phase' = "Ready" /\ outcome' = "ready" /\ compOn' = (negotiated # "none") /\ Wake /\ UNCHANGED sent
         [] m.k = "AUTH_CHALLENGE" /\ m.kind = "valid" ->          \* authenticator.evaluate_challenge answers
                /\ sent' = Append(sent, Frame("AUTH_RESPONSE", compOn, cksum, accepted))
                /\ UNCHANGED <<phase, outcome, compOn>> /\ UNCHANGED thr
         [] m.k = "AUTH_CHALLENGE" /\ m.kind = "bad" ->            \* evaluate_challenge raises -> defunct
                /\ Die("conn_error", DefunctSteps) /\ UNCHANGED <<compOn, sent>>
         [] m.k = "ERROR" ->
                /\ Die("auth_failed", DefunctSteps) /\ UNCHANGED <<compOn, sent>>
         [] OTHER ->
                /\ Die("conn_error", DefunctSteps) /\ UNCHANGED <<compOn, sent>>

\* ERROR 0x000A in any phase: process_msg defuncts the connection with the ProtocolException itself
ServerProtoError(m) ==
    /\ Live /\ ProtoErr(m)
    /\ Step(m)
    /\ Fail("conn_error") /\ UNCHANGED <<remote, accepted>>

Disconnect(rk) ==
    /\ Live
    /\ Step(R("Disconnect", {}, rk))
    /\ phase' = "Failed" /\ outcome' = "conn_error"
    /\ IF Fine THEN todo' = CloseSteps(rk) /\ UNCHANGED <<lastErr, evt, factory>>
       ELSE /\ todo' = <<>>
            /\ lastErr' = IF rk = "record_set" THEN "conn" ELSE "none"
            /\ evt' = (rk # "no_set")
            /\ factory' = IF rk = "set_only" THEN "returned"        \* woken, no last_error: hands out the closed connection
                           ELSE "raised_conn"                        \* raises last_error, resp. OperationTimedOut
    /\ UNCHANGED <<negotiated, compOn, cksum, sent, remote, accepted>>

\* factory thread: nothing will ever set the event (libev close()): wait() times out, close() is a no-op, OperationTimedOut
FactoryTimeout ==
    /\ Fine /\ phase = "Failed" /\ todo = <<>> /\ ~evt /\ factory = "waiting"
    /\ factory' = "raised_conn"
    /\ act' = [name |-> "FactoryTimeout", m |-> Simple("")]
    /\ UNCHANGED <<cfg, phase, prev, hist, remote, negotiated, compOn, cksum, accepted, outcome, sent, probed,
                   evt, lastErr, todo>>
AnyDisconnect == \E rk \in CloseKinds : Disconnect(rk)

\* the factory thread itself: wait() timed out with the event unset -> conn.close(), raise OperationTimedOut
Silence ==
    /\ Live /\ factory = "waiting" /\ ~evt
    /\ Step(Simple("Silence"))
    /\ phase' = "Failed" /\ outcome' = "conn_error"
    /\ factory' = "raised_conn" /\ lastErr' = "conn" /\ evt' = TRUE /\ todo' = <<>>
    /\ UNCHANGED <<negotiated, compOn, cksum, sent, remote, accepted>>

\* event loop: next step of defunct() / close()
FailStep ==
    /\ todo # <<>>
    /\ todo' = Tail(todo)
    /\ lastErr' = IF Head(todo) = "record" THEN Cls(outcome) ELSE lastErr
    /\ evt' = IF Head(todo) = "set" THEN TRUE ELSE evt
    /\ act' = [name |-> "FailStep", m |-> Simple(Head(todo))]
    /\ UNCHANGED <<cfg, phase, prev, hist, remote, negotiated, compOn, cksum, accepted, outcome, sent, probed, factory>>

\* factory thread woken by connected_event: "if conn.last_error: raise ... else: return conn"
FactoryObserve ==
    /\ evt /\ factory = "waiting"
    /\ factory' = IF lastErr # "none" THEN Raised(lastErr) ELSE "returned"
    /\ act' = [name |-> "FactoryObserve", m |-> Simple("")]
    /\ UNCHANGED <<cfg, phase, prev, hist, remote, negotiated, compOn, cksum, accepted, outcome, sent, probed,
                   evt, lastErr, todo>>

Probe ==
    /\ phase = "Ready" /\ ~probed /\ factory = "returned"
    /\ probed' = TRUE
    /\ sent' = Append(sent, Frame("QUERY", compOn, cksum, accepted))
    /\ act' = [name |-> "Probe", m |-> Simple("")]
    /\ UNCHANGED <<cfg, phase, prev, hist, remote, negotiated, compOn, cksum, accepted, outcome>> /\ UNCHANGED thr

AnyOptionsReply == \E m \in Replies(phase) : OptionsReply(m)
AnyStartupReply == \E m \in Replies(phase) : StartupReply(m)
AnyAuthReply    == \E m \in Replies(phase) : AuthReply(m)
AnyProtoError   == \E m \in Replies(phase) : ServerProtoError(m)

Next == AnyOptionsReply \/ AnyStartupReply \/ AnyAuthReply \/ AnyProtoError \/ AnyDisconnect \/ Silence \/ Probe
        \/ FailStep \/ FactoryObserve \/ FactoryTimeout

Spec == Init /\ [][Next]_vars

\* ------------------------------------------------------------------ properties
Last == hist[Len(hist)]

TypeOK ==
    /\ cfg \in Configs /\ phase \in Phases /\ prev \in Phases /\ outcome \in Outcomes
    /\ remote \subseteq Algos /\ negotiated \in Algos \cup {"none"}
    /\ compOn \in BOOLEAN /\ cksum \in BOOLEAN /\ accepted \in BOOLEAN /\ probed \in BOOLEAN
    /\ Len(hist) <= MaxLen
    /\ evt \in BOOLEAN /\ lastErr \in {"none", "auth", "conn"}
    /\ factory \in {"waiting", "returned", "raised_auth", "raised_conn"}

\* reported ready only after the server sent READY or AUTH_SUCCESS
ReadyOnlyAfterReadyOrAuthSuccess ==
    /\ (outcome = "ready") <=> (phase = "Ready")
    /\ phase = "Ready" => Len(hist) > 0 /\ Last.k \in {"READY", "AUTH_SUCCESS"}
    /\ phase = "Failed" <=> outcome \in {"auth_failed", "conn_error"}

\* ... as seen by the caller: Connection.factory hands out the connection only after READY / AUTH_SUCCESS,
\* whatever the moment at which its thread wakes up; otherwise it raises the error class of the failure
FactoryReturnsOnlyAfterReady ==
    /\ factory = "returned" => phase = "Ready" /\ Len(hist) > 0 /\ Last.k \in {"READY", "AUTH_SUCCESS"}
    /\ factory = "raised_auth" => outcome = "auth_failed"
    /\ factory = "raised_conn" => outcome = "conn_error"

\* justifies Fine = FALSE: while defunct()/close() are under way the event is not yet set, so the factory
\* thread cannot observe an intermediate state
NoEarlyWake == todo # <<>> => ~evt /\ factory = "waiting"

\* authentication failures -> authentication error, every other failure -> connection error.
\* MustAuth: refused credentials, or the server demands authentication and none is configured.
\* MayAuth : the statement leaves open how other ERROR kinds after the credentials are classified.
InAuth   == prev \in {"CredsSent", "AuthSent"}
MustAuth == \/ Last.k = "ERROR" /\ Last.kind = "badcreds" /\ InAuth
            \/ Last.k = "AUTHENTICATE" /\ prev = "StartupSent" /\ cfg.auth = "none"
MayAuth  == \/ Last.k = "ERROR" /\ InAuth
            \/ Last.k = "AUTHENTICATE" /\ prev = "StartupSent" /\ cfg.auth = "none"
OutcomeClasses ==
    phase = "Failed" =>
        /\ Len(hist) > 0
        /\ MustAuth => outcome = "auth_failed"
        /\ outcome = "auth_failed" => MayAuth
        /\ ~MayAuth => outcome = "conn_error"

\* the algorithm put into STARTUP is one both sides support
NegotiatedCommon == negotiated # "none" => negotiated \in cfg.local \cap remote

\* compressor applied to outgoing frames only once the server has accepted STARTUP - and then it is
CompressorAfterAccept ==
    /\ compOn => accepted /\ negotiated # "none"
    /\ \A i \in 1..Len(sent) :
          LET f == sent[i] IN
          /\ f.comp => f.after /\ f.alg = negotiated /\ negotiated # "none"
          /\ f.op \in {"OPTIONS", "STARTUP"} => ~f.comp /\ ~f.after
          /\ f.after /\ negotiated # "none" /\ f.op # "OPTIONS" => f.comp

\* checksummed segment framing exactly for v5 (has_checksumming_support), from the acceptance on
ChecksummingExactlyV5 ==
    /\ cksum => Cks(cfg.ver) /\ accepted
    /\ phase \in {"Ready", "CredsSent", "AuthSent"} => (cksum <=> Cks(cfg.ver))
    /\ \A i \in 1..Len(sent) : sent[i].seg <=> (Cks(cfg.ver) /\ sent[i].after)

\* ------------------------------------------------------------------ vacuity witnesses (must be violated)
Witness_ReadyCompressedChecksummed == ~(phase = "Ready" /\ probed /\ compOn /\ cksum)
Witness_AuthFailed   == ~(outcome = "auth_failed" /\ prev = "AuthSent")
Witness_ChallengeLoop == ~(phase = "AuthSent" /\ Len(hist) = MaxLen)
Witness_SnappyDroppedV5 == ~(phase = "Ready" /\ Cks(cfg.ver) /\ "snappy" \in Overlap(remote) /\ negotiated = "none"
                             /\ cfg.comp = "snappy")
Witness_CredsReady == ~(phase = "Ready" /\ prev = "CredsSent")
=============================================================================
