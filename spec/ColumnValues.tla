---------------------------- MODULE ColumnValues ----------------------------
(* What a Python value DENOTES as a CQL value when it is assigned to a column  *)
(* of a given CQL type, and the bytes Cassandra's serializers give that CQL    *)
(* value - the reference for cassandra/cqlengine/columns.py (to_database) and  *)
(* for the core driver's prepared-statement encoding (cassandra/cqltypes.py    *)
(* serialize) of the same Python value.  Written from the CQL type definitions *)
(* (Codec.tla: Cassandra's serializers, the composite grammar) and from the    *)
(* calendar / time definitions of Calendar.tla - NOT from the driver's code.   *)
(*                                                                             *)
(* A Python value is abstract: a leaf is <<form, payload>> - the form says     *)
(* which Python type carries it (a datetime.date, a cassandra.util.Date, a     *)
(* 'yyyy-mm-dd' string, ...), the payload is given in calendar fields / limbs; *)
(* composites are sequences of options as in Codec.tla.  Den(type, value) is   *)
(* the CQL value: a day count, nanoseconds of the day, an INSTANT in epoch     *)
(* milliseconds [days, sod, ms], bytes, integers (wide ones as [neg, mag]).    *)
(*                                                                             *)
(* timestamp.  A reading is [ymd, hms, us, zone]: wall-clock fields and        *)
(* zone = <<>> (naive: read as UTC - the driver's documented convention) or    *)
(* zone = <<at1970, now>>: the UTC offset, in minutes, the reading's time zone *)
(* had on 1970-01-01 and the one in force AT THE READING (they differ for a    *)
(* zone with daylight saving or a changed standard offset; the same wall time  *)
(* is enumerated with several offsets).  The instant is wall - now.  CQL       *)
(* timestamps have millisecond resolution: a reading whose microseconds are    *)
(* not a multiple of 1000 has no exact millisecond instant; which neighbour is *)
(* stored is left open (expect = "inexact", img = both neighbours).            *)
(*                                                                             *)
(* One tzinfo OBJECT usually serves every datetime of its zone: the "calls"    *)
(* family enumerates SEQUENCES of readings that share one zone object and are  *)
(* converted one after the other in one process (winter then summer, the two   *)
(* passes through the repeated hour, ...): each is stored as wall - its own    *)
(* offset, whatever was converted before (CallsIndependent).                   *)
(*                                                                             *)
(* A case = one TLC state (ty, val, norm = Den, enc, img, expect) in Codec's   *)
(* variables; pv is fixed to 4 (the value layout is the same for every         *)
(* version >= 3; the harness encodes at v4 and v5).  checks/c36.py evaluates   *)
(* every state on the real cqlengine column and the real core type.            *)
EXTENDS Codec

Cal == INSTANCE Calendar WITH Families <- {}, Rich <- FALSE, NSeeds <- 1, BlockSize <- 1,
                              fam <- "none", ph <- "none", c <- <<>>, x <- <<>>

CONSTANTS CVFamilies,    \* subset of {"scalar", "list", "set", "map", "tuple", "udt", "nest"}
          CVRich,        \* BOOLEAN: the larger alphabets (thorough tier)
          Parts          \* the enumeration of one type is split over this many seeds (parallelism only)

PV == 4
Kinds == {"text", "ascii", "int", "bigint", "smallint", "tinyint", "varint", "boolean", "float", "double", "decimal",
          "uuid", "timeuuid", "blob", "inet", "date", "time", "timestamp", "duration", "counter"}

-----------------------------------------------------------------------------
\* ================================================================ timestamps
Reading(ymd, hms, us, zone) == [ymd |-> ymd, hms |-> hms, us |-> us, zone |-> zone]
OffsetNow(p) == IF p.zone = <<>> THEN 0 ELSE p.zone[2]
\* the instant of a reading, in epoch milliseconds as [days, sod, ms] (floor of the microseconds)
InstantOf(p) == LET days == Cal!DaysFromCivil(p.ymd[1], p.ymd[2], p.ymd[3])
                    t    == Cal!SecsOf(p.hms[1], p.hms[2], p.hms[3]) - 60 * OffsetNow(p) IN
                [days |-> days + (t \div 86400), sod |-> t % 86400, ms |-> p.us \div 1000]
ExactMs(p) == p.us % 1000 = 0
Midnight(ymd) == [days |-> Cal!DaysFromCivil(ymd[1], ymd[2], ymd[3]), sod |-> 0, ms |-> 0]       \* a date without time: 00:00 UTC
NextMs(i) == IF i.ms < 999 THEN [i EXCEPT !.ms = i.ms + 1]
             ELSE IF i.sod < 86399 THEN [i EXCEPT !.ms = 0, !.sod = i.sod + 1]
             ELSE [days |-> i.days + 1, sod |-> 0, ms |-> 0]
\* the instant stays within the years 1..9999 of UTC (outside, Python's datetime cannot even express it in UTC)
InstantInRange(i) == Cal!DayInRange(i.days)
\* TimestampSerializer: a long of milliseconds since the epoch; negative before it
MsPerDay == 86400000
TsEnc(i) == IF i.days >= 0
            THEN Cal!BE(Cal!Add(Cal!Mul(Cal!NatLE(i.days), Cal!NatLE(MsPerDay)), Cal!NatLE(i.sod * 1000 + i.ms)), 8)
            ELSE Cal!SignedBE(TRUE, Cal!Sub(Cal!Mul(Cal!NatLE(-i.days), Cal!NatLE(MsPerDay)), Cal!NatLE(i.sod * 1000 + i.ms)), 8)
\* decode: [days, sod, ms] from the 8 bytes (cross-check of TsEnc)
TsDec(b) == LET v  == Cal!FromSignedBE(b)
                d1 == Cal!DivK(v.mag, 1000)          \* seconds, ms
                d2 == Cal!DivK(d1.q, 86400)          \* days, second of day
                dq == Cal!ToInt(Cal!Trim(d2.q)) IN
            IF ~v.neg THEN [days |-> dq, sod |-> d2.r, ms |-> d1.r]
            ELSE \* -(dq days + r2 s + r1 ms): borrow into the floor representation
                 LET ms  == IF d1.r = 0 THEN 0 ELSE 1000 - d1.r
                     s   == d2.r + (IF d1.r = 0 THEN 0 ELSE 1)            \* seconds to subtract, 0..86400
                 IN IF s = 0 THEN [days |-> -dq, sod |-> 0, ms |-> ms]
                    ELSE [days |-> -dq - 1, sod |-> 86400 - s, ms |-> ms]

\* ================================================================ IEEE 754 (layout only: sign | biased exponent | fraction)
F32(f) == <<f.s * 128 + f.e \div 2, (f.e % 2) * 128 + f.m \div 65536, (f.m \div 256) % 256, f.m % 256>>      \* e: 0..255, m < 2^23
F64(f) == <<f.s * 128 + f.e \div 16, (f.e % 16) * 16 + f.mh \div 65536, (f.mh \div 256) % 256, f.mh % 256>> \o f.ml  \* e: 0..2047, mh < 2^20, ml: 4 bytes

-----------------------------------------------------------------------------
\* ================================================================ denotation and bytes of a leaf
W(neg, mag) == [neg |-> neg, mag |-> mag]
DenLeaf(k, form, p) ==
    CASE k = "timestamp" -> (IF form = "date" THEN Midnight(p) ELSE InstantOf(p))
      [] k = "date"      -> (IF form = "Date" THEN p ELSE Cal!DaysFromCivil(p[1], p[2], p[3]))
      [] OTHER           -> p
LeafEnc(k, d) ==
    CASE k = "timestamp" -> TsEnc(d)
      [] k = "time"      -> Cal!TimeEnc(d.secs, d.ns)
      [] k = "date"      -> Cal!DateEnc(d)
      [] k = "float"     -> F32(d)
      [] k = "double"    -> F64(d)
      [] k \in {"bigint", "counter"} -> LongW(d)
      [] k = "varint"    -> VarW(d)
      [] k = "decimal"   -> I32(d[1]) \o VarW(d[2])
      [] OTHER           -> EncScalar(k, d)

RECURSIVE Den(_, _)
DenOpt(t, ov) == IF ov = None THEN None ELSE Some(Den(t, ov[1]))
Den(t, v) ==
    CASE IsScalar(t) -> DenLeaf(Kind(t), v[1], v[2])
      [] Kind(t) \in {"list", "set"} -> [i \in 1..Len(v) |-> DenOpt(t[2], v[i])]
      [] Kind(t) = "map" -> [i \in 1..Len(v) |-> <<DenOpt(t[2], v[i][1]), DenOpt(t[3], v[i][2])>>]
      [] Kind(t) \in {"tuple", "udt"} -> [i \in 1..Len(v) |-> DenOpt(t[2][i], v[i])]

\* the composite grammar of Codec.tla over these leaves (nested values always in the >= 3 format)
RECURSIVE CEnc(_, _, _)
CElem(t, od, p)  == IF od = None THEN CLen(p, -1) ELSE LET b == CEnc(t, od[1], Max3(p)) IN CLen(p, Len(b)) \o b
CField(t, od, p) == IF od = None THEN I32(-1) ELSE LET b == CEnc(t, od[1], Max3(p)) IN I32(Len(b)) \o b
CEnc(t, d, p) ==
    CASE IsScalar(t) -> LeafEnc(Kind(t), d)
      [] Kind(t) \in {"list", "set"} -> CLen(p, Len(d)) \o Cat([i \in 1..Len(d) |-> CElem(t[2], d[i], p)])
      [] Kind(t) = "map" -> CLen(p, Len(d)) \o Cat([i \in 1..Len(d) |-> CElem(t[2], d[i][1], p) \o CElem(t[3], d[i][2], p)])
      [] Kind(t) \in {"tuple", "udt"} -> Cat([i \in 1..Len(d) |-> CField(t[2][i], d[i], p)])

-----------------------------------------------------------------------------
\* ================================================================ alphabets of Python values
L(form, p) == <<form, p>>
\* ---- timestamps
TsDates == IF CVRich THEN {<<1, 1, 1>>, <<1, 12, 31>>, <<1582, 10, 15>>, <<1900, 3, 1>>, <<1969, 12, 31>>, <<1970, 1, 1>>, <<1970, 1, 2>>,
                           <<2024, 2, 29>>, <<2026, 3, 29>>, <<2026, 7, 1>>, <<2026, 10, 25>>, <<2038, 1, 19>>, <<2262, 4, 11>>, <<9999, 12, 31>>}
           ELSE {<<1, 1, 1>>, <<1969, 12, 31>>, <<1970, 1, 1>>, <<2024, 2, 29>>, <<2026, 7, 1>>, <<2026, 10, 25>>, <<9999, 12, 31>>}
TsTimes == IF CVRich THEN {<<0, 0, 0>>, <<0, 0, 1>>, <<1, 30, 0>>, <<2, 30, 0>>, <<12, 0, 0>>, <<23, 59, 59>>}
           ELSE {<<0, 0, 0>>, <<0, 0, 1>>, <<2, 30, 0>>, <<12, 0, 0>>, <<23, 59, 59>>}
TsMicros == IF CVRich THEN {0, 1, 499, 500, 999, 1000, 1001, 1999, 2000, 123000, 500000, 999000, 999499, 999500, 999999}
            ELSE {0, 1, 999, 1000, 1999, 123000, 999000, 999500, 999999}
\* <<offset on 1970-01-01, offset at the reading>> in minutes
FixedZones   == {<<0, 0>>, <<330, 330>>, <<-480, -480>>, <<60, 60>>} \cup (IF CVRich THEN {<<840, 840>>, <<-720, -720>>, <<345, 345>>, <<-300, -300>>} ELSE {})
VaryingZones == {<<-300, -240>>, <<60, 120>>} \cup (IF CVRich THEN {<<660, 600>>, <<-210, -150>>, <<0, 60>>, <<-480, -420>>} ELSE {})
Zones == {<<>>} \cup FixedZones \cup VaryingZones
\* a reading ON 1970-01-01 (or a day next to it) has the offset of 1970-01-01: no "changed since" there
Around1970 == {<<1969, 12, 31>>, <<1970, 1, 1>>, <<1970, 1, 2>>}
TsReadings == {p \in {Reading(d, t, u, z) : d \in TsDates, t \in TsTimes, u \in TsMicros, z \in Zones} :
                  p.zone \in VaryingZones => p.ymd \notin Around1970}
TsLeaves == {L(IF p.zone = <<>> THEN "naive" ELSE "aware", p) : p \in TsReadings} \cup {L("date", d) : d \in TsDates}
TsSmall  == {L("naive", Reading(<<1970, 1, 1>>, <<0, 0, 1>>, 1000, <<>>)),            \* 1.001 s
             L("naive", Reading(<<1969, 12, 31>>, <<23, 59, 59>>, 999000, <<>>)),    \* -1 ms
             L("aware", Reading(<<2026, 7, 1>>, <<12, 0, 0>>, 0, <<60, 120>>)),      \* summer time
             L("aware", Reading(<<2026, 7, 1>>, <<12, 0, 0>>, 0, <<330, 330>>)),
             L("date", <<2024, 2, 29>>)}
\* ---- dates
DateCivils == {<<1, 1, 1>>, <<1582, 10, 15>>, <<1900, 3, 1>>, <<1969, 12, 31>>, <<1970, 1, 1>>, <<2000, 2, 29>>, <<2024, 2, 29>>,
               <<2026, 9, 22>>, <<9999, 12, 31>>}
DateRaw == {-719163, 2932897, (-2147483647) - 1, 2147483647, 0, -1}          \* cassandra.util.Date also holds days outside the years 1..9999
DateLeaves == {L(f, d) : f \in {"date", "text", "datetime"}, d \in DateCivils}
              \cup {L("Date", Cal!DaysFromCivil(d[1], d[2], d[3])) : d \in DateCivils} \cup {L("Date", n) : n \in DateRaw}
DateSmall == {L("date", <<2024, 2, 29>>), L("Date", -1), L("text", <<1969, 12, 31>>), L("datetime", <<9999, 12, 31>>)}
\* ---- times
TimeVals == {[secs |-> s, ns |-> n] : s \in {0, 1, 3723, 43200, 86399}, n \in {0, 1, 1000, 999999000, 999999999, 500000000, 123456789}}
WholeUs(v) == v.ns % 1000 = 0
TimeLeaves == {L(f, v) : f \in {"Time", "int", "text"}, v \in TimeVals} \cup {L("time", v) : v \in {w \in TimeVals : WholeUs(w)}}
TimeSmall == {L("Time", [secs |-> 86399, ns |-> 999999999]), L("time", [secs |-> 3723, ns |-> 1000]), L("text", [secs |-> 0, ns |-> 1]),
              L("int", [secs |-> 43200, ns |-> 0])}
\* ---- floating point: +-0, 1, -1.5, 0.1 (nearest), smallest subnormal, largest finite, +-infinity, a quiet NaN
Floats  == {[s |-> 0, e |-> 0, m |-> 0], [s |-> 1, e |-> 0, m |-> 0], [s |-> 0, e |-> 127, m |-> 0], [s |-> 1, e |-> 127, m |-> 4194304],
            [s |-> 0, e |-> 123, m |-> 5033165], [s |-> 0, e |-> 0, m |-> 1], [s |-> 0, e |-> 254, m |-> 8388607],
            [s |-> 0, e |-> 255, m |-> 0], [s |-> 1, e |-> 255, m |-> 0], [s |-> 0, e |-> 255, m |-> 4194304], [s |-> 0, e |-> 130, m |-> 2097152]}
Z4 == <<0, 0, 0, 0>>
Doubles == {[s |-> 0, e |-> 0, mh |-> 0, ml |-> Z4], [s |-> 1, e |-> 0, mh |-> 0, ml |-> Z4], [s |-> 0, e |-> 1023, mh |-> 0, ml |-> Z4],
            [s |-> 1, e |-> 1023, mh |-> 524288, ml |-> Z4], [s |-> 0, e |-> 1019, mh |-> 629145, ml |-> <<153, 153, 153, 154>>],
            [s |-> 0, e |-> 0, mh |-> 0, ml |-> <<0, 0, 0, 1>>], [s |-> 0, e |-> 2046, mh |-> 1048575, ml |-> <<255, 255, 255, 255>>],
            [s |-> 0, e |-> 2047, mh |-> 0, ml |-> Z4], [s |-> 1, e |-> 2047, mh |-> 0, ml |-> Z4], [s |-> 0, e |-> 2047, mh |-> 524288, ml |-> Z4],
            [s |-> 0, e |-> 1026, mh |-> 262144, ml |-> Z4]}
IntegralF(f)  == f \in {[s |-> 0, e |-> 0, m |-> 0], [s |-> 0, e |-> 127, m |-> 0], [s |-> 0, e |-> 130, m |-> 2097152]}                 \* 0, 1, 10
IntegralD(f)  == f \in {[s |-> 0, e |-> 0, mh |-> 0, ml |-> Z4], [s |-> 0, e |-> 1023, mh |-> 0, ml |-> Z4], [s |-> 0, e |-> 1026, mh |-> 262144, ml |-> Z4]}
\* ---- wide integers (Codec.tla: sign + big-endian magnitude)
WInts == {WZero, W(FALSE, <<1>>), W(TRUE, <<1>>), W(FALSE, <<127>>), W(FALSE, <<128>>), W(TRUE, <<128>>), W(TRUE, <<129>>),
          W(FALSE, <<1, 0, 0, 0, 0>>), W(TRUE, <<128, 0, 0, 0>>), W(FALSE, <<127, 255, 255, 255, 255, 255, 255, 255>>),
          W(TRUE, <<128, 0, 0, 0, 0, 0, 0, 0>>), W(FALSE, <<18, 52, 86, 120, 154, 188, 222, 240>>)}
WBeyond == {W(FALSE, <<128, 0, 0, 0, 0, 0, 0, 0>>), W(TRUE, <<1, 0, 0, 0, 0, 0, 0, 0, 0>>), W(FALSE, <<222, 173, 190, 239, 0, 1, 2, 3, 4>>)}
Decimals == {<<s, u>> : s \in {0, 2, -3, 38}, u \in {WZero, W(FALSE, <<1>>), W(TRUE, <<129>>), W(FALSE, <<1, 0, 0, 0, 0>>), W(TRUE, <<110>>)}}
TimeUuids == {Uuid1, Cal!Layout(Cal!Ts8(Cal!Inst(<<1970, 1, 1>>, 0, 0), 0), 0, Cal!Rep(0)),
              Cal!Layout(Cal!Ts8(Cal!Inst(<<2026, 9, 22>>, 43200, 500000), 0), 16383, Cal!Rep(255)),
              Cal!MinUuid(Cal!Ts8(Cal!Inst(<<1969, 12, 31>>, 86399, 999999), 0))}

Leaves(k) ==
    CASE k = "timestamp" -> TsLeaves
      [] k = "date"      -> DateLeaves
      [] k = "time"      -> TimeLeaves
      [] k = "float"     -> {L("float", f) : f \in Floats} \cup {L("int", f) : f \in {g \in Floats : IntegralF(g)}}
      [] k = "double"    -> {L("float", f) : f \in Doubles} \cup {L("int", f) : f \in {g \in Doubles : IntegralD(g)}}
      [] k = "varint"    -> {L("int", w) : w \in WInts \cup WBeyond}
      [] k \in {"bigint", "counter"} -> {L("int", w) : w \in WInts}
      [] k = "decimal"   -> {L("Decimal", d) : d \in Decimals} \cup {L("int", d) : d \in {e \in Decimals : e[1] = 0}}
      [] k = "uuid"      -> {L(f, u) : f \in {"UUID", "text"}, u \in Full("uuid")}
      [] k = "timeuuid"  -> {L(f, u) : f \in {"UUID", "text"}, u \in TimeUuids}
      [] k = "blob"      -> {L(f, b) : f \in {"bytes", "bytearray"}, b \in Full("blob")}
      [] k = "inet"      -> {L(f, a) : f \in {"str", "ipaddress"}, a \in Full("inet")}
      [] k \in {"text", "ascii"} -> {L("str", s) : s \in Full(k)}
      [] k = "boolean"   -> {L("bool", b) : b \in BOOLEAN}
      [] k = "duration"  -> {L("Duration", d) : d \in Mid("duration") \cup {<<12, 30, 1000000000>>, <<0, 0, 1>>}}
      [] OTHER           -> {L("int", n) : n \in Full(k)}                           \* tinyint, smallint, int
\* inside composites: a few leaves per kind, every form of the calendar types
Few(k) ==
    CASE k = "timestamp" -> TsSmall
      [] k = "date"      -> DateSmall
      [] k = "time"      -> TimeSmall
      [] k = "float"     -> {L("float", [s |-> 1, e |-> 127, m |-> 4194304]), L("int", [s |-> 0, e |-> 127, m |-> 0])}
      [] k = "double"    -> {L("float", [s |-> 0, e |-> 1019, mh |-> 629145, ml |-> <<153, 153, 153, 154>>]), L("float", [s |-> 0, e |-> 0, mh |-> 0, ml |-> Z4])}
      [] k = "varint"    -> {L("int", W(TRUE, <<129>>)), L("int", W(FALSE, <<222, 173, 190, 239, 0, 1, 2, 3, 4>>))}
      [] k \in {"bigint", "counter"} -> {L("int", W(TRUE, <<1>>)), L("int", W(FALSE, <<1, 0, 0, 0, 0>>))}
      [] k = "decimal"   -> {L("Decimal", <<2, W(TRUE, <<129>>)>>), L("int", <<0, W(FALSE, <<1>>)>>)}
      [] k = "uuid"      -> {L("UUID", Uuid4), L("text", UuidN)}
      [] k = "timeuuid"  -> {L("UUID", Uuid1)}
      [] k = "blob"      -> {L("bytes", <<>>), L("bytearray", <<0, 255, 128>>)}
      [] k = "inet"      -> {L("str", <<127, 0, 0, 1>>), L("ipaddress", Ip6(0, 1))}
      [] k = "text"      -> {L("str", Txt.empty), L("str", Txt.two)}
      [] k = "ascii"     -> {L("str", Txt.a), L("str", Txt.del)}
      [] k = "boolean"   -> {L("bool", TRUE), L("bool", FALSE)}
      [] k = "duration"  -> {L("Duration", <<1, 64, 8192>>), L("Duration", <<0, 0, 0>>)}
      [] k = "tinyint"   -> {L("int", -128), L("int", 1)}
      [] k = "smallint"  -> {L("int", -129), L("int", 1)}
      [] k = "int"       -> {L("int", -1), L("int", 256)}

ASSUME \A k \in Kinds : Few(k) \subseteq Leaves(k)          \* every leaf of a composite is also a scalar case

\* ---- composite values: sequences up to length 2 (sets / map keys with distinct denotations), options for tuple / UDT fields
RECURSIVE CVals(_, _)
COpts(t, lvl, nullable) == {Some(v) : v \in CVals(t, lvl)} \cup (IF nullable THEN {None} ELSE {})
RECURSIVE CProd(_, _, _)
\* fields: null allowed - except a list / set / map field of a cqlengine user type, which has no null (the model turns
\* an absent container into an empty one when the object is built, before anything is sent)
CProd(ts, lvl, udt) == IF Len(ts) = 0 THEN {<<>>}
                       ELSE {<<o>> \o rest : o \in COpts(Head(ts), lvl, ~(udt /\ ~IsScalar(Head(ts)) /\ Kind(Head(ts)) \in {"list", "set", "map"})),
                                             rest \in CProd(Tail(ts), lvl, udt)}
MaxLen(lvl) == IF lvl = 0 THEN 2 ELSE 1
\* a Python set / dict holds hashable objects only: not a bytearray
Hashables(t, S) == IF IsScalar(t) THEN {o \in S : o[1][1] # "bytearray"} ELSE S
CVals(t, lvl) ==
    CASE IsScalar(t) -> (IF lvl = 0 THEN Leaves(Kind(t)) ELSE Few(Kind(t)))
      [] Kind(t) = "list" -> SeqsUpTo(COpts(t[2], lvl + 1, FALSE), MaxLen(lvl))
      [] Kind(t) = "set"  -> {s \in SeqsUpTo(Hashables(t[2], COpts(t[2], lvl + 1, FALSE)), MaxLen(lvl)) :
                                 \A i, j \in 1..Len(s) : i # j => Den(t[2], s[i][1]) # Den(t[2], s[j][1])}
      [] Kind(t) = "map"  -> LET P == {<<k, v>> : k \in Hashables(t[2], COpts(t[2], lvl + 1, FALSE)), v \in COpts(t[3], lvl + 1, FALSE)} IN
                             {s \in SeqsUpTo(P, MaxLen(lvl)) : \A i, j \in 1..Len(s) : i # j => Den(t[2], s[i][1][1]) # Den(t[2], s[j][1][1])}
      [] Kind(t) \in {"tuple", "udt"} -> CProd(t[2], lvl + 1, Kind(t) = "udt")

\* ---- column types
SetKinds  == Kinds \ {"counter", "duration"}                 \* Cassandra has no sets of these; counters live in no collection
ElemKinds == Kinds \ {"counter"}
KeyKinds  == IF CVRich THEN {"text", "int", "date", "timestamp", "uuid", "time"} ELSE {"text", "date", "timestamp"}
ValKinds  == IF CVRich THEN ElemKinds ELSE {"int", "timestamp", "date", "time", "decimal", "double", "blob"}
FieldKinds == IF CVRich THEN {"int", "text", "timestamp", "date", "time", "varint", "boolean", "double", "uuid"} ELSE {"int", "timestamp", "date", "time"}
TDate == Sc("date")   TTime == Sc("time")
CT_scalar == {Sc(k) : k \in Kinds}
CT_list   == {ListOf(Sc(k)) : k \in ElemKinds}
CT_set    == {SetOf(Sc(k)) : k \in SetKinds}
CT_map    == {MapOf(Sc(k), Sc(v)) : k \in KeyKinds, v \in ValKinds} \cup {MapOf(Sc("blob"), TInt)}
CT_tuple  == {TupleOf(<<Sc(a), Sc(b)>>) : a, b \in FieldKinds} \cup {TupleOf(<<TTs>>), TupleOf(<<TInt, TText, TTs>>)}
CT_udt    == {UdtOf(<<TText, TInt, TTs>>), UdtOf(<<TDate, TTime>>), UdtOf(<<TTs, ListOf(TDate)>>), UdtOf(<<TInt, MapOf(TText, TTs)>>)}
CT_nest   == {ListOf(ListOf(TTs)), ListOf(TupleOf(<<TInt, TTs>>)), MapOf(TText, ListOf(TTs)), MapOf(TDate, SetOf(TTime)),
              SetOf(TupleOf(<<TDate, TInt>>)), ListOf(UdtOf(<<TText, TTs>>)), TupleOf(<<ListOf(TDate), MapOf(TInt, TTs)>>),
              MapOf(TText, MapOf(TInt, TDate)), ListOf(SetOf(TDate))}
\* ---- one time zone OBJECT, several conversions ("calls")
\* A program converts datetimes one after the other, and the datetimes of one zone share ONE tzinfo object (zoneinfo,
\* dateutil): the object answers with the offset in force at the datetime it is asked about.  A case of this family is
\* a sequence of readings of one zone object, converted in this order in one process.  Each reading denotes
\* wall - ITS OWN offset, whatever was converted before.  A reading here also carries fold (PEP 495): 1 for the second
\* pass through a wall-clock time that occurs twice (the end of daylight saving time).
CallsOf == <<"calls", TTs>>
ZR(ymd, hms, us, at1970, now, fold) == [ymd |-> ymd, hms |-> hms, us |-> us, zone |-> <<at1970, now>>, fold |-> fold]
SharedZones ==
    {{ZR(<<2026, 1, 15>>, <<12, 0, 0>>, 0, 60, 60, 0), ZR(<<2026, 7, 1>>, <<12, 0, 0>>, 0, 60, 120, 0),           \* +01:00 / +02:00 in summer
      ZR(<<2026, 10, 25>>, <<2, 30, 0>>, 0, 60, 120, 0), ZR(<<2026, 10, 25>>, <<2, 30, 0>>, 123000, 60, 60, 1)},
     {ZR(<<2026, 1, 15>>, <<12, 0, 0>>, 1000, -300, -300, 0), ZR(<<2026, 7, 1>>, <<23, 59, 59>>, 999000, -300, -240, 0)},   \* -05:00 / -04:00
     {ZR(<<2026, 1, 15>>, <<12, 0, 0>>, 0, 330, 330, 0), ZR(<<2026, 7, 1>>, <<12, 0, 0>>, 0, 330, 330, 0)}}        \* no change: +05:30
    \cup (IF CVRich THEN {{ZR(<<2026, 1, 15>>, <<0, 0, 1>>, 0, 660, 660, 0), ZR(<<2026, 7, 1>>, <<0, 0, 1>>, 0, 660, 600, 0),      \* southern: summer in January
                            ZR(<<1969, 7, 1>>, <<12, 0, 0>>, 0, 660, 600, 0)},
                           {ZR(<<2011, 12, 29>>, <<12, 0, 0>>, 0, -660, -600, 0), ZR(<<2011, 12, 31>>, <<12, 0, 0>>, 0, -660, 840, 0)}}  \* a zone that crossed the date line
         ELSE {})
CallPairs == UNION {{pq \in Z \X Z : pq[1] # pq[2]} : Z \in SharedZones}
CallSeqs == CallPairs \cup (IF CVRich THEN {<<pq[1], pq[2], pq[1]>> : pq \in CallPairs} ELSE {})

CPick(f, S) == IF f \in CVFamilies THEN S ELSE {}
CVTypes == CPick("scalar", CT_scalar) \cup CPick("list", CT_list) \cup CPick("set", CT_set) \cup CPick("map", CT_map)
           \cup CPick("tuple", CT_tuple) \cup CPick("udt", CT_udt) \cup CPick("nest", CT_nest) \cup CPick("calls", {CallsOf})

-----------------------------------------------------------------------------
\* Codec's variables: ty = column type, val = Python value, norm = its denotation, enc = the bytes, img = the acceptable
\* byte strings, expect = "seed" | "ok" | "inexact" | "open"; pv = part number in a seed, PV in a case
CVInit == /\ ty \in CVTypes /\ pv \in (IF ty = TTs THEN 0..(Parts - 1) ELSE {0})
          /\ val = <<>> /\ enc = <<>> /\ img = {} /\ norm = <<>> /\ expect = "seed"

IsTsLeaf(t, v) == IsScalar(t) /\ Kind(t) = "timestamp"
\* the many readings of the timestamp scalar are split over the seeds by a cheap function of their fields
PartOf(t, v) == IF IsTsLeaf(t, v) /\ v[1] # "date" THEN (v[2].us + v[2].hms[1] + v[2].ymd[1]) % Parts ELSE 0

CVCase == /\ expect = "seed" /\ ty # CallsOf
          /\ \E v \in CVals(ty, 0) :
               /\ PartOf(ty, v) = pv
               /\ LET d == Den(ty, v)
                      inexact == IsTsLeaf(ty, v) /\ v[1] # "date" /\ ~ExactMs(v[2])
                      outside == IsTsLeaf(ty, v) /\ (~InstantInRange(d) \/ (inexact /\ ~InstantInRange(NextMs(d))))
                      e == CEnc(ty, d, PV) IN
                  /\ val' = v /\ norm' = d /\ enc' = e /\ pv' = PV
                  /\ img' = IF inexact THEN {e, TsEnc(NextMs(d))} ELSE {e}
                  /\ expect' = IF outside THEN "open" ELSE IF inexact THEN "inexact" ELSE "ok"
                  /\ UNCHANGED ty
\* val = the readings in the order they are converted, norm = their instants, enc = their 8-byte encodings one after the other
CallsCase == /\ expect = "seed" /\ ty = CallsOf
             /\ \E s \in CallSeqs :
                  LET d == [k \in 1..Len(s) |-> InstantOf(s[k])]
                      e == Cat([k \in 1..Len(s) |-> TsEnc(d[k])]) IN
                  /\ val' = s /\ norm' = d /\ enc' = e /\ img' = {e} /\ pv' = PV /\ expect' = "ok"
                  /\ UNCHANGED ty
CVNext == CVCase \/ CallsCase
CVSpec == CVInit /\ [][CVNext]_vars

-----------------------------------------------------------------------------
\* ================================================================ the statement's formulas on the specification
Judged == expect \in {"ok", "inexact"}
CVTypeOK == /\ expect \in {"seed", "ok", "inexact", "open"}
            /\ Judged => IsBytes(enc) /\ enc \in img /\ \A e \in img : IsBytes(e)
\* "a datetime is stored as its exact millisecond instant": the bytes are the instant's, and two readings of one instant
\* have the same bytes - the UTC reading of the instant (calendar fields recovered with Calendar.tla's inverse) denotes it
UtcReadingOf(i) == Reading(Cal!Civil(i.days), Cal!Hms(i.sod), i.ms * 1000, <<>>)
ExactInstant ==
    Judged /\ IsScalar(ty) /\ Kind(ty) = "timestamp" =>
        /\ norm.sod \in 0..86399 /\ norm.ms \in 0..999
        /\ TsDec(enc) = norm                                                             \* the long of epoch milliseconds
        /\ InstantOf(UtcReadingOf(norm)) = norm /\ TsEnc(InstantOf(UtcReadingOf(norm))) = enc
        /\ (val[1] = "naive" => UtcReadingOf(norm) = [val[2] EXCEPT !.us = (val[2].us \div 1000) * 1000])
        /\ (val[1] = "aware" /\ val[2].zone[2] = 0 => norm = InstantOf([val[2] EXCEPT !.zone = <<>>]))
\* the two neighbours of an inexact reading are consecutive milliseconds around it
InexactNeighbours ==
    expect = "inexact" => /\ Cardinality(img) = 2 /\ ~ExactMs(val[2])
                          /\ \E e \in img : e # enc /\ TsDec(e) = NextMs(norm)
\* dates: every form of one calendar date has the same denotation, and it is the day count of Calendar.tla
DateForms ==
    Judged /\ IsScalar(ty) /\ Kind(ty) = "date" =>
        /\ enc = Cal!DateEnc(norm) /\ Cal!DateDec(enc) = norm
        /\ (val[1] # "Date" => Cal!Civil(norm) = val[2])
TimeForms ==
    Judged /\ IsScalar(ty) /\ Kind(ty) = "time" => Cal!TimeDec(enc) = norm /\ Cal!TimeInDay(FALSE, norm.secs, norm.ns)
FloatWidths ==
    Judged /\ IsScalar(ty) => /\ (Kind(ty) = "float" => Len(enc) = 4) /\ (Kind(ty) = "double" => Len(enc) = 8)
                              /\ (Kind(ty) \in {"bigint", "counter", "timestamp", "time"} => Len(enc) = 8)
WideInts ==
    Judged /\ IsScalar(ty) /\ Kind(ty) \in {"varint", "bigint", "counter"} => DecVarW(enc) = norm /\ (Kind(ty) # "varint" => FitsLong(norm))
\* the collection header counts the elements; a null field is the length -1
Headers ==
    Judged /\ ~IsScalar(ty) /\ Kind(ty) \in {"list", "set", "map"} => RdInt(enc, 1).v = Len(val)

\* conversions do not influence each other: the k-th 8 bytes are the instant of the k-th reading with ITS offset - the same
\* bytes the reading has when it is converted alone; the zone object is a function of (wall clock, fold); the two passes
\* through a repeated wall-clock time are apart by the difference of their offsets
Piece(k) == SubSeq(enc, 8 * k - 7, 8 * k)
Alone(p) == Reading(p.ymd, p.hms, p.us, p.zone)
SecondsOf(i) == i.days * 86400 + i.sod                     \* near the present: fits
CallsIndependent ==
    Judged /\ ty = CallsOf =>
        /\ Len(enc) = 8 * Len(val)
        /\ \A k \in 1..Len(val) : /\ TsDec(Piece(k)) = norm[k] /\ Piece(k) = TsEnc(InstantOf(Alone(val[k])))
                                   /\ val[k].zone[1] = val[1].zone[1] /\ ExactMs(val[k])
        /\ \A j, k \in 1..Len(val) :
              /\ (val[j].ymd = val[k].ymd /\ val[j].hms = val[k].hms /\ val[j].fold = val[k].fold => val[j].zone = val[k].zone)
              /\ (val[j].ymd = val[k].ymd /\ val[j].hms = val[k].hms /\ norm[j].days > 0 /\ norm[j].days < 24000 =>
                     SecondsOf(norm[k]) - SecondsOf(norm[j]) = 60 * (val[j].zone[2] - val[k].zone[2]))

\* ================================================================ vacuity witnesses (TLC must VIOLATE each; one state each)
Witness_WinterThenSummer == ~(Judged /\ ty = CallsOf /\ val = <<ZR(<<2026, 1, 15>>, <<12, 0, 0>>, 0, 60, 60, 0), ZR(<<2026, 7, 1>>, <<12, 0, 0>>, 0, 60, 120, 0)>>
                              /\ Piece(2) = TsEnc([days |-> Cal!DaysFromCivil(2026, 7, 1), sod |-> 36000, ms |-> 0]))
Witness_RepeatedHour     == ~(Judged /\ ty = CallsOf /\ val = <<ZR(<<2026, 10, 25>>, <<2, 30, 0>>, 0, 60, 120, 0), ZR(<<2026, 10, 25>>, <<2, 30, 0>>, 123000, 60, 60, 1)>>
                              /\ norm[2].sod - norm[1].sod = 3600)
TsCase(form) == Judged /\ ty = TTs /\ val[1] = form
Witness_SummerTime  == ~(TsCase("aware") /\ val[2] = Reading(<<2026, 7, 1>>, <<12, 0, 0>>, 0, <<60, 120>>) /\ norm.sod = 36000)
Witness_SameWallTwoOffsets == ~(TsCase("aware") /\ val[2] = Reading(<<2026, 10, 25>>, <<2, 30, 0>>, 0, <<60, 60>>) /\ norm.sod = 5400)
Witness_NegativeOffset == ~(TsCase("aware") /\ val[2] = Reading(<<1969, 12, 31>>, <<23, 59, 59>>, 999000, <<-480, -480>>) /\ norm.days = 0)
Witness_MsProne     == ~(TsCase("naive") /\ val[2] = Reading(<<1970, 1, 1>>, <<0, 0, 1>>, 1000, <<>>) /\ enc = <<0, 0, 0, 0, 0, 0, 3, 233>>)
Witness_Pre1970Inexact == ~(expect = "inexact" /\ ty = TTs /\ val[2] = Reading(<<1969, 12, 31>>, <<23, 59, 59>>, 999500, <<>>)
                            /\ enc = <<255, 255, 255, 255, 255, 255, 255, 255>>)
Witness_YearOne     == ~(TsCase("naive") /\ val[2] = Reading(<<1, 1, 1>>, <<0, 0, 0>>, 0, <<>>) /\ enc = <<255, 255, 199, 124, 237, 211, 40, 0>>)
Witness_Year9999    == ~(TsCase("naive") /\ val[2] = Reading(<<9999, 12, 31>>, <<23, 59, 59>>, 999000, <<>>) /\ enc = <<0, 0, 230, 119, 210, 31, 219, 255>>)
Witness_OutsideOpen == ~(expect = "open" /\ ty = TTs /\ val[2] = Reading(<<1, 1, 1>>, <<0, 0, 0>>, 0, <<330, 330>>))
Witness_TupleNull   == ~(Judged /\ ty = TupleOf(<<TInt, TText, TTs>>) /\ val = <<None, None, None>>)
Witness_Udt         == ~(Judged /\ ty = UdtOf(<<TText, TInt, TTs>>) /\ val = <<None, None, Some(L("date", <<2024, 2, 29>>))>>)
Witness_Nested      == ~(Judged /\ ty = MapOf(TText, ListOf(TTs)) /\ Len(val) = 1 /\ val[1][1] = Some(L("str", Txt.two))
                         /\ val[1][2] = Some(<<Some(L("aware", Reading(<<2026, 7, 1>>, <<12, 0, 0>>, 0, <<60, 120>>)))>>))
Witness_SetOfDates  == ~(Judged /\ ty = SetOf(TDate) /\ val = <<Some(L("date", <<2024, 2, 29>>)), Some(L("Date", -1))>>)
Witness_WideVarint  == ~(Judged /\ ty = Sc("varint") /\ val = L("int", W(TRUE, <<1, 0, 0, 0, 0, 0, 0, 0, 0>>)))
=============================================================================
