--------------------------- MODULE Trace_PushQueue ---------------------------
(* Trace validation for PushQueue.tla.  A trace is the sequence of chunks the  *)
(* peer of a REAL reactor connection received (parsed from the byte stream),   *)
(* closed by one End event carrying how many messages each thread pushed.      *)
(* Push and RunTask are not observable; a first chunk is explained by the      *)
(* composition Push . RunTask . Drain of its message, a later chunk by Drain.  *)
EXTENDS PushQueue, TraceLib

VARIABLES tid, l
tvars == <<vars, tid, l>>
Tr == Traces[tid]
Th(e) == e.t          \* threads are logged by number

TraceInit == tid \in 1..NTraces /\ l = 1 /\ Init

First(e) ==          \* Push(t, n) ; RunTask ; Drain    (ready and queue empty before)
    /\ ready = <<>> /\ queue = <<>>
    /\ Th(e) \in Threads
    /\ e.n \in 1..MaxChunks
    /\ pushed[Th(e)] = e.m - 1 /\ e.m <= K
    /\ pushed' = [pushed EXCEPT ![Th(e)] = e.m]
    /\ wire' = Append(wire, <<Th(e), e.m, 1, e.n>>)
    /\ queue' = SubSeq(Chunks(Th(e), e.m, e.n), 2, e.n)
    /\ UNCHANGED ready

Later(e) == /\ queue # <<>> /\ Head(queue) = <<Th(e), e.m, e.k, e.n>>
            /\ Drain

End(e) == /\ Flushed
          /\ \A t \in Threads : pushed[t] = e.pushed[t]
          /\ UNCHANGED vars

TraceNext ==
    /\ l <= Len(Tr)
    /\ l' = l + 1
    /\ UNCHANGED tid
    /\ LET e == Tr[l] IN
          \/ e.e = "Chunk" /\ e.k = 1 /\ First(e)
          \/ e.e = "Chunk" /\ e.k > 1 /\ Later(e)
          \/ e.e = "End" /\ End(e)

Progress == RecordProgress(tid, l)
Done == PrintProgress
=============================================================================
