------------------------------- MODULE Request -------------------------------
(* One ResponseFuture of the driver (one statement execution and, through     *)
(* start_fetching_next_page, one further page fetch) over a query plan of     *)
(* NHosts hosts, with a retry policy, speculative executions and a client     *)
(* timeout.                                                                   *)
(*                                                                            *)
(* Code anchors (cassandra/cluster.py):                                       *)
(*   Session.execute_async / _create_response_future (3005-3110; speculative  *)
(*       plan only for idempotent statements, 3105)                           *)
(*   ResponseFuture.__init__, _start_timer, _cancel_timer      4434-4478      *)
(*   _on_timeout 4480-4533     _on_speculative_execute 4535-4555              *)
(*   _make_query_plan 4557-4567   send_request 4569-4584   _query 4586-4630   *)
(*   start_fetching_next_page 4679-4698                                       *)
(*   _set_result 4707-4857 (one action per branch)                            *)
(*   _set_final_result / _set_final_exception 4928-4969                       *)
(*   _handle_retry_decision, _retry, _retry_task 4971-5017                    *)
(* and cassandra/pool.py HostConnection.borrow_connection/return_connection.  *)
(*                                                                            *)
(* Threads.  Answers (process_msg -> _set_result), connection errors and      *)
(* timer callbacks run on the reactor's loop thread and are atomic w.r.t.     *)
(* each other: one action each.  _retry_task is an executor task submitted    *)
(* by _retry (session.submit): the decision and the task are two actions and  *)
(* anything may happen in between (other answers, the timeout).  The client   *)
(* calls execute_async and start_fetching_next_page are one action each.      *)
(*                                                                            *)
(* The environment chooses: the condition of every host's pool, the answer    *)
(* of a node to every attempt (or silence), the retry policy's decision (a    *)
(* decision oracle), whether/when timers fire, and late answers.              *)
(*                                                                            *)
(* Where the pinned code deviates from the properties (section 7 of DESIGN)   *)
(* this module describes the INTENDED behaviour:                              *)
(*   - completion is once-only (FComplete does nothing when final # unset);   *)
(*   - every page fetch arms a fresh timer (StartNextPage);                   *)
(*   - an explicit target host is a plan that is consumed like any other.     *)
EXTENDS Integers, Sequences, FiniteSets, TLC

CONSTANTS NHosts,        \* hosts 1..NHosts; the load-balancing plan is <<1, .., NHosts>>
          PoolConds,     \* conditions a host's pool may be in besides "healthy"
          MaxBad,        \* at most this many hosts are not healthy initially
          SpecChoices,   \* possible max_attempts of the speculative execution policy (subset of 0..2)
          IdemChoices,   \* subset of BOOLEAN: statement.is_idempotent
          TargetChoices, \* subset of 0..NHosts: explicit target host (0 = none)
          OkKinds,       \* subset of {"rows", "more", "void"}   ("more" = rows with a paging state)
          ErrKinds,      \* answers that consult the retry policy (exception class names, "ConnectionShutdown" = connection error)
          FatalKinds,    \* error answers raised directly (e.g. "SyntaxException")
          Decisions,     \* subset of {"RETRY", "NEXT", "RETHROW", "IGNORE"}
          CLs,           \* what the policy may return as consistency: a level (0 = ANY, 1 = ONE, 4 = QUORUM, ..) or NoCL = None
          MaxRetries,    \* the decision oracle grants at most this many retries
          MaxEpoch,      \* 1, or 2 to include one start_fetching_next_page
          PrepChoices,   \* subset of {"none", "yes", "no"}: a SimpleStatement, or a BoundStatement whose PreparedStatement is /
                         \* is not flagged idempotent (the executed statement's own flag is `idem` in every case)
          IdChoices,     \* subset of {"default", "zero", "one"}: stream ids the idle pool connections hand out (see `ids`)
          TimeChoices,   \* set of codes 100 * timeout + speculative delay (virtual seconds, e.g. 502 = timeout 5, delay 2);
                         \* 0 = untimed: the timeout is far beyond anything that happens and every delay fits
          Timeouts,      \* BOOLEAN: the client timeout may fire
          Late           \* BOOLEAN: answers may arrive after the future completed

Hosts       == 1..NHosts
FullPlan    == [i \in 1..NHosts |-> i]
InitCL      == 10                        \* LOCAL_ONE, the default profile's consistency
NoCL        == 99                        \* the policy returned None as consistency: keep the current one (ANY is 0!)
ResultKinds == {"rows", "empty"}
IsErr(f)    == f \notin (ResultKinds \cup {"unset"})

VARIABLES pool,       \* host -> "healthy" | "missing" | "shutdown" | "busy" | "failing" | "unwritable" | "noconn"
          idem,       \* statement.is_idempotent
          target,     \* explicit host or 0
          ids,        \* id space of every pool connection: "default" (as left by the handshake: ids >= 1, never re-used in
                      \* a run), "zero" (the first attempt on a connection gets stream id 0, never re-used), "one" (a single
                      \* recycled id: every attempt gets stream id 0)
          prep,       \* "none" | "yes" | "no" (see PrepChoices); only the executed statement's flag gates speculation
          tm,         \* <<request timeout, delay of the speculative execution plan>> (see TimeChoices)
          started,
          plan,       \* remaining query plan (the iterator)
          tried,      \* attempted_hosts
          errs,       \* _errors: host -> exception class name or "none"
          att,        \* attempts (indices of sentLog) whose callback is still registered on a connection
          sentLog,    \* every message sent: [host, cl, via, epoch]
          policyLog,  \* every consultation of the retry policy: [kind, rn, dec, cl, host, live]
          retries,    \* _query_retries
          cl,         \* message.consistency_level
          specLeft,   \* speculative executions the plan still grants
          timer,      \* _timer: "none" | "spec" | "timeout" | "stale" (cancelled or fired)
          final,      \* "unset" | "rows" | "empty" | exception class name
          paging,     \* _paging_state is not None
          cb, eb,     \* per epoch: invocations of the registered callback / errback
          dlv,        \* per epoch: the outcome handed to the callback / errback ("none" before)
          queue,      \* executor tasks _retry_task(reuse, host), FIFO
          epoch,      \* 1 = execution, 2 = next page fetch
          lastConn,   \* host of self._connection (last successful borrow) or 0
          reqAtt,     \* attempt designated by self._req_id (last send made by send_request) or 0
          refq,       \* executor tasks refresh_schema_and_set_result(.., connection of host h): sequence of hosts
          rechecks,   \* the _attempts argument carried by a "recheck" timer (PYTHON-853 re-check of _on_timeout)
          now,        \* virtual time since _start_time (only timer firings let time pass; 0 when untimed)
          due,        \* when the live timer fires, on the same scale (0 when there is none / untimed)
          unfit,      \* history: _start_timer was offered a speculative execution whose delay did not fit
          pend,       \* [host, kind]: _handle_retry_decision has submitted the retry task but not yet stored
                      \* self._errors[host] (the loop thread is still inside that callback); host = 0: none
          nhaCls,     \* what NoHostAvailable.errors must list: host -> class (or "none"), fixed when it is raised
          act         \* last action, for replay

vars == <<pool, idem, target, ids, tm, prep, started, refq, rechecks, now, due, unfit, pend, nhaCls, plan, tried, errs, att, sentLog, policyLog, retries, cl, specLeft,
          timer, final, paging, cb, eb, dlv, queue, epoch, lastConn, reqAtt, act>>

A(name, a, k, d, c) == [name |-> name, a |-> a, k |-> k, d |-> d, c |-> c]
SeqSet(s) == {s[i] : i \in 1..Len(s)}

(* ------------------------------------------------------------------------ *)
(* The future's state as a record, updated functionally inside one action.  *)
S == [tm |-> tm, ids |-> ids, pool |-> pool, plan |-> plan, tried |-> tried, errs |-> errs, att |-> att, sentLog |-> sentLog,
      policyLog |-> policyLog, retries |-> retries, cl |-> cl, specLeft |-> specLeft, timer |-> timer,
      final |-> final, paging |-> paging, cb |-> cb, eb |-> eb, dlv |-> dlv, queue |-> queue,
      epoch |-> epoch, lastConn |-> lastConn, reqAtt |-> reqAtt, now |-> now, due |-> due, unfit |-> unfit,
      pend |-> pend, nhaCls |-> nhaCls, rechecks |-> rechecks, refq |-> refq]

Set(s) ==
    /\ pool' = s.pool /\ plan' = s.plan /\ tried' = s.tried /\ errs' = s.errs /\ att' = s.att
    /\ sentLog' = s.sentLog /\ policyLog' = s.policyLog /\ retries' = s.retries /\ cl' = s.cl
    /\ specLeft' = s.specLeft /\ timer' = s.timer /\ final' = s.final /\ paging' = s.paging
    /\ cb' = s.cb /\ eb' = s.eb /\ dlv' = s.dlv /\ queue' = s.queue /\ epoch' = s.epoch
    /\ lastConn' = s.lastConn /\ reqAtt' = s.reqAtt
    /\ refq' = s.refq /\ rechecks' = s.rechecks /\ now' = s.now /\ due' = s.due /\ unfit' = s.unfit /\ pend' = s.pend /\ nhaCls' = s.nhaCls

(* _query's error entry for a host whose pool cannot serve the request (compared by class) *)
ErrClass(c) == CASE c = "missing"  -> "ConnectionException"        \* no pool entry
                 [] c = "shutdown" -> "ConnectionException"        \* pool.is_shutdown
                 [] c = "busy"     -> "NoConnectionsAvailable"     \* borrow_connection timed out
                 [] c = "noconn"   -> "NoConnectionsAvailable"     \* pool lost its connection, replacement pending
                 [] c = "failing"  -> "ConnectionShutdown"         \* send_msg raised on a closed connection
                 [] c = "unwritable" -> "ConnectionBusy"           \* send_msg raised: socket not writable

(* _set_final_result / _set_final_exception: cancel the timer, record the outcome, run callbacks.     *)
(* INTENDED: once-only per epoch.                                                                      *)
FComplete(s, k) ==
    IF s.final # "unset" THEN s
    ELSE [s EXCEPT !.final = k,
                   !.timer = IF @ = "none" THEN "none" ELSE "stale",
                   !.due = 0,
                   \* NoHostAvailable(..., self._errors): the live map, so the entry that the interrupted loop-thread
                   \* callback is about to store (pend) is part of what the application sees
                   !.nhaCls = IF k = "NoHostAvailable"
                              THEN [h \in Hosts |-> IF s.pend.host = h /\ s.errs[h] = "none" THEN s.pend.kind ELSE s.errs[h]]
                              ELSE @,
                   !.cb = [@ EXCEPT ![s.epoch] = @ + (IF k \in ResultKinds THEN 1 ELSE 0)],
                   !.eb = [@ EXCEPT ![s.epoch] = @ + (IF k \in ResultKinds THEN 0 ELSE 1)],
                   !.dlv = [@ EXCEPT ![s.epoch] = k]]

(* _query(host) on a healthy pool: borrow, send_msg, attempted_hosts.append.  _req_id is assigned by  *)
(* send_request only (viaPlan); _retry_task's direct _query(host) leaves it alone.                     *)
FSend(s, h, viaPlan) ==
    LET n == Len(s.sentLog) + 1 IN
    [s EXCEPT !.sentLog = Append(@, [host |-> h, cl |-> s.cl, via |-> IF viaPlan THEN "plan" ELSE "reuse", epoch |-> s.epoch]),
              !.att = @ \cup {n},
              !.tried = Append(@, h),
              !.lastConn = h,
              !.reqAtt = IF viaPlan THEN n ELSE @]

(* _query(host) on an unusable pool: record why.  A closed connection is borrowed (self._connection   *)
(* is set), send_msg raises, return_connection makes the pool drop it (replacement is an executor     *)
(* task that the model never runs).                                                                    *)
FSkip(s, h) ==
    [s EXCEPT !.errs = [@ EXCEPT ![h] = ErrClass(s.pool[h])],
              !.pool = [@ EXCEPT ![h] = IF @ = "failing" THEN "noconn" ELSE @],
              !.lastConn = IF s.pool[h] \in {"failing", "unwritable"} THEN h ELSE @,
              \* borrow_connection(timeout=2.0) on a saturated connection blocks the caller for 2 s (tracked when timed)
              !.now = IF s.pool[h] = "busy" /\ s.tm[1] > 0 THEN @ + 2 ELSE @]

(* send_request: resume the plan iterator until one send succeeds; NoHostAvailable(errors) when it is  *)
(* exhausted and error_no_hosts.                                                                       *)
(* _on_timeout(_attempts = n).  PYTHON-853: while the future holds no connection yet the decision is put off by  *)
(* 10 ms, at most 3 times (the count travels with the timer); then - or at once when there is a connection - the  *)
(* request designated by (_connection, _req_id) is deregistered if it is still there and the future fails with    *)
(* OperationTimedOut.  Stream ids are not modelled: with ids that are never re-used the pair designates the       *)
(* attempt that set _req_id; with the single recycled id 0 the attempt currently registered on _connection.       *)
FOnTimeout(s, n) ==
    IF s.lastConn = 0 /\ n < 3
    THEN [s EXCEPT !.timer = "recheck", !.rechecks = n + 1, !.due = s.now]       \* 10 ms: below the clock's resolution
    ELSE LET dereg == IF s.ids = "one"
                      THEN IF s.reqAtt # 0 THEN {a \in s.att : s.sentLog[a].host = s.lastConn} ELSE {}
                      ELSE IF s.reqAtt \in s.att /\ s.sentLog[s.reqAtt].host = s.lastConn THEN {s.reqAtt} ELSE {} IN
         FComplete([s EXCEPT !.att = @ \ dereg], "OperationTimedOut")

RECURSIVE FLoop(_, _)
FLoop(s, errorNoHosts) ==
    IF s.plan = <<>>
    THEN IF errorNoHosts THEN FComplete(s, "NoHostAvailable") ELSE s
    ELSE LET h  == Head(s.plan)
             s1 == [s EXCEPT !.plan = Tail(@)] IN
         IF s.pool[h] = "healthy" THEN FSend(s1, h, TRUE)
         ELSE LET s2 == FSkip(s1, h) IN
              \* "if self.timeout is not None and time.time() - self._start_time > self.timeout: self._on_timeout()"
              IF s2.tm[1] > 0 /\ s2.now > s2.tm[1] THEN FOnTimeout(s2, 0) ELSE FLoop(s2, errorNoHosts)

(* _start_timer when _timer is None: next_execution() is consumed even when its delay does not fit into   *)
(* the time that remains; then (and when the plan is exhausted) the request timeout is armed.             *)
Timed   == tm[1] > 0
NoPend  == [host |-> 0, kind |-> "-"]
Fits(s) == ~Timed \/ (tm[1] - s.now > tm[2])                  \* self._time_remaining > spec_delay
FArm(s) == IF s.specLeft > 0 /\ Fits(s)
           THEN [s EXCEPT !.timer = "spec", !.specLeft = @ - 1, !.due = IF Timed THEN s.now + tm[2] ELSE 0]
           ELSE [s EXCEPT !.timer = "timeout", !.specLeft = IF @ > 0 THEN @ - 1 ELSE 0,
                          !.due = IF Timed THEN tm[1] ELSE 0,
                          !.unfit = (@ \/ s.specLeft > 0)]
Max(a, b) == IF a > b THEN a ELSE b

(* ------------------------------------------------------------------------ *)
InitWith(pl, id, tg, sp, im, t, pr) ==
    /\ pool = pl /\ idem = id /\ target = tg /\ specLeft = sp /\ ids = im /\ tm = t /\ prep = pr
    /\ refq = <<>> /\ rechecks = 0 /\ now = 0 /\ due = 0 /\ unfit = FALSE /\ pend = NoPend /\ nhaCls = [h \in Hosts |-> "none"]
    /\ started = FALSE
    /\ plan = <<>> /\ tried = <<>> /\ errs = [h \in Hosts |-> "none"] /\ att = {}
    /\ sentLog = <<>> /\ policyLog = <<>> /\ retries = 0 /\ cl = InitCL
    /\ timer = "none" /\ final = "unset" /\ paging = FALSE
    /\ cb = [e \in 1..MaxEpoch |-> 0] /\ eb = [e \in 1..MaxEpoch |-> 0] /\ dlv = [e \in 1..MaxEpoch |-> "none"]
    /\ queue = <<>> /\ epoch = 1 /\ lastConn = 0 /\ reqAtt = 0
    /\ act = A("Init", 0, "-", "-", 0)

PoolVectors == {f \in [Hosts -> PoolConds \cup {"healthy"}] : Cardinality({h \in Hosts : f[h] # "healthy"}) <= MaxBad}

Init == \E pl \in PoolVectors, id \in IdemChoices, tg \in TargetChoices, sp \in SpecChoices, im \in IdChoices,
           t \in TimeChoices, pr \in PrepChoices : InitWith(pl, id, tg, sp, im, <<t \div 100, t % 100>>, pr)

(* Session.execute_async: _create_response_future (plan, timer; a speculative plan only for           *)
(* idempotent statements), callbacks registered by a request-init listener, send_request().           *)
Start ==
    /\ ~started /\ pend.host = 0
    /\ started' = TRUE
    /\ LET s0 == [S EXCEPT !.plan = IF target # 0 THEN <<target>> ELSE FullPlan,
                           !.specLeft = IF idem THEN @ ELSE 0] IN
       Set(FLoop(FArm(s0), TRUE))
    /\ act' = A("Start", 0, "-", "-", 0)
    /\ UNCHANGED <<idem, target, ids, tm, prep>>

(* _set_result, ResultMessage: rows (paging state or not) / void *)
AnsOk(a, k) ==
    /\ a \in att /\ pend.host = 0
    /\ final # "unset" => Late
    /\ LET s1 == [S EXCEPT !.att = @ \ {a},
                           !.paging = IF k = "void" THEN @ ELSE (k = "more")] IN
       Set(FComplete(s1, IF k = "void" THEN "empty" ELSE "rows"))
    /\ act' = A("AnsOk", a, k, "-", 0)
    /\ UNCHANGED <<idem, target, ids, tm, prep, started>>

(* _set_result, RESULT kind SCHEMA_CHANGE: the outcome is published by an executor task after the schema        *)
(* agreement wait / refresh on the answering connection                                                         *)
AnsSchema(a) ==
    /\ a \in att /\ pend.host = 0
    /\ final # "unset" => Late
    /\ Set([S EXCEPT !.att = @ \ {a}, !.refq = Append(@, sentLog[a].host)])
    /\ act' = A("AnsSchema", a, "schema", "-", 0)
    /\ UNCHANGED <<idem, target, ids, tm, prep, started>>

(* refresh_schema_and_set_result (executor): whether the wait / refresh succeeds or raises (ok = FALSE: the      *)
(* connection was closed meanwhile, wait_for_responses raises ConnectionShutdown), finally: _set_final_result(None) *)
RefreshTask(ok) ==
    /\ refq # <<>> /\ pend.host = 0
    /\ LET h  == Head(refq)
           s1 == [S EXCEPT !.refq = Tail(@),
                           !.pool = [@ EXCEPT ![h] = IF ok \/ @ # "healthy" THEN @ ELSE "failing"]] IN
       Set(FComplete(s1, "empty"))
    /\ act' = A("RefreshTask", 0, IF ok THEN "ok" ELSE "raises", "-", 0)
    /\ UNCHANGED <<idem, target, ids, tm, prep, started>>

(* what the oracle may answer now *)
DecSet == IF retries >= MaxRetries
          THEN {<<d, NoCL>> : d \in Decisions \cap {"RETHROW", "IGNORE"}}
          ELSE {<<d, c>> : d \in Decisions \cap {"RETRY", "NEXT"}, c \in CLs}
               \cup {<<d, NoCL>> : d \in Decisions \cap {"RETHROW", "IGNORE"}}

(* _set_result, read/write timeout, unavailable, overloaded/bootstrapping/server error, or a          *)
(* ConnectionShutdown delivered by the connection: consult the policy once, _handle_retry_decision.   *)
AnsErr(a, k, d, c) ==
    /\ a \in att /\ pend.host = 0
    /\ final # "unset" => Late
    /\ LET h  == sentLog[a].host
           s1 == [S EXCEPT !.att = @ \ {a},
                           !.pool = [@ EXCEPT ![h] = IF k = "ConnectionShutdown" THEN "noconn" ELSE @],
                           !.policyLog = Append(@, [kind |-> k, rn |-> retries, dec |-> d, cl |-> c, host |-> h,
                                                    live |-> (final = "unset")])]
           s2 == CASE d \in {"RETRY", "NEXT"} ->
                        LET s3 == [s1 EXCEPT !.retries = @ + 1] IN
                        IF IsErr(final) THEN s3         \* _retry: "if self._final_exception: return"
                        ELSE [s3 EXCEPT !.cl = IF c # NoCL THEN c ELSE @,      \* `is not None`: ANY (0) is a level
                                        !.queue = Append(@, [reuse |-> (d = "RETRY"), host |-> h]),
                                        !.pend = [host |-> h, kind |-> k]]   \* submitted; _errors[host] comes later
                   [] d = "RETHROW" -> FComplete(s1, k)
                   [] d = "IGNORE"  -> FComplete(s1, "empty") IN
       Set(IF s2.pend.host # 0 THEN s2 ELSE [s2 EXCEPT !.errs = [@ EXCEPT ![h] = k]])
    /\ act' = A("AnsErr", a, k, d, c)
    /\ UNCHANGED <<idem, target, ids, tm, prep, started>>

(* the rest of _handle_retry_decision after session.submit(self._retry_task, ..): self._errors[host] = ...  *)
(* Executor tasks (RetryTask) may run in between; other loop-thread callbacks may not.                      *)
StoreErr ==
    /\ pend.host # 0
    /\ Set([S EXCEPT !.errs = [@ EXCEPT ![pend.host] = pend.kind], !.pend = NoPend])
    /\ act' = A("StoreErr", 0, "-", "-", 0)
    /\ UNCHANGED <<idem, target, ids, tm, prep, started>>

(* _set_result, any other ErrorMessage: raised directly *)
AnsFatal(a, k) ==
    /\ a \in att /\ pend.host = 0
    /\ final # "unset" => Late
    /\ Set(FComplete([S EXCEPT !.att = @ \ {a}], k))
    /\ act' = A("AnsFatal", a, k, "-", 0)
    /\ UNCHANGED <<idem, target, ids, tm, prep, started>>

(* _on_speculative_execute (timer callback) *)
SpecFire ==
    /\ timer = "spec" /\ pend.host = 0
    /\ Set(FArm(FLoop([S EXCEPT !.timer = "none", !.now = Max(now, due), !.due = 0], FALSE)))
    /\ act' = A("SpecFire", 0, "-", "-", 0)
    /\ UNCHANGED <<idem, target, ids, tm, prep, started>>

(* the request timeout fires: _on_timeout() *)
TimeoutFire ==
    /\ Timeouts
    /\ timer = "timeout" /\ pend.host = 0
    /\ Set(FOnTimeout([S EXCEPT !.now = Max(now, due)], 0))
    /\ act' = A("TimeoutFire", 0, "-", "-", 0)
    /\ UNCHANGED <<idem, target, ids, tm, prep, started>>

(* the 10 ms re-check timer fires: partial(self._on_timeout, _attempts = rechecks) *)
RecheckFire ==
    /\ timer = "recheck" /\ pend.host = 0
    /\ Set(FOnTimeout(S, rechecks))
    /\ act' = A("RecheckFire", 0, "-", "-", 0)
    /\ UNCHANGED <<idem, target, ids, tm, prep, started>>

(* _retry_task (executor) *)
RetryTask ==
    /\ queue # <<>>
    \* scope of the "one" abstraction (every attempt carries stream id 0): a task that runs inside the interrupted
    \* callback borrows before process_msg has recycled that id, so it is explored with the other id spaces only
    /\ (pend.host # 0 => ids # "one")
    /\ LET t  == Head(queue)
           s1 == [S EXCEPT !.queue = Tail(@)] IN
       IF IsErr(final) THEN Set(s1)
       ELSE IF t.reuse /\ pool[t.host] = "healthy" THEN Set(FSend(s1, t.host, FALSE))
       ELSE Set(FLoop(IF t.reuse THEN FSkip(s1, t.host) ELSE s1, TRUE))
    /\ act' = A("RetryTask", 0, "-", "-", 0)
    /\ UNCHANGED <<idem, target, ids, tm, prep, started>>

(* start_fetching_next_page (client thread, after the page was delivered).  Scope: no attempt of the  *)
(* previous page outstanding and no retry task queued.  INTENDED: a fresh timer for the page fetch.    *)
StartNextPage ==
    /\ started /\ final = "rows" /\ paging /\ epoch < MaxEpoch
    /\ att = {} /\ queue = <<>> /\ refq = <<>> /\ pend.host = 0
    /\ LET s0 == [S EXCEPT !.plan = IF target # 0 THEN <<target>> ELSE FullPlan,
                           !.final = "unset",
                           !.epoch = @ + 1,
                           !.now = 0,                       \* _start_time = time.time()
                           !.timer = "none"] IN
       Set(FLoop(FArm(s0), TRUE))
    /\ act' = A("StartNextPage", 0, "-", "-", 0)
    /\ UNCHANGED <<idem, target, ids, tm, prep, started>>

Next ==
    \/ Start
    \/ \E a \in att :
          \/ \E k \in OkKinds \ {"schema"} : AnsOk(a, k)
          \/ \E k \in ErrKinds : \E dc \in DecSet : AnsErr(a, k, dc[1], dc[2])
          \/ \E k \in FatalKinds : AnsFatal(a, k)
          \/ ("schema" \in OkKinds /\ AnsSchema(a))
    \/ StoreErr
    \/ \E ok \in BOOLEAN : RefreshTask(ok)
    \/ SpecFire
    \/ TimeoutFire
    \/ RecheckFire
    \/ RetryTask
    \/ StartNextPage

Spec == Init /\ [][Next]_vars
FairSpec == Spec /\ WF_vars(Start) /\ WF_vars(StoreErr) /\ WF_vars(SpecFire) /\ WF_vars(TimeoutFire) /\ WF_vars(RecheckFire)

-----------------------------------------------------------------------------
TypeOK ==
    /\ att \subseteq 1..Len(sentLog)
    /\ timer \in {"none", "spec", "timeout", "recheck", "stale"}
    /\ rechecks \in 0..3
    /\ retries \in 0..(MaxRetries + NHosts + 3)
    /\ epoch \in 1..MaxEpoch
    /\ lastConn \in 0..NHosts /\ reqAtt \in 0..Len(sentLog)
    /\ \A a, b \in att : a # b => sentLog[a].host # sentLog[b].host      \* at most one registered attempt per host

(* ---- C14: exactly one outcome per execution / page fetch ---- *)
Inv_Once ==
    \A e \in 1..MaxEpoch :
        /\ cb[e] + eb[e] <= 1
        /\ cb[e] = 1 => dlv[e] \in ResultKinds
        /\ eb[e] = 1 => IsErr(dlv[e])
        /\ cb[e] + eb[e] = 0 <=> dlv[e] = "none"
(* result() (= final) reports the outcome that was delivered, and delivery happened iff final is set *)
Inv_Same ==
    /\ final # "unset" <=> (started /\ cb[epoch] + eb[epoch] = 1)
    /\ final # "unset" => dlv[epoch] = final
(* every attempt answered/failed and nothing queued, or the timeout fired => delivered *)
Inv_Delivered ==
    /\ (started /\ att = {} /\ queue = <<>> /\ refq = <<>>) => (final # "unset" \/ timer = "recheck")
    /\ act.name = "TimeoutFire" => (final # "unset" \/ timer = "recheck")    \* put off by at most 3 x 10 ms (PYTHON-853)

(* ---- C15: while incomplete there is a live timer ---- *)
Inv_Armed == (started /\ final = "unset") => timer \in {"spec", "timeout", "recheck"}
(* a future without any connection is only ever waiting for one of its (at most 3) re-checks *)
Inv_TimeoutHasConn == (started /\ final = "unset" /\ lastConn = 0) => (timer = "recheck" /\ rechecks \in 1..3)
Completes == [](started /\ final = "unset" => <>(final # "unset"))

(* ---- C16: retries do what the policy decided ---- *)
IsRetry(d) == d \in {"RETRY", "NEXT"}
Inv_RetryNum ==
    /\ \A i \in 1..Len(policyLog) :
          policyLog[i].rn = Cardinality({j \in 1..(i - 1) : IsRetry(policyLog[j].dec)})
    /\ retries = Cardinality({j \in 1..Len(policyLog) : IsRetry(policyLog[j].dec)})
Inv_NoSpecUnlessIdempotent == ~idem => (timer # "spec" /\ Cardinality({i \in 1..Len(sentLog) : sentLog[i].via = "plan"}) <= epoch + retries)
(* a consultation while the future is incomplete is carried out as decided *)
Step_Decision ==
    [][(act'.name = "AnsErr" /\ final = "unset") =>
         LET h == sentLog[act'.a].host IN
         /\ Len(policyLog') = Len(policyLog) + 1
         /\ policyLog'[Len(policyLog')].rn = retries
         /\ sentLog' = sentLog
         /\ act'.d = "RETHROW" => (final' = act'.k /\ queue' = queue)
         /\ act'.d = "IGNORE"  => (final' = "empty" /\ queue' = queue)
         /\ IsRetry(act'.d) => /\ final' = "unset" /\ retries' = retries + 1
                               /\ queue' = Append(queue, [reuse |-> (act'.d = "RETRY"), host |-> h])
                               /\ cl' = IF act'.c # NoCL THEN act'.c ELSE cl]_vars
(* the queued task sends to the same host / the next host of the plan with the chosen consistency *)
Step_Task ==
    [][(act'.name = "RetryTask" /\ ~IsErr(final)) =>
         LET t == Head(queue) IN
         /\ (t.reuse /\ pool[t.host] = "healthy") =>
                sentLog' = Append(sentLog, [host |-> t.host, cl |-> cl, via |-> "reuse", epoch |-> epoch])
         /\ ~(t.reuse /\ pool[t.host] = "healthy") =>
                \/ /\ Len(sentLog') = Len(sentLog) + 1
                   /\ sentLog'[Len(sentLog')].host \in SeqSet(plan)
                   /\ sentLog'[Len(sentLog')].cl = cl
                   /\ \A i \in 1..Len(plan) : plan[i] = sentLog'[Len(sentLog')].host =>
                          \A j \in 1..(i - 1) : pool[plan[j]] # "healthy"            \* the first usable one
                \/ /\ sentLog' = sentLog /\ plan' = <<>>
                   /\ \A i \in 1..Len(plan) : pool[plan[i]] # "healthy"]_vars
Step_NothingAfterError ==
    [][(final # "unset" /\ IsErr(final) /\ final' = final) => sentLog' = sentLog]_vars

(* ---- C17: plan order, skipped hosts, exhaustion ---- *)
PlanSends(e) == {i \in 1..Len(sentLog) : sentLog[i].via = "plan" /\ sentLog[i].epoch = e}
Inv_PlanOrder ==
    /\ \A e \in 1..MaxEpoch : \A i, j \in PlanSends(e) : i < j => sentLog[i].host < sentLog[j].host
    /\ \A h \in Hosts :
          Cardinality({i \in 1..Len(sentLog) : sentLog[i].via = "reuse" /\ sentLog[i].host = h})
            <= Cardinality({j \in 1..Len(policyLog) : policyLog[j].dec = "RETRY" /\ policyLog[j].host = h})
    /\ tried = [i \in 1..Len(sentLog) |-> sentLog[i].host]
Consumed == IF ~started THEN {}
            ELSE (IF target # 0 THEN {target} ELSE Hosts) \ SeqSet(plan)
Inv_Skipped ==
    \A h \in Consumed :
        \/ \E i \in PlanSends(epoch) : sentLog[i].host = h
        \/ pend.host = h
        \/ errs[h] \in {"ConnectionException", "NoConnectionsAvailable", "ConnectionShutdown", "ConnectionBusy"} \cup ErrKinds
Inv_Exhausted == final = "NoHostAvailable" => plan = <<>>
(* at the moment NoHostAvailable is raised its errors map (= errs) has an entry for every host that was    *)
(* skipped or whose attempt failed; a host whose attempt is still in flight cannot have one                *)
Step_Exhausted ==
    [][(final = "unset" /\ final' = "NoHostAvailable") =>
         /\ plan' = <<>>
         /\ \A h \in Consumed' : nhaCls'[h] # "none" \/ \E a \in att' : sentLog'[a].host = h]_vars
(* what was promised when NoHostAvailable was raised is in the live error map once the loop thread is through *)
Inv_NHAListed == (final = "NoHostAvailable" /\ pend.host = 0) => \A h \in Hosts : nhaCls[h] # "none" => errs[h] # "none"
Inv_Target == target # 0 => \A i \in 1..Len(sentLog) : sentLog[i].host = target

-----------------------------------------------------------------------------
(* vacuity witnesses: each must be VIOLATED (= the situation is reachable) *)
Witness_LateAnswer      == \A i \in 1..Len(policyLog) : policyLog[i].live
Witness_TwoInFlight     == Cardinality(att) < 2
Witness_TimeoutKeepsAtt == ~(final = "OperationTimedOut" /\ att # {})
Witness_RetryAfterTimeout == ~(act.name = "RetryTask" /\ final = "OperationTimedOut")
Witness_Page2Unset      == ~(epoch = 2 /\ final = "unset")
Witness_Page2Timeout    == ~(epoch = 2 /\ final = "OperationTimedOut")
Witness_SameHostTwice   == \A i, j \in 1..Len(tried) : i # j => tried[i] # tried[j]
Witness_RetryCL         == cl = InitCL
Witness_RetryAtANY      == ~(cl = 0 /\ sentLog # <<>> /\ sentLog[Len(sentLog)].cl = 0)
Witness_NoHost          == final # "NoHostAvailable"
Witness_NoHostAfterSend == ~(final = "NoHostAvailable" /\ sentLog # <<>>)
Witness_BoundNotIdem    == ~(started /\ prep = "yes" /\ ~idem)
Witness_Recheck3        == ~(act.name = "RecheckFire" /\ final = "OperationTimedOut" /\ lastConn = 0)
Witness_RefreshRaises   == ~(act.name = "RefreshTask" /\ act.k = "raises" /\ cb[epoch] = 1)
Witness_Unfit           == ~unfit
Witness_TaskBeforeStore == ~(act.name = "RetryTask" /\ pend.host # 0 /\ final = "NoHostAvailable")
Witness_SkipAll         == ~(started /\ Cardinality({h \in Hosts : errs[h] # "none"}) = NHosts)
=============================================================================
