------------------------------- MODULE Driver -------------------------------
(* The driver as a whole, at the level of observable events: one Session of   *)
(* one Cluster over the contact point (host 1, carrying the control           *)
(* connection, never failing) and the subject hosts, with requests, pool      *)
(* connections and their stream ids, connection failures, host state          *)
(* handling, status events, a keyspace switch and shutdown.                   *)
(*                                                                            *)
(* Composition.  The host-state side IS spec/Hosts.tla (INSTANCE H below, one  *)
(* session, nothing ignored, no topology events): executor tasks and          *)
(* scheduler entries as bags of task records, on_down / on_up / pool creation  *)
(* / pool shutdown / reconnector runs one action per task, Cluster.shutdown in *)
(* three stretches.  This module adds what the module specs treat one at a     *)
(* time and ties it to the host side:                                          *)
(*   connections (Connection.tla: stream ids, registered handlers, orphaned    *)
(*       ids, what the node still owes; Pool.tla: one connection per pool,     *)
(*       at most MaxId requests in flight),                                    *)
(*   requests (Request.tla: query plan, attempts, answers, retry on the next   *)
(*       host through an executor task, client timeout, one outcome),          *)
(*   the session keyspace (SessionKeyspace.tla: USE fans out to every pool).   *)
(* The joints:                                                                 *)
(*   - a pool connection that closes (socket error; pool.shutdown() by a       *)
(*     PoolShut task, by the pool that replaces it, by Session.shutdown)       *)
(*     fails every request registered on it: HostConnection.return_connection  *)
(*     signals the failure (Cluster.on_down submitted, once per connection)    *)
(*     and the retry policy sends the request on (ResponseFuture._retry_task   *)
(*     submitted - not any more once the session is shut down);                *)
(*   - an attempt needs the host's pool to be installed and open (Hosts.tla's  *)
(*     pools) and a free stream id on its connection;                          *)
(*   - a new pool's connection starts in the session keyspace.                 *)
(*                                                                            *)
(* Code anchors (cassandra/): cluster.py Session.execute_async,               *)
(* ResponseFuture.send_request/_query/_set_result/_retry/_retry_task/         *)
(* _on_timeout/_set_final_result/_set_final_exception,                        *)
(* Session._set_keyspace_for_all_pools, run_add_or_renew_pool, Session.submit; *)
(* pool.py HostConnection.borrow_connection/return_connection/shutdown/        *)
(* _set_keyspace_for_all_conns; connection.py Connection.get_request_id/       *)
(* send_msg/process_msg/defunct/close/error_all_requests/set_keyspace_async;   *)
(* policies.py RetryPolicy.on_request_error (RETRY_NEXT_HOST).                *)
(*                                                                            *)
(* Grain: one action per operation of the environment or of a driver thread   *)
(* (a node's answer with everything the loop thread does with it, one         *)
(* executor task, one scheduler hand-over, one timer callback, one client      *)
(* call).  Stream ids: the action says "an id not in use on that connection"; *)
(* which one is the implementation's choice (Connection.tla decides C09's     *)
(* recycling order).                                                          *)
EXTENDS Integers, Sequences, FiniteSets, TLC

CONSTANTS Hosts,       \* subject hosts: integers > 1
          MaxEvents,   \* environment events a behaviour may contain (kill, status event, mode change)
          NReqs,       \* requests 1..NReqs, started in this order
          MaxId,       \* stream ids 0..MaxId; at most MaxId requests in flight per connection
          Keyspaces,   \* keyspaces a USE may name (strings)
          SpecMax,     \* max_attempts of the ConstantSpeculativeExecutionPolicy (idempotent statements only)
          Rots         \* rotations of the query plan (subset of 0..2)

VARIABLES cs, mode, peers, budget, phase, hreq, hact,      \* the variables of Hosts.tla
          conns,   \* pool connections in the order their pools were created: sequence of records
                   \*   h      host
                   \*   open   not closed / defunct
                   \*   inst   its pool is the one in session._pools[h] (FALSE: popped, or replaced)
                   \*   ks     Connection.keyspace ("" = none)
                   \*   sig    Connection.signaled_error
                   \*   reg    {<<sid, r, f>>}: handler of request r registered under stream id sid (Connection._requests);
                   \*          f = "X": the request itself (QUERY / EXECUTE, handler _set_result), f = "P": the PREPARE of
                   \*          its re-preparation (handler: submit _execute_after_prepare)
                   \*   orph   orphaned_request_ids: ids of timed-out requests, reserved until the late answer
                   \*   owed   {<<sid, r, f>>}: the node still holds that frame, received on stream sid
                   \*   hold   PREPAREs answered whose _execute_after_prepare task has not yet returned the connection
                   \*   tko    ids of requests that timed out when their pool was gone: handler removed, id not orphaned
                   \*   leak   in-flight slots never given back (the late answers to tko ids recycle the id only)
          rq,      \* per request: st new|open|done, out (outcome: "none", "ok", or the exception class), n (callback +
                   \*   errback invocations), att (attempts <<h, c, sid, connection keyspace, session keyspace>>),
                   \*   plan (hosts of the query plan not yet taken), p0 (ghost: the whole plan),
                   \*   timer ("off" | "spec": next speculative execution | "to": client timeout), sl (speculative
                   \*   executions the plan still grants), errs (hosts in ResponseFuture._errors),
                   \*   use ("" or the keyspace of USE), prep (a bound prepared statement), lc / lid (the connection the
                   \*   future borrowed last / the stream id send_request got last: ResponseFuture._connection, _req_id)
          sks,     \* Session.keyspace ("" = none)
          act      \* last action
hvars == <<cs, mode, peers, budget, phase, hreq, hact>>
vars  == <<hvars, conns, rq, sks, act>>

Ctl == 1
AllHosts == Hosts \cup {Ctl}
Reqs == 1..NReqs
Ids == 0..MaxId

\* the code as built: every deviation of Hosts.tla repaired in /repo except D2 (known finding, needs two sessions)
H == INSTANCE Hosts WITH Known0 <- Hosts, Sessions <- {1}, Ignored <- {}, Env <- {"fail", "status", "mode"},
                         Fixed <- {"D1_late_pool", "D3_ctl_after_shutdown", "D4_recon_removed", "D5_up_loop"},
                         FineUp <- FALSE, req <- hreq, act <- hact

TRetry(r) == H!T("Retry", 0, 0, "", FALSE, FALSE, r)        \* ResponseFuture._retry_task in the executor
TRep(r, h) == H!T("Reprepare", 0, h, "", FALSE, FALSE, r)   \* ResponseFuture._reprepare(prepare_message, host, ..)
TAfter(r, c, h, resp) == H!T("AfterPrep", c, h, resp, FALSE, FALSE, r)   \* ResponseFuture._execute_after_prepare(host, connection c,
                                                                         \* pool, response); resp: same | diff | error | connerr
HostKinds == {"OnDown", "AddPool", "PoolShut", "Recon", "ReconConn", "OnUp", "OnUpCont", "RemoveHost", "RefreshIf",
              "CtlReconnect", "CtlSet"}

A(name, r, c, sid, x, sent) == [name |-> name, r |-> r, c |-> c, sid |-> sid, x |-> x, sent |-> sent]

-----------------------------------------------------------------------------
(* The world the code paths transform: host state (Hosts.tla's cs), connections, requests, session keyspace. *)
W0 == [hs |-> H!Cur, cn |-> conns, rq |-> rq, sks |-> sks]
Commit(w) == cs' = w.hs /\ conns' = w.cn /\ rq' = w.rq /\ sks' = w.sks

NewConn(h, ks) == [h |-> h, open |-> TRUE, inst |-> TRUE, ks |-> ks, sig |-> FALSE, reg |-> {}, orph |-> {}, owed |-> {},
                   tko |-> {}, leak |-> 0, hold |-> 0]
NewReq == [st |-> "new", out |-> "none", n |-> 0, att |-> <<>>, plan |-> <<>>, p0 |-> <<>>, timer |-> "off", sl |-> 0,
           errs |-> {}, use |-> "", prep |-> FALSE, lc |-> 0, lid |-> -1]
Failed(q) == q.out \notin {"none", "ok"}                     \* ResponseFuture._final_exception is set

InstOf(cn, h) == {c \in 1..Len(cn) : cn[c].inst /\ cn[c].h = h}
InUse(k) == {x[1] : x \in k.reg} \cup k.orph \cup k.tko              \* ids not in Connection.request_ids
Infl(k) == Cardinality(k.reg) + Cardinality(k.orph) + Cardinality(k.tko) + k.leak + k.hold   \* Connection.in_flight

(* ResponseFuture._query can use the host: its pool is installed and open, a stream is free (borrow_connection) *)
Usable(w, h) == /\ w.hs.pools[1][h] = "open"
                /\ InstOf(w.cn, h) # {}
                /\ LET k == w.cn[CHOOSE c \in InstOf(w.cn, h) : TRUE] IN k.open /\ Infl(k) < MaxId
RECURSIVE FirstUsable(_, _)
FirstUsable(w, p) == IF p = <<>> THEN 0
                     ELSE IF Usable(w, Head(p)) THEN 1
                     ELSE LET i == FirstUsable(w, Tail(p)) IN IF i = 0 THEN 0 ELSE i + 1

(* _set_final_result / _set_final_exception: once only; the timer is cancelled; callbacks / errbacks run *)
Complete(w, r, out) ==
    IF w.rq[r].st = "done" THEN w
    ELSE [w EXCEPT !.rq[r].st = "done", !.rq[r].out = out, !.rq[r].n = @ + 1, !.rq[r].timer = "off"]

(* ResponseFuture.send_request over the rest of the plan; sid is the stream id the connection hands out *)
SidOK(w, p, sid) == LET i == FirstUsable(w, p) IN
                    IF i = 0 THEN sid = 0
                    ELSE sid \notin InUse(w.cn[CHOOSE c \in InstOf(w.cn, p[i]) : TRUE])
\* loud: send_request() - NoHostAvailable when no host can be used; quiet: send_request(error_no_hosts=False)
Send(w, r, p, sid, loud) ==
    LET i == FirstUsable(w, p) IN
    IF i = 0 THEN LET w1 == [w EXCEPT !.rq[r].plan = <<>>, !.rq[r].errs = @ \cup {p[j] : j \in 1..Len(p)}] IN
                  IF loud THEN Complete(w1, r, "NoHostAvailable") ELSE w1
    ELSE LET h == p[i]
             c == CHOOSE x \in InstOf(w.cn, h) : TRUE
         IN [w EXCEPT !.rq[r].st = IF @ = "done" THEN @ ELSE "open",
                      !.rq[r].errs = @ \cup {p[j] : j \in 1..(i - 1)},              \* every skipped host leaves its error
                      !.rq[r].plan = SubSeq(p, i + 1, Len(p)),
                      !.rq[r].att = Append(@, <<h, c, sid, w.cn[c].ks, w.sks>>),
                      !.rq[r].lc = c, !.rq[r].lid = sid,
                      !.cn[c].reg = @ \cup {<<sid, r, "X">>},
                      !.cn[c].owed = @ \cup {<<sid, r, "X">>}]
SentBy(w, p) == LET i == FirstUsable(w, p) IN
                IF i = 0 THEN <<>> ELSE <<p[i], CHOOSE x \in InstOf(w.cn, p[i]) : TRUE>>

(* RetryPolicy.on_request_error -> RETRY_NEXT_HOST -> ResponseFuture._retry -> session.submit(_retry_task) *)
\* (_retry gives up only when the future has failed; a request a speculative execution already answered is retried all the same)
SubmitRetry(w, r, h, sessShut) ==
    LET w1 == [w EXCEPT !.rq[r].errs = @ \cup {h}] IN           \* _handle_retry_decision: self._errors[host] = the error
    IF sessShut \/ Failed(w.rq[r]) THEN w1 ELSE [w1 EXCEPT !.hs = H!Submit(@, TRetry(r))]

(* A pool connection closes (defunct, or closed by pool.shutdown()): error_all_requests hands every registered    *)
(* request a ConnectionShutdown; _set_result returns the connection to its pool, which signals the failure once   *)
(* (conviction policy: host down -> Cluster.on_down submitted) and the retry policy sends the request on.         *)
(* A PREPARE registered there only has its _execute_after_prepare task submitted with the error (the connection is  *)
(* handed back by that task).                                                                                      *)
CloseConn(w, c, sessShut) ==
    LET k  == w.cn[c]
        rs == {x[2] : x \in {y \in k.reg : y[3] = "X"}}
        ps == {x[2] : x \in {y \in k.reg : y[3] = "P"}}
        w1 == [w EXCEPT !.cn[c] = [k EXCEPT !.open = FALSE, !.reg = {}, !.orph = {}, !.owed = {}, !.tko = {}, !.leak = 0,
                                             !.hold = 0, !.sig = (k.sig \/ rs # {})]]
        w2 == IF rs # {} /\ ~k.sig THEN [w1 EXCEPT !.hs = H!SubmitOnDown(@, k.h, FALSE, FALSE)] ELSE w1
        w3 == H!Fold(LAMBDA x, r : SubmitRetry(x, r, k.h, sessShut), w2, rs)
    IN H!Fold(LAMBDA x, r : IF sessShut THEN x ELSE [x EXCEPT !.hs = H!Submit(@, TAfter(r, c, k.h, "connerr"))], w3, ps)

SortedSeq(S) == LET it[X \in SUBSET S] == IF X = {} THEN <<>> ELSE <<H!Min(X)>> \o it[X \ {H!Min(X)}] IN it[S]
Rotate(s, k) == IF s = <<>> THEN s ELSE LET n == k % Len(s) IN SubSeq(s, n + 1, Len(s)) \o SubSeq(s, 1, n)

-----------------------------------------------------------------------------
Init ==
    /\ H!Init
    /\ conns = <<NewConn(Ctl, "")>>             \* the contact point's pool exists when connect() returns
    /\ rq = [r \in Reqs |-> NewReq]
    /\ sks = ""
    /\ act = A("Init", 0, 0, 0, "", <<>>)

(* session.execute_async(query, timeout=..); the plan is the live hosts in address order, rotated *)
\* ResponseFuture._start_timer: the next speculative execution if the plan grants one, else the client timeout
StartTimer(w, r) == IF w.rq[r].sl > 0 THEN [w EXCEPT !.rq[r].timer = "spec", !.rq[r].sl = @ - 1]
                    ELSE [w EXCEPT !.rq[r].timer = "to"]

StartReq(r, rot, use, idem, prep, sid) ==
    /\ rq[r].st = "new" /\ \A q \in 1..(r - 1) : rq[q].st # "new"
    /\ phase = 0 \/ H!Returned
    /\ use # "" => (phase = 0 /\ \A q \in Reqs : ~(rq[q].use # "" /\ rq[q].st = "open"))      \* one keyspace switch at a time
    /\ use # "" => ~idem
    /\ prep => (use = "" /\ ~idem)
    /\ LET p  == Rotate(SortedSeq(cs.lbpLive), rot)
           w1 == StartTimer([W0 EXCEPT !.rq[r].p0 = p, !.rq[r].use = use, !.rq[r].prep = prep, !.rq[r].sl = IF idem THEN SpecMax ELSE 0], r)
       IN /\ SidOK(w1, p, sid)
          /\ Commit(Send(w1, r, p, sid, TRUE))
          /\ act' = A("StartReq", r, 0, sid, use, SentBy(w1, p))
    /\ UNCHANGED <<mode, peers, budget, phase, hreq, hact>>

(* the keyspace switch of a USE that the node acknowledged: Session._set_keyspace_for_all_pools; every installed open *)
(* pool connection sends USE itself and is in the keyspace when the round is over                                  *)
SwitchKeyspace(w, ks) ==
    [w EXCEPT !.sks = ks,
              !.cn = [c \in 1..Len(@) |-> IF @[c].inst /\ @[c].open THEN [@[c] EXCEPT !.ks = ks] ELSE @[c]]]

(* the node answers the frame it holds on connection c, stream sid (loop thread: process_msg and the handler) *)
Answer(c, sid, r, f, kind) ==
    /\ c \in 1..Len(conns) /\ conns[c].open /\ <<sid, r, f>> \in conns[c].owed
    /\ f = "X" => kind \in {"rows", "invalid", "overloaded", "setks", "unprepared"}
    /\ f = "P" => kind \in {"same", "diff", "error"}
    /\ kind = "setks" <=> (f = "X" /\ rq[r].use # "")
    /\ kind = "unprepared" => rq[r].prep
    \* (set_keyspace_async spins on the loop thread until the connection has a free slot: a full connection would hang
    \*  the switch; the environment modelled here answers a USE only when every pool connection can take one more request)
    /\ kind = "setks" => \A d \in 1..Len(conns) : (conns[d].inst /\ conns[d].open) =>
                               Infl(conns[d]) - (IF d = c /\ <<sid, r, f>> \in conns[c].reg THEN 1 ELSE 0) < MaxId
    /\ LET w1 == [W0 EXCEPT !.cn[c].owed = @ \ {<<sid, r, f>>}]
           h  == conns[c].h IN
       IF <<sid, r, f>> \in conns[c].reg
       THEN LET w2 == [w1 EXCEPT !.cn[c].reg = @ \ {<<sid, r, f>>}] IN         \* handler popped, id recycled
            IF f = "X"
            THEN \* _set_result: the connection goes back to its pool, then by kind of answer
                 Commit(CASE kind = "rows"       -> Complete(w2, r, "ok")
                          [] kind = "invalid"    -> Complete(w2, r, "InvalidRequest")
                          [] kind = "overloaded" -> SubmitRetry(w2, r, h, phase >= 2)
                          [] kind = "setks"      -> Complete(SwitchKeyspace(w2, rq[r].use), r, "ok")
                          [] kind = "unprepared" -> IF phase >= 2 THEN w2                      \* session.submit(_reprepare, ..)
                                                    ELSE [w2 EXCEPT !.hs = H!Submit(@, TRep(r, h))])
            ELSE \* the PREPARE's handler: session.submit(_execute_after_prepare, host, connection, pool, response); the
                 \* connection stays borrowed until that task runs.  INTENDED: the task is told the connection the PREPARE
                 \* travelled on.  (The pinned code tells it the connection of the EXECUTE that was answered UNPREPARED,
                 \* which differs once the pool was renewed: findings/C09_reprepare_returns_the_wrong_connection.py.)
                 Commit(IF phase >= 2 THEN [w2 EXCEPT !.cn[c].hold = @ + 1]
                        ELSE [w2 EXCEPT !.cn[c].hold = @ + 1, !.hs = H!Submit(@, TAfter(r, c, h, kind))])
       ELSE \* the request timed out meanwhile: the answer releases the id, nobody is told (an id that was not
            \* orphaned - pool gone at the time - is recycled without giving its in-flight slot back)
            IF sid \in conns[c].orph THEN Commit([w1 EXCEPT !.cn[c].orph = @ \ {sid}])
            ELSE Commit([w1 EXCEPT !.cn[c].tko = @ \ {sid}, !.cn[c].leak = @ + 1])
    /\ act' = A("Answer", r, c, sid, kind, <<>>)
    /\ UNCHANGED <<mode, peers, budget, phase, hreq, hact>>

(* the node will never answer *)
Drop(c, sid, r, f) ==
    /\ c \in 1..Len(conns) /\ conns[c].open /\ <<sid, r, f>> \in conns[c].owed
    /\ Commit([W0 EXCEPT !.cn[c].owed = @ \ {<<sid, r, f>>}])
    /\ act' = A("Drop", r, c, sid, "", <<>>)
    /\ UNCHANGED <<mode, peers, budget, phase, hreq, hact>>

(* a timer of the request fires (loop thread): ResponseFuture._on_speculative_execute or ResponseFuture._on_timeout *)
FireTimer(r, sid) ==
    /\ rq[r].st = "open" /\ rq[r].timer # "off"
    /\ IF rq[r].timer = "spec"
       THEN \* one more execution on the next host that can take it (none: nothing is sent, nothing fails), next timer
            /\ SidOK(W0, rq[r].plan, sid)
            /\ Commit(StartTimer(Send(W0, r, rq[r].plan, sid, FALSE), r))
            /\ act' = A("FireTimer", r, 0, sid, "spec", SentBy(W0, rq[r].plan))
       ELSE \* the handler this future registered under (_connection, _req_id) - if it is still there - is removed and the
            \* stream id orphaned; handlers of other executions (speculative, re-sent after a re-prepare) stay registered.
            \* Only the future's own handler - the EXECUTE's or, when the PREPARE of a re-preparation happens to travel
            \* under the id the future remembers, the PREPARE's.  (The pinned code popped whatever was registered under
            \* that id: findings/C09_timeout_pops_handler_of_request_reusing_the_stream_id.py, repaired.)
            /\ sid = 0
            /\ LET c   == rq[r].lc
                   s0  == rq[r].lid
                   own == {x \in conns[c].reg : x[1] = s0 /\ x[2] = r}
                   w1  == IF conns[c].open /\ own # {}
                          THEN IF cs.pools[1][conns[c].h] = "open"  \* session._pools.get(current host) and not pool.is_shutdown
                               THEN [W0 EXCEPT !.cn[c].reg = @ \ own, !.cn[c].orph = @ \cup {s0}]
                               ELSE [W0 EXCEPT !.cn[c].reg = @ \ own, !.cn[c].tko = @ \cup {s0}]
                          ELSE W0                                  \* handler already gone (answered, connection failed, ..)
               IN Commit(Complete(w1, r, "OperationTimedOut"))
            /\ act' = A("FireTimer", r, 0, 0, "to", <<>>)
    /\ UNCHANGED <<mode, peers, budget, phase, hreq, hact>>

(* executor: ResponseFuture._retry_task *)
ExecRetry(r, sid) ==
    /\ TRetry(r) \in DOMAIN cs.exec
    /\ LET w1 == [W0 EXCEPT !.hs.exec = H!BagDel(@, TRetry(r))] IN
       IF Failed(rq[r])
       THEN sid = 0 /\ Commit(w1) /\ act' = A("Exec", r, 0, 0, "Retry", <<>>)
       ELSE /\ SidOK(w1, rq[r].plan, sid)
            /\ Commit(Send(w1, r, rq[r].plan, sid, TRUE))
            /\ act' = A("Exec", r, 0, sid, "Retry", SentBy(w1, rq[r].plan))
    /\ UNCHANGED <<mode, peers, budget, phase, hreq, hact>>

(* executor: ResponseFuture._reprepare - PREPARE to the host that answered UNPREPARED, on a newly borrowed stream; *)
(* no connection to be had there: the original request goes to the next host                                      *)
ExecReprepare(r, h, sid) ==
    /\ TRep(r, h) \in DOMAIN cs.exec
    /\ LET w1 == [W0 EXCEPT !.hs.exec = H!BagDel(@, TRep(r, h))] IN
       IF Usable(w1, h)
       THEN LET c == CHOOSE x \in InstOf(conns, h) : TRUE IN
            /\ sid \notin InUse(conns[c])
            /\ Commit([w1 EXCEPT !.rq[r].lc = c, !.cn[c].reg = @ \cup {<<sid, r, "P">>}, !.cn[c].owed = @ \cup {<<sid, r, "P">>}])
            /\ act' = A("Exec", r, c, sid, "Reprepare", <<>>)
       ELSE /\ SidOK(w1, rq[r].plan, sid)
            /\ Commit(Send([w1 EXCEPT !.rq[r].errs = @ \cup {h}], r, rq[r].plan, sid, TRUE))
            /\ act' = A("Exec", r, 0, sid, "Reprepare", SentBy(w1, rq[r].plan))
    /\ UNCHANGED <<mode, peers, budget, phase, hreq, hact>>

(* executor: ResponseFuture._execute_after_prepare(host, connection c, pool, response) *)
ExecAfter(t, sid) ==
    /\ t \in DOMAIN cs.exec /\ t.k = "AfterPrep"
    /\ LET r    == t.n
           c    == t.s
           h    == t.h
           resp == t.kind
           k    == conns[c]
           w0   == [W0 EXCEPT !.hs.exec = H!BagDel(@, t)]
           \* pool.return_connection(connection): the slot is given back; a closed connection nobody has signalled yet is
           \* signalled now (conviction: Cluster.on_down submitted)
           w1   == IF k.open THEN [w0 EXCEPT !.cn[c].hold = IF @ > 0 THEN @ - 1 ELSE 0]
                   ELSE IF k.sig THEN w0
                   ELSE [w0 EXCEPT !.cn[c].sig = TRUE, !.hs = H!SubmitOnDown(@, h, FALSE, FALSE)]
       IN IF Failed(rq[r])
          THEN sid = 0 /\ Commit(w1) /\ act' = A("Exec", r, c, 0, "AfterPrep", <<>>)
          ELSE CASE resp = "same" ->
                      \* the original request again, same host, whatever stream id it is given (_req_id is not updated)
                      IF Usable(w1, h)
                      THEN LET d == CHOOSE x \in InstOf(w1.cn, h) : TRUE IN
                           /\ sid \notin InUse(w1.cn[d])
                           /\ Commit([w1 EXCEPT !.rq[r].att = Append(@, <<h, d, sid, w1.cn[d].ks, w1.sks>>), !.rq[r].lc = d,
                                                !.cn[d].reg = @ \cup {<<sid, r, "X">>}, !.cn[d].owed = @ \cup {<<sid, r, "X">>}])
                           /\ act' = A("Exec", r, c, sid, "AfterPrep", <<h, d>>)
                      ELSE /\ SidOK(w1, rq[r].plan, sid)
                           /\ Commit(Send([w1 EXCEPT !.rq[r].errs = @ \cup {h}], r, rq[r].plan, sid, TRUE))
                           /\ act' = A("Exec", r, c, sid, "AfterPrep", SentBy(w1, rq[r].plan))
                 [] resp = "diff" ->
                      sid = 0 /\ Commit(Complete(w1, r, "DriverException")) /\ act' = A("Exec", r, c, 0, "AfterPrep", <<>>)
                 [] resp = "error" ->
                      sid = 0 /\ Commit(Complete(w1, r, "InvalidRequest")) /\ act' = A("Exec", r, c, 0, "AfterPrep", <<>>)
                 [] resp = "connerr" ->
                      /\ SidOK(w1, rq[r].plan, sid)
                      /\ Commit(Send([w1 EXCEPT !.rq[r].errs = @ \cup {h}], r, rq[r].plan, sid, TRUE))
                      /\ act' = A("Exec", r, c, sid, "AfterPrep", SentBy(w1, rq[r].plan))
    /\ UNCHANGED <<mode, peers, budget, phase, hreq, hact>>

(* executor: a task of the host-state machinery (Hosts.tla), with what it does to pool connections:            *)
(*   a pool popped from session._pools keeps its connection until its PoolShut task runs;                      *)
(*   run_add_or_renew_pool that succeeds installs a pool with a new connection (in the session keyspace) and   *)
(*   shuts the previous one down on the spot;  PoolShut closes the connection of a popped pool                 *)
ExecHost(t) ==
    /\ t \in DOMAIN cs.exec /\ t.k \in HostKinds
    /\ LET st1     == H!RunTask([H!Cur EXCEPT !.exec = H!BagDel(cs.exec, t)], t)
           popped  == {h \in AllHosts : cs.pools[1][h] # "none" /\ st1.pools[1][h] = "none"}
           newpool == t.k = "AddPool" /\ (t.h = Ctl \/ mode[t.h] = "ok") /\ phase < 2
           gone(k) == k.inst /\ (k.h \in popped \/ (newpool /\ k.h = t.h))
           prev    == {c \in 1..Len(conns) : newpool /\ conns[c].inst /\ conns[c].h = t.h /\ conns[c].open}
           cn1     == [c \in 1..Len(conns) |-> IF gone(conns[c]) THEN [conns[c] EXCEPT !.inst = FALSE] ELSE conns[c]]
           w1      == [hs |-> st1, cn |-> cn1, rq |-> rq, sks |-> sks]
           w2      == H!Fold(LAMBDA x, c : CloseConn(x, c, phase >= 2), w1, prev)
           w3      == IF newpool THEN [w2 EXCEPT !.cn = Append(@, NewConn(t.h, sks))] ELSE w2
           cands   == {c \in 1..Len(conns) : ~conns[c].inst /\ conns[c].open /\ conns[c].h = t.h}
       IN IF t.k = "PoolShut" /\ t.f1 /\ cands # {}
          THEN \E c \in cands : Commit(CloseConn(w3, c, phase >= 2))
          ELSE Commit(w3)
    /\ act' = A("Exec", 0, 0, 0, t.k, <<>>)
    /\ UNCHANGED <<mode, peers, budget, phase, hreq, hact>>

(* a pool connection of a subject host breaks (socket error); the requests on it - or the heartbeat - hand it back *)
(* to the pool: host convicted, Cluster.on_down submitted, the pool shuts itself down                             *)
Kill(c) ==
    /\ H!Event
    /\ c \in 1..Len(conns) /\ conns[c].open /\ conns[c].inst /\ conns[c].h \in Hosts
    /\ cs.pools[1][conns[c].h] = "open"
    /\ \A q \in Reqs : ~(rq[q].use # "" /\ rq[q].st = "open")
    /\ LET h  == conns[c].h
           w1 == [W0 EXCEPT !.hs = H!SubmitOnDown([@ EXCEPT !.pools[1][h] = "shut"], h, FALSE, FALSE),
                            !.cn[c].sig = TRUE]
       IN Commit(CloseConn(w1, c, FALSE))
    /\ act' = A("Kill", 0, c, 0, "", <<>>)
    /\ UNCHANGED <<mode, peers, phase, hreq, hact>>

(* Session.shutdown inside Cluster.shutdown: is_shutdown first, then every pool in _pools is shut down; the requests  *)
(* on their connections are failed, but neither on_down (cluster shut down) nor a retry (session shut down) follows   *)
ShutdownS ==
    /\ phase = 1
    /\ phase' = 2
    /\ LET st1 == [H!Cur EXCEPT !.exec = [t \in {x \in DOMAIN @ : ~(x.k = "AddPool" /\ x.kind = "init")} |-> @[t]],
                                !.pools = [s \in {1} |-> [h \in AllHosts |-> IF @[s][h] = "open" THEN "shut" ELSE @[s][h]]]]
           w1  == [hs |-> st1, cn |-> conns, rq |-> rq, sks |-> sks]
           cl  == {c \in 1..Len(conns) : conns[c].inst /\ conns[c].open}
       IN Commit(H!Fold(LAMBDA x, c : CloseConn(x, c, TRUE), w1, cl))
    /\ act' = A("ShutdownS", 0, 0, 0, "", <<>>)
    /\ UNCHANGED <<mode, peers, budget, hreq, hact>>

(* steps of Hosts.tla that touch no connection *)
HostStep(name, x) == /\ UNCHANGED <<conns, rq, sks>>
                     /\ act' = A(name, 0, 0, 0, x, <<>>)
Fire(e)           == H!Fire(e) /\ HostStep("Fire", e.k)
StatusEvent(h, x) == H!StatusEvent(h, x) /\ HostStep("StatusEvent", x)
SetMode(h, m)     == m \in {"ok", "refuse"} /\ H!SetMode(h, m) /\ HostStep("SetMode", m)
ShutdownA         == H!ShutdownA /\ HostStep("ShutdownA", "")
ShutdownE         == H!ShutdownE /\ HostStep("ShutdownE", "")

Next ==
    \/ \E r \in Reqs, rot \in Rots, use \in Keyspaces \cup {""}, idem \in BOOLEAN, prep \in BOOLEAN, sid \in Ids :
           StartReq(r, rot, use, idem, prep, sid)
    \/ \E c \in 1..Len(conns) : \E x \in conns[c].owed :
           \E kind \in {"rows", "invalid", "overloaded", "setks", "unprepared", "same", "diff", "error"} :
               Answer(c, x[1], x[2], x[3], kind)
    \/ \E c \in 1..Len(conns) : \E x \in conns[c].owed : Drop(c, x[1], x[2], x[3])
    \/ \E r \in Reqs, sid \in Ids : FireTimer(r, sid)
    \/ \E r \in Reqs, sid \in Ids : ExecRetry(r, sid)
    \/ \E r \in Reqs, h \in AllHosts, sid \in Ids : ExecReprepare(r, h, sid)
    \/ \E t \in DOMAIN cs.exec, sid \in Ids : ExecAfter(t, sid)
    \/ \E t \in DOMAIN cs.exec : ExecHost(t)
    \/ \E e \in DOMAIN cs.sched : Fire(e)
    \/ \E c \in 1..Len(conns) : Kill(c)
    \/ \E h \in Hosts, x \in {"UP", "DOWN"} : StatusEvent(h, x)
    \/ \E h \in Hosts, m \in {"ok", "refuse"} : SetMode(h, m)
    \/ ShutdownA \/ ShutdownS \/ ShutdownE

Spec == Init /\ [][Next]_vars

-----------------------------------------------------------------------------
(* System invariants, each named after the property it belongs to. *)
TypeOK ==
    /\ H!TypeOK
    /\ \A c \in 1..Len(conns) : conns[c].h \in AllHosts /\ conns[c].leak \in 0..NReqs
    /\ \A r \in Reqs : rq[r].st \in {"new", "open", "done"} /\ rq[r].n \in 0..2

(* C14: every request gets exactly one outcome *)
C14_OneOutcome ==
    \A r \in Reqs : /\ rq[r].n <= 1
                    /\ (rq[r].st = "done") <=> (rq[r].n = 1)
                    /\ (rq[r].st = "done") <=> (rq[r].out # "none")
                    /\ rq[r].st = "done" => rq[r].timer = "off"
                    /\ rq[r].st = "open" => rq[r].timer # "off"          \* (C15) an open request always has a timer armed

(* C09: a response is only ever delivered to the request sent on that (connection, stream) *)
C09_StreamsNotShared ==
    \A c \in 1..Len(conns) :
        LET k == conns[c] IN
        /\ \A x, y \in k.reg : x[1] = y[1] => x = y                       \* one handler per stream id
        /\ {x[1] : x \in k.reg} \cap k.orph = {}                           \* a reserved id is not handed out
        /\ {x[1] : x \in k.reg} \cap k.tko = {} /\ k.orph \cap k.tko = {}
        /\ \A x \in k.owed : x \in k.reg \/ x[1] \in k.orph \cup k.tko    \* what the node will answer on sid belongs to
                                                                          \* the request registered there, or to nobody
        /\ \A x, y \in k.owed : x[1] = y[1] => x = y
        /\ k.open => Infl(k) <= MaxId
C09_AnswerToSender ==
    (act.name = "Answer" /\ act.x \in {"rows", "invalid"} /\ rq[act.r].st = "done" /\ rq[act.r].out # "OperationTimedOut") =>
        \E i \in 1..Len(rq[act.r].att) : rq[act.r].att[i][2] = act.c /\ rq[act.r].att[i][3] = act.sid

(* C17: attempts follow the plan, and go to a host whose pool is installed and open *)
C17_PlanOrder ==
    \A r \in Reqs :
        LET hs == [i \in 1..Len(rq[r].att) |-> rq[r].att[i][1]]
            pos(h) == IF \E i \in 1..Len(rq[r].p0) : rq[r].p0[i] = h
                      THEN CHOOSE i \in 1..Len(rq[r].p0) : rq[r].p0[i] = h ELSE 0
        IN /\ \A i \in 1..Len(hs) : \E j \in 1..Len(rq[r].p0) : rq[r].p0[j] = hs[i]
           /\ \A i, j \in 1..Len(hs) : i < j => (pos(hs[i]) < pos(hs[j]) \/ (rq[r].prep /\ hs[i] = hs[j]))   \* twice only when
                                                                                                      \* re-sent after a re-prepare
           /\ \A i \in 1..Len(rq[r].plan) : \A j \in 1..Len(hs) : pos(rq[r].plan[i]) > pos(hs[j])
C17_ErrorMap ==                     \* every host the request was sent to or skipped, and no other, can be in its error map
    \A r \in Reqs : /\ rq[r].errs \subseteq {rq[r].p0[i] : i \in 1..Len(rq[r].p0)}
                    /\ rq[r].errs \cap {rq[r].plan[i] : i \in 1..Len(rq[r].plan)} = {}
                    /\ rq[r].out = "NoHostAvailable" =>
                           rq[r].errs \cup {rq[r].att[i][1] : i \in 1..Len(rq[r].att)} = {rq[r].p0[i] : i \in 1..Len(rq[r].p0)}
C17_LivePool ==
    act.sent # <<>> => /\ conns[act.sent[2]].h = act.sent[1]
                       /\ conns[act.sent[2]].inst /\ conns[act.sent[2]].open
                       /\ cs.pools[1][act.sent[1]] = "open"

(* C10: after a connection failed no request is left pending on it: each was retried (task queued), failed, or - once *)
(* the session is shut down - dropped                                                                              *)
Waiting(r) == \E c \in 1..Len(conns) : \E x \in conns[c].reg : x[2] = r
C10_NoneLeftPending ==
    /\ \A c \in 1..Len(conns) : ~conns[c].open => (conns[c].reg = {} /\ conns[c].owed = {})
    /\ \A r \in Reqs : rq[r].st = "open" =>
           (Waiting(r) \/ phase >= 2 \/ \E t \in DOMAIN cs.exec : t.k \in {"Retry", "Reprepare", "AfterPrep"} /\ t.n = r)
    /\ \A r \in Reqs : rq[r].st = "new" => ~Waiting(r)

(* C25: a down host has exactly one live reconnector once the executor is idle, never two; none after shutdown *)
C25_Reconnectors ==
    /\ H!OneReconnector /\ H!NoStrayReconnector /\ H!RemovedNotReconnected
    /\ phase >= 1 => \A h \in Hosts : H!BagCount(cs.exec, LAMBDA t : t.k = "Recon" /\ t.h = h /\ ~t.f1) <= 1

(* C45: once shutdown() has returned no connection is open and requests are refused *)
C45_Shutdown ==
    H!Returned => /\ \A c \in 1..Len(conns) : ~conns[c].open
                  /\ H!NOpen = 0
C45_Refused ==
    (act.name = "StartReq" /\ phase = 3) => (rq[act.r].out = "NoHostAvailable" /\ rq[act.r].att = <<>>)

(* C19 (composition): the original request of a re-preparation is re-sent once, to the host that was re-prepared *)
C19_ResentOnce ==
    (act.name = "Exec" /\ act.x = "AfterPrep" /\ act.sent # <<>>) =>
        /\ rq[act.r].att # <<>>
        /\ rq[act.r].att[Len(rq[act.r].att)][1] = act.sent[1] /\ rq[act.r].att[Len(rq[act.r].att)][2] = act.sent[2]

(* C20: after a successful USE every attempt goes out on a connection in that keyspace *)
C20_KeyspaceFollows ==
    /\ \A c \in 1..Len(conns) : (conns[c].inst /\ conns[c].open) => conns[c].ks = sks
    /\ \A r \in Reqs : \A i \in 1..Len(rq[r].att) : rq[r].att[i][4] = rq[r].att[i][5]

(* structure: the pools of Hosts.tla and the connections agree *)
PoolsAndConns ==
    \A h \in AllHosts :
        /\ Cardinality(InstOf(conns, h)) <= 1
        /\ cs.pools[1][h] = "open" => \E c \in InstOf(conns, h) : conns[c].open
        /\ cs.pools[1][h] = "none" => InstOf(conns, h) = {}
        /\ cs.pools[1][h] = "shut" => \A c \in InstOf(conns, h) : ~conns[c].open

\* state constraint for an exhaustive run that leaves Cluster.shutdown to Hosts.tla's own check
BeforeShutdown == phase = 0

\* vacuity witnesses (each must be violated = reachable)
Witness_RetriedAfterKill == ~(\E r \in Reqs : rq[r].st = "done" /\ rq[r].out = "ok" /\ Len(rq[r].att) >= 2
                                               /\ ~conns[rq[r].att[1][2]].open)
Witness_LateAnswer == ~(act.name = "Answer" /\ rq[act.r].out = "OperationTimedOut")
Witness_IdReused == ~(\E r, q \in Reqs : r # q /\ rq[r].att # <<>> /\ rq[q].att # <<>>
                                         /\ rq[r].att[1][2] = rq[q].att[1][2] /\ rq[r].att[1][3] = rq[q].att[1][3])
Witness_HostBackUp == ~(\E h \in Hosts : cs.wentDown[h] /\ cs.up[h] = "T" /\
                          \E c, d \in 1..Len(conns) : c < d /\ conns[c].h = h /\ conns[d].h = h /\ conns[d].inst /\ conns[d].open)
Witness_KeyspaceSwitched == ~(sks # "" /\ \E r \in Reqs : rq[r].att # <<>> /\ rq[r].att[Len(rq[r].att)][4] = sks /\ rq[r].use = "")
Witness_RefusedAfterShutdown == ~(phase = 3 /\ \E r \in Reqs : rq[r].out = "NoHostAvailable" /\ rq[r].att = <<>>)
Witness_SpeculativeWon == ~(\E r \in Reqs : rq[r].out = "ok" /\ Len(rq[r].att) >= 2 /\ Waiting(r))
Witness_RetryAfterSuccess == ~(act.name = "Exec" /\ act.x = "Retry" /\ act.sent # <<>> /\ rq[act.r].out = "ok")
Witness_Reprepared == ~(\E r \in Reqs : rq[r].prep /\ rq[r].out = "ok" /\ Len(rq[r].att) >= 2
                                         /\ rq[r].att[1][1] = rq[r].att[2][1] /\ rq[r].att[2][3] = 0)
Witness_PrepareLostConnection == ~(act.name = "Exec" /\ act.x = "AfterPrep" /\ act.sent # <<>> /\ ~conns[act.c].open)
Witness_LostAtShutdown == ~(phase >= 2 /\ \E r \in Reqs : rq[r].st = "open" /\ ~Waiting(r))
=============================================================================
