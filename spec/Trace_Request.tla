--------------------------- MODULE Trace_Request ---------------------------
(* Trace validation (code -> spec) for Request.tla.  A trace starts with a     *)
(* "Config" event (pool condition per host, is_idempotent, speculative         *)
(* max_attempts, explicit target host, stream-id space) selecting the initial   *)
(* state; every                                                                *)
(* further event names the operation performed on the real Session /           *)
(* ResponseFuture with its arguments and carries the projected state of the    *)
(* real objects after it.  An event is accepted iff the corresponding          *)
(* specification action is enabled and produces the logged post-state.  A      *)
(* field that is absent from the logged post-state is not compared (used to    *)
(* find out which fields a rejected event disagrees on).                       *)
EXTENDS Request, TraceLib

VARIABLES tid, l
tvars == <<vars, tid, l>>

Tr == Traces[tid]
ToSet(s) == {s[i] : i \in 1..Len(s)}

Post(p) ==
    /\ Has(p, "pool")      => \A h \in Hosts : pool'[h] = p.pool[h]
    /\ Has(p, "plan")      => plan' = p.plan
    /\ Has(p, "tried")     => tried' = p.tried
    /\ Has(p, "errs")      => \A h \in Hosts : errs'[h] = p.errs[h]
    /\ Has(p, "att")       => att' = ToSet(p.att)
    /\ Has(p, "sentLog")   => /\ Len(sentLog') = Len(p.sentLog)
                              /\ \A i \in 1..Len(p.sentLog) : sentLog'[i].host = p.sentLog[i][1] /\ sentLog'[i].cl = p.sentLog[i][2]
    /\ Has(p, "policyLog") => /\ Len(policyLog') = Len(p.policyLog)
                              /\ \A i \in 1..Len(p.policyLog) :
                                    /\ policyLog'[i].kind = p.policyLog[i][1]
                                    /\ (epoch' = 1 => policyLog'[i].rn = p.policyLog[i][2])     \* DESIGN 13: first epoch only
                                    /\ policyLog'[i].dec = p.policyLog[i][3]
                                    /\ policyLog'[i].cl = p.policyLog[i][4]
    /\ Has(p, "retries")   => (epoch' = 1 => retries' = p.retries)
    /\ Has(p, "cl")        => cl' = p.cl
    /\ Has(p, "specLeft")  => specLeft' = p.specLeft
    /\ Has(p, "timer")     => timer' = p.timer
    /\ Has(p, "final")     => final' = p.final
    /\ Has(p, "result")    => final' = p.result                      \* what result() reports
    /\ Has(p, "paging")    => paging' = p.paging
    /\ Has(p, "cb")        => \A e \in 1..MaxEpoch : cb'[e] = p.cb[e]
    /\ Has(p, "eb")        => \A e \in 1..MaxEpoch : eb'[e] = p.eb[e]
    /\ Has(p, "dlv")       => \A e \in 1..MaxEpoch : dlv'[e] = p.dlv[e]
    /\ Has(p, "queue")     => /\ Len(queue') = Len(p.queue)
                              /\ \A i \in 1..Len(p.queue) : queue'[i].reuse = p.queue[i][1] /\ queue'[i].host = p.queue[i][2]
    /\ Has(p, "epoch")     => epoch' = p.epoch
    /\ Has(p, "lastConn")  => lastConn' = p.lastConn
    /\ Has(p, "refq")      => refq' = p.refq
    /\ Has(p, "now")       => now' = p.now
    /\ Has(p, "due")       => due' = p.due
    \* NoHostAvailable.errors, once the loop thread is through: every host it had to list, with the class it had
    \* then or has now (later answers may overwrite entries of the live map)
    /\ (Has(p, "nhaErrors") /\ pend'.host = 0) =>
           \A h \in Hosts : nhaCls'[h] # "none" => p.nhaErrors[h] \in {nhaCls'[h], errs'[h]}

TraceInit ==
    /\ tid \in 1..NTraces
    /\ l = 2
    /\ Len(Tr) >= 1 /\ Tr[1].e = "Config"
    /\ Len(Tr[1].pool) = NHosts
    /\ \A h \in Hosts : Tr[1].pool[h] \in PoolConds \cup {"healthy"}
    /\ Tr[1].idem \in IdemChoices /\ Tr[1].target \in TargetChoices /\ Tr[1].spec \in SpecChoices
    /\ Tr[1].ids \in IdChoices /\ Tr[1].prep \in PrepChoices
    /\ (100 * Tr[1].budget + Tr[1].delay) \in TimeChoices
    /\ InitWith([h \in Hosts |-> Tr[1].pool[h]], Tr[1].idem, Tr[1].target, Tr[1].spec, Tr[1].ids,
                <<Tr[1].budget, Tr[1].delay>>, Tr[1].prep)

TraceNext ==
    /\ l <= Len(Tr)
    /\ l' = l + 1
    /\ UNCHANGED tid
    /\ LET e == Tr[l] IN
       /\ \/ e.e = "Start"         /\ Start
          \/ e.e = "AnsOk"         /\ e.k \in OkKinds /\ AnsOk(e.a, e.k)
          \/ e.e = "AnsErr"        /\ e.k \in ErrKinds /\ <<e.d, e.c>> \in DecSet /\ AnsErr(e.a, e.k, e.d, e.c)
          \/ e.e = "StoreErr"      /\ StoreErr
          \/ e.e = "AnsSchema"     /\ "schema" \in OkKinds /\ AnsSchema(e.a)
          \/ e.e = "RefreshTask"   /\ RefreshTask(e.ok)
          \/ e.e = "AnsFatal"      /\ e.k \in FatalKinds /\ AnsFatal(e.a, e.k)
          \/ e.e = "SpecFire"      /\ SpecFire
          \/ e.e = "TimeoutFire"   /\ TimeoutFire
          \/ e.e = "RecheckFire"   /\ RecheckFire
          \/ e.e = "RetryTask"     /\ RetryTask
          \/ e.e = "StartNextPage" /\ StartNextPage
       /\ Has(e, "post") => Post(e.post)

TraceSpec == TraceInit /\ [][TraceNext]_tvars

Progress == RecordProgress(tid, l)
Done == PrintProgress
=============================================================================
