------------------------------ MODULE LBPRace ------------------------------
(* Two threads deliver membership events to one DCAwareRoundRobinPolicy at   *)
(* the same time (the executor runs Cluster.on_up / on_down / on_add for     *)
(* different hosts concurrently): thread t delivers Ev[t] ("up" or "down")   *)
(* for host t; hosts 1, 2 and the bystander 3 are in ONE datacenter, whose   *)
(* live-host tuple both calls read and replace.                              *)
(*                                                                           *)
(* cassandra/policies.py DCAwareRoundRobinPolicy.on_up 283-299 / on_down     *)
(* 301-310: the datacenter is computed outside the lock; then, under         *)
(* _hosts_lock, the tuple is read, membership tested and the new tuple       *)
(* written - one critical section, one action (T_Apply).  A thread can be    *)
(* pre-empted before acquiring the lock and after releasing it.              *)
(* Property (C21): when both calls have returned the policy considers live   *)
(* exactly the hosts that follow from the initial set and BOTH events - no   *)
(* event is lost, whatever the interleaving.                                 *)
EXTENDS Naturals, FiniteSets, TLC

Threads == {1, 2}
Hosts == {1, 2, 3}

VARIABLES live0,   \* hosts live before the two calls
          ev,      \* thread -> "up" | "down"
          live,    \* the datacenter's live hosts
          pc       \* thread -> "start" | "want" | "released" | "done"
vars == <<live0, ev, live, pc>>

Init == /\ live0 \in SUBSET Hosts
        /\ ev \in [Threads -> {"up", "down"}]
        /\ live = live0
        /\ pc = [t \in Threads |-> "start"]

T_Want(t) ==            \* dc = self._dc(host) (and local-dc detection): nothing shared is read
    /\ pc[t] = "start"
    /\ pc' = [pc EXCEPT ![t] = "want"]
    /\ UNCHANGED <<live0, ev, live>>

T_Apply(t) ==           \* with self._hosts_lock: read the tuple, test membership, write the new tuple
    /\ pc[t] = "want"
    /\ live' = IF ev[t] = "up" THEN live \cup {t} ELSE live \ {t}
    /\ pc' = [pc EXCEPT ![t] = "released"]
    /\ UNCHANGED <<live0, ev>>

T_Return(t) ==
    /\ pc[t] = "released"
    /\ pc' = [pc EXCEPT ![t] = "done"]
    /\ UNCHANGED <<live0, ev, live>>

Next == \E t \in Threads : T_Want(t) \/ T_Apply(t) \/ T_Return(t)
Spec == Init /\ [][Next]_vars

-----------------------------------------------------------------------------
Quiescent == \A t \in Threads : pc[t] = "done"
Expected == (live0 \cup {t \in Threads : ev[t] = "up"}) \ {t \in Threads : ev[t] = "down"}

TypeOK == live \subseteq Hosts
NoEventLost == Quiescent => live = Expected
BystanderUntouched == (3 \in live) = (3 \in live0)

\* vacuity witnesses (expected to be VIOLATED)
Witness_BothAtTheLock == ~(pc[1] = "want" /\ pc[2] = "want")
Witness_TwoAdditions == ~(Quiescent /\ ev[1] = "up" /\ ev[2] = "up" /\ Cardinality(live) > Cardinality(live0) + 1)
=============================================================================
