---------------------------- MODULE PrepareCache ----------------------------
(* The driver's prepared-statement cache and the server-side prepared sets    *)
(* it has to keep in step with.                                               *)
(*                                                                            *)
(* Code anchors (cassandra/cluster.py):                                       *)
(*   Session.prepare (:3185-3249), Session.prepare_on_all_hosts (:3251-3283)  *)
(*   Cluster.add_prepared / Cluster._prepared_statements, a                   *)
(*     WeakValueDictionary query_id -> PreparedStatement (:1366, :2357-2359)  *)
(*   Cluster._prepare_all_queries / _send_chunks (:2300-2355), called by      *)
(*     Cluster.on_up (:1877-1947) and on_add before the host is marked up     *)
(*   ResponseFuture._set_result, PreparedQueryNotFound branch (:4812-4852)    *)
(*   Cluster.prepare_on_all_hosts / reprepare_on_up (:961-980: "all known     *)
(*     prepared statements should be prepared on a node when it comes up")    *)
(*                                                                            *)
(* Statements are named; Catalogue gives each its query text, the keyspace it *)
(* is prepared under ("none" = the text names its tables with their keyspace) *)
(* and whether that keyspace is passed explicitly to Session.prepare          *)
(* (protocol v5) or is the session's keyspace (SessionKs; the pool            *)
(* connections have done USE).  A node identifies a prepared statement by     *)
(* (keyspace it was prepared under, query text) - Id - and returns that id;   *)
(* a node forgets everything when it restarts, and may evict at any time.     *)
(* One action = one application call (prepare / execute / dropping the last   *)
(* reference to a PreparedStatement) or one host state change handled to      *)
(* completion (on_down; reconnection + on_up).  The unprepared-execute path   *)
(* (C19) is a black box here: the statement is re-prepared on the coordinator *)
(* and executes once.                                                         *)
EXTENDS Naturals, FiniteSets, TLC

CONSTANTS Hosts,        \* host numbers; the query plan tries up hosts in increasing order
          Stmts,        \* names of the statements the application uses, subset of DOMAIN Catalogue
          V5,           \* protocol v5 (keyspace travels in PREPARE) or v4
          AllHosts,     \* Cluster.prepare_on_all_hosts
          SessionKs     \* the session's keyspace

Catalogue == [A |-> [q |-> "qa", ks |-> "none", explicit |-> FALSE],
              B |-> [q |-> "qb", ks |-> "k1",   explicit |-> FALSE],
              C |-> [q |-> "qc", ks |-> "k1",   explicit |-> FALSE],
              D |-> [q |-> "qb", ks |-> "k2",   explicit |-> TRUE],
              E |-> [q |-> "qc", ks |-> "k1",   explicit |-> TRUE]]
Q(s)  == Catalogue[s].q
Ks(s) == Catalogue[s].ks
Id(s) == <<Ks(s), Q(s)>>                  \* what the server derives the query id from
ASSUME \A s \in Stmts : (Catalogue[s].explicit => V5) /\ (~Catalogue[s].explicit => Ks(s) \in {"none", SessionKs})

VARIABLES up,      \* host -> BOOLEAN: node running and Host.is_up
          srv,     \* host -> set of ids the node has prepared
          held,    \* statements whose PreparedStatement the application still references
          cache,   \* Cluster._prepared_statements: id -> statement
          act      \* last action, its arguments and what was observable
vars == <<up, srv, held, cache, act>>

MinOf(X) == CHOOSE x \in X : \A y \in X : x <= y
UpHosts == {h \in Hosts : up[h]}
Coord == MinOf(UpHosts)                   \* first host of the query plan

Init == /\ up = [h \in Hosts |-> TRUE]
        /\ srv = [h \in Hosts |-> {}]
        /\ held = {}
        /\ cache = [i \in {} |-> "A"]
        /\ act = [name |-> "Init"]

CacheWith(s) == [i \in DOMAIN cache \cup {Id(s)} |-> IF i = Id(s) THEN s ELSE cache[i]]
CacheWithout(s) == [i \in DOMAIN cache \ {Id(s)} |-> cache[i]]

\* Session.prepare(query, keyspace): PREPARE to the coordinator, add_prepared, then prepare_on_all_hosts
Prepare(s) ==
    /\ UpHosts # {}
    /\ s \notin held
    /\ LET targets == IF AllHosts THEN UpHosts ELSE {Coord} IN
       srv' = [h \in Hosts |-> IF h \in targets THEN srv[h] \cup {Id(s)} ELSE srv[h]]
    /\ held' = held \cup {s}
    /\ cache' = CacheWith(s)
    /\ act' = [name |-> "Prepare", s |-> s, coord |-> Coord, id |-> Id(s)]
    /\ UNCHANGED up

\* session.execute(bound statement, host=h)
Execute(s, h) ==
    /\ s \in held /\ up[h]
    /\ srv' = [srv EXCEPT ![h] = @ \cup {Id(s)}]         \* unknown on h: UNPREPARED -> re-prepared there (C19)
    /\ act' = [name |-> "Execute", s |-> s, h |-> h, unprepared |-> Id(s) \notin srv[h], rows |-> 1]
    /\ UNCHANGED <<up, held, cache>>

\* the application drops its PreparedStatement: the weak cache entry goes with it
Drop(s) ==
    /\ s \in held
    /\ held' = held \ {s}
    /\ cache' = CacheWithout(s)
    /\ act' = [name |-> "Drop", s |-> s]
    /\ UNCHANGED <<up, srv>>

\* the node stops (and will have forgotten everything when it is back); the driver marks it down
HostDown(h) ==
    /\ up[h] /\ UpHosts # {h}
    /\ up' = [up EXCEPT ![h] = FALSE]
    /\ srv' = [srv EXCEPT ![h] = {}]
    /\ act' = [name |-> "HostDown", h |-> h]
    /\ UNCHANGED <<held, cache>>

\* the node is back; reconnection succeeds; Cluster.on_up: _prepare_all_queries re-prepares EVERY cached statement
\* under the keyspace it was prepared under (throwaway connection), then pools are opened and the host is marked up
HostUp(h) ==
    /\ ~up[h]
    /\ up' = [up EXCEPT ![h] = TRUE]
    /\ srv' = [srv EXCEPT ![h] = {Id(s) : s \in held}]
    /\ act' = [name |-> "HostUp", h |-> h, prepares |-> {<<Q(s), Ks(s)>> : s \in held}]
    /\ UNCHANGED <<held, cache>>

\* the node evicts its prepared statements while it stays up
Evict(h) ==
    /\ up[h] /\ srv[h] # {}
    /\ srv' = [srv EXCEPT ![h] = {}]
    /\ act' = [name |-> "Evict", h |-> h]
    /\ UNCHANGED <<up, held, cache>>

Next == \/ \E s \in Stmts : Prepare(s) \/ Drop(s)
        \/ \E s \in Stmts, h \in Hosts : Execute(s, h)
        \/ \E h \in Hosts : HostDown(h) \/ HostUp(h) \/ Evict(h)
Spec == Init /\ [][Next]_vars

-----------------------------------------------------------------------------
TypeOK == /\ held \subseteq Stmts
          /\ \A h \in Hosts : srv[h] \subseteq {Id(s) : s \in Stmts}

\* the cache holds exactly the live statements, each under the id the server returned for it
CacheExact == /\ DOMAIN cache = {Id(s) : s \in held}
              /\ \A i \in DOMAIN cache : Id(cache[i]) = i /\ cache[i] \in held
\* ids are unique per (query, keyspace)
IdsUnique == \A s, t \in held : Id(s) = Id(t) => s = t

\* after Prepare(s): cached under the returned id, known to the coordinator ...
PreparedIsCached == act.name = "Prepare" =>
                       /\ act.id \in DOMAIN cache /\ cache[act.id] = act.s
                       /\ act.id \in srv[act.coord]
\* ... and with prepare_on_all_hosts to every host that is up
PreparedEverywhere == act.name = "Prepare" /\ AllHosts => \A h \in UpHosts : act.id \in srv[h]

\* after HostUp(h): every cached statement is prepared on h under the same id, each PREPAREd under its own keyspace
UpHostKnowsCache == act.name = "HostUp" =>
                       /\ \A i \in DOMAIN cache : i \in srv[act.h]
                       /\ act.prepares = {<<Q(s), Ks(s)>> : s \in held}

ExecutesOnce == act.name = "Execute" => act.rows = 1 /\ Id(act.s) \in srv[act.h]
DownForgets == \A h \in Hosts : ~up[h] => srv[h] = {}

\* vacuity witnesses (negated reachability)
Witness_ReprepareTwoKeyspaces == ~(act.name = "HostUp" /\ Cardinality({p[2] : p \in act.prepares}) >= 2)
Witness_UnpreparedExecute     == ~(act.name = "Execute" /\ act.unprepared)
Witness_DroppedNotReprepared  == ~(act.name = "HostUp" /\ held # {} /\ \E s \in Stmts \ held : TRUE /\ Cardinality(held) < Cardinality(Stmts))
Witness_PrepareWhileDown      == ~(act.name = "Prepare" /\ UpHosts # Hosts)
Witness_SameTextTwoKeyspaces  == ~(\E s, t \in held : s # t /\ Q(s) = Q(t))

ASSUME TLCSet(2, {})
WitnessesHere == (IF ~Witness_ReprepareTwoKeyspaces THEN {"Witness_ReprepareTwoKeyspaces"} ELSE {})
            \cup (IF ~Witness_UnpreparedExecute THEN {"Witness_UnpreparedExecute"} ELSE {})
            \cup (IF ~Witness_DroppedNotReprepared THEN {"Witness_DroppedNotReprepared"} ELSE {})
            \cup (IF ~Witness_PrepareWhileDown THEN {"Witness_PrepareWhileDown"} ELSE {})
            \cup (IF ~Witness_SameTextTwoKeyspaces THEN {"Witness_SameTextTwoKeyspaces"} ELSE {})
RecordWitnesses == TLCSet(2, TLCGet(2) \cup WitnessesHere)
PrintWitnesses == PrintT(<<"WITNESSES", TLCGet(2)>>)
=============================================================================
