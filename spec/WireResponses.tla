---------------------------- MODULE WireResponses ---------------------------
(* C04 - response frames of the CQL native protocol, as a reference GENERATOR. *)
(*                                                                             *)
(* Written from native_protocol_v1.spec .. native_protocol_v5.spec (sections   *)
(* "2. Frame header" flags, "4.2 Responses", "6. Data type ... / [option]",    *)
(* "9. Error codes").  DSE_V1 / DSE_V2 follow what the driver documents about  *)
(* them (cassandra.ProtocolVersion); v6 is taken to be v5.                     *)
(*                                                                             *)
(* One TLC state = one well-formed response: (family, protocol version, header *)
(* flags, opcode, stream, body bytes) together with `exp`, the abstract        *)
(* content the server put in: the message-specific record, and `fx`, the       *)
(* frame extras (tracing id, warnings, custom payload).  Text is UTF-8 bytes.  *)
(* checks/c04.py feeds (pv, flags, opcode, body) to the real                   *)
(* ProtocolHandler.decode_message and compares a projection of the decoded     *)
(* message (for errors also of to_exception()) with `exp` / `fx`.              *)
(*                                                                             *)
(* Code anchors: cassandra/protocol.py _ProtocolHandler.decode_message,        *)
(* ErrorMessage.recv_body + subclasses recv_error_info / to_exception,         *)
(* ResultMessage.recv_results_rows / recv_results_metadata /                   *)
(* recv_results_prepared / recv_prepared_metadata / read_type,                 *)
(* EventMessage.recv_body / recv_schema_change, SupportedMessage,              *)
(* AuthenticateMessage, AuthChallengeMessage, AuthSuccessMessage, ReadyMessage.*)
EXTENDS WirePrims

CONSTANTS Families,     \* subset of {"SIMPLE", "ERROR", "EVENT", "ROWS", "PREPARED", "EVOLVE"}
          FullFx,       \* families enumerated with all subsets of {tracing id, warnings, custom payload}; others: 4 of 8
          Small         \* TRUE: the tour of column types uses one table-spec form and one frame-extras setting (quick tier)

OP_ERROR == 0   OP_READY == 2   OP_AUTHENTICATE == 3   OP_SUPPORTED == 6   OP_RESULT == 8   OP_EVENT == 12
OP_AUTH_CHALLENGE == 14   OP_AUTH_SUCCESS == 16

Vars == {1, 2}
-----------------------------------------------------------------------------
\* Frame extras (v4 spec 2.2): tracing id first ([uuid]), then warnings ([string list], flag 0x08, v4+),
\* then custom payload ([bytes map], flag 0x04, v4+); then the message body.
A_trace == << <<0, 1, 2, 3, 4, 5, 6, 7, 8, 9, 10, 11, 12, 13, 14, 15>>,
              <<255, 254, 128, 127, 0, 0, 16, 32, 200, 201, 202, 203, 204, 205, 206, 207>> >>
A_warn  == << << <<119, 49>> >>,                                               \* ["w1"]
              << <<65, 103, 103, 114>>, <<116, 111, 109, 98, 115, 32, 195, 169>> >> >>   \* ["Aggr", "tombs é"]
A_payload == << << <<<<107>>, V(<<1, 2>>)>> >>,                                \* {"k": 0x0102}
                << <<<<97>>, V(<<>>)>>, <<<<98>>, V(<<0, 255>>)>>, <<<<99>>, Null>> >> >>   \* {"a": empty, "b": 0x00FF, "c": null}

FxIdx(fam, pv) ==
    IF pv < 4 THEN {<<t, FALSE, FALSE>> : t \in BOOLEAN}
    ELSE IF fam \in FullFx THEN {<<t, w, p>> : t \in BOOLEAN, w \in BOOLEAN, p \in BOOLEAN}
    ELSE {<<FALSE, FALSE, FALSE>>, <<TRUE, TRUE, TRUE>>, <<TRUE, FALSE, FALSE>>, <<FALSE, TRUE, TRUE>>}
Fx(x, var) == [trace    |-> IF x[1] THEN Some(A_trace[var]) ELSE None,
               warnings |-> IF x[2] THEN Some(A_warn[var]) ELSE None,
               payload  |-> IF x[3] THEN Some(A_payload[var]) ELSE None]
Prefix(fx) == (IF IsSome(fx.trace) THEN Uuid(The(fx.trace)) ELSE <<>>)
           \o (IF IsSome(fx.warnings) THEN StringList(The(fx.warnings)) ELSE <<>>)
           \o (IF IsSome(fx.payload) THEN BytesMap(The(fx.payload)) ELSE <<>>)
HdrFlags(fx) == (IF IsSome(fx.trace) THEN 2 ELSE 0) + (IF IsSome(fx.payload) THEN 4 ELSE 0) + (IF IsSome(fx.warnings) THEN 8 ELSE 0)

Case(op, body, exp) == [op |-> op, body |-> body, exp |-> exp]

-----------------------------------------------------------------------------
\* Small vocabulary (UTF-8 bytes)
S_ks  == <<107, 115>>                   \* "ks"
S_ks2 == <<75, 83, 32, 50>>             \* "KS 2"
S_t1  == <<116, 49>>                    \* "t1"
S_t2  == <<116, 195, 169>>              \* "té"
S_a   == <<97>>     S_b == <<98>>   S_c == <<99, 111, 108, 32, 195, 169>>   \* "a", "b", "col é"
S_ut  == <<117, 116>>                   \* "ut"
S_fn  == <<102, 110>>                   \* "fn"
S_int == <<105, 110, 116>>  S_text == <<116, 101, 120, 116>>                \* "int", "text"
S_Foo == <<99, 111, 109, 46, 101, 120, 97, 109, 112, 108, 101, 46, 70, 111, 111>>   \* "com.example.Foo"
S_Dur == <<111, 114, 103, 46, 97, 112, 97, 99, 104, 101, 46, 99, 97, 115, 115, 97, 110, 100, 114, 97, 46, 100, 98, 46,
           109, 97, 114, 115, 104, 97, 108, 46, 68, 117, 114, 97, 116, 105, 111, 110, 84, 121, 112, 101>>
                                        \* "org.apache.cassandra.db.marshal.DurationType"
IP4 == <<10, 0, 0, 7>>
IP6 == <<32, 1, 13, 184, 0, 0, 0, 0, 0, 0, 0, 0, 0, 0, 0, 1>>              \* 2001:db8::1

-----------------------------------------------------------------------------
\* [option]: column types (section "4.2.5.2 Rows" / "6")
TN(k)          == [k |-> k]                                   \* native type, by its CQL name
TList(e)       == [k |-> "list", e |-> e]
TSet(e)        == [k |-> "set", e |-> e]
TMap(a, b)     == [k |-> "map", key |-> a, val |-> b]
TTuple(items)  == [k |-> "tuple", items |-> items]
TUdt(ks, name, fields) == [k |-> "udt", ks |-> ks, name |-> name, fields |-> fields]     \* fields: <<field name, type>>
TCustom(cls)   == [k |-> "custom", cls |-> cls]

NativeId(k) == CASE k = "ascii" -> 1 [] k = "bigint" -> 2 [] k = "blob" -> 3 [] k = "boolean" -> 4 [] k = "counter" -> 5
                 [] k = "decimal" -> 6 [] k = "double" -> 7 [] k = "float" -> 8 [] k = "int" -> 9 [] k = "text" -> 10
                 [] k = "timestamp" -> 11 [] k = "uuid" -> 12 [] k = "varchar" -> 13 [] k = "varint" -> 14
                 [] k = "timeuuid" -> 15 [] k = "inet" -> 16 [] k = "date" -> 17 [] k = "time" -> 18
                 [] k = "smallint" -> 19 [] k = "tinyint" -> 20 [] k = "duration" -> 21

RECURSIVE TypeOption(_)
TypeField(f) == String(f[1]) \o TypeOption(f[2])
TypeOption(t) ==
    CASE t.k = "custom" -> Short(0) \o String(t.cls)
      [] t.k = "list"   -> Short(32) \o TypeOption(t.e)
      [] t.k = "map"    -> Short(33) \o TypeOption(t.key) \o TypeOption(t.val)
      [] t.k = "set"    -> Short(34) \o TypeOption(t.e)
      [] t.k = "udt"    -> Short(48) \o String(t.ks) \o String(t.name) \o Short(Len(t.fields)) \o Cat(Map(TypeField, t.fields))
      [] t.k = "tuple"  -> Short(49) \o Short(Len(t.items)) \o Cat(Map(TypeOption, t.items))
      [] OTHER          -> Short(NativeId(t.k))

T_int == TN("int")   T_vc == TN("varchar")
T_udt == TUdt(S_ks, S_ut, << <<S_a, T_int>>, <<S_b, T_vc>> >>)
\* [t |-> type, lo |-> first version, hi |-> last standard version that documents it]
TY(t, lo, hi) == [t |-> t, lo |-> lo, hi |-> hi]
TypeTour ==
  << TY(T_int, 1, 6), TY(T_vc, 1, 6), TY(TList(T_int), 1, 6), TY(TMap(T_vc, T_int), 1, 6), TY(TSet(TN("uuid")), 1, 6),
     TY(TTuple(<<T_int, T_vc>>), 3, 6), TY(T_udt, 3, 6), TY(TCustom(S_Foo), 1, 6), TY(TCustom(S_Dur), 1, 6),
     \* one level more
     TY(TList(TMap(T_vc, T_int)), 1, 6), TY(TMap(T_vc, TList(T_int)), 1, 6), TY(TSet(TTuple(<<T_int, T_vc>>)), 3, 6),
     TY(TTuple(<<TSet(TN("uuid")), T_udt>>), 3, 6),
     TY(TUdt(S_ks2, S_c, << <<S_c, TList(T_int)>>, <<S_b, TTuple(<<T_vc>>)>>, <<S_a, T_udt>> >>), 3, 6),
     TY(TMap(TCustom(S_Foo), TSet(T_vc)), 1, 6),
     \* every native type id
     TY(TN("ascii"), 1, 6), TY(TN("bigint"), 1, 6), TY(TN("blob"), 1, 6), TY(TN("boolean"), 1, 6), TY(TN("counter"), 1, 6),
     TY(TN("decimal"), 1, 6), TY(TN("double"), 1, 6), TY(TN("float"), 1, 6), TY(TN("text"), 1, 2), TY(TN("timestamp"), 1, 6),
     TY(TN("uuid"), 1, 6), TY(TN("varint"), 1, 6), TY(TN("timeuuid"), 1, 6), TY(TN("inet"), 1, 6),
     TY(TN("date"), 4, 6), TY(TN("time"), 4, 6), TY(TN("smallint"), 4, 6), TY(TN("tinyint"), 4, 6), TY(TN("duration"), 5, 6) >>
TypeIn(ty, pv) == IF IsDse(pv) THEN ty.hi = 6 ELSE ty.lo <= pv /\ pv <= ty.hi

\* <col_spec> = (<ksname><tablename>)?<name><type>
Col(ks, table, name, type) == [ks |-> ks, table |-> table, name |-> name, type |-> type]
ColSpec(c, global) == (IF global THEN <<>> ELSE String(c.ks) \o String(c.table)) \o String(c.name) \o TypeOption(c.type)
ColSpecs(cols, global) == (IF global /\ Len(cols) > 0 THEN String(cols[1].ks) \o String(cols[1].table) ELSE <<>>)
                          \o Cat([i \in 1..Len(cols) |-> ColSpec(cols[i], global)])
\* column layouts: with a global table spec all columns are of one table, otherwise each names its own
Cols0 == <<>>
Cols1(global) == << Col(S_ks, S_t1, S_a, T_int) >>
Cols2(global) == << Col(S_ks, S_t1, S_a, T_int), IF global THEN Col(S_ks, S_t1, S_c, T_vc) ELSE Col(S_ks2, S_t2, S_c, T_vc) >>
ColsT(i)      == << Col(S_ks2, S_t2, S_c, TypeTour[i].t) >>

-----------------------------------------------------------------------------
\* RESULT / Rows (4.2.5.2):  <metadata><rows_count><rows_content>
\*  <metadata> = <flags><columns_count>[<paging_state>][<new_metadata_id>][<global_table_spec>?<col_spec_1>...<col_spec_n>]
\*  flags: 0x0001 Global_tables_spec, 0x0002 Has_more_pages, 0x0004 No_metadata, 0x0008 Metadata_changed (v5; No_metadata
\*  has to be unset); DSE: 0x40000000 continuous paging (followed by the [int] page sequence number), 0x80000000 last page.
\*  m = [global, more (option: paging state), nometa, mdid (option), cont (option: [seq, last])]
A_pstate == << <<1>>, <<0, 255, 7>> >>
A_mdid   == << <<9, 9>>, <<255, 0, 1, 2>> >>
MetaFlagsLo(m) == (IF m.global THEN 1 ELSE 0) + (IF IsSome(m.more) THEN 2 ELSE 0) + (IF m.nometa THEN 4 ELSE 0)
                + (IF IsSome(m.mdid) THEN 8 ELSE 0)
MetaFlagsHi(m) == IF IsSome(m.cont) THEN 16384 + (IF The(m.cont).last THEN 32768 ELSE 0) ELSE 0
RowsMetadata(m, cols) ==
       Word32(MetaFlagsHi(m), MetaFlagsLo(m)) \o I32(Len(cols))
    \o (IF IsSome(m.more) THEN Bytes(V(The(m.more))) ELSE <<>>)
    \o (IF IsSome(m.cont) THEN I32(The(m.cont).seq) ELSE <<>>)
    \o (IF IsSome(m.mdid) THEN ShortBytes(The(m.mdid)) ELSE <<>>)
    \o (IF m.nometa THEN <<>> ELSE ColSpecs(cols, m.global))

\* which metadata flag combinations a version's document defines
MetaChoices(pv, var) ==
    {[global |-> g, more |-> IF mo THEN Some(A_pstate[var]) ELSE None, nometa |-> nm,
      mdid |-> IF md THEN Some(A_mdid[var]) ELSE None,
      cont |-> IF ct = 0 THEN None ELSE Some([seq |-> IF var = 1 THEN 1 ELSE 70000, last |-> ct = 2])] :
        g \in BOOLEAN, mo \in BOOLEAN, nm \in BOOLEAN, md \in BOOLEAN, ct \in 0..2}
MetaDefined(pv, m) ==
    /\ (IsSome(m.mdid) => HasResultMetadataId(pv) /\ ~m.nometa)          \* v5: "the No_metadata flag has to be unset"
    /\ (m.nometa => ~m.global)                                           \* nothing to be global about
    /\ (pv = 1 => ~IsSome(m.more) /\ ~m.nometa)                          \* paging and skip_metadata are v2+
    \* DSE continuous paging: only combinations whose layout the driver documents (no No_metadata, no new metadata id)
    /\ (IsSome(m.cont) => HasContPaging(pv) /\ ~m.nometa /\ ~IsSome(m.mdid))

\* What the CALLER hands to the decoder as `result_metadata` (c.held): the column metadata of the prepared statement the
\* request executed (PreparedStatement.result_metadata, cassandra/connection.py passes it for every EXECUTE), nothing
\* for other requests.  4.2.5.2: a Rows result describes its own rows unless No_metadata is set - "this will only ever
\* be the case if this was requested" - so the response's own metadata wins whenever it is present (the table may have
\* been altered since PREPARE: v1-v4 the server just sends the current metadata, v5 flags Metadata_changed); what the
\* caller holds describes the rows only under No_metadata.  Code: ResultMessage.recv_results_rows
\* (`self.column_metadata or result_metadata`).
StaleCols == << Col(S_ks, S_t1, S_a, T_vc), Col(S_ks, S_t1, S_b, T_int), Col(S_ks, S_t1, S_c, T_int) >>   \* retyped, one more
HeldChoices(m, cols, n) ==
    IF m.nometa THEN {Some(cols)}                          \* the server left the metadata out because the caller has it
    ELSE IF n < 2 THEN {None}
    ELSE {None,                                            \* not a prepared statement
          Some(<<>>),                                      \* prepared statement without result columns
          Some(cols),                                      \* held metadata is current
          Some(IF Len(cols) = 2 THEN SubSeq(cols, 1, 1) ELSE StaleCols),     \* a column was added since PREPARE
          Some(StaleCols)}                                 \* columns dropped / re-added with other types

\* cell values: only int and varchar columns carry values (value codecs are C01/C02's subject); everything else is null
CellFor(type, r) ==
    IF type = T_int THEN (IF r = 1 THEN V(I32(5)) ELSE IF r = 2 THEN V(I32(-2)) ELSE Null)
    ELSE IF type = T_vc THEN (IF r = 1 THEN V(S_c) ELSE IF r = 2 THEN V(<<>>) ELSE V(S_ks2))
    ELSE Null
Row(cols, r)    == [j \in 1..Len(cols) |-> CellFor(cols[j].type, r)]
RowsOf(cols, n) == [r \in 1..n |-> Row(cols, r)]
RowBytes(row)   == Cat(Map(Bytes, row))
RowsBody(m, cols, n) ==
    I32(2) \o RowsMetadata(m, cols) \o I32(n) \o Cat(Map(RowBytes, RowsOf(cols, n)))
RowsExp(m, cols, n) ==
    [cls |-> "RESULT", kind |-> "rows", cols |-> cols, rows |-> RowsOf(cols, n), nometa |-> m.nometa,
     paging_state |-> m.more, metadata_id |-> m.mdid, cont |-> m.cont]

-----------------------------------------------------------------------------
\* RESULT / Prepared (4.2.5.4): <id>[<result_metadata_id>]<metadata>[<result_metadata>]   (result_metadata: v2+)
\*  <metadata> = <flags><columns_count>[<pk_count><pk_index_1>...<pk_index_n>][<global_table_spec>?<col_spec_1>...]  (pk: v4+)
A_id == << <<1, 2, 3, 4>>, <<0, 255, 16, 32, 48, 64, 80, 96, 112, 128, 144, 160, 176, 192, 208, 224>> >>
A_pk == << <<>>, <<0>>, <<1, 0>> >>
PrepMetadata(pv, global, cols, pk) ==
       I32(IF global THEN 1 ELSE 0) \o I32(Len(cols))
    \o (IF pv >= 4 THEN I32(Len(pk)) \o Cat(Map(Short, pk)) ELSE <<>>)
    \o ColSpecs(cols, global)
NoMore(global, nometa) == [global |-> global, more |-> None, nometa |-> nometa, mdid |-> None, cont |-> None]
\* res = "none" (the statement returns no rows: No_metadata, 0 columns) | "global" | "each" (table spec form of the result columns)
ResultCols(res) == IF res = "none" THEN <<>> ELSE Cols2(res = "global")
PreparedBody(pv, var, global, cols, pk, res) ==
       I32(4) \o ShortBytes(A_id[var])
    \o (IF HasResultMetadataId(pv) THEN ShortBytes(A_mdid[var]) ELSE <<>>)
    \o PrepMetadata(pv, global, cols, pk)
    \o (IF pv >= 2 THEN RowsMetadata(NoMore(res = "global", res = "none"), ResultCols(res)) ELSE <<>>)
PreparedExp(pv, var, global, cols, pk, res) ==
    [cls |-> "RESULT", kind |-> "prepared", id |-> A_id[var],
     metadata_id |-> IF HasResultMetadataId(pv) THEN Some(A_mdid[var]) ELSE None,
     bind |-> cols, pk |-> IF pv >= 4 THEN Some(pk) ELSE None,
     result |-> IF pv >= 2 /\ res # "none" THEN Some(ResultCols(res)) ELSE None]

-----------------------------------------------------------------------------
\* Schema changes (EVENT SCHEMA_CHANGE 4.2.6 and RESULT Schema_change 4.2.5.5)
\*  v1/v2: <change><keyspace><table>  (table empty for a keyspace change)
\*  v3+  : <change_type><target><options>; target KEYSPACE: <keyspace>; TABLE / TYPE: <keyspace><name>;
\*         FUNCTION / AGGREGATE (v4+): <keyspace><name><[string list] argument types>
S_CREATED == <<67, 82, 69, 65, 84, 69, 68>>  S_UPDATED == <<85, 80, 68, 65, 84, 69, 68>>  S_DROPPED == <<68, 82, 79, 80, 80, 69, 68>>
S_KEYSPACE == <<75, 69, 89, 83, 80, 65, 67, 69>>  S_TABLE == <<84, 65, 66, 76, 69>>  S_TYPE == <<84, 89, 80, 69>>
S_FUNCTION == <<70, 85, 78, 67, 84, 73, 79, 78>>  S_AGGREGATE == <<65, 71, 71, 82, 69, 71, 65, 84, 69>>
TargetName(t) == CASE t = "KEYSPACE" -> S_KEYSPACE [] t = "TABLE" -> S_TABLE [] t = "TYPE" -> S_TYPE
                   [] t = "FUNCTION" -> S_FUNCTION [] t = "AGGREGATE" -> S_AGGREGATE
Changes == <<S_CREATED, S_UPDATED, S_DROPPED>>
Targets(pv) == IF pv <= 2 THEN <<"KEYSPACE", "TABLE">>
               ELSE IF pv = 3 THEN <<"KEYSPACE", "TABLE", "TYPE">>
               ELSE <<"KEYSPACE", "TABLE", "TYPE", "FUNCTION", "AGGREGATE">>
A_args == << <<>>, <<S_int, S_text>> >>
SchemaChange(pv, var, ch, tg) ==
    LET ks   == IF var = 1 THEN S_ks ELSE S_ks2
        name == IF tg = "KEYSPACE" THEN None ELSE Some(IF var = 1 THEN S_t1 ELSE S_t2)
        args == IF tg \in {"FUNCTION", "AGGREGATE"} THEN Some(A_args[var]) ELSE None
        body == IF pv <= 2
                THEN String(ch) \o String(ks) \o String(IF IsSome(name) THEN The(name) ELSE <<>>)
                ELSE String(ch) \o String(TargetName(tg)) \o String(ks)
                     \o (IF IsSome(name) THEN String(The(name)) ELSE <<>>)
                     \o (IF IsSome(args) THEN StringList(The(args)) ELSE <<>>) IN
    [body |-> body, exp |-> [change |-> ch, target |-> tg, keyspace |-> ks, name |-> name, args |-> args]]

S_TOPOLOGY_CHANGE == <<84, 79, 80, 79, 76, 79, 71, 89, 95, 67, 72, 65, 78, 71, 69>>
S_STATUS_CHANGE   == <<83, 84, 65, 84, 85, 83, 95, 67, 72, 65, 78, 71, 69>>
S_SCHEMA_CHANGE   == <<83, 67, 72, 69, 77, 65, 95, 67, 72, 65, 78, 71, 69>>
S_NEW_NODE == <<78, 69, 87, 95, 78, 79, 68, 69>>  S_REMOVED_NODE == <<82, 69, 77, 79, 86, 69, 68, 95, 78, 79, 68, 69>>
S_UP == <<85, 80>>  S_DOWN == <<68, 79, 87, 78>>
NodeEvent(etype, name, change, addr, port) ==
    Case(OP_EVENT, String(name) \o String(change) \o Inet(addr, port),
         [cls |-> "EVENT", etype |-> etype, change |-> change, addr |-> addr, port |-> port])
EventCases(pv, var) ==
    LET addr == IF var = 1 THEN IP4 ELSE IP6   port == IF var = 1 THEN 9042 ELSE 19142 IN
    << NodeEvent("TOPOLOGY_CHANGE", S_TOPOLOGY_CHANGE, S_NEW_NODE, addr, port),
       NodeEvent("TOPOLOGY_CHANGE", S_TOPOLOGY_CHANGE, S_REMOVED_NODE, addr, port),
       NodeEvent("STATUS_CHANGE", S_STATUS_CHANGE, S_UP, addr, port),
       NodeEvent("STATUS_CHANGE", S_STATUS_CHANGE, S_DOWN, addr, port) >>
    \o [i \in 1..(3 * Len(Targets(pv))) |->
          LET sc == SchemaChange(pv, var, Changes[((i - 1) % 3) + 1], Targets(pv)[((i - 1) \div 3) + 1]) IN
          Case(OP_EVENT, String(S_SCHEMA_CHANGE) \o sc.body, [cls |-> "EVENT", etype |-> "SCHEMA_CHANGE"] @@ sc.exp)]
    \o [i \in 1..(3 * Len(Targets(pv))) |->
          LET sc == SchemaChange(pv, var, Changes[((i - 1) % 3) + 1], Targets(pv)[((i - 1) \div 3) + 1]) IN
          Case(OP_RESULT, I32(5) \o sc.body, [cls |-> "RESULT", kind |-> "schema_change"] @@ sc.exp)]

-----------------------------------------------------------------------------
\* READY, AUTHENTICATE, AUTH_CHALLENGE, AUTH_SUCCESS, SUPPORTED, RESULT Void / Set_keyspace
S_Auth1 == <<80, 97, 115, 115, 119, 111, 114, 100, 65, 117, 116, 104, 101, 110, 116, 105, 99, 97, 116, 111, 114>>  \* "PasswordAuthenticator"
S_Auth2 == <<99, 46, 195, 169, 46, 65>>                                         \* "c.é.A"
Tokens  == << V(<<>>), V(<<111, 107>>), V(<<0, 255, 128, 1>>), Null >>          \* empty, "ok", not UTF-8, null
S_CQL_VERSION == <<67, 81, 76, 95, 86, 69, 82, 83, 73, 79, 78>>
S_COMPRESSION == <<67, 79, 77, 80, 82, 69, 83, 83, 73, 79, 78>>
S_PROTOCOL_VERSIONS == <<80, 82, 79, 84, 79, 67, 79, 76, 95, 86, 69, 82, 83, 73, 79, 78, 83>>
S_340 == <<51, 46, 52, 46, 48>>  S_345 == <<51, 46, 52, 46, 53>>  S_lz4 == <<108, 122, 52>>  S_snappy == <<115, 110, 97, 112, 112, 121>>
A_supported == << << <<S_CQL_VERSION, <<S_340>>>>, <<S_COMPRESSION, <<>>>> >>,
                  << <<S_COMPRESSION, <<S_snappy, S_lz4>>>>, <<S_CQL_VERSION, <<S_340, S_345>>>>,
                     <<S_PROTOCOL_VERSIONS, <<<<51, 47, 118, 51>>, <<52, 47, 118, 52>>>>>> >> >>
SimpleCases(pv, var) ==
       << Case(OP_READY, <<>>, [cls |-> "READY"]),
          Case(OP_AUTHENTICATE, String(IF var = 1 THEN S_Auth1 ELSE S_Auth2),
               [cls |-> "AUTHENTICATE", authenticator |-> IF var = 1 THEN S_Auth1 ELSE S_Auth2]),
          Case(OP_SUPPORTED, StringMultimap(A_supported[var]), [cls |-> "SUPPORTED", options |-> A_supported[var]]),
          Case(OP_RESULT, I32(1), [cls |-> "RESULT", kind |-> "void"]),
          Case(OP_RESULT, I32(3) \o String(IF var = 1 THEN S_ks ELSE S_ks2),
               [cls |-> "RESULT", kind |-> "set_keyspace", keyspace |-> IF var = 1 THEN S_ks ELSE S_ks2]) >>
    \o (IF pv >= 2                                            \* SASL exchange: v2+
        THEN [i \in 1..4 |-> Case(OP_AUTH_CHALLENGE, Bytes(Tokens[i]), [cls |-> "AUTH_CHALLENGE", token |-> Tokens[i]])]
          \o [i \in 1..4 |-> Case(OP_AUTH_SUCCESS, Bytes(Tokens[i]), [cls |-> "AUTH_SUCCESS", token |-> Tokens[i]])]
        ELSE <<>>)

-----------------------------------------------------------------------------
\* ERROR (4.2.1, 9): <code [int]><message [string]><code specific rest>
A_msg == << <<111, 111, 112, 115>>, <<195, 169, 99, 104, 101, 99, 32, 226, 130, 172>> >>       \* "oops", "échec €"
A_cl  == <<1, 6>>                                                                \* ONE, LOCAL_QUORUM
S_SIMPLE == <<83, 73, 77, 80, 76, 69>>  S_BATCH == <<66, 65, 84, 67, 72>>  S_COUNTER == <<67, 79, 85, 78, 84, 69, 82>>
S_UNLOGGED_BATCH == <<85, 78, 76, 79, 71, 71, 69, 68, 95, 66, 65, 84, 67, 72>>  S_BATCH_LOG == <<66, 65, 84, 67, 72, 95, 76, 79, 71>>
S_CAS == <<67, 65, 83>>  S_VIEW == <<86, 73, 69, 87>>  S_CDC == <<67, 68, 67>>
WriteTypes(pv) == <<S_SIMPLE, S_BATCH, S_UNLOGGED_BATCH, S_COUNTER, S_BATCH_LOG, S_CAS>>
                  \o (IF pv >= 4 THEN <<S_VIEW>> ELSE <<>>) \o (IF pv >= 5 THEN <<S_CDC>> ELSE <<>>)
\* <reasonmap>: [int] n, then n of <endpoint [inetaddr]><failurecode [short]>   (v5)
ReasonMaps == << <<>>, << <<IP4, 0>> >>, << <<IP4, 2>>, <<IP6, 258>> >> >>
ReasonPair(e) == InetAddr(e[1]) \o Short(e[2])
ReasonMap(rm) == I32(Len(rm)) \o Cat(Map(ReasonPair, rm))
ETail(b, info) == [b |-> b, info |-> info]
Counts(var) == IF var = 1 THEN <<1, 2>> ELSE <<0, 3>>            \* <<received, blockfor>>
Failures(pv, i) ==    \* v4: <numfailures>; v5: <reasonmap>, the number of failures being its size
    IF HasReasonMap(pv) THEN [b |-> ReasonMap(ReasonMaps[i]), info |-> << <<"numfailures", Len(ReasonMaps[i])>>, <<"reasonmap", ReasonMaps[i]>> >>]
    ELSE [b |-> I32(i), info |-> << <<"numfailures", i>> >>]
ErrCodes == <<0, 10, 256, 4096, 4097, 4098, 4099, 4352, 4608, 4864, 5120, 5376, 5632, 5888, 8192, 8448, 8704, 8960, 9216, 9472>>
ErrDefined(code, pv) == CASE code \in {4864, 5120, 5376} -> pv >= 4          \* Read_failure, Function_failure, Write_failure
                          [] code = 5632 -> pv >= 5                          \* CDC_WRITE_FAILURE
                          [] code = 5888 -> V5Like(pv)                        \* CAS_WRITE_UNKNOWN
                          [] OTHER -> TRUE
ErrTails(code, pv, var) ==
    LET cl == A_cl[var]  rc == Counts(var)
        base == Consistency(cl) \o I32(rc[1]) \o I32(rc[2])
        binfo == << <<"cl", cl>>, <<"received", rc[1]>>, <<"blockfor", rc[2]>> >> IN
    CASE code = 4096 ->       \* Unavailable: <cl><required><alive>
            << ETail(Consistency(cl) \o I32(3) \o I32(1), << <<"cl", cl>>, <<"required", 3>>, <<"alive", 1>> >>),
               ETail(Consistency(cl) \o I32(1) \o I32(0), << <<"cl", cl>>, <<"required", 1>>, <<"alive", 0>> >>) >>
      [] code = 4352 ->       \* Write_timeout: <cl><received><blockfor><writeType>[<contentions> when writeType is "CAS" (v5)]
            [i \in 1..Len(WriteTypes(pv)) |->
               LET wt == WriteTypes(pv)[i]  cas == wt = S_CAS /\ V5Like(pv) IN
               ETail(base \o String(wt) \o (IF cas THEN Short(2) ELSE <<>>),
                    binfo \o << <<"write_type", wt>> >> \o (IF cas THEN << <<"contentions", 2>> >> ELSE <<>>))]
      [] code = 4608 ->       \* Read_timeout: <cl><received><blockfor><data_present>
            [i \in 1..2 |-> ETail(base \o Byte(i - 1), binfo \o << <<"data_present", i = 2>> >>)]
      [] code = 4864 ->       \* Read_failure: <cl><received><blockfor><numfailures | reasonmap><data_present>
            [i \in 1..3 |-> LET f == Failures(pv, i) IN
                            ETail(base \o f.b \o Byte(i % 2), binfo \o f.info \o << <<"data_present", i % 2 = 1>> >>)]
      [] code = 5376 ->       \* Write_failure: <cl><received><blockfor><numfailures | reasonmap><write_type>
            [i \in 1..3 |-> LET f == Failures(pv, i)  wt == WriteTypes(pv)[i * 2] IN
                            ETail(base \o f.b \o String(wt), binfo \o f.info \o << <<"write_type", wt>> >>)]
      [] code = 5120 ->       \* Function_failure: <keyspace><function><arg_types>
            [i \in 1..2 |-> ETail(String(S_ks) \o String(S_fn) \o StringList(A_args[i]),
                                 << <<"keyspace", S_ks>>, <<"function", S_fn>>, <<"arg_types", A_args[i]>> >>)]
      [] code = 5888 ->       \* CAS_WRITE_UNKNOWN: <cl><received><blockfor>
            << ETail(base, binfo) >>
      [] code = 9216 ->       \* Already_exists: <ks><table>  (table empty when a keyspace exists)
            << ETail(String(S_ks2) \o String(S_t2), << <<"keyspace", S_ks2>>, <<"table", S_t2>> >>),
               ETail(String(S_ks) \o String(<<>>), << <<"keyspace", S_ks>>, <<"table", <<>>>> >>) >>
      [] code = 9472 ->       \* Unprepared: <id [short bytes]>
            << ETail(ShortBytes(A_id[var]), << <<"id", A_id[var]>> >>) >>
      [] OTHER -> << ETail(<<>>, <<>>) >>
ErrorCase(code, var, tail) ==
    Case(OP_ERROR, I32(code) \o String(A_msg[var]) \o tail.b, [cls |-> "ERROR", code |-> code, msg |-> A_msg[var], info |-> tail.info])

-----------------------------------------------------------------------------
\* Type evolution ("EVOLVE"): a SEQUENCE of Rows responses decoded one after the other by the same process, whose
\* metadata carry user defined types of the same keyspace and name but different definitions (ALTER TYPE ... ADD,
\* DROP + CREATE).  Every response is self-describing, so each must decode to what IT says, whatever was decoded
\* before.  A scenario is a way of embedding the changing type `inner`; its steps run through Defs and back.
\* These cases also carry VALUES of the composite types (v3+ encoding: a UDT / tuple value is its fields as
\* [bytes]; a list / set is <n> then the elements as [bytes]; a map is <n> then key, value as [bytes]).
S_x == <<120>>  S_n == <<110>>  S_l == <<108>>  S_t == <<116>>  S_m == <<109>>  S_s == <<115>>
InnerName(scn) == <<101, 118, 111>> \o <<48 + scn>>                     \* "evo1" .. "evo5"
OuterName(scn) == <<111, 117, 116>> \o <<48 + scn>>                     \* "out2" .. "out5"
Defs == << << <<S_a, T_int>> >>,                                       \* {a int}
           << <<S_a, T_int>>, <<S_b, T_vc>> >>,                         \* ALTER TYPE ADD b varchar
           << <<S_b, T_vc>>, <<S_a, T_int>> >>,                         \* dropped and re-created with the fields in another order
           << <<S_a, T_vc>> >> >>                                       \* ... and with another type for a
EvoSteps == <<1, 2, 3, 4, 1>>                                           \* definition in force at each step
NScenarios == 5
EvoType(scn, d) ==
    LET inner == TUdt(S_ks, InnerName(scn), Defs[d]) IN
    CASE scn = 1 -> inner                                                                  \* the column type itself changes
      [] scn = 2 -> TUdt(S_ks, OuterName(2), << <<S_x, T_int>>, <<S_n, inner>> >>)          \* nested in an unchanged outer UDT
      [] scn = 3 -> TUdt(S_ks, OuterName(3), << <<S_l, TList(inner)>> >>)                   \* ... inside a list field
      [] scn = 4 -> TUdt(S_ks, OuterName(4), << <<S_t, TTuple(<<T_int, inner>>)>> >>)       \* ... inside a tuple field
      [] scn = 5 -> TUdt(S_ks, OuterName(5), << <<S_m, TMap(T_vc, inner)>>, <<S_s, TSet(inner)>> >>)   \* ... map value, set element

\* a value of type t: [b |-> encoding, v |-> abstract value]; n makes neighbouring fields differ
RECURSIVE EVal(_, _)
EVal(t, n) ==
    CASE t.k = "int"     -> [b |-> I32(7 + n), v |-> <<"i", 7 + n>>]
      [] t.k = "varchar" -> [b |-> S_c \o <<48 + n>>, v |-> <<"s", S_c \o <<48 + n>>>>]
      [] t.k = "udt"     -> LET fs == [i \in 1..Len(t.fields) |-> EVal(t.fields[i][2], n + i)] IN
                            [b |-> Cat([i \in 1..Len(fs) |-> Bytes(V(fs[i].b))]),
                             v |-> <<"udt", [i \in 1..Len(fs) |-> <<t.fields[i][1], fs[i].v>>]>>]
      [] t.k = "tuple"   -> LET fs == [i \in 1..Len(t.items) |-> EVal(t.items[i], n + i)] IN
                            [b |-> Cat([i \in 1..Len(fs) |-> Bytes(V(fs[i].b))]), v |-> <<"tuple", [i \in 1..Len(fs) |-> fs[i].v]>>]
      [] t.k = "list"    -> LET e1 == EVal(t.e, n + 1)  e2 == EVal(t.e, n + 2) IN
                            [b |-> I32(2) \o Bytes(V(e1.b)) \o Bytes(V(e2.b)), v |-> <<"list", <<e1.v, e2.v>>>>]
      [] t.k = "set"     -> LET e == EVal(t.e, n + 1) IN [b |-> I32(1) \o Bytes(V(e.b)), v |-> <<"set", <<e.v>>>>]
      [] t.k = "map"     -> LET k == EVal(t.key, n + 1)  x == EVal(t.val, n + 2) IN
                            [b |-> I32(1) \o Bytes(V(k.b)) \o Bytes(V(x.b)), v |-> <<"map", <<<<k.v, x.v>>>>>>]
EvoCase(scn, pos) ==
    LET t    == EvoType(scn, EvoSteps[pos])
        cols == << Col(S_ks, S_t1, S_c, t) >>
        val  == EVal(t, 0)
        m    == NoMore(TRUE, FALSE) IN
    Case(OP_RESULT, I32(2) \o RowsMetadata(m, cols) \o I32(1) \o Bytes(V(val.b)),
         [cls |-> "RESULT", kind |-> "rows", cols |-> cols, rows |-> <<>>, deep |-> << <<val.v>> >>, nometa |-> FALSE,
          paging_state |-> None, metadata_id |-> None, cont |-> None])

-----------------------------------------------------------------------------
VARIABLES c,     \* [fam, pv, var, flags, opcode, stream, body]      (a seed: [fam, pv, var, x])
          fx,    \* frame extras the server put in: [trace, warnings, payload] (options)
          exp,   \* abstract content of the message
          phase  \* "seed" | "case"
vars == <<c, fx, exp, phase>>

\* seeds only spread the enumeration over TLC's workers (see WireRequests.tla)
Init == \E fam \in Families, pv \in Versions : \E var \in Vars, x \in FxIdx(fam, pv) :
            /\ (fam = "EVOLVE" => pv >= 3 /\ var = 1 /\ x = <<FALSE, FALSE, FALSE>>)      \* UDTs: v3+; no frame extras
            /\ c = [fam |-> fam, pv |-> pv, var |-> var, x |-> x]
            /\ fx = Fx(x, var)
            /\ exp = [cls |-> "seed"]
            /\ phase = "seed"

\* scn / pos: scenario and position in it of a response that belongs to a sequence (EVOLVE); 0 otherwise
EmitFull(cs, scn, pos, held) ==
    /\ c' = [fam |-> c.fam, pv |-> c.pv, var |-> c.var, flags |-> HdrFlags(fx), opcode |-> cs.op,
             stream |-> IF cs.op = OP_EVENT THEN -1 ELSE IF c.var = 1 THEN 1 ELSE IF c.pv >= 3 THEN 300 ELSE 127,
             body |-> Prefix(fx) \o cs.body, scn |-> scn, pos |-> pos, held |-> held]
    /\ exp' = cs.exp
    /\ phase' = "case"
    /\ UNCHANGED fx
EmitAt(cs, scn, pos) == EmitFull(cs, scn, pos, None)
Emit(cs) == EmitAt(cs, 0, 0)

TourFx == ~Small \/ c.x = <<FALSE, FALSE, FALSE>>

Simple == c.fam = "SIMPLE" /\ LET cs == SimpleCases(c.pv, c.var) IN \E i \in 1..Len(cs) : Emit(cs[i])
Event  == c.fam = "EVENT"  /\ LET cs == EventCases(c.pv, c.var) IN \E i \in 1..Len(cs) : Emit(cs[i])
Error  == /\ c.fam = "ERROR"
          /\ \E ci \in 1..Len(ErrCodes) :
               /\ ErrDefined(ErrCodes[ci], c.pv)
               /\ LET tails == ErrTails(ErrCodes[ci], c.pv, c.var) IN
                  \E ti \in 1..Len(tails) : Emit(ErrorCase(ErrCodes[ci], c.var, tails[ti]))
Rows   == /\ c.fam = "ROWS"
          /\ \/ \E m \in MetaChoices(c.pv, c.var), two \in BOOLEAN, n \in 0..2 :     \* flag lattice x 1-2 columns x 0-2 rows
                  /\ MetaDefined(c.pv, m)
                  /\ LET cols == IF two THEN Cols2(m.global) ELSE Cols1(m.global) IN
                     \E held \in HeldChoices(m, cols, n) :
                        EmitFull(Case(OP_RESULT, RowsBody(m, cols, n), RowsExp(m, cols, n)), 0, 0, held)
             \/ \E i \in 1..Len(TypeTour), g \in (IF Small THEN {FALSE} ELSE BOOLEAN) :   \* tour of the column types
                  /\ TourFx /\ TypeIn(TypeTour[i], c.pv)
                  /\ Emit(Case(OP_RESULT, RowsBody(NoMore(g, FALSE), ColsT(i), 1), RowsExp(NoMore(g, FALSE), ColsT(i), 1)))
Prepared ==
          /\ c.fam = "PREPARED"
          /\ \/ \E nb \in 0..2, g \in BOOLEAN, ipk \in 1..3, res \in {"none", "global", "each"} :
                  /\ (nb = 0 => ~g) /\ (c.pv < 4 => ipk = 1) /\ (c.pv = 1 => res = "none") /\ (ipk = 3 => nb = 2) /\ (ipk = 2 => nb >= 1)
                  /\ LET cols == IF nb = 0 THEN Cols0 ELSE IF nb = 1 THEN Cols1(g) ELSE Cols2(g) IN
                     Emit(Case(OP_RESULT, PreparedBody(c.pv, c.var, g, cols, A_pk[ipk], res),
                               PreparedExp(c.pv, c.var, g, cols, A_pk[ipk], res)))
             \/ \E i \in 1..Len(TypeTour), g \in (IF Small THEN {TRUE} ELSE BOOLEAN) :
                  /\ TourFx /\ TypeIn(TypeTour[i], c.pv)
                  /\ Emit(Case(OP_RESULT, PreparedBody(c.pv, c.var, g, ColsT(i), A_pk[2], "none"),
                               PreparedExp(c.pv, c.var, g, ColsT(i), A_pk[2], "none")))

\* a sequence: the seed starts every scenario, each response is followed by the next one of its scenario
Evolve == /\ c.fam = "EVOLVE"
          /\ \/ phase = "seed" /\ \E scn \in 1..NScenarios : EmitAt(EvoCase(scn, 1), scn, 1)
             \/ phase = "case" /\ c.pos < Len(EvoSteps) /\ EmitAt(EvoCase(c.scn, c.pos + 1), c.scn, c.pos + 1)

Next == \/ phase = "seed" /\ (Simple \/ Event \/ Error \/ Rows \/ Prepared)
        \/ Evolve
Spec == Init /\ [][Next]_vars
IsCase == phase = "case"

-----------------------------------------------------------------------------
\* Invariants on the specification itself
BytesOK == IsCase => \A i \in 1..Len(c.body) : c.body[i] \in 0..255
\* warnings and custom payload only from v4 on; the header flags say exactly which extras are in the body
FlagsOK == IsCase => /\ (c.pv < 4 => c.flags \in {0, 2})
                     /\ c.flags = HdrFlags(fx)
                     /\ c.flags < 16
\* the extras come first and in the documented order: tracing id, warnings, custom payload
PrefixOK == IsCase => LET p == Prefix(fx) IN
                /\ SubSeq(c.body, 1, Len(p)) = p
                /\ (IsSome(fx.trace) => SubSeq(c.body, 1, 16) = The(fx.trace))
                /\ (IsSome(fx.warnings) => RdStringList(c.body, IF IsSome(fx.trace) THEN 17 ELSE 1).v = The(fx.warnings))
\* RESULT bodies start with their kind; ERROR bodies with their code
KindOK == IsCase /\ c.opcode = OP_RESULT =>
              LET k == RdInt(c.body, Len(Prefix(fx)) + 1).v IN
              k = (CASE exp.kind = "void" -> 1 [] exp.kind = "rows" -> 2 [] exp.kind = "set_keyspace" -> 3
                     [] exp.kind = "prepared" -> 4 [] exp.kind = "schema_change" -> 5)
CodeOK == IsCase /\ c.opcode = OP_ERROR => RdInt(c.body, Len(Prefix(fx)) + 1).v = exp.code
\* Metadata_changed and No_metadata exclude each other; continuous paging is DSE only
RowsFlagsOK == IsCase /\ c.opcode = OP_RESULT /\ exp.kind = "rows" =>
                  /\ ~(IsSome(exp.metadata_id) /\ exp.nometa)
                  /\ (IsSome(exp.cont) => IsDse(c.pv))
                  /\ (IsSome(exp.metadata_id) => HasResultMetadataId(c.pv))

\* the metadata that describes the rows (exp.cols) is the caller's exactly when the response carries none
HeldOK == IsCase /\ c.opcode = OP_RESULT /\ exp.kind = "rows" /\ exp.nometa => c.held = Some(exp.cols)

\* vacuity witnesses (expected to be VIOLATED)
Witness_StaleHeld   == ~(IsCase /\ c.opcode = OP_RESULT /\ exp.kind = "rows" /\ ~exp.nometa /\ IsSome(c.held)
                         /\ c.held # Some(exp.cols) /\ IsSome(exp.metadata_id))
Witness_Warnings    == ~(IsCase /\ IsSome(fx.warnings) /\ IsSome(fx.trace) /\ IsSome(fx.payload))
Witness_ReasonMap   == ~(IsCase /\ c.opcode = OP_ERROR /\ exp.code = 4864 /\ HasReasonMap(c.pv))
Witness_MetadataId  == ~(IsCase /\ c.opcode = OP_RESULT /\ exp.kind = "rows" /\ IsSome(exp.metadata_id))
Witness_ContPaging  == ~(IsCase /\ c.opcode = OP_RESULT /\ exp.kind = "rows" /\ IsSome(exp.cont))
Witness_Evolution   == ~(IsCase /\ c.fam = "EVOLVE" /\ c.pos = Len(EvoSteps))
Witness_PkIndexes   == ~(IsCase /\ c.opcode = OP_RESULT /\ exp.kind = "prepared" /\ IsSome(exp.pk) /\ Len(The(exp.pk)) = 2)
=============================================================================
