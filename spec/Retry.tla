------------------------------- MODULE Retry -------------------------------
(* Built-in retry policies of the driver (cassandra/policies.py) as decision  *)
(* tables, plus the life of one request that keeps failing: every failure the *)
(* coordinator can describe is offered, the policy decides, and a RETRY /     *)
(* RETRY_NEXT_HOST decision re-enters the loop with retry_num + 1 and the     *)
(* consistency level the policy chose (this is what ResponseFuture does with  *)
(* the decision; see Request.tla for that half).                              *)
(* Decision tables are transcribed from the class documentation, not from the *)
(* code; the conformance step evaluates every reachable (policy, event,       *)
(* retry_num) on the real policy objects and requires the same answer.        *)
EXTENDS Naturals, FiniteSets, TLC

CONSTANTS MaxCount,      \* replica counts range over 0..MaxCount
          MaxRetries     \* bound on the length of a request's retry chain

Policies   == {"Default", "Fallthrough", "Downgrading", "NeverRetry"}
CLs        == {"ANY", "ONE", "TWO", "THREE", "QUORUM", "ALL", "LOCAL_QUORUM",
               "EACH_QUORUM", "SERIAL", "LOCAL_SERIAL", "LOCAL_ONE"}
Serial     == {"SERIAL", "LOCAL_SERIAL"}
WriteTypes == {"SIMPLE", "BATCH", "UNLOGGED_BATCH", "COUNTER", "BATCH_LOG", "CAS", "VIEW", "CDC"}
Kinds      == {"read_timeout", "write_timeout", "unavailable", "request_error"}
ErrKinds   == {"overloaded", "bootstrapping", "truncate", "server", "connection"}

\* How many replicas a level can require, depending on the replication factor
RequiredFor(cl) ==
    CASE cl \in {"ANY", "ONE", "LOCAL_ONE"} -> {1}
      [] cl = "TWO"   -> {2} \cap (1..MaxCount)
      [] cl = "THREE" -> {3} \cap (1..MaxCount)
      [] OTHER        -> 1..MaxCount          \* quorums, ALL, serial quorums

\* Replicas a *chosen* level needs
Needs(cl) == CASE cl = "ONE" -> 1 [] cl = "TWO" -> 2 [] cl = "THREE" -> 3 [] OTHER -> 0

NoEvent == [kind |-> "none"]

\* Failure descriptions a coordinator can emit for a request at level cl
Events(cl) ==
    {[kind |-> "read_timeout", cl |-> cl, required |-> q, received |-> r, data |-> d] :
        q \in RequiredFor(cl), r \in 0..MaxCount, d \in BOOLEAN}
  \cup
    {[kind |-> "write_timeout", cl |-> cl, required |-> q, received |-> r, wt |-> w] :
        q \in RequiredFor(cl), r \in 0..MaxCount, w \in WriteTypes}
  \cup
    {[kind |-> "unavailable", cl |-> cl, required |-> q, alive |-> a] :
        q \in RequiredFor(cl), a \in 0..MaxCount}
  \cup
    {[kind |-> "request_error", cl |-> cl, err |-> k] : k \in ErrKinds}

Feasible(e) ==
    CASE e.kind = "read_timeout"  -> (e.received < e.required \/ ~e.data) /\ e.cl # "ANY"
      [] e.kind = "write_timeout" -> /\ (e.received < e.required \/ e.wt \in {"BATCH_LOG", "CAS"})
                                     /\ (e.cl \in Serial <=> e.wt = "CAS")
      [] e.kind = "unavailable"   -> e.alive < e.required /\ e.cl # "ANY"
      [] OTHER -> TRUE

D(kind, cl) == [kind |-> kind, cl |-> cl]          \* cl = "None" means "keep the level"
Rethrow == D("RETHROW", "None")

Pick(n) == IF n >= 3 THEN D("RETRY", "THREE")
           ELSE IF n >= 2 THEN D("RETRY", "TWO")
           ELSE IF n >= 1 THEN D("RETRY", "ONE")
           ELSE Rethrow

DefaultDecide(e, n) ==
    CASE e.kind = "read_timeout" ->
            IF n = 0 /\ e.received >= e.required /\ ~e.data THEN D("RETRY", e.cl) ELSE Rethrow
      [] e.kind = "write_timeout" ->
            IF n = 0 /\ e.wt = "BATCH_LOG" THEN D("RETRY", e.cl) ELSE Rethrow
      [] e.kind = "unavailable" ->
            IF n = 0 THEN D("RETRY_NEXT_HOST", "None") ELSE Rethrow
      [] e.kind = "request_error" -> D("RETRY_NEXT_HOST", "None")

DowngradingDecide(e, n) ==
    CASE e.kind = "read_timeout" ->
            IF n # 0 \/ e.cl \in Serial THEN Rethrow
            ELSE IF e.received < e.required THEN Pick(e.received)
            ELSE IF ~e.data THEN D("RETRY", e.cl)
            ELSE Rethrow
      [] e.kind = "write_timeout" ->
            IF n # 0 THEN Rethrow
            ELSE IF e.wt \in {"SIMPLE", "BATCH", "COUNTER"}
                 THEN (IF e.received > 0 THEN D("IGNORE", "None") ELSE Rethrow)
            ELSE IF e.wt = "UNLOGGED_BATCH" THEN Pick(e.received)
            ELSE IF e.wt = "BATCH_LOG" THEN D("RETRY", e.cl)
            ELSE Rethrow
      [] e.kind = "unavailable" ->
            IF n # 0 THEN Rethrow
            ELSE IF e.cl \in Serial THEN D("RETRY_NEXT_HOST", "None")
            ELSE Pick(e.alive)
      [] e.kind = "request_error" -> D("RETRY_NEXT_HOST", "None")

Decide(p, e, n) ==
    CASE p = "Default"     -> DefaultDecide(e, n)
      [] p = "Fallthrough" -> Rethrow
      [] p = "NeverRetry"  -> IF e.kind = "request_error" THEN DefaultDecide(e, n) ELSE Rethrow
      [] p = "Downgrading" -> DowngradingDecide(e, n)

-----------------------------------------------------------------------------
VARIABLES policy, cl, retries, tuRetries, ev, dec, done
vars == <<policy, cl, retries, tuRetries, ev, dec, done>>

Init == /\ policy \in Policies
        /\ cl \in CLs
        /\ retries = 0
        /\ tuRetries = 0          \* retries decided on a timeout / unavailable
        /\ ev = NoEvent
        /\ dec = D("none", "None")
        /\ done = FALSE

Fail(e) ==
    /\ ~done
    /\ Feasible(e)
    /\ ev' = e
    /\ LET d == Decide(policy, e, retries) IN
       /\ dec' = d
       /\ IF d.kind \in {"RETRY", "RETRY_NEXT_HOST"}
          THEN /\ retries' = retries + 1
               /\ tuRetries' = IF e.kind = "request_error" THEN tuRetries ELSE tuRetries + 1
               /\ cl' = IF d.cl = "None" THEN cl ELSE d.cl
               /\ done' = FALSE
          ELSE /\ done' = TRUE
               /\ UNCHANGED <<retries, tuRetries, cl>>
    /\ UNCHANGED policy

Next == \E e \in Events(cl) : Fail(e)

Spec == Init /\ [][Next]_vars

Bounded == retries <= MaxRetries

-----------------------------------------------------------------------------
\* C23
TypeOK == dec.kind \in {"none", "RETRY", "RETRY_NEXT_HOST", "RETHROW", "IGNORE"}

DefaultRetriesAtMostOnce == policy = "Default" => tuRetries <= 1
DowngradingRetriesAtMostOnce == policy = "Downgrading" => tuRetries <= 1

FallthroughNeverRetries == policy = "Fallthrough" /\ ev # NoEvent => dec = Rethrow

NeverRetryNeverRetriesTimeouts ==
    policy = "NeverRetry" /\ ev.kind \in {"read_timeout", "write_timeout", "unavailable"} => dec = Rethrow

Responded(e) == IF e.kind = "unavailable" THEN e.alive ELSE e.received

DowngradingSafe ==
    policy = "Downgrading" /\ ev.kind \in {"read_timeout", "write_timeout", "unavailable"}
                           /\ dec.kind \in {"RETRY", "RETRY_NEXT_HOST"} =>
        /\ (ev.cl \in Serial => dec.cl \in {"None", ev.cl})                \* never downgrades a serial level
        /\ (dec.cl \notin {"None", ev.cl} =>
               /\ Needs(dec.cl) >= 1
               /\ Needs(dec.cl) <= Responded(ev)                         \* enough replicas responded / alive
               /\ Needs(dec.cl) <= ev.required)                          \* not stronger than requested

\* vacuity witnesses (expected to be VIOLATED when checked; see checks/c23.py)
Witness_Downgrade == ~(policy = "Downgrading" /\ dec.kind = "RETRY" /\ dec.cl \notin {"None", ev.cl})
Witness_SecondFailure == ~(retries = 1 /\ done)
=============================================================================
