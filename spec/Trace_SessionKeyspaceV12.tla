-------------------- MODULE Trace_SessionKeyspaceV12 --------------------
(* Trace validation (code -> spec) for SessionKeyspaceV12.tla; the first event is the recorded configuration. *)
EXTENDS SessionKeyspaceV12, TraceLib, Sequences

VARIABLES tid, l
tvars == <<vars, tid, l>>

Tr == Traces[tid]

Post(p) ==
    /\ completions' = p.completions
    /\ result' = p.result
    /\ asked' = {<<p.outstanding[k][1], p.outstanding[k][2]>> : k \in 1..Len(p.outstanding)}
    /\ \A h \in Hosts, i \in Slots : connks'[h][i] = p.connks[h][i]

TraceInit ==
    /\ tid \in 1..NTraces /\ l = 1
    /\ Len(Traces[tid][1].outcome) = NHosts /\ Len(Traces[tid][1].outcome[1]) = NConn
    /\ outcome = [h \in Hosts |-> [i \in Slots |-> Traces[tid][1].outcome[h][i]]]
    /\ Init

TraceNext ==
    /\ l <= Len(Tr)
    /\ l' = l + 1
    /\ UNCHANGED tid
    /\ LET e == Tr[l] IN
       \/ e.e = "Config" /\ UNCHANGED vars
       \/ /\ \/ e.e = "Start"      /\ Start
             \/ e.e = "ConnFinish" /\ ConnFinish(e.h, e.i)
          /\ Post(e.post)

TraceSpec == TraceInit /\ [][TraceNext]_tvars

Progress == RecordProgress(tid, l)
Done == PrintProgress
=============================================================================
