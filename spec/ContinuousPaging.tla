-------------------------- MODULE ContinuousPaging --------------------------
(* DSE continuous paging seen from the SESSION side: one ContinuousPagingSession, its page queue and         *)
(* condition, the application thread that consumes ResultSet rows through the results() generator, the       *)
(* application's cancel(), the loop thread that delivers what the node sent, the node's paging window        *)
(* (max_queue_size back-pressure, REVISE_REQUEST "more pages"), and the death of the connection.             *)
(*                                                                                                            *)
(* Code anchors (cassandra/):                                                                                 *)
(*   connection.py  ContinuousPagingState, ContinuousPagingSession.on_message / on_page / on_error /          *)
(*                  results / maybe_request_more / update_next_pages / _on_backpressure_response /            *)
(*                  cancel / _on_cancel_response;  Connection.process_msg (routing by stream id, the          *)
(*                  `released` check after the callback), new_/remove_continuous_paging_session,               *)
(*                  defunct -> error_all_cp_sessions + error_all_requests, send_msg                            *)
(*   cluster.py     ResponseFuture._handle_continuous_paging_first_response, ResultSet.next,                   *)
(*                  ResultSet.cancel_continuous_paging                                                         *)
(*                                                                                                            *)
(* Threads.  process_msg / defunct / close run on the loop thread: Deliver, SocketError, Close are single     *)
(* actions.  The application thread runs the generator: every acquisition of the session's condition starts   *)
(* a new action (Call -> Enter, wait -> Wake), rows of a popped page are handed out without the lock (Row).   *)
(* cancel() is two critical sections (send under the connection lock, then stop+notify under the condition):  *)
(* CancelSend, CancelStop; it may run on a second application thread.  The node is the environment:           *)
(* NodeSendPage / NodeSendError / NodeRecv; both directions of the socket are FIFO (wire, out).               *)
(*                                                                                                            *)
(* Queue entries: a positive number k is page k; a negative number is an error:                               *)
(*   -1 ErrorMessage on the paging stream, -2 the exception given to defunct(), -3 ConnectionShutdown (send   *)
(*   refused / outstanding REVISE_REQUEST failed with the connection), -4 the node refused a REVISE_REQUEST;  *)
(*   -5 (raisedWith only) ConnectionBusy escaping from maybe_request_more.                                    *)
EXTENDS Integers, Sequences, FiniteSets, TLC

CONSTANTS MaxPages,     \* the result has at most MaxPages pages (page MaxPages is necessarily flagged last)
          MQS,          \* ContinuousPagingOptions.max_queue_size; 0 = DSE_V1: no ContinuousPagingState, no window
          NRows,        \* rows in a non-empty page
          EmptyPages,   \* numbers of the pages that carry no rows
          NodeErrors,   \* BOOLEAN: the node may fail the stream with an ErrorMessage after the first page
          Faults,       \* subset of {"SocketError", "Close"}: how the connection may die
          Cancels,      \* BOOLEAN: the application may call ResultSet.cancel_continuous_paging()
          CancelTerminal, \* BOOLEAN: a node cancelled while streaming ends the stream with one error frame (next to its
                          \* answer to the REVISE_REQUEST); FALSE: it only answers.  The driver's release logic needs TRUE:
                          \* NoOrphanSession fails with FALSE (checks/_cpaging.py records it as Assumption_CancelTerminal,
                          \* findings/note_XCPAGE_cancelled_stream_needs_one_terminal_frame.py shows it on the real objects)
          RefuseLate,   \* BOOLEAN: the node answers a "more pages" request for a finished stream with an error
          Busy,         \* BOOLEAN: the socket may become unwritable (send_msg raises ConnectionBusy; libev reactor)
          Timeouts,     \* BOOLEAN: condition.wait(timeout=5) may time out (FALSE: only notify wakes the consumer)
          CloseFailsSessions,  \* TRUE: close() of a healthy connection fails open sessions; FALSE: what the pinned code does
                               \* (known finding C10 Close:open-cp-session-not-failed)
          LateBP        \* TRUE: what the pinned code does: back-pressure bookkeeping goes on after the session has stopped
                        \* (maybe_request_more after the last page / cancel; a failed REVISE_REQUEST fails a stopped session)
                        \* = Deviation_LateBackpressure;  FALSE: the intended design

ASSUME MQS = 0 \/ MQS >= 2
ASSUME Faults \subseteq {"SocketError", "Close"}

E_SRV == -1  E_CONN == -2  E_SHUT == -3  E_REFUSED == -4  E_BUSY == -5

VARIABLES
    \* node
    nsent,      \* pages sent so far
    nstate,     \* "active" | "finished" (last page or error sent) | "cancelled"
    window,     \* pages the node may send in total (MQS > 0)
    wire,       \* node -> driver, FIFO: [t, k, last]  t in page / err / moreok / moreerr / cancelok
    out,        \* driver -> node, FIFO: [t, n]        t in more / cancel
    \* connection
    defunct, closed, writable,
    sess,       \* "none" (first page not processed) | "open" (in _continuous_paging_sessions) | "removed"
    idback,     \* how many times the paging stream id was appended to request_ids
    hmore,      \* outstanding REVISE_REQUEST(backpressure) handlers in _requests
    hcancel,    \* outstanding REVISE_REQUEST(cancel) handlers
    \* session
    queue,      \* _page_queue, head = next to pop
    stop,       \* _stop
    released,   \* released
    requested, received,   \* _state.num_pages_requested / num_pages_received (MQS > 0)
    \* consumer (application thread inside ResultSet.next / results())
    cons,       \* "next" (between two next() calls) | "acq" (in next(), about to acquire the condition) |
                \* "waiting" (in condition.wait) | "ended" (StopIteration) | "raised"
    notified,   \* the waiting consumer has been notified
    cur,        \* [p, r]: page being handed out and rows handed out from it
    got,        \* rows the application received: sequence of <<page, row>>
    raisedWith, \* error code raised to the application (0: none)
    \* cancel() caller
    xst,        \* "idle" | "sent" (message pushed) | "unsent" (connection was shut down: nothing pushed) |
                \* "failed" (ConnectionBusy escaped from cancel(): _stop never set) | "done"
    cmsgs,      \* cancel messages pushed to the socket
    \* history
    dlv,        \* pages handed to the session (on_page calls)
    errAt,      \* dlv when the first error entered the queue (-1: none yet)
    lastAt,     \* number of the page flagged last that the session received (0: none yet)
    act

vars == <<nsent, nstate, window, wire, out, defunct, closed, writable, sess, idback, hmore, hcancel, queue, stop,
          released, requested, received, cons, notified, cur, got, raisedWith, xst, cmsgs, dlv, errAt, lastAt, act>>

nodeVars == <<nsent, nstate, window>>
connVars == <<defunct, closed, writable>>
consVars == <<cons, notified, cur, got, raisedWith>>
xVars    == <<xst, cmsgs>>

A(name, a, b) == [name |-> name, a |-> a, b |-> b]
M(t, k, last) == [t |-> t, k |-> k, last |-> last]
O(t, n) == [t |-> t, n |-> n]

Dead == defunct \/ closed
Rows(k) == IF k \in EmptyPages THEN 0 ELSE NRows
IsErr(x) == x < 0
PagesOf(q) == SelectSeq(q, LAMBDA x : x > 0)
ErrsOf(q) == SelectSeq(q, IsErr)
Rep(x, n) == [i \in 1..n |-> x]

RECURSIVE AllRows(_)
AllRows(n) == IF n = 0 THEN <<>> ELSE AllRows(n - 1) \o [r \in 1..Rows(n) |-> <<n, r>>]
IsPrefix(s, t) == Len(s) <= Len(t) /\ \A i \in 1..Len(s) : s[i] = t[i]

Init ==
    /\ nsent = 0 /\ nstate = "active" /\ window = MQS
    /\ wire = <<>> /\ out = <<>>
    /\ defunct = FALSE /\ closed = FALSE /\ writable = TRUE
    /\ sess = "none" /\ idback = 0 /\ hmore = 0 /\ hcancel = 0
    /\ queue = <<>> /\ stop = FALSE /\ released = FALSE
    /\ requested = MQS /\ received = 0
    /\ cons = "next" /\ notified = FALSE /\ cur = [p |-> 0, r |-> 0] /\ got = <<>> /\ raisedWith = 0
    /\ xst = "idle" /\ cmsgs = 0
    /\ dlv = 0 /\ errAt = -1 /\ lastAt = 0
    /\ act = A("Init", 0, 0)

-----------------------------------------------------------------------------
(* the node *)

NodeCanSend == nstate = "active" /\ nsent < MaxPages /\ (MQS = 0 \/ nsent < window)

NodeSendPage(last) ==
    /\ ~Dead /\ NodeCanSend
    /\ (nsent + 1 = MaxPages => last)
    /\ wire' = Append(wire, M("page", nsent + 1, last))
    /\ nsent' = nsent + 1
    /\ nstate' = IF last THEN "finished" ELSE nstate
    /\ act' = A("NodeSendPage", nsent + 1, IF last THEN 1 ELSE 0)
    /\ UNCHANGED <<window, out, connVars, sess, idback, hmore, hcancel, queue, stop, released, requested, received,
                   consVars, xVars, dlv, errAt, lastAt>>

NodeSendError ==
    /\ NodeErrors /\ ~Dead /\ nstate = "active" /\ nsent >= 1
    /\ wire' = Append(wire, M("err", 0, FALSE))
    /\ nstate' = "finished"
    /\ act' = A("NodeSendError", 0, 0)
    /\ UNCHANGED <<nsent, window, out, connVars, sess, idback, hmore, hcancel, queue, stop, released, requested, received,
                   consVars, xVars, dlv, errAt, lastAt>>

(* the node reads the next REVISE_REQUEST.  order = 1: the terminal error frame of a cancelled stream goes out  *)
(* before the answer to the cancel request, 0: after it                                                         *)
NodeRecv(order) ==
    /\ ~Dead /\ out # <<>>
    /\ LET m == Head(out) IN
       /\ out' = Tail(out)
       /\ IF m.t = "more"
          THEN /\ order = 0
               /\ window' = IF nstate = "active" THEN window + m.n ELSE window
               /\ wire' = Append(wire, IF nstate # "active" /\ RefuseLate THEN M("moreerr", 0, FALSE) ELSE M("moreok", 0, FALSE))
               /\ UNCHANGED nstate
          ELSE /\ IF nstate = "active"
                  THEN /\ nstate' = "cancelled"
                       /\ IF CancelTerminal
                          THEN wire' = wire \o (IF order = 1 THEN <<M("err", 0, FALSE), M("cancelok", 0, FALSE)>>
                                                             ELSE <<M("cancelok", 0, FALSE), M("err", 0, FALSE)>>)
                          ELSE order = 0 /\ wire' = Append(wire, M("cancelok", 0, FALSE))
                  ELSE /\ order = 0
                       /\ wire' = Append(wire, M("cancelok", 0, FALSE))
                       /\ UNCHANGED nstate
               /\ UNCHANGED window
       /\ act' = A("NodeRecv", order, 0)
    /\ UNCHANGED <<nsent, connVars, sess, idback, hmore, hcancel, queue, stop, released, requested, received,
                   consVars, xVars, dlv, errAt, lastAt>>

-----------------------------------------------------------------------------
(* the loop thread: Connection.process_msg for the next frame from the node (whole callback) *)

Notify == notified' = (notified \/ cons = "waiting")

Deliver ==
    /\ ~Dead /\ wire # <<>>
    /\ LET m == Head(wire) IN
       /\ wire' = Tail(wire)
       /\ act' = A("Deliver", 0, 0)
       /\ CASE m.t = "page" /\ sess # "removed" ->
                 \* first page: ResponseFuture._set_result -> _handle_continuous_paging_first_response creates the session
                 \* and hands it the page; later pages: session.on_message -> on_page.  After the callback process_msg
                 \* removes a session that says `released` and gives the stream id back.
                 /\ (sess = "none" => m.k = 1)
                 /\ received' = IF MQS > 0 THEN received + 1 ELSE received
                 /\ queue' = Append(queue, m.k)
                 /\ stop' = (stop \/ m.last)
                 /\ Notify
                 /\ released' = (released \/ m.last)
                 /\ sess' = IF released' THEN "removed" ELSE "open"
                 /\ idback' = IF released' THEN idback + 1 ELSE idback
                 /\ dlv' = dlv + 1
                 /\ lastAt' = IF m.last THEN m.k ELSE lastAt
                 /\ UNCHANGED <<hmore, hcancel, errAt>>
            [] m.t = "err" /\ sess = "open" ->
                 \* ErrorMessage on the paging stream: on_error, then removed
                 /\ queue' = Append(queue, E_SRV)
                 /\ stop' = TRUE
                 /\ Notify
                 /\ released' = TRUE
                 /\ sess' = "removed"
                 /\ idback' = idback + 1
                 /\ errAt' = IF errAt = -1 THEN dlv ELSE errAt
                 /\ UNCHANGED <<hmore, hcancel, received, dlv, lastAt>>
            [] m.t \in {"page", "err"} /\ sess = "removed" ->
                 \* a frame on a stream nobody owns: process_msg finds no handler and appends the id to request_ids (again)
                 /\ idback' = idback + 1
                 /\ UNCHANGED <<hmore, hcancel, queue, stop, released, sess, received, notified, dlv, errAt, lastAt>>
            [] m.t = "moreok" ->
                 /\ hmore' = hmore - 1
                 /\ UNCHANGED <<hcancel, queue, stop, released, sess, idback, received, notified, dlv, errAt, lastAt>>
            [] m.t = "moreerr" ->
                 \* _on_backpressure_response with an ErrorMessage: on_error (the session stays registered)
                 /\ hmore' = hmore - 1
                 /\ IF stop /\ ~LateBP
                    THEN UNCHANGED <<queue, stop, notified, errAt>>
                    ELSE /\ queue' = Append(queue, E_REFUSED)
                         /\ stop' = TRUE
                         /\ Notify
                         /\ errAt' = IF errAt = -1 THEN dlv ELSE errAt
                 /\ released' = TRUE
                 /\ UNCHANGED <<hcancel, sess, idback, received, dlv, lastAt>>
            [] m.t = "cancelok" ->
                 /\ hcancel' = hcancel - 1
                 /\ released' = TRUE
                 /\ UNCHANGED <<hmore, queue, stop, sess, idback, received, notified, dlv, errAt, lastAt>>
    /\ UNCHANGED <<nodeVars, out, connVars, requested, cons, cur, got, raisedWith, xVars>>

(* Connection.defunct (socket error) / close(): the node's frames and the driver's unsent requests are gone.   *)
(* defunct: error_all_cp_sessions (registered sessions get the exception), then error_all_requests: every       *)
(* outstanding REVISE_REQUEST handler gets ConnectionShutdown (_on_backpressure_response -> on_error,            *)
(* _on_cancel_response -> released).  close(): error_all_requests only.                                          *)
Die(name, failSessions, isDefunct) ==
    /\ ~Dead /\ name \in Faults
    /\ closed' = TRUE
    /\ defunct' = isDefunct
    /\ wire' = <<>> /\ out' = <<>>
    /\ LET first == IF failSessions /\ sess = "open" THEN <<IF isDefunct THEN E_CONN ELSE E_SHUT>> ELSE <<>>
           stopped1 == stop \/ first # <<>>
           fromHandlers == IF LateBP THEN Rep(E_SHUT, hmore)
                           ELSE IF stopped1 \/ hmore = 0 THEN <<>> ELSE <<E_SHUT>>
           added == first \o fromHandlers IN
       /\ queue' = queue \o added
       /\ stop' = (stop \/ added # <<>>)
       /\ notified' = (notified \/ (added # <<>> /\ cons = "waiting"))
       /\ errAt' = IF errAt = -1 /\ added # <<>> THEN dlv ELSE errAt
       /\ released' = (released \/ (failSessions /\ sess = "open") \/ hmore > 0 \/ hcancel > 0)
    /\ hmore' = 0 /\ hcancel' = 0
    /\ act' = A(name, 0, 0)
    /\ UNCHANGED <<nodeVars, writable, sess, idback, requested, received, cons, cur, got, raisedWith, xVars, dlv, lastAt>>

SocketError == Die("SocketError", TRUE, TRUE)
Close       == Die("Close", CloseFailsSessions, FALSE)

SetWritable(w) ==
    /\ Busy /\ ~Dead /\ writable # w
    /\ writable' = w
    /\ act' = A(IF w THEN "SocketWritable" ELSE "SocketBusy", 0, 0)
    /\ UNCHANGED <<nodeVars, wire, out, defunct, closed, sess, idback, hmore, hcancel, queue, stop, released, requested,
                   received, consVars, xVars, dlv, errAt, lastAt>>

-----------------------------------------------------------------------------
(* the application thread *)

(* next() while rows of the current page are left: no lock, no shared state *)
Row ==
    /\ sess # "none" /\ cons = "next"
    /\ cur.p > 0 /\ cur.r < Rows(cur.p)
    /\ got' = Append(got, <<cur.p, cur.r + 1>>)
    /\ cur' = [cur EXCEPT !.r = @ + 1]
    /\ act' = A("Row", 0, 0)
    /\ UNCHANGED <<nodeVars, wire, out, connVars, sess, idback, hmore, hcancel, queue, stop, released, requested, received,
                   cons, notified, raisedWith, xVars, dlv, errAt, lastAt>>

(* next() with the current page used up (or the very first next()): the generator goes for the condition *)
Call ==
    /\ sess # "none" /\ cons = "next"
    /\ (cur.p = 0 \/ cur.r = Rows(cur.p))
    /\ cons' = "acq"
    /\ act' = A("Call", 0, 0)
    /\ UNCHANGED <<nodeVars, wire, out, connVars, sess, idback, hmore, hcancel, queue, stop, released, requested, received,
                   notified, cur, got, raisedWith, xVars, dlv, errAt, lastAt>>

(* one pass of the generator with the condition held: wait / end / raise / pop a page (+ maybe_request_more),     *)
(* release, hand out the first row (an empty page sends it straight back for the condition)                        *)
Evaluate ==
    /\ notified' = FALSE
    /\ IF queue = <<>>
       THEN /\ cons' = IF stop THEN "ended" ELSE "waiting"
            /\ UNCHANGED <<queue, stop, released, requested, out, hmore, cur, got, raisedWith, errAt>>
       ELSE LET x == Head(queue)
                q == Tail(queue) IN
            IF IsErr(x)
            THEN /\ cons' = "raised" /\ raisedWith' = x
                 /\ queue' = q
                 /\ UNCHANGED <<stop, released, requested, out, hmore, cur, got, errAt>>
            ELSE LET space == MQS - Len(q) - (requested - received)
                     wants == MQS > 0 /\ (LateBP \/ ~stop) /\ 2 * space >= MQS      \* maybe_request_more
                     handOut == /\ cur' = [p |-> x, r |-> IF Rows(x) > 0 THEN 1 ELSE 0]
                                /\ got' = IF Rows(x) > 0 THEN Append(got, <<x, 1>>) ELSE got
                                /\ cons' = IF Rows(x) > 0 THEN "next" ELSE "acq"
                                /\ UNCHANGED raisedWith IN
                 IF ~wants
                 THEN /\ queue' = q /\ handOut
                      /\ UNCHANGED <<stop, released, requested, out, hmore, errAt>>
                 ELSE /\ requested' = requested + space                        \* update_next_pages
                      /\ IF Dead
                         THEN \* send_msg raises ConnectionShutdown: on_error(ex) from the consumer's own thread
                              /\ queue' = Append(q, E_SHUT) /\ stop' = TRUE /\ released' = TRUE
                              /\ errAt' = IF errAt = -1 THEN dlv ELSE errAt
                              /\ handOut
                              /\ UNCHANGED <<out, hmore>>
                         ELSE IF ~writable
                         THEN \* ConnectionBusy is not caught: it leaves the generator; the popped page is lost
                              /\ queue' = q /\ cons' = "raised" /\ raisedWith' = E_BUSY
                              /\ UNCHANGED <<stop, released, out, hmore, cur, got, errAt>>
                         ELSE /\ queue' = q /\ handOut
                              /\ out' = Append(out, O("more", space))
                              /\ hmore' = hmore + 1
                              /\ UNCHANGED <<stop, released, errAt>>

Enter ==
    /\ sess # "none" /\ cons = "acq"
    /\ Evaluate
    /\ act' = A("Enter", 0, 0)
    /\ UNCHANGED <<nodeVars, wire, connVars, sess, idback, hcancel, received, xVars, dlv, lastAt>>

(* the wait ends (notify, or the 5 s timeout): the generator re-acquires the condition and looks again *)
Wake(byTimeout) ==
    /\ cons = "waiting"
    /\ IF byTimeout THEN Timeouts /\ ~notified ELSE notified
    /\ Evaluate
    /\ act' = A("Wake", IF byTimeout THEN 1 ELSE 0, 0)
    /\ UNCHANGED <<nodeVars, wire, connVars, sess, idback, hcancel, received, xVars, dlv, lastAt>>

(* ResultSet.cancel_continuous_paging -> ContinuousPagingSession.cancel, first critical section *)
CancelSend ==
    /\ Cancels /\ sess # "none" /\ xst = "idle"
    /\ IF Dead
       THEN xst' = "unsent" /\ UNCHANGED <<out, hcancel, cmsgs>>          \* ConnectionShutdown is caught
       ELSE IF ~writable
       THEN xst' = "failed" /\ UNCHANGED <<out, hcancel, cmsgs>>          \* ConnectionBusy escapes from cancel()
       ELSE /\ xst' = "sent"
            /\ out' = Append(out, O("cancel", 0))
            /\ hcancel' = hcancel + 1
            /\ cmsgs' = cmsgs + 1
    /\ act' = A("CancelSend", 0, 0)
    /\ UNCHANGED <<nodeVars, wire, connVars, sess, idback, hmore, queue, stop, released, requested, received, consVars,
                   dlv, errAt, lastAt>>

(* second critical section: _stop = True, notify *)
CancelStop ==
    /\ xst \in {"sent", "unsent"}
    /\ xst' = "done"
    /\ stop' = TRUE
    /\ Notify
    /\ act' = A("CancelStop", 0, 0)
    /\ UNCHANGED <<nodeVars, wire, out, connVars, sess, idback, hmore, hcancel, queue, released, requested, received,
                   cons, cur, got, raisedWith, cmsgs, dlv, errAt, lastAt>>

ConsumerStep == Row \/ Call \/ Enter \/ \E t \in BOOLEAN : Wake(t)
NodeStep == (\E last \in BOOLEAN : NodeSendPage(last)) \/ (\E o \in 0..1 : NodeRecv(o))

Next ==
    \/ NodeStep \/ NodeSendError
    \/ Deliver
    \/ ConsumerStep
    \/ CancelSend \/ CancelStop
    \/ SocketError \/ Close
    \/ \E w \in BOOLEAN : SetWritable(w)

Spec == Init /\ [][Next]_vars

(* liveness: the node sends what its window allows and reads what it is sent, the loop thread delivers, the      *)
(* application keeps calling next(), a started cancel() finishes.  No fairness on faults, cancel, node errors.   *)
FairSpec == Spec /\ WF_vars(NodeStep) /\ WF_vars(Deliver) /\ WF_vars(ConsumerStep) /\ WF_vars(CancelStop)

-----------------------------------------------------------------------------
TypeOK ==
    /\ nsent \in 0..MaxPages /\ nstate \in {"active", "finished", "cancelled"}
    /\ sess \in {"none", "open", "removed"}
    /\ cons \in {"next", "acq", "waiting", "ended", "raised"}
    /\ xst \in {"idle", "sent", "unsent", "failed", "done"}
    /\ hmore >= 0 /\ hcancel \in 0..1 /\ idback >= 0
    /\ \A i \in 1..Len(queue) : queue[i] \in 1..MaxPages \/ queue[i] \in {E_SRV, E_CONN, E_SHUT, E_REFUSED}

(* rows reach the application in page order, none skipped, none twice *)
InOrder == IsPrefix(got, AllRows(MaxPages))

(* the queue holds consecutive pages, the newest received one last, and continues where the consumer is *)
QueueInOrder ==
    LET pq == PagesOf(queue) IN
    /\ \A i \in 1..Len(pq) : pq[i] = dlv - Len(pq) + i
    /\ (pq # <<>> /\ raisedWith # E_BUSY) => pq[1] = cur.p + 1

(* the stream id goes back at most once; a registered session still owns it *)
IdOnce == idback <= 1 /\ (sess = "open" => idback = 0) /\ (sess = "removed" => idback >= 1)
(* after the last page the session is released and unregistered, at once *)
ReleasedOnLast == lastAt > 0 => (released /\ sess = "removed" /\ idback = 1)

(* the connection is up, nothing is in transit, the node has nothing it may send: a consumer that is done has  *)
(* left no session behind                                                                                        *)
Quiet == ~Dead /\ wire = <<>> /\ out = <<>> /\ ~NodeCanSend
NoOrphanSession == ~(Quiet /\ sess = "open" /\ cons \in {"ended", "raised"})

(* back-pressure *)
Window ==
    MQS > 0 => /\ received <= requested
               /\ requested - received <= MQS
               /\ Len(PagesOf(queue)) + (requested - received) <= MQS
               /\ nsent <= window /\ window <= requested
               /\ dlv = received
(* the consumer is never left waiting while the node may not send and nothing is on its way *)
NoStall == (cons = "waiting" /\ queue = <<>> /\ ~stop /\ ~Dead /\ nstate = "active" /\ nsent < MaxPages /\ wire = <<>> /\ out = <<>>)
               => NodeCanSend

(* cancel *)
CancelOnce == /\ cmsgs <= 1
              /\ (xst = "sent" => cmsgs = 1)
              /\ (xst \in {"idle", "unsent", "failed"} => cmsgs = 0)
              /\ Len(SelectSeq(out, LAMBDA m : m.t = "cancel")) <= cmsgs

(* an error reaches the application after exactly the pages that were queued before it *)
RaisedAfterQueued == (cons = "raised" /\ raisedWith # E_BUSY) => (errAt >= 0 /\ got = AllRows(errAt))
(* the generator ends after the complete result, or after a cancel *)
EndedComplete == cons = "ended" => ((lastAt > 0 /\ got = AllRows(lastAt)) \/ xst = "done")
(* a complete result that was not cancelled is never turned into an error (needs ~LateBP, ~RefuseLate) *)
CompleteMeansEnd == (cons = "raised" /\ raisedWith # E_BUSY) => lastAt = 0
(* no back-pressure request once the session has stopped (its stream id may belong to somebody else by then) *)
NoRequestAfterStop == [][(Len(out') > Len(out) /\ out'[Len(out')].t = "more") => ~stop]_vars
(* terminal consumer states are terminal *)
EndsOnce == [][(cons \in {"ended", "raised"}) => (cons' = cons /\ got' = got /\ raisedWith' = raisedWith)]_vars

(* the named deviation of the known finding: a closed (not defunct) connection leaves its sessions alone *)
SilentlyClosed == closed /\ ~defunct /\ ~CloseFailsSessions
Finished == cons \in {"ended", "raised"} \/ (Dead /\ sess = "none") \/ SilentlyClosed
Termination == <>Finished
CancelStops == (xst = "done") ~> (cons \in {"ended", "raised"})

-----------------------------------------------------------------------------
\* vacuity witnesses (each must be violated = reachable)
Witness_FullResult == ~(cons = "ended" /\ lastAt = MaxPages /\ xst = "idle")
Witness_Waited == ~(act.name = "Wake" /\ act.a = 0)
Witness_MoreRequested == ~(\E i \in 1..Len(out) : out[i].t = "more")
Witness_WindowExhausted == ~(MQS > 0 /\ nstate = "active" /\ nsent = window /\ nsent < MaxPages)
Witness_ErrorAfterPages == ~(cons = "raised" /\ Len(got) >= 2)
Witness_ErrorQueuedBehindPages == ~(Len(PagesOf(queue)) >= 1 /\ Len(ErrsOf(queue)) >= 1)
Witness_CancelWhileWaiting == ~(act.name = "CancelStop" /\ cons = "waiting" /\ notified)
Witness_CancelledEnd == ~(cons = "ended" /\ xst = "done" /\ lastAt = 0)
Witness_TwoErrorsQueued == ~(Len(ErrsOf(queue)) >= 2)
Witness_DeadRequestMore == ~(act.name \in {"Enter", "Wake"} /\ Dead /\ Len(queue) > 0 /\ queue[Len(queue)] = E_SHUT /\ cons = "next")
Witness_EmptyPage == ~(cons = "acq" /\ cur.p > 0 /\ Rows(cur.p) = 0)
Witness_Busy == ~(raisedWith = E_BUSY)
Witness_Refused == ~(\E i \in 1..Len(wire) : wire[i].t = "moreerr")
Witness_RefusedIgnored == ~(act.name = "Deliver" /\ released /\ lastAt > 0 /\ hmore = 0 /\ ErrsOf(queue) = <<>> /\ cons # "raised" /\ RefuseLate /\ requested > received)
Witness_SilentClose == ~(SilentlyClosed /\ cons = "waiting" /\ sess = "open")
=============================================================================
