------------------------------ MODULE Heartbeat ------------------------------
(* C44 - heartbeats detect dead idle connections without leaking capacity.       *)
(*                                                                                *)
(* Rounds of ConnectionHeartbeat.run (cassandra/connection.py:1703-1763) over the *)
(* connections handed out by the holders (HostConnection pools, the control       *)
(* connection), one action per loop iteration of its three phases:                *)
(*   SendStep  = body of "for connection in connections" (1711-1731):             *)
(*               HeartbeatFuture.__init__ (1653-1667) / reset_idle /              *)
(*               owner.return_connection for a dead connection                    *)
(*   WaitStep  = body of "for f in futures" (1737-1751): HeartbeatFuture.wait,    *)
(*               in_flight -= 1, reset_idle, or -> failed_connections              *)
(*   FailStep  = body of "for ... in failed_connections" (1753-1759):             *)
(*               connection.defunct, owner.return_connection                      *)
(* concurrently with the event loop, which delivers the answer to the OPTIONS     *)
(* request (Answer = Connection.process_msg + HeartbeatFuture._options_callback,  *)
(* or defunct()/close() on a transport failure) at any moment after it was sent.  *)
(* Between rounds connections may carry traffic (Traffic) or die (Die).           *)
(* Stream id bookkeeping (free deque, highest_request_id, in_flight) is that of   *)
(* Connection.tla; max_request_id is scaled down to MaxId.                        *)
EXTENDS Naturals, Sequences, FiniteSets, TLC

CONSTANTS NPools,       \* number of HostConnection pools (one connection each); plus the control connection
          MaxId,        \* Connection.max_request_id
          InitFree,     \* initial length of Connection.request_ids
          Rounds,       \* number of heartbeat rounds explored
          Levels,       \* in_flight levels explored at the start (subset of 0..MaxId)
          TrafficKinds  \* kinds of traffic between rounds explored: subset of {"reqresp", "late", "event"}

\* connection names in the order Cluster.get_connection_holders() yields their holders: pools, then control connection
Order   == SubSeq(<<"p1", "p2", "p3">>, 1, NPools) \o <<"cc">>
Control == {"cc"}        \* held by the ControlConnection (the others by HostConnection pools)
Conns == {Order[i] : i \in 1..Len(Order)}
Range(s) == {s[i] : i \in 1..Len(s)}
AnswerKinds == {"ok", "err", "connerr", "closed"}

VARIABLES conn,      \* c -> [alive, idle, inflight, free, highest, held]
          hb,        \* c -> state of this round's heartbeat request: none/sent/ok/err/connerr/closed/full/busy/timedout/late
          hbid,      \* c -> stream id of the heartbeat request (or MaxId+1)
          pc,        \* between / send / wait / fail / ended
          todo, futures, failed,   \* sequences of connection names: loop positions of the three phases
          sentCnt, retCnt,         \* this round: OPTIONS written per connection, owner.return_connection calls per connection
          pre,       \* snapshot of conn at the start of the round
          base,      \* snapshot of conn at Init (capacity reference for NoLeak)
          round,
          act
vars == <<conn, hb, hbid, pc, todo, futures, failed, sentCnt, retCnt, pre, base, round, act>>

Avail(r) == Range(r.free) \cup {i \in 0..MaxId : i > r.highest}

\* k requests outstanding on a fresh connection: ids taken by get_request_id()
Fresh(k, idle) ==
    [alive |-> "ok", idle |-> idle, inflight |-> k,
     free |-> IF k >= InitFree THEN <<>> ELSE [i \in 1..(InitFree - k) |-> k + i - 1],
     highest |-> IF k > InitFree THEN k - 1 ELSE InitFree - 1,
     held |-> TRUE,
     orph |-> <<>>,          \* orphaned_request_ids: in flight, timed out on the client (handler removed), answer still owed
     writable |-> TRUE]      \* Connection._socket_writable: the reactor clears it while the write buffer is backed up
Dead(how) == [Fresh(0, TRUE) EXCEPT !.alive = how]

\* a stuck connection: idle, socket not writable -> send_msg raises ConnectionBusy (not a ConnectionException)
Stuck(k) == [Fresh(k, TRUE) EXCEPT !.writable = FALSE]

\* the first outstanding request (stream id 0) has timed out on the client: ResponseFuture._on_timeout popped its
\* handler and parked the id in orphaned_request_ids; in_flight still counts it
Orphaned(k) == [Fresh(k, TRUE) EXCEPT !.orph = <<0>>]

InitConn == {Fresh(k, i) : k \in Levels, i \in BOOLEAN} \cup {Dead("defunct"), Dead("closed")}
            \cup {Stuck(k) : k \in Levels}
            \cup (IF "late" \in TrafficKinds THEN {Orphaned(k) : k \in Levels \ {0}} ELSE {})

Zero == [c \in Conns |-> 0]
Act(n, c, k) == [name |-> n, c |-> c, kind |-> k]

Init ==
    /\ conn \in [Conns -> InitConn]
    /\ hb = [c \in Conns |-> "none"] /\ hbid = [c \in Conns |-> MaxId + 1]
    /\ pc = "between" /\ todo = <<>> /\ futures = <<>> /\ failed = <<>>
    /\ sentCnt = Zero /\ retCnt = Zero
    /\ pre = conn /\ base = conn
    /\ round = 0
    /\ act = Act("Init", "", "")

Held == SelectSeq(Order, LAMBDA c : conn[c].held)

StartRound ==
    /\ pc \in {"between", "ended"} /\ round < Rounds
    /\ pc' = "send" /\ round' = round + 1
    /\ todo' = Held /\ futures' = <<>> /\ failed' = <<>>
    /\ hb' = [c \in Conns |-> "none"] /\ hbid' = [c \in Conns |-> MaxId + 1]
    /\ sentCnt' = Zero /\ retCnt' = Zero /\ pre' = conn
    /\ act' = Act("StartRound", "", "")
    /\ UNCHANGED <<conn, base>>

\* owner.return_connection(dead connection): a pool drops it (shutdown / replace), the control connection
\* schedules a reconnect and keeps the reference until that ran
HandBack(c) == [conn EXCEPT ![c].held = (c \in Control)]

SendStep ==
    /\ pc = "send" /\ todo # <<>>
    /\ LET c == Head(todo) r == conn[c] IN
       /\ todo' = Tail(todo)
       /\ act' = Act("SendStep", c, "")
       /\ IF r.alive # "ok"
          THEN /\ retCnt' = [retCnt EXCEPT ![c] = @ + 1]
               /\ conn' = HandBack(c)
               /\ UNCHANGED <<hb, hbid, futures, sentCnt, failed>>
          ELSE IF ~r.idle
          THEN /\ conn' = [conn EXCEPT ![c].idle = TRUE]                   \* reset_idle, nothing sent
               /\ UNCHANGED <<hb, hbid, futures, sentCnt, retCnt, failed>>
          ELSE IF r.inflight < MaxId /\ ~r.writable
          THEN \* HeartbeatFuture.__init__: in_flight += 1, get_request_id(), then send_msg raises ConnectionBusy:
               \* nothing written; run() catches it ("except Exception") and puts the connection on failed_connections
               /\ conn' = [conn EXCEPT ![c].inflight = @ + 1,
                                       ![c].free = IF r.free # <<>> THEN Tail(r.free) ELSE <<>>,
                                       ![c].highest = IF r.free # <<>> THEN @ ELSE @ + 1]
               /\ hb' = [hb EXCEPT ![c] = "busy"]
               /\ failed' = Append(failed, c)
               /\ UNCHANGED <<hbid, futures, sentCnt, retCnt>>
          ELSE IF r.inflight < MaxId
          THEN LET id == IF r.free # <<>> THEN Head(r.free) ELSE r.highest + 1 IN
               /\ conn' = [conn EXCEPT ![c].inflight = @ + 1,
                                       ![c].free = IF r.free # <<>> THEN Tail(r.free) ELSE <<>>,
                                       ![c].highest = IF r.free # <<>> THEN @ ELSE @ + 1]
               /\ hb' = [hb EXCEPT ![c] = "sent"] /\ hbid' = [hbid EXCEPT ![c] = id]
               /\ sentCnt' = [sentCnt EXCEPT ![c] = @ + 1]
               /\ futures' = Append(futures, c)
               /\ UNCHANGED <<retCnt, failed>>
          ELSE /\ hb' = [hb EXCEPT ![c] = "full"]                            \* no stream id left: future fails at once
               /\ futures' = Append(futures, c)
               /\ UNCHANGED <<conn, hbid, sentCnt, retCnt, failed>>
    /\ UNCHANGED <<pc, pre, base, round>>

EndSend ==
    /\ pc = "send" /\ todo = <<>>
    /\ pc' = "wait" /\ act' = Act("EndSend", "", "")
    /\ UNCHANGED <<conn, hb, hbid, todo, futures, failed, sentCnt, retCnt, pre, base, round>>

\* the event loop: the answer to the heartbeat (or a transport failure) arrives
Answer(c, k) ==
    /\ pc \in {"send", "wait", "fail"}
    /\ hb[c] \in {"sent", "timedout"} /\ conn[c].alive = "ok"
    /\ act' = Act("Answer", c, k)
    /\ IF k \in {"ok", "err"}
       THEN conn' = [conn EXCEPT ![c].free = Append(@, hbid[c]), ![c].idle = FALSE]   \* process_msg
       ELSE conn' = [conn EXCEPT ![c].alive = IF k = "connerr" THEN "defunct" ELSE "closed"]
    /\ hb' = [hb EXCEPT ![c] = IF @ = "sent" THEN k ELSE "late"]       \* after the timeout: nobody waits any more
    /\ UNCHANGED <<hbid, pc, todo, futures, failed, sentCnt, retCnt, pre, base, round>>

WaitStep ==
    /\ pc = "wait" /\ futures # <<>>
    /\ LET c == Head(futures) IN
       /\ futures' = Tail(futures)
       /\ act' = Act("WaitStep", c, hb[c])
       /\ IF hb[c] = "ok"
          THEN /\ conn' = [conn EXCEPT ![c].inflight = @ - 1, ![c].idle = TRUE]
               /\ UNCHANGED <<failed, hb>>
          ELSE /\ failed' = Append(failed, c)
               /\ hb' = [hb EXCEPT ![c] = IF @ = "sent" THEN "timedout" ELSE @]     \* OperationTimedOut
               /\ UNCHANGED conn
    /\ UNCHANGED <<hbid, pc, todo, sentCnt, retCnt, pre, base, round>>

EndWait ==
    /\ pc = "wait" /\ futures = <<>>
    /\ pc' = "fail" /\ act' = Act("EndWait", "", "")
    /\ UNCHANGED <<conn, hb, hbid, todo, futures, failed, sentCnt, retCnt, pre, base, round>>

FailStep ==
    /\ pc = "fail" /\ failed # <<>>
    /\ LET c == Head(failed) IN
       /\ failed' = Tail(failed)
       /\ act' = Act("FailStep", c, "")
       /\ conn' = [HandBack(c) EXCEPT ![c].alive = IF @ = "ok" THEN "defunct" ELSE @]
       /\ retCnt' = [retCnt EXCEPT ![c] = @ + 1]
    /\ UNCHANGED <<hb, hbid, pc, todo, futures, sentCnt, pre, base, round>>

EndRound ==
    /\ pc = "fail" /\ failed = <<>>
    /\ pc' = "ended" /\ act' = Act("EndRound", "", "")
    /\ UNCHANGED <<conn, hb, hbid, todo, futures, failed, sentCnt, retCnt, pre, base, round>>

\* between rounds: a request/response pair on the connection (capacity back to what it was, no longer idle)
\* between rounds: traffic received on the connection - every kind goes through Connection.process_msg, whose first
\* statement marks the connection as not idle:
\*   "reqresp" a request/response pair (capacity back to what it was)
\*   "late"    the server's late answer to an orphaned stream: no handler any more; in_flight -= 1, the id is
\*             recycled (the capacity the timed-out request held comes back: the reference level moves with it)
\*   "event"   a pushed event (stream id -1)
Traffic(c, k) ==
    /\ pc \in {"between", "ended"} /\ round < Rounds
    /\ conn[c].alive = "ok" /\ conn[c].held /\ conn[c].idle
    /\ LET r == conn[c] id == IF r.free # <<>> THEN Head(r.free) ELSE r.highest + 1 IN
       CASE k = "reqresp" ->
               /\ r.inflight < MaxId /\ r.writable
               /\ conn' = [conn EXCEPT ![c].idle = FALSE,
                                       ![c].free = Append(IF r.free # <<>> THEN Tail(r.free) ELSE <<>>, id),
                                       ![c].highest = IF r.free # <<>> THEN @ ELSE @ + 1]
               /\ UNCHANGED base
         [] k = "late" ->
               /\ r.orph # <<>>
               /\ conn' = [conn EXCEPT ![c].idle = FALSE, ![c].inflight = @ - 1,
                                       ![c].free = Append(@, Head(r.orph)), ![c].orph = Tail(@)]
               /\ base' = [base EXCEPT ![c] = conn'[c]]
         [] k = "event" ->
               /\ conn' = [conn EXCEPT ![c].idle = FALSE]
               /\ UNCHANGED base
    /\ pc' = "between" /\ act' = Act("Traffic", c, k)
    /\ UNCHANGED <<hb, hbid, todo, futures, failed, sentCnt, retCnt, pre, round>>

Die(c) ==
    /\ pc \in {"between", "ended"} /\ round < Rounds /\ round > 0
    /\ conn[c].alive = "ok" /\ conn[c].held
    /\ conn' = [conn EXCEPT ![c].alive = "defunct"]
    /\ pc' = "between" /\ act' = Act("Die", c, "")
    /\ UNCHANGED <<hb, hbid, todo, futures, failed, sentCnt, retCnt, pre, base, round>>

AnyAnswer  == \E c \in Conns, k \in AnswerKinds : Answer(c, k)
AnyTraffic == \E c \in Conns, k \in TrafficKinds : Traffic(c, k)
AnyDie     == \E c \in Conns : Die(c)
Next == StartRound \/ SendStep \/ EndSend \/ WaitStep \/ EndWait \/ FailStep \/ EndRound
        \/ AnyAnswer \/ AnyTraffic \/ AnyDie

Spec == Init /\ [][Next]_vars

\* ------------------------------------------------------------------ properties
TypeOK ==
    /\ \A c \in Conns :
          /\ conn[c].alive \in {"ok", "defunct", "closed"} /\ conn[c].idle \in BOOLEAN
          /\ conn[c].inflight \in 0..MaxId /\ conn[c].highest \in 0..MaxId
          /\ Range(conn[c].free) \subseteq 0..MaxId /\ conn[c].held \in BOOLEAN /\ conn[c].writable \in BOOLEAN
          /\ Range(conn[c].orph) \subseteq 0..MaxId /\ Len(conn[c].orph) <= conn[c].inflight
          /\ hb[c] \in {"none", "sent", "full", "busy", "timedout", "late"} \cup AnswerKinds
    /\ pc \in {"between", "send", "wait", "fail", "ended"} /\ round \in 0..Rounds

\* never two OPTIONS in one round, never one on a connection that was busy / dead / full at its turn
AtMostOneHeartbeat == \A c \in Conns : sentCnt[c] <= 1 /\ retCnt[c] <= 1

Healthy(r) == r.alive = "ok"

\* what a finished round must have done to every connection it was given
RoundPost ==
    pc = "ended" =>
    \A c \in Conns : pre[c].held =>
       LET p == pre[c] r == conn[c] IN
       /\ ~Healthy(p) =>                                   \* already defunct/closed: handed back to the owner
             sentCnt[c] = 0 /\ retCnt[c] = 1
       /\ Healthy(p) /\ ~p.idle =>                         \* had traffic: no heartbeat, idle flag reset, untouched
             /\ sentCnt[c] = 0 /\ retCnt[c] = 0
             /\ Healthy(r) /\ r.idle /\ r.inflight = p.inflight /\ Avail(r) = Avail(p)
       /\ Healthy(p) /\ p.idle /\ p.inflight < MaxId /\ ~p.writable =>   \* stuck socket: the heartbeat cannot be written = failed
             sentCnt[c] = 0 /\ ~Healthy(r) /\ retCnt[c] = 1
       /\ Healthy(p) /\ p.idle /\ p.inflight < MaxId /\ p.writable =>    \* idle: exactly one OPTIONS
             /\ sentCnt[c] = 1
             /\ IF hb[c] = "ok"
                THEN /\ Healthy(r) /\ retCnt[c] = 0        \* success: capacity exactly as it was
                     /\ r.inflight = p.inflight /\ Avail(r) = Avail(p)
                ELSE /\ ~Healthy(r) /\ retCnt[c] = 1       \* failure / silence: defunct, owner notified once
       /\ Healthy(p) /\ p.idle /\ p.inflight >= MaxId =>   \* no stream id for the heartbeat: counts as a failed heartbeat
             sentCnt[c] = 0 /\ ~Healthy(r) /\ retCnt[c] = 1

\* repeated rounds never leak capacity: whatever happened, a live connection outside a round has the
\* in_flight level and the available stream ids it started with
NoLeak ==
    pc \in {"between", "ended"} =>
    \A c \in Conns : Healthy(conn[c]) =>
       /\ conn[c].inflight = base[c].inflight
       /\ Avail(conn[c]) = Avail(base[c])

\* ------------------------------------------------------------------ vacuity witnesses (must be violated)
Witness_SuccessAtLevel == ~(pc = "ended" /\ \E c \in Conns : hb[c] = "ok" /\ pre[c].inflight > 0 /\ Healthy(conn[c]))
Witness_Timeout        == ~(pc = "ended" /\ \E c \in Conns : hb[c] = "timedout" /\ retCnt[c] = 1)
Witness_Full           == ~(pc = "ended" /\ \E c \in Conns : hb[c] = "full" /\ retCnt[c] = 1)
Witness_SecondRoundOk  == ~(pc = "ended" /\ round = 2 /\ \E c \in Conns : hb[c] = "ok")
Witness_StuckAmongHealthy == ~(pc = "ended" /\ \E c, d \in Conns : hb[c] = "busy" /\ retCnt[c] = 1 /\ hb[d] = "ok" /\ Healthy(conn[d]))
Witness_LateTraffic  == ~(act.name = "Traffic" /\ act.kind = "late")
Witness_EventTraffic == ~(act.name = "Traffic" /\ act.kind = "event")
Witness_LateAnswer     == ~(pc = "ended" /\ \E c \in Conns : hb[c] = "late" /\ retCnt[c] = 1)
=============================================================================
