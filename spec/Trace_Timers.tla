---------------------------- MODULE Trace_Timers ----------------------------
(* Trace validation (code -> spec) for Timers.tla.  Each recorded event names  *)
(* the operation performed on the real TimerManager / _Scheduler (e), its      *)
(* arguments (a, b) and carries the projected state of the real objects after  *)
(* it (post).  An event is accepted iff the corresponding specification action *)
(* is enabled and produces exactly the logged post-state.  For SvcStep the     *)
(* logged argument is the timer the real service_timeouts was about to call    *)
(* finish() on: it must be one of the heap's earliest entries.                 *)
EXTENDS Timers, TraceLib

VARIABLES tid, l
tvars2 == <<vars, tid, l>>

Tr == Traces[tid]
ToSet(s) == {s[i] : i \in 1..Len(s)}

PostT(p) ==
    /\ \A t \in T : /\ tst'[t] = p.tst[t]
                    /\ tend'[t] = p.tend[t]
                    /\ canc'[t] = p.canc[t]
                    /\ fired'[t] = p.fired[t]
                    /\ early'[t] = p.early[t]
    /\ svc' = p.svc
    /\ snow' = p.snow
    /\ ret' = p.ret
    /\ flog' = p.flog
    /\ NextTimeout' = p.next                    \* TimerManager.next_timeout of the real object

PostS(p) ==
    /\ q' = ToSet(p.q)
    /\ cnt' = p.cnt
    /\ stasks' = ToSet(p.stasks)
    /\ lpc' = p.lpc
    /\ cur' = p.cur
    /\ shut' = p.shut
    /\ xpc' = p.xpc
    /\ execq' = p.execq
    /\ \A k \in K : ran'[k] = p.ran[k]
    /\ log' = p.log

Post(p) ==
    /\ now' = p.now
    /\ (WithTimers => PostT(p))
    /\ (WithSched => PostS(p))

TraceInit == tid \in 1..NTraces /\ l = 1 /\ Init

TraceNext ==
    /\ l <= Len(Tr)
    /\ l' = l + 1
    /\ UNCHANGED tid
    /\ LET e == Tr[l] IN
       /\ \/ e.e = "Tick"           /\ Tick
          \/ e.e = "AddTimer"       /\ AddTimer(e.a, e.b)
          \/ e.e = "Cancel"         /\ Cancel(e.a)
          \/ e.e = "SvcMerge"       /\ SvcMerge
          \/ e.e = "SvcReadClock"   /\ SvcReadClock
          \/ e.e = "SvcStep"        /\ SvcStep(e.a)
          \/ e.e = "Schedule"       /\ Schedule(e.a, e.b)
          \/ e.e = "ScheduleUnique" /\ ScheduleUnique(e.a, e.b)
          \/ e.e = "LTop"           /\ LTop
          \/ e.e = "LGet"           /\ LGet
          \/ e.e = "LChk"           /\ LChk
          \/ e.e = "LDispatch"      /\ LDispatch
          \/ e.e = "LWake"          /\ LWake
          \/ e.e = "RunTask"        /\ RunTask
          \/ e.e = "XFlag"          /\ XFlag
          \/ e.e = "XPut"           /\ XPut
          \/ e.e = "XJoin"          /\ XJoin
       /\ Post(e.post)

TraceSpec == TraceInit /\ [][TraceNext]_tvars2

Progress == RecordProgress(tid, l)
Done == PrintProgress
=============================================================================
