--------------------------- MODULE Trace_GraphSON ---------------------------
(* Code -> spec direction of C40: TLC READS what the real GraphSON serializers *)
(* wrote.  IOEnv.TRACE_FILE is a JSON array of records                         *)
(*   {ver: 1|2|3, val: <abstract value>, wire: <JSON tree of the real output>} *)
(* (values and trees in the tuple encoding of GraphSON.tla, JSON arrays for    *)
(* tuples; the harness builds the tree from json.loads of the real output).    *)
(* One state per record; expect holds the verdict of the specification's       *)
(* reader on the real wire form:                                               *)
(*   <<"same", "">>        Rd reads it as the value that was serialized        *)
(*   <<"different", "">>   Rd reads it as another value                        *)
(*   <<"rejected", why>>   it is outside what Rd accepts for that version      *)
(* A verdict other than "same" is a defect of the WIRE FORM (a peer following  *)
(* the GraphSON documents reads something else); for C40 it is an observation  *)
(* unless the driver's own round trip fails as well.                           *)
EXTENDS GraphSON, Json, IOUtils

VARIABLE rec

Recs == JsonDeserialize(IOEnv.TRACE_FILE)

Judge(r) == LET got == Rd(r.ver, Shape(r.val), r.wire) IN
            IF IsErr(got) THEN <<"rejected", got[2]>>
            ELSE IF Same(got, Norm(r.val)) THEN <<"same", "">> ELSE <<"different", "">>

TraceInit == /\ rec \in 1..Len(Recs)
             /\ fam = "trace" /\ ver = Recs[rec].ver /\ val = Recs[rec].val /\ tree = Recs[rec].wire
             /\ alts = <<>> /\ norm = Norm(Recs[rec].val)
             /\ expect = Judge(Recs[rec])
TraceNext == UNCHANGED <<vars, rec>>
=============================================================================
