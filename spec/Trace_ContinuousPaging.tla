---------------------- MODULE Trace_ContinuousPaging ----------------------
(* Trace validation (code -> spec) for ContinuousPaging.tla.  Each recorded event names the operation      *)
(* performed on the real ContinuousPagingSession / Connection / ResultSet (or by the scripted node), with     *)
(* its arguments, and carries the projected state of the real objects after it.  An event is accepted iff     *)
(* the corresponding specification action is enabled and produces exactly the logged post-state; the          *)
(* history variables (dlv, errAt, lastAt) follow from the actions and are checked by the invariants.          *)
EXTENDS ContinuousPaging, TraceLib

VARIABLES tid, l
tvars == <<vars, tid, l>>

Tr == Traces[tid]

Post(p) ==
    /\ nsent' = p.nsent /\ nstate' = p.nstate /\ window' = p.window
    /\ wire' = p.wire
    /\ out' = p.out
    /\ defunct' = p.defunct /\ closed' = p.closed /\ writable' = p.writable
    /\ sess' = p.sess /\ idback' = p.idback /\ hmore' = p.hmore /\ hcancel' = p.hcancel
    /\ queue' = p.queue /\ stop' = p.stop /\ released' = p.released
    /\ requested' = p.requested /\ received' = p.received
    /\ cons' = p.cons /\ notified' = p.notified
    /\ cur' = p.cur
    /\ got' = p.got
    /\ raisedWith' = p.raisedWith
    /\ xst' = p.xst /\ cmsgs' = p.cmsgs

TraceInit == tid \in 1..NTraces /\ l = 1 /\ Init

TraceNext ==
    /\ l <= Len(Tr)
    /\ l' = l + 1
    /\ UNCHANGED tid
    /\ LET e == Tr[l] IN
       /\ \/ e.e = "NodeSendPage"   /\ NodeSendPage(e.b = 1) /\ nsent' = e.a
          \/ e.e = "NodeSendError"  /\ NodeSendError
          \/ e.e = "NodeRecv"       /\ NodeRecv(e.a)
          \/ e.e = "Deliver"        /\ Deliver
          \/ e.e = "SocketError"    /\ SocketError
          \/ e.e = "Close"          /\ Close
          \/ e.e = "SocketBusy"     /\ SetWritable(FALSE)
          \/ e.e = "SocketWritable" /\ SetWritable(TRUE)
          \/ e.e = "Row"            /\ Row
          \/ e.e = "Call"           /\ Call
          \/ e.e = "Enter"          /\ Enter
          \/ e.e = "Wake"           /\ Wake(e.a = 1)
          \/ e.e = "CancelSend"     /\ CancelSend
          \/ e.e = "CancelStop"     /\ CancelStop
       /\ Post(e.post)

TraceSpec == TraceInit /\ [][TraceNext]_tvars

Progress == RecordProgress(tid, l)
Done == PrintProgress
=============================================================================
