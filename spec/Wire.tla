-------------------------------- MODULE Wire --------------------------------
(* Native-protocol grammar (DESIGN.md 5.7) - index of the parts.               *)
(*                                                                             *)
(*   WirePrims.tla     notation of the protocol documents as byte-sequence     *)
(*                     combinators ([int], [short], [string], [bytes], maps,   *)
(*                     [inet], ...), the matching readers, version predicates  *)
(*   WireRequests.tla  C03: reference ENCODER of every request kind x version  *)
(*                     x option lattice, what a version can carry, and a       *)
(*                     specification-level parser (round trip invariant)       *)
(*   WireResponses.tla C04: reference GENERATOR of every response kind with    *)
(*                     the abstract content a decoder has to recover           *)
(*                                                                             *)
(* The two state spaces are enumerated separately (checks/c03.py,              *)
(* checks/c04.py; binding in harness/replay/wire_bind.py); this module only    *)
(* re-exports the shared notation.                                             *)
EXTENDS WirePrims
=============================================================================
