-------------------------- MODULE Trace_Handshake --------------------------
(* Trace validation (code -> spec) for Handshake.tla.  A trace is one real     *)
(* Connection.factory call against a scripted server: a Config event (the       *)
(* constructor arguments and locally available algorithms), then one event per *)
(* server reply (or Silence / Probe), each carrying the projection of the real  *)
(* connection afterwards: factory's view (connected_event / last_error class), *)
(* compressor / checksumming switches, and every frame it wrote, as decoded by  *)
(* the harness codec.  An event is accepted iff the handler action of the       *)
(* specification is enabled for that reply and yields exactly the logged state. *)
EXTENDS Handshake, TraceLib

VARIABLES tid, l
tvars == <<vars, tid, l>>

Tr == Traces[tid]
ToSet(s) == {s[i] : i \in 1..Len(s)}

CfgOf(t) == LET c == Traces[t][1].cfg IN
            [ver |-> c.ver, auth |-> c.auth, comp |-> c.comp, local |-> ToSet(c.local)]
Msg(e) == R(e.m.k, ToSet(e.m.algos), e.m.kind)

Post(p) ==
    /\ phase' = p.phase
    /\ outcome' = p.outcome
    /\ p.dead <=> (phase' = "Failed")
    /\ compOn' = p.compOn
    /\ cksum' = p.cksum
    /\ negotiated' = p.negotiated
    /\ Len(sent') = Len(p.sent)
    /\ \A i \in 1..Len(p.sent) :
          /\ sent'[i].op = p.sent[i].op /\ sent'[i].comp = p.sent[i].comp
          /\ sent'[i].seg = p.sent[i].seg /\ sent'[i].alg = p.sent[i].alg

TraceInit == tid \in 1..NTraces /\ l = 1 /\ InitWith(CfgOf(tid))

TraceNext ==
    /\ l <= Len(Tr)
    /\ l' = l + 1
    /\ UNCHANGED tid
    /\ LET e == Tr[l] IN
       /\ \/ e.e = "Config" /\ l = 1 /\ UNCHANGED vars
          \/ /\ e.e = "Reply" /\ e.m.k \notin {"Disconnect", "Silence"}
             /\ \/ OptionsReply(Msg(e)) \/ StartupReply(Msg(e)) \/ AuthReply(Msg(e)) \/ ServerProtoError(Msg(e))
          \/ e.e = "Reply" /\ e.m.k = "Disconnect" /\ Disconnect(e.m.kind)
          \/ e.e = "Silence" /\ Silence
          \/ e.e = "Probe" /\ Probe
       /\ Post(e.post)
       /\ Has(e, "factory") => e.factory = outcome'     \* what Connection.factory returned / raised
       /\ Has(e, "wake") => e.wake = outcome'           \* what a factory thread decides at the instant connected_event is set

TraceSpec == TraceInit /\ [][TraceNext]_tvars

Progress == RecordProgress(tid, l)
Done == PrintProgress
=============================================================================
