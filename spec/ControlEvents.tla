--------------------------- MODULE ControlEvents ---------------------------
(* XEVENTS - the control connection's handling of server-pushed events and of   *)
(* its own reconnection, with no session open (Cluster connected, sessions shut  *)
(* down): what the pushed events schedule, what the scheduled tasks do to the    *)
(* metadata, how the control connection is replaced, and shutdown.               *)
(*                                                                              *)
(* Code anchors (cassandra/):                                                   *)
(*   cluster.py  ControlConnection._handle_topology_change / _handle_status_    *)
(*               change / _handle_schema_change / _delay_for_event_type /       *)
(*               _refresh_nodes_if_not_up, _try_connect (register_watchers,     *)
(*               full refresh), _reconnect_internal (query-plan loop),          *)
(*               _reconnect, _set_new_connection, reconnect, _signal_error,     *)
(*               refresh_node_list_and_token_map, refresh_schema, on_down,      *)
(*               on_remove, return_connection, shutdown;                        *)
(*               _ControlReconnectionHandler; _Scheduler.schedule[_unique];     *)
(*               Cluster.on_up / on_down / on_add / on_remove / remove_host /   *)
(*               _start_reconnector / shutdown                                  *)
(*   pool.py     _ReconnectionHandler.start / run / cancel,                     *)
(*               _HostReconnectionHandler                                       *)
(*   connection.py  Connection.register_watchers / handle_pushed                *)
(*                                                                              *)
(* Grain.  One action per callback of the event-loop thread (one pushed event   *)
(* handled), one per scheduler hand-over (Fire), one per executor task (Exec),  *)
(* except that a control reconnection (ControlConnection._reconnect, or the run  *)
(* of a _ControlReconnectionHandler) is a logical thread with one step per      *)
(* connection attempt of its query-plan loop, one where _reconnect_internal has  *)
(* returned (_reconnect: _set_new_connection; handler: its _cancelled check) and *)
(* one for the handler's on_reconnection + callback + close (RcStep);            *)
(* Cluster.shutdown in three stretches.                                          *)
(*                                                                              *)
(* Environment.  `ring` is the true membership (every live node reports it in   *)
(* system.local / system.peers); a membership change is pushed as NEW_NODE /    *)
(* REMOVED_NODE on every connection of the driver that is open and registered   *)
(* at that moment (none: the event is lost).  Other events are pushed freely     *)
(* (bounded).  Nodes stop / start accepting connections, the installed control  *)
(* connection dies, the heartbeat reports a dead control connection.  A host    *)
(* that left the ring never comes back (one Host object per host number).       *)
(*                                                                              *)
(* Deviations.  Where the code as built breaks a property the action has two    *)
(* branches selected by the constant Fixed (name present = repaired behaviour): *)
(*   D_handler_close  _ReconnectionHandler.run closes, in `finally`, the         *)
(*                    connection its on_reconnection has just installed as the   *)
(*                    control connection (breaks InstalledOpen)                  *)
(*   D_lost_refresh   _signal_error turns a refresh that failed on a defunct     *)
(*                    connection into a down signal for its host and relies on   *)
(*                    on_down to reconnect; on_down may do nothing (breaks Fresh)*)
(*   D_func_dedup     FUNCTION / AGGREGATE schema events carry descriptor        *)
(*                    objects without __eq__: schedule_unique never recognises   *)
(*                    a repetition (breaks OnePending)                           *)
(*   D_stale_clear    a handler cancelled and replaced after its `if not         *)
(*                    self._cancelled` still runs its callback, which clears     *)
(*                    _reconnection_handler - by now the newer handler, which    *)
(*                    goes on unreferenced and uncancellable (breaks OneHandler) *)
(* findings/XEVENTS_*.py reproduce them on the real classes.                    *)
(*                                                                              *)
(* Scenarios.  The bounds are fields of a record chosen in Init (sc), so that   *)
(* one TLC run explores several small configurations (a cfg file cannot spell   *)
(* records: harness/replay/controlevents.py generates a two-line module that    *)
(* defines the set).                                                            *)
EXTENDS Integers, Sequences, FiniteSets, TLC

CONSTANTS Scenarios,   \* the configurations explored in one run: set of records (fields below); a behaviour keeps the one it starts with
          Fixed        \* deviations repaired: subset of Deviations

VARIABLE sc            \* the scenario of this behaviour (never changes)
Hosts       == sc.hosts     \* host numbers 1..N; 1 is the contact point
Ring0       == sc.ring0     \* members when the cluster connects (contains 1)
Targets     == sc.targets   \* schema-change targets (strings): "ks" a keyspace, "ks.t" a table, "ks.f(int)" a function
FuncTargets == sc.func      \* the targets among them that are functions / aggregates (the event carries a signature descriptor)
Kinds       == sc.kinds     \* spontaneous events explored: subset of {"NEW","MOVED","REMOVED","UP","DOWN","SCHEMA"}
TopoOn      == sc.topo      \* topology_event_refresh_window >= 0
SchemaOn    == sc.schema    \* schema_event_refresh_window >= 0
MaxEvents   == sc.ev        \* spontaneous pushed events per behaviour
MaxRing     == sc.nring     \* membership changes per behaviour
MaxFaults   == sc.faults    \* node stops/starts accepting, control connection deaths
MaxBeats    == sc.beats     \* heartbeat notices

Deviations == {"D_handler_close", "D_lost_refresh", "D_func_dedup", "D_stale_clear"}

VARIABLES cs,          \* driver state, one record (fields below)
          ring,        \* true membership
          ever,        \* hosts that have ever been members
          alive,       \* members accepting new connections
          budget,      \* [ev, nring, fault, beat] used so far
          phase,       \* 0 running, 1 cluster.is_shutdown + scheduler shut, 2 control connection shut, 3 executor shut
          frozen,      \* history: [sched, known, up] as of ShutA / ShutB
          act          \* the last action
vars == <<sc, cs, ring, ever, alive, budget, phase, frozen, act>>

known   == cs.known     \* Metadata._hosts in insertion order: sequence of hosts
up      == cs.up        \* [Hosts -> {"T","F","N"}]  Host.is_up of the host's Host object
lbp     == cs.lbp       \* hosts the load-balancing policy considers live (query plan = these, ascending)
hrec    == cs.hrec      \* hosts whose Host object has a reconnection handler attached
ctl     == cs.ctl       \* ControlConnection._connection: [h, st], st in none / open / defunct / closed (closed, not defunct)
chand   == cs.chand     \* ControlConnection._reconnection_handler is not None
exec    == cs.exec      \* bag of executor tasks not yet run
sched   == cs.sched     \* bag of scheduler entries
rcs     == cs.rcs       \* bag of control reconnections in flight (logical threads)
em      == cs.em        \* what the last action emitted: policy notifications, schema refreshes
nrem    == cs.nrem      \* history: [Hosts -> Nat] times the host was removed from the metadata

-----------------------------------------------------------------------------
T(k, h, x, c, a) == [k |-> k, h |-> h, x |-> x, c |-> c, a |-> a]
NoT            == T("none", 0, "", FALSE, FALSE)
TRefreshIf(h)  == T("RefreshIf", h, "", FALSE, FALSE)    \* _refresh_nodes_if_not_up(host); h = 0: host is None
TRefresh       == T("Refresh", 0, "", FALSE, FALSE)      \* refresh_node_list_and_token_map()
TOnUp(h)       == T("OnUp", h, "", FALSE, FALSE)         \* Cluster.on_up(host)
TRemoveHost(h) == T("RemoveHost", h, "", FALSE, FALSE)   \* Cluster.remove_host(host); h = 0: None
TSchema(x)     == T("Schema", 0, x, FALSE, FALSE)        \* refresh_schema(event kwargs)
TOnDown(h)     == T("OnDown", h, "", FALSE, FALSE)       \* Cluster.on_down(host, is_host_addition=False)   (executor only)
TReconnect     == T("Reconnect", 0, "", FALSE, FALSE)    \* ControlConnection._reconnect                     (executor only)
THRecon(h, c)  == T("HRecon", h, "", c, FALSE)           \* _HostReconnectionHandler.run; c = cancelled
TCRecon(c, a)  == T("CRecon", 0, "", c, a)               \* _ControlReconnectionHandler.run; c = cancelled, a = it is the
                                                         \* handler ControlConnection._reconnection_handler refers to
UniqueKinds    == {"RefreshIf", "Refresh", "OnUp", "RemoveHost", "Schema"}      \* scheduled through schedule_unique

(* a control reconnection in flight: via direct (_reconnect) / handler (run), canc = the handler was cancelled,   *)
(* att = it is the handler _reconnection_handler refers to, plan = hosts of the query plan not yet tried, conn =  *)
(* host of the connection established (0: none yet), st = "inst": a handler past its `if not self._cancelled`,    *)
(* about to call _set_new_connection (else "run")                                                                 *)
R(via, canc, att, plan, conn, st) == [via |-> via, canc |-> canc, att |-> att, plan |-> plan, conn |-> conn, st |-> st]
NoR == R("", FALSE, FALSE, <<>>, 0, "run")

EmptyBag == <<>>
BagAdd(b, t) == IF t \in DOMAIN b THEN [b EXCEPT ![t] = @ + 1] ELSE b @@ (t :> 1)
BagDel(b, t) == IF b[t] > 1 THEN [b EXCEPT ![t] = @ - 1] ELSE [x \in DOMAIN b \ {t} |-> b[x]]
BagSum(b, S) == LET it[X \in SUBSET S] == IF X = {} THEN 0 ELSE LET x == CHOOSE y \in X : TRUE IN b[x] + it[X \ {x}] IN it[S]
BagMap(b, F(_)) == [k \in {F(t) : t \in DOMAIN b} |-> BagSum(b, {t \in DOMAIN b : F(t) = k})]
BagCount(b, P(_)) == BagSum(b, {t \in DOMAIN b : P(t)})

Min(S) == CHOOSE x \in S : \A y \in S : x <= y
RECURSIVE SortedSeq(_)
SortedSeq(S) == IF S = {} THEN <<>> ELSE <<Min(S)>> \o SortedSeq(S \ {Min(S)})
ToSet(s) == {s[i] : i \in 1..Len(s)}
SeqDel(s, x) == SelectSeq(s, LAMBDA y : y # x)
FoldSeq(Op(_, _), st, s) == LET it[i \in 0..Len(s)] == IF i = 0 THEN st ELSE Op(it[i - 1], s[i]) IN it[Len(s)]

ClusterShut == phase >= 1      \* Cluster.is_shutdown
SchedShut   == phase >= 1      \* scheduler.is_shutdown
CcShut      == phase >= 2      \* ControlConnection._is_shutdown
ExecShut    == phase >= 3

-----------------------------------------------------------------------------
(* Code paths: operators from a driver-state record to a driver-state record, composed the way the methods call   *)
(* each other.                                                                                                    *)
Cur == [cs EXCEPT !.em = <<>>]
Commit(x) == cs' = x
Emit(st, x) == [st EXCEPT !.em = Append(@, x)]
Known(st) == ToSet(st.known)

Submit(st, t) == [st EXCEPT !.exec = BagAdd(@, t)]
(* _Scheduler._insert_task ignores everything once shut down; schedule_unique ignores a task already waiting *)
Schedule(st, e) == IF SchedShut THEN st ELSE [st EXCEPT !.sched = BagAdd(@, e)]
(* as built, the descriptor objects of two FUNCTION / AGGREGATE events never compare equal (D_func_dedup) *)
NeverEqual(e) == e.k = "Schema" /\ e.x \in FuncTargets /\ "D_func_dedup" \notin Fixed
ScheduleUnique(st, e) == IF e \in DOMAIN st.sched /\ ~NeverEqual(e) THEN st ELSE Schedule(st, e)

(* ControlConnection.reconnect: nothing once shut down, else _submit(_reconnect) (which checks Cluster.is_shutdown) *)
CcReconnect(st) == IF CcShut \/ ClusterShut THEN st ELSE Submit(st, TReconnect)
(* Cluster.on_down is @run_in_executor *)
ClusterOnDown(st, h) == IF ClusterShut THEN st ELSE Submit(st, TOnDown(h))

(* ControlConnection._signal_error: a defunct connection is reported as a failure of its host (convicted at once ->  *)
(* on_down, which reconnects when it really marks the control connection's host down); otherwise reconnect().      *)
(* Repaired (D_lost_refresh): reconnect() in every case - on_down may have nothing to do, or find the connection     *)
(* replaced meanwhile, and the refresh that failed would never be made up for.                                       *)
SignalError(st) ==
    IF CcShut THEN st
    ELSE LET viaHost == st.ctl.st = "defunct" /\ st.ctl.h \in Known(st)
             s1 == IF viaHost THEN ClusterOnDown(st, st.ctl.h) ELSE st
         IN IF viaHost /\ "D_lost_refresh" \notin Fixed THEN s1 ELSE CcReconnect(s1)

(* handler.cancel() of the host's handler [+ get_and_set_reconnection_handler(None)]: its entries follow *)
CancelHT(t, h) == IF t.k = "HRecon" /\ t.h = h THEN [t EXCEPT !.c = TRUE] ELSE t
CancelHost(st, h) ==
    IF h \notin st.hrec THEN st
    ELSE [st EXCEPT !.hrec = @ \ {h},
                    !.sched = BagMap(@, LAMBDA t : CancelHT(t, h)),
                    !.exec = BagMap(@, LAMBDA t : CancelHT(t, h))]
(* cancel() of the handler the control connection refers to (it stays referenced) *)
CancelCT(t) == IF t.k = "CRecon" /\ t.a THEN [t EXCEPT !.c = TRUE] ELSE t
CancelCR(r) == IF r.via = "handler" /\ r.att THEN [r EXCEPT !.canc = TRUE] ELSE r
CancelCtl(st) ==
    IF ~st.chand THEN st
    ELSE [st EXCEPT !.sched = BagMap(@, CancelCT), !.exec = BagMap(@, CancelCT), !.rcs = BagMap(@, CancelCR)]
(* _reconnection_handler = None (or another handler): the one referred to so far, if any, goes on unreferenced *)
DetachCT(t) == IF t.k = "CRecon" /\ t.a THEN [t EXCEPT !.a = FALSE] ELSE t
DetachCR(r) == IF r.via = "handler" /\ r.att THEN [r EXCEPT !.att = FALSE] ELSE r
DetachCtl(st) ==
    [st EXCEPT !.chand = FALSE, !.sched = BagMap(@, DetachCT), !.exec = BagMap(@, DetachCT), !.rcs = BagMap(@, DetachCR)]

(* Cluster.on_up without sessions: no pool future, the host is marked up at once *)
OnUpE(st, h) ==
    IF ClusterShut \/ st.up[h] = "T" THEN st
    ELSE LET s1 == CancelHost(st, h) IN
         Emit([s1 EXCEPT !.lbp = @ \cup {h}, !.up[h] = "T"], <<"up", h>>)

(* Cluster._start_reconnector *)
StartRecon(st, h) ==
    IF h \notin Known(st) THEN st
    ELSE Schedule([CancelHost(st, h) EXCEPT !.hrec = @ \cup {h}], THRecon(h, FALSE))

(* Cluster.on_down, the executor task (expect_host_to_be_down = False; no session, so nothing is discounted) *)
RunOnDown(st, h) ==
    IF ClusterShut THEN st
    ELSE LET wasUp == st.up[h] = "T"
             s1 == [st EXCEPT !.up[h] = "F"]
         IN IF ~wasUp \/ h \in st.hrec THEN s1
            ELSE LET s2 == Emit([s1 EXCEPT !.lbp = @ \ {h}], <<"down", h>>)
                     \* ControlConnection.on_down: the control connection's host, and no reconnection handler at work
                     s3 == IF s2.ctl.h = h /\ ~s2.chand THEN CcReconnect(s2) ELSE s2
                 IN StartRecon(s3, h)

(* Cluster.add_host(signal=True, refresh_nodes=False) for a host found by a refresh *)
AddHostE(st, h) ==
    LET s0 == [st EXCEPT !.known = Append(@, h)] IN
    IF ClusterShut THEN s0                                    \* on_add returns at once; is_up stays None
    ELSE Emit([s0 EXCEPT !.lbp = @ \cup {h}, !.up[h] = "T"], <<"add", h>>)

RECURSIVE RemoveHostE(_, _), RefreshE(_), DoRefresh(_, _)
(* Cluster.remove_host -> on_remove -> ControlConnection.on_remove *)
RemoveHostE(st, h) ==
    IF h \notin Known(st) THEN st
    ELSE LET s0 == [st EXCEPT !.known = SeqDel(@, h), !.nrem[h] = @ + 1] IN
         IF ClusterShut THEN s0
         ELSE LET s1 == Emit([s0 EXCEPT !.up[h] = "F", !.lbp = @ \ {h}], <<"remove", h>>)
                  s2 == IF s1.ctl.h = h THEN CcReconnect(s1)       \* "refresh will be done on reconnect"
                        ELSE RefreshE(s1)                          \* refresh_node_list_and_token_map(force_token_rebuild=True)
              IN CancelHost(s2, h)

(* ControlConnection.refresh_node_list_and_token_map through the installed connection *)
RefreshE(st) ==
    CASE st.ctl.st = "none" -> st
      [] st.ctl.st = "open" -> DoRefresh(st, st.ctl.h)
      [] OTHER              -> SignalError(st)                    \* ConnectionShutdown -> _signal_error

(* _refresh_node_list_and_token_map through a connection to host c: system.local describes c (it is never added  *)
(* here), system.peers lists the other members in ascending order; then the removal pass over a snapshot of the    *)
(* metadata in insertion order                                                                                    *)
DoRefresh(st, c) ==
    LET found == {c} \cup ring
        adds  == SortedSeq((ring \ {c}) \ Known(st))
        s1    == FoldSeq(AddHostE, st, adds)
        gone  == SelectSeq(s1.known, LAMBDA h : h \notin found)
    IN FoldSeq(RemoveHostE, s1, gone)

(* _try_connect's _refresh_schema(connection, preloaded, schema_agreement_wait=-1) and refresh_schema(event kwargs) are  *)
(* observed through what reaches ControlConnection._refresh_schema on a usable connection of a running cluster    *)
SchemaE(st, x) ==
    CASE st.ctl.st = "none" -> st
      [] ClusterShut         -> st
      [] st.ctl.st = "open"  -> Emit(st, <<"schema", x>>)
      [] OTHER               -> SignalError(st)

PlanOf(st) == SortedSeq(st.lbp)

RunTask(st, t) ==
    CASE t.k = "RefreshIf"  -> IF t.h = 0 \/ st.up[t.h] # "T" THEN RefreshE(st) ELSE st
      [] t.k = "Refresh"    -> RefreshE(st)
      [] t.k = "OnUp"       -> OnUpE(st, t.h)
      [] t.k = "RemoveHost" -> IF t.h = 0 THEN st ELSE RemoveHostE(st, t.h)
      [] t.k = "Schema"     -> SchemaE(st, t.x)
      [] t.k = "OnDown"     -> RunOnDown(st, t.h)
      [] t.k = "Reconnect"  -> [st EXCEPT !.rcs = BagAdd(@, R("direct", FALSE, FALSE, PlanOf(st), 0, "run"))]
      [] t.k = "CRecon"     -> IF t.c THEN st ELSE [st EXCEPT !.rcs = BagAdd(@, R("handler", FALSE, t.a, PlanOf(st), 0, "run"))]
      [] t.k = "HRecon"     ->
            IF t.c THEN st
            ELSE IF t.h \in alive
                 THEN [OnUpE(st, t.h) EXCEPT !.hrec = @ \ {t.h}]       \* on_reconnection, callback, probe connection closed
                 ELSE Schedule(st, THRecon(t.h, FALSE))                \* next attempt

(* one step of a control reconnection in flight *)
StepKind(r) == IF r.st = "inst" THEN "inst" ELSE IF r.conn # 0 THEN "set" ELSE IF r.plan = <<>> THEN "nohost" ELSE "try"

(* _set_new_connection(conn): the old connection is closed; after ControlConnection.shutdown() the new one is *)
Install(st, r) == IF CcShut THEN st ELSE [st EXCEPT !.ctl = [h |-> r.conn, st |-> "open"]]

(* _reconnect_internal has returned the connection.  _reconnect installs it; a handler's run() first looks at its  *)
(* _cancelled flag (cancelled while connecting: the connection is just closed)                                    *)
RcSet(st, r) ==
    IF r.via = "direct" THEN Install(st, r)
    ELSE IF r.canc THEN st
    ELSE [st EXCEPT !.rcs = BagAdd(@, [r EXCEPT !.st = "inst"])]

(* the handler's on_reconnection -> _set_new_connection(conn); its callback _get_and_set_reconnection_handler(None); *)
(* `finally: conn.close()`.  As built the callback clears whatever handler is referred to - a newer one if this one  *)
(* was cancelled and replaced since its `if not self._cancelled` (D_stale_clear); and run() closes the connection    *)
(* just installed (D_handler_close).                                                                                *)
RcInst(st, r) ==
    LET s1 == Install(st, r)
        s2 == IF "D_stale_clear" \in Fixed /\ ~r.att THEN s1 ELSE DetachCtl(s1)
    IN IF CcShut \/ "D_handler_close" \in Fixed THEN s2 ELSE [s2 EXCEPT !.ctl.st = "closed"]

(* the query plan is exhausted: NoHostAvailable *)
RcNoHost(st, r) ==
    IF r.via = "direct"                                           \* _reconnect: cancel, new handler, start()
    THEN Schedule([DetachCtl(CancelCtl(st)) EXCEPT !.chand = TRUE], TCRecon(FALSE, TRUE))
    ELSE Schedule(st, TCRecon(r.canc, r.att))                     \* run(): on_exception -> next attempt

(* _try_connect(head of the plan); rest = the thread if it goes on *)
RcTry(st, r) ==
    LET h == Head(r.plan)
        more == [r EXCEPT !.plan = Tail(@)]
        add(x, rr) == [x EXCEPT !.rcs = BagAdd(@, rr)]
    IN IF CcShut THEN st                                          \* DriverException: "...during shutdown" (handler: schedule ignored)
       ELSE IF h \notin alive THEN add(st, more)                  \* refused: next host
       ELSE LET s1 == DoRefresh(st, h)
                s2 == IF ClusterShut THEN s1 ELSE Emit(s1, <<"schema", "all">>)
            IN add(s2, [more EXCEPT !.conn = h])

RunStep(st, r) ==
    CASE StepKind(r) = "inst"   -> RcInst(st, r)
      [] StepKind(r) = "set"    -> RcSet(st, r)
      [] StepKind(r) = "nohost" -> RcNoHost(st, r)
      [] OTHER                  -> RcTry(st, r)

(* an event handled by the loop thread: ev = [kind, h, x] *)
Deliver(st, ev) ==
    LET kh == IF ev.h \in Known(st) THEN ev.h ELSE 0 IN
    CASE ev.kind \in {"NEW", "MOVED"} -> IF TopoOn THEN ScheduleUnique(st, TRefreshIf(kh)) ELSE st
      [] ev.kind = "REMOVED"          -> ScheduleUnique(st, TRemoveHost(kh))
      [] ev.kind = "UP"               -> ScheduleUnique(st, IF kh = 0 THEN TRefresh ELSE TOnUp(kh))
      [] ev.kind = "DOWN"             -> IF kh = 0 THEN st ELSE ClusterOnDown(st, kh)
      [] ev.kind = "SCHEMA"           -> IF SchemaOn THEN ScheduleUnique(st, TSchema(ev.x)) ELSE st

(* hosts the driver has an open, registered connection to: the installed one, and those of reconnections in flight *)
OpenConns(st) == (IF st.ctl.st = "open" THEN {st.ctl.h} ELSE {}) \cup {r.conn : r \in {x \in DOMAIN st.rcs : x.conn # 0}}

-----------------------------------------------------------------------------
A(name, t, r, kind, h, x, c, f, d) ==
    [name |-> name, t |-> t, r |-> r, kind |-> kind, h |-> h, x |-> x, c |-> c, f |-> f, d |-> d]
(* the entry an event asks the scheduler for (NoT: none) *)
Wanted(st, ev) ==
    LET kh == IF ev.h \in Known(st) THEN ev.h ELSE 0 IN
    CASE ev.kind \in {"NEW", "MOVED"} -> IF TopoOn THEN TRefreshIf(kh) ELSE NoT
      [] ev.kind = "REMOVED"          -> TRemoveHost(kh)
      [] ev.kind = "UP"               -> IF kh = 0 THEN TRefresh ELSE TOnUp(kh)
      [] ev.kind = "SCHEMA"           -> IF SchemaOn THEN TSchema(ev.x) ELSE NoT
      [] OTHER                        -> NoT
Dup(ev) == Wanted(cs, ev) \in DOMAIN sched

Init ==
    /\ sc \in Scenarios
    /\ cs = [known |-> SortedSeq(Ring0), up |-> [h \in Hosts |-> IF h \in Ring0 THEN "T" ELSE "N"],
             lbp |-> Ring0, hrec |-> {}, ctl |-> [h |-> 1, st |-> "open"], chand |-> FALSE,
             exec |-> EmptyBag, sched |-> EmptyBag, rcs |-> EmptyBag, em |-> <<>>, nrem |-> [h \in Hosts |-> 0]]
    /\ ring = Ring0 /\ ever = Ring0 /\ alive = Ring0
    /\ budget = [ev |-> 0, nring |-> 0, fault |-> 0, beat |-> 0]
    /\ phase = 0
    /\ frozen = [sched |-> EmptyBag, known |-> {}, up |-> [h \in Hosts |-> "N"]]
    /\ act = A("Init", NoT, NoR, "", 0, "", 0, FALSE, FALSE)

(* a worker thread runs a queued task (to its end, or - control reconnections - to where its plan is computed) *)
Exec(t) ==
    /\ t \in DOMAIN exec
    /\ Commit(RunTask([Cur EXCEPT !.exec = BagDel(exec, t)], t))
    /\ act' = A("Exec", t, NoR, "", 0, "", 0, FALSE, FALSE)
    /\ UNCHANGED <<sc, ring, ever, alive, budget, phase, frozen>>

(* the scheduler thread hands a due entry to the executor *)
Fire(e) ==
    /\ e \in DOMAIN sched
    /\ ~SchedShut
    /\ Commit(Submit([Cur EXCEPT !.sched = BagDel(sched, e)], e))
    /\ act' = A("Fire", e, NoR, "", 0, "", 0, FALSE, FALSE)
    /\ UNCHANGED <<sc, ring, ever, alive, budget, phase, frozen>>

(* a control reconnection in flight takes its next step *)
RcStep(r) ==
    /\ r \in DOMAIN rcs
    /\ Commit(RunStep([Cur EXCEPT !.rcs = BagDel(rcs, r)], r))
    /\ act' = A("RcStep", NoT, r, StepKind(r), 0, "", 0, FALSE, FALSE)
    /\ UNCHANGED <<sc, ring, ever, alive, budget, phase, frozen>>

(* a node pushes an event on an open, registered connection c of the driver *)
Push(c, kind, h, x) ==
    /\ budget.ev < MaxEvents /\ kind \in Kinds
    /\ c \in OpenConns(cs)
    /\ IF kind = "SCHEMA" THEN h = 0 /\ x \in Targets ELSE h \in Hosts /\ x = ""
    /\ kind = "REMOVED" => h \notin ring                          \* repeated / late, never wrong
    /\ budget' = [budget EXCEPT !.ev = @ + 1]
    /\ Commit(Deliver(Cur, [kind |-> kind, h |-> h, x |-> x]))
    /\ act' = A("Push", NoT, NoR, kind, h, x, c, h \in Known(cs), Dup([kind |-> kind, h |-> h, x |-> x]))
    /\ UNCHANGED <<sc, ring, ever, alive, phase, frozen>>

(* a node joins: every open registered connection gets NEW_NODE *)
RingAdd(h) ==
    /\ budget.nring < MaxRing
    /\ h \in Hosts \ ever
    /\ ring' = ring \cup {h} /\ ever' = ever \cup {h} /\ alive' = alive \cup {h}
    /\ budget' = [budget EXCEPT !.nring = @ + 1]
    /\ Commit(IF OpenConns(cs) = {} THEN Cur ELSE Deliver(Cur, [kind |-> "NEW", h |-> h, x |-> ""]))
    /\ act' = A("RingAdd", NoT, NoR, "NEW", h, "", 0, OpenConns(cs) # {}, Dup([kind |-> "NEW", h |-> h, x |-> ""]))
    /\ UNCHANGED <<sc, phase, frozen>>

(* a node leaves for good (the driver has no open connection to it): REMOVED_NODE on every open registered connection *)
RingRemove(h) ==
    /\ budget.nring < MaxRing
    /\ h \in ring /\ ring # {h}
    /\ h \notin OpenConns(cs)
    /\ ring' = ring \ {h} /\ alive' = alive \ {h}
    /\ budget' = [budget EXCEPT !.nring = @ + 1]
    /\ Commit(IF OpenConns(cs) = {} THEN Cur ELSE Deliver(Cur, [kind |-> "REMOVED", h |-> h, x |-> ""]))
    /\ act' = A("RingRemove", NoT, NoR, "REMOVED", h, "", 0, OpenConns(cs) # {}, Dup([kind |-> "REMOVED", h |-> h, x |-> ""]))
    /\ UNCHANGED <<sc, ever, phase, frozen>>

(* a member stops / starts accepting new connections *)
NodeMode(h) ==
    /\ budget.fault < MaxFaults
    /\ h \in ring
    /\ alive' = IF h \in alive THEN alive \ {h} ELSE alive \cup {h}
    /\ budget' = [budget EXCEPT !.fault = @ + 1]
    /\ Commit(Cur)
    /\ act' = A("NodeMode", NoT, NoR, IF h \in alive THEN "refuse" ELSE "accept", h, "", 0, FALSE, FALSE)
    /\ UNCHANGED <<sc, ring, ever, phase, frozen>>

(* the installed control connection breaks (socket error: defunct); nobody is told *)
ConnDie ==
    /\ budget.fault < MaxFaults
    /\ ctl.st = "open"
    /\ budget' = [budget EXCEPT !.fault = @ + 1]
    /\ Commit([Cur EXCEPT !.ctl.st = "defunct"])
    /\ act' = A("ConnDie", NoT, NoR, "", 0, "", ctl.h, FALSE, FALSE)
    /\ UNCHANGED <<sc, ring, ever, alive, phase, frozen>>

(* ConnectionHeartbeat finds the control connection defunct or closed: ControlConnection.return_connection *)
Heartbeat ==
    /\ budget.beat < MaxBeats
    /\ ~ClusterShut                                               \* Cluster.shutdown stops the heartbeat first
    /\ ctl.st \in {"defunct", "closed"}
    /\ budget' = [budget EXCEPT !.beat = @ + 1]
    /\ Commit(CcReconnect(Cur))
    /\ act' = A("Heartbeat", NoT, NoR, "", 0, "", ctl.h, FALSE, FALSE)
    /\ UNCHANGED <<sc, ring, ever, alive, phase, frozen>>

(* Cluster.shutdown in the three stretches between which other threads get to run *)
ShutA ==                       \* is_shutdown = True; scheduler.shutdown()
    /\ phase = 0 /\ phase' = 1
    /\ frozen' = [frozen EXCEPT !.sched = sched]
    /\ Commit(Cur)
    /\ act' = A("ShutA", NoT, NoR, "", 0, "", 0, FALSE, FALSE)
    /\ UNCHANGED <<sc, ring, ever, alive, budget>>
ShutB ==                       \* control_connection.shutdown(): handler cancelled, _is_shutdown, connection closed
    /\ phase = 1 /\ phase' = 2
    /\ Commit([CancelCtl(Cur) EXCEPT !.ctl = [h |-> 0, st |-> "none"]])
    /\ frozen' = [frozen EXCEPT !.known = Known(cs), !.up = up]
    /\ act' = A("ShutB", NoT, NoR, "", 0, "", 0, FALSE, FALSE)
    /\ UNCHANGED <<sc, ring, ever, alive, budget>>
ShutC ==                       \* executor.shutdown(): what is queued or running still finishes
    /\ phase = 2 /\ phase' = 3
    /\ Commit(Cur)
    /\ act' = A("ShutC", NoT, NoR, "", 0, "", 0, FALSE, FALSE)
    /\ UNCHANGED <<sc, ring, ever, alive, budget, frozen>>

ExecAny == \E t \in DOMAIN exec : Exec(t)
FireAny == \E e \in DOMAIN sched : Fire(e)
StepAny == \E r \in DOMAIN rcs : RcStep(r)
PushAny == \E c \in Hosts, kind \in Kinds, h \in Hosts \cup {0}, x \in Targets \cup {""} : Push(c, kind, h, x)
RingAny == \E h \in Hosts : RingAdd(h) \/ RingRemove(h)
ModeAny == \E h \in Hosts : NodeMode(h)

Next == ExecAny \/ FireAny \/ StepAny \/ PushAny \/ RingAny \/ ModeAny \/ ConnDie \/ Heartbeat \/ ShutA \/ ShutB \/ ShutC

Spec == Init /\ [][Next]_vars

-----------------------------------------------------------------------------
Returned == phase = 3 /\ exec = EmptyBag /\ rcs = EmptyBag         \* Cluster.shutdown() has returned
InSched(k) == \E e \in DOMAIN sched : e.k = k
InExec(k)  == \E e \in DOMAIN exec : e.k = k

TypeOK ==
    /\ ToSet(known) \subseteq ever /\ Len(known) = Cardinality(ToSet(known))
    /\ \A h \in Hosts : up[h] \in {"T", "F", "N"}
    /\ lbp \subseteq Hosts /\ hrec \subseteq Hosts
    /\ ctl.st \in {"none", "open", "defunct", "closed"} /\ (ctl.st = "none") = (ctl.h = 0)
    /\ alive \subseteq ring /\ ring \subseteq ever
    /\ phase \in 0..3

(* however many events arrive inside the window, one refresh / on_up / removal / schema refresh of a kind is pending *)
OnePending == \A e \in DOMAIN sched : e.k \in UniqueKinds => sched[e] = 1

(* what an event leaves behind *)
EventScheduled ==
    (act.name = "Push" /\ ~SchedShut) =>
        CASE act.kind \in {"NEW", "MOVED"} -> TopoOn => TRefreshIf(IF act.f THEN act.h ELSE 0) \in DOMAIN sched
          [] act.kind = "REMOVED"          -> TRemoveHost(IF act.f THEN act.h ELSE 0) \in DOMAIN sched
          [] act.kind = "UP"               -> (IF act.f THEN TOnUp(act.h) ELSE TRefresh) \in DOMAIN sched
          [] act.kind = "SCHEMA"           -> SchemaOn => TSchema(act.x) \in DOMAIN sched
          [] OTHER                         -> TRUE
RingEventScheduled ==
    (act.name \in {"RingAdd", "RingRemove"} /\ act.f /\ ~SchedShut) =>
        IF act.kind = "NEW" THEN TopoOn => TRefreshIf(0) \in DOMAIN sched
        ELSE TRemoveHost(IF act.h \in ToSet(known) THEN act.h ELSE 0) \in DOMAIN sched
(* a negative window disables the event *)
WindowOff == /\ ~TopoOn => ~InSched("RefreshIf") /\ ~InExec("RefreshIf")
             /\ ~SchemaOn => ~InSched("Schema") /\ ~InExec("Schema")
(* DOWN: on_down through the executor, nothing scheduled, no refresh; the task marks the host down *)
DownEvent ==
    [][(act'.name = "Push" /\ act'.kind = "DOWN") =>
          /\ sched' = sched /\ known' = known /\ up' = up
          /\ exec' = IF act'.f /\ ~ClusterShut THEN BagAdd(exec, TOnDown(act'.h)) ELSE exec]_vars
DownTask ==
    [][(act'.name = "Exec" /\ act'.t.k = "OnDown" /\ ~ClusterShut) =>
          /\ up'[act'.t.h] = "F" /\ known' = known
          /\ \A e \in DOMAIN sched' \ DOMAIN sched : e.k = "HRecon"]_vars
(* a host is removed from the metadata once *)
RemovedOnce == \A h \in Hosts : nrem[h] <= 1

(* the connection a reconnection installs is open (and was registered and fully refreshed by its _try_connect) *)
InstalledOpen ==
    (act.name = "RcStep" /\ ~CcShut /\ (act.kind = "inst" \/ (act.kind = "set" /\ act.r.via = "direct")))
        => (ctl.st = "open" /\ ctl.h = act.r.conn)
(* nothing pending anywhere, control connection in use: the metadata mirrors the ring - whatever was lost meanwhile *)
Idle == /\ exec = EmptyBag /\ rcs = EmptyBag
        /\ \A e \in DOMAIN sched : e.k = "HRecon" \/ (e.k = "CRecon" /\ e.c)
Fresh == (phase = 0 /\ Idle /\ ctl.st = "open") => ToSet(known) = ring

(* the reconnection handler: at most one live, and while it is attached it has its next attempt pending or running *)
LiveHandlers == BagCount(sched, LAMBDA t : t.k = "CRecon" /\ ~t.c) + BagCount(exec, LAMBDA t : t.k = "CRecon" /\ ~t.c)
                + BagCount(rcs, LAMBDA r : r.via = "handler" /\ ~r.canc)
LiveAttached == BagCount(sched, LAMBDA t : t.k = "CRecon" /\ ~t.c /\ t.a) + BagCount(exec, LAMBDA t : t.k = "CRecon" /\ ~t.c /\ t.a)
                + BagCount(rcs, LAMBDA r : r.via = "handler" /\ ~r.canc /\ r.att)
OneHandler   == LiveHandlers <= 1 /\ (LiveHandlers = 1 => chand)
KeepsTrying  == (chand /\ ~SchedShut) => LiveAttached = 1

(* shutdown *)
Uncancel(b) == BagMap(b, LAMBDA t : [t EXCEPT !.c = FALSE, !.a = FALSE])
SchedFrozen == phase >= 1 => Uncancel(sched) = Uncancel(frozen.sched)     \* nothing is scheduled, nothing fires (handlers may be cancelled)
MetaFrozen  == phase >= 2 => up = frozen.up /\ ToSet(known) \subseteq frozen.known
NoLeak      == Returned => OpenConns(cs) = {}

-----------------------------------------------------------------------------
\* vacuity witnesses (negated reachability; each must be found violated)
Witness_Dedup          == ~(act.name = "Push" /\ act.kind = "NEW" /\ ~act.f /\ act.d)
Witness_SecondAfterRun == ~(\E x \in Targets : TSchema(x) \in DOMAIN sched /\ TSchema(x) \in DOMAIN exec)
Witness_HandlerInstall == ~(act.name = "RcStep" /\ act.kind = "inst" /\ ~CcShut)
Witness_CancelledLate  == ~(act.name = "RcStep" /\ act.kind = "inst" /\ act.r.canc /\ ~act.r.att /\ ~CcShut)
Witness_SwitchedHost   == ~(ctl.st = "open" /\ ctl.h # 1 /\ phase = 0)
Witness_EventOnNewConn == ~(act.name = "Push" /\ (ctl.st # "open" \/ ctl.h # act.c))
Witness_LostRingEvent  == ~(act.name \in {"RingAdd", "RingRemove"} /\ ~act.f)
Witness_TwoReconnects  == ~(BagCount(rcs, LAMBDA r : TRUE) >= 2)
Witness_ShutMidSwitch  == ~(phase >= 2 /\ \E r \in DOMAIN rcs : r.conn # 0)
Witness_RefreshFails   == ~(act.name = "Exec" /\ act.t.k \in {"Refresh", "RefreshIf"} /\ ctl.st = "defunct" /\ InExec("OnDown"))
Witness_RetryLoop      == ~(act.name = "RcStep" /\ act.kind = "nohost" /\ act.r.via = "handler" /\ ~SchedShut)
Witness_RemovedByEvent == ~(act.name = "Exec" /\ act.t.k = "RemoveHost" /\ act.t.h # 0 /\ nrem[act.t.h] = 1)
Witness_FreshAfterLoss == ~(phase = 0 /\ Idle /\ ctl.st = "open" /\ ring # Ring0 /\ ToSet(known) = ring /\ budget.nring >= 1
                            /\ \E h \in Hosts : h \in ring \ Ring0)

(* evaluated on every state of a run with CONSTRAINT RecordWitnesses (-workers 1); POSTCONDITION PrintWitnesses *)
WitnessNames == <<"Witness_Dedup", "Witness_SecondAfterRun", "Witness_HandlerInstall", "Witness_SwitchedHost",
                  "Witness_EventOnNewConn", "Witness_LostRingEvent", "Witness_TwoReconnects", "Witness_ShutMidSwitch",
                  "Witness_RefreshFails", "Witness_RetryLoop", "Witness_RemovedByEvent", "Witness_FreshAfterLoss",
                  "Witness_CancelledLate">>
WitnessVals == <<Witness_Dedup, Witness_SecondAfterRun, Witness_HandlerInstall, Witness_SwitchedHost,
                 Witness_EventOnNewConn, Witness_LostRingEvent, Witness_TwoReconnects, Witness_ShutMidSwitch,
                 Witness_RefreshFails, Witness_RetryLoop, Witness_RemovedByEvent, Witness_FreshAfterLoss,
                 Witness_CancelledLate>>
ASSUME TLCSet(2, {})
WitnessesHere == {WitnessNames[i] : i \in {j \in 1..Len(WitnessNames) : ~WitnessVals[j]}}
RecordWitnesses == IF WitnessesHere \subseteq TLCGet(2) THEN TRUE ELSE TLCSet(2, TLCGet(2) \cup WitnessesHere)
PrintWitnesses == PrintT(<<"WITNESSES", TLCGet(2)>>)
=============================================================================
