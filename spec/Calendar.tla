------------------------------ MODULE Calendar ------------------------------
(* Reference definitions for the driver's date, time-of-day and time-UUID      *)
(* helpers (cassandra/util.py: Date, Time, uuid_from_time, min_uuid_from_time, *)
(* max_uuid_from_time, unix_time_from_uuid1, datetime_from_uuid1; and          *)
(* cassandra/cqltypes.py: SimpleDateType, TimeType, TimeUUIDType), written     *)
(* from the definitions, NOT from the driver's code:                           *)
(*  (a) the proleptic Gregorian calendar (ISO 8601 / CQL `date`): leap-year    *)
(*      rule, month lengths, day count since 1970-01-01 <-> (year, month,      *)
(*      day) for the years 1..9999, the text form 'yyyy-mm-dd', and the CQL    *)
(*      encoding (SimpleDateSerializer: unsigned 32 bit, epoch at 2^31);       *)
(*  (b) the time of day (CQL `time`, TimeSerializer: nanoseconds since         *)
(*      midnight, 0 <= t < 86400 * 10^9, a 64-bit field): <<hour, minute,      *)
(*      second, nanosecond>> <-> the text forms 'hh:mm:ss[.fffffffff]';        *)
(*  (c) version-1 UUIDs (RFC 4122, 4.1.2 - 4.1.6 and 4.2.1): the 60-bit count  *)
(*      of 100-ns intervals since 1582-10-15T00:00Z, the field layout, the     *)
(*      decode back to a unix instant, and the order Cassandra sorts           *)
(*      time-UUIDs in (org.apache.cassandra.db.marshal.TimeUUIDType.compare:   *)
(*      the timestamps first - time_hi, time_mid, time_low - then the          *)
(*      remaining 8 bytes AS SIGNED BYTES).                                    *)
(*                                                                             *)
(* TLC integers are 32 bit.  Calendar arithmetic for the years 1..9999 fits    *)
(* (|day count| < 2^22); everything wider is computed in limbs (Limbs.tla):    *)
(* an instant is [days, sod, us] = day count, second of the day, microsecond;  *)
(* a time of day is [secs, ns]; wide results are byte sequences.               *)
(*                                                                             *)
(* A case = one TLC state (fam, ph = "case", c = the input, x = the answer of  *)
(* this specification).  checks/c34.py evaluates every case on the real code.  *)
(* Seeds (ph = "seed") only spread the enumeration over TLC's workers.         *)
EXTENDS Limbs, FiniteSets, TLC

CONSTANTS Families,     \* subset of {"date", "dateall", "time", "uuid", "uuid100", "pair"}
          Rich,         \* BOOLEAN: the larger alphabets (thorough tier)
          NSeeds,       \* seeds per family (parallelism only)
          BlockSize     \* days per state in the "dateall" family

-----------------------------------------------------------------------------
\* ================================================================ (a) calendar
Leap(y) == (y % 4 = 0 /\ y % 100 # 0) \/ y % 400 = 0
MonthLen(y, m) == CASE m \in {1, 3, 5, 7, 8, 10, 12} -> 31
                    [] m \in {4, 6, 9, 11} -> 30
                    [] m = 2 -> IF Leap(y) THEN 29 ELSE 28
MinYear == 1
MaxYear == 9999
ValidCivil(y, m, d) == y \in MinYear..MaxYear /\ m \in 1..12 /\ d \in 1..MonthLen(y, m)

\* days of a common year before month m; the table is justified by the ASSUME below
Cum == <<0, 31, 59, 90, 120, 151, 181, 212, 243, 273, 304, 334>>
RECURSIVE SumMonths(_, _)
SumMonths(y, m) == IF m = 1 THEN 0 ELSE SumMonths(y, m - 1) + MonthLen(y, m - 1)
ASSUME \A m \in 1..12 : Cum[m] = SumMonths(2023, m) /\ Cum[m] + (IF m > 2 THEN 1 ELSE 0) = SumMonths(2024, m)
DaysBeforeMonth(y, m) == Cum[m] + (IF m > 2 /\ Leap(y) THEN 1 ELSE 0)
\* days in the years 1 .. y-1: 365 each plus one per leap year
DaysBeforeYear(y) == LET p == y - 1 IN 365 * p + p \div 4 - p \div 100 + p \div 400
\* 0001-01-01 is day 0 of the "ordinal" count; 1970-01-01 is ordinal 719162
EpochOrdinal == DaysBeforeYear(1970)
ASSUME EpochOrdinal = 719162
DaysFromCivil(y, m, d) == DaysBeforeYear(y) + DaysBeforeMonth(y, m) + (d - 1) - EpochOrdinal
FirstDay == DaysFromCivil(MinYear, 1, 1)       \* -719162
LastDay  == DaysFromCivil(MaxYear, 12, 31)     \* 2932896
ASSUME FirstDay = -719162 /\ LastDay = 2932896
DayInRange(n) == FirstDay <= n /\ n <= LastDay

\* the inverse: cycles of 400 / 100 / 4 / 1 years (146097 / 36524 / 1461 / 365 days)
ASSUME DaysBeforeYear(401) = 146097 /\ DaysBeforeYear(101) = 36524 /\ DaysBeforeYear(5) = 1461
Min2(a, b) == IF a < b THEN a ELSE b
Civil(n) ==                                     \* FirstDay <= n <= LastDay
    LET z    == n + EpochOrdinal
        n400 == z \div 146097
        r1   == z % 146097
        n100 == Min2(r1 \div 36524, 3)
        r2   == r1 - n100 * 36524
        n4   == r2 \div 1461
        r3   == r2 % 1461
        n1   == Min2(r3 \div 365, 3)
        doy  == r3 - n1 * 365                   \* 0-based day of the year
        y    == 400 * n400 + 100 * n100 + 4 * n4 + n1 + 1
        m    == CHOOSE k \in 1..12 : DaysBeforeMonth(y, k) <= doy /\ doy < DaysBeforeMonth(y, k) + MonthLen(y, k)
    IN <<y, m, doy - DaysBeforeMonth(y, m) + 1>>
\* an independent definition of "the next day" (cross-checks Civil)
NextDay(t) == LET y == t[1] m == t[2] d == t[3] IN
              IF d < MonthLen(y, m) THEN <<y, m, d + 1>> ELSE IF m < 12 THEN <<y, m + 1, 1>> ELSE <<y + 1, 1, 1>>

\* text: sequences of ASCII codes
Dg(k) == 48 + k
IsDg(ch) == ch \in 48..57
Hyphen == 45   Colon == 58   Dot == 46
DateText(y, m, d) == <<Dg(y \div 1000), Dg((y \div 100) % 10), Dg((y \div 10) % 10), Dg(y % 10), Hyphen,
                       Dg(m \div 10), Dg(m % 10), Hyphen, Dg(d \div 10), Dg(d % 10)>>
WellFormedDate(t) == Len(t) = 10 /\ t[5] = Hyphen /\ t[8] = Hyphen /\ \A i \in {1, 2, 3, 4, 6, 7, 9, 10} : IsDg(t[i])
ParseDateText(t) == <<(((t[1] - 48) * 10 + (t[2] - 48)) * 10 + (t[3] - 48)) * 10 + (t[4] - 48),
                      (t[6] - 48) * 10 + (t[7] - 48), (t[9] - 48) * 10 + (t[10] - 48)>>
Pack(t)   == t[1] * 10000 + t[2] * 100 + t[3]              \* yyyymmdd as one number (its digits are the text form)
Unpack(p) == <<p \div 10000, (p \div 100) % 100, p % 100>>

\* CQL date: "an unsigned integer representing days with epoch centered at 2^31" - the top bit of the two's
\* complement day count flipped; n in -2^31 .. 2^31-1
U31b(n)  == <<n \div 16777216, (n \div 65536) % 256, (n \div 256) % 256, n % 256>>
I32b(n)  == IF n >= 0 THEN U31b(n) ELSE LET m == U31b(-(n + 1)) IN <<255 - m[1], 255 - m[2], 255 - m[3], 255 - m[4]>>
DateEnc(n) == LET b == I32b(n) IN <<(b[1] + 128) % 256, b[2], b[3], b[4]>>
DateDec(b) == LET t == <<(b[1] + 128) % 256, b[2], b[3], b[4]>> IN
              IF t[1] < 128 THEN ((t[1] * 256 + t[2]) * 256 + t[3]) * 256 + t[4]
              ELSE -((((255 - t[1]) * 256 + (255 - t[2])) * 256 + (255 - t[3])) * 256 + (255 - t[4])) - 1

\* ================================================================ (b) time of day
Giga == 1000000000
DaySecs == 86400
\* a time of day: secs = seconds since midnight, ns = nanoseconds of the second; total = secs * 10^9 + ns
TimeInDay(neg, secs, ns) == ~neg /\ secs < DaySecs /\ ns \in 0..(Giga - 1)
Hms(secs) == <<secs \div 3600, (secs \div 60) % 60, secs % 60>>
SecsOf(h, mi, s) == (h * 60 + mi) * 60 + s
TotalNs(secs, ns) == Add(Mul(NatLE(secs), NatLE(Giga)), NatLE(ns))            \* limbs
TimeEnc(secs, ns) == BE(TotalNs(secs, ns), 8)                                  \* TimeSerializer: a long
\* decode: total \div 10^9 by three divisions by 1000
TimeDec(b) == LET t  == FromBE(b)
                  d1 == DivK(t, 1000)  d2 == DivK(d1.q, 1000)  d3 == DivK(d2.q, 1000) IN
              [secs |-> ToInt(Trim(d3.q)), ns |-> (d3.r * 1000 + d2.r) * 1000 + d1.r]

Pow10 == <<1, 10, 100, 1000, 10000, 100000, 1000000, 10000000, 100000000, 1000000000>>     \* Pow10[k + 1] = 10^k
Two(k) == <<Dg(k \div 10), Dg(k % 10)>>
FracDigits(ns, k) == [i \in 1..k |-> Dg((ns \div Pow10[10 - i]) % 10)] \o <<>>     \* the first k of the 9 digits
\* 'hh:mm:ss' followed, for k > 0, by '.' and k fractional digits
TimeText(h, mi, s, ns, k) == Two(h) \o <<Colon>> \o Two(mi) \o <<Colon>> \o Two(s)
                             \o (IF k = 0 THEN <<>> ELSE <<Dot>> \o FracDigits(ns, k))
Denotable(ns, k) == ns % Pow10[10 - k] = 0                    \* k digits are enough for ns
\* forms the driver documents ("HH:MM:SS[.mmmuuunnn]": milli-, micro-, nanoseconds) and produces
DocForms  == {0, 3, 6, 9}
\* other fraction lengths Cassandra's own parser also reads; not named by the driver's documentation
OpenForms == {1, 2, 4, 5, 7, 8}
WellFormedTime(t) == /\ Len(t) = 8 \/ (Len(t) \in 10..18 /\ t[9] = Dot)
                     /\ t[3] = Colon /\ t[6] = Colon
                     /\ \A i \in 1..Len(t) : i \in {3, 6, 9} \/ IsDg(t[i])
RECURSIVE DigitsVal(_)
DigitsVal(s) == IF Len(s) = 0 THEN 0 ELSE DigitsVal(SubSeq(s, 1, Len(s) - 1)) * 10 + (s[Len(s)] - 48)
ParseTimeText(t) == LET k == IF Len(t) = 8 THEN 0 ELSE Len(t) - 9 IN
                    <<DigitsVal(SubSeq(t, 1, 2)), DigitsVal(SubSeq(t, 4, 5)), DigitsVal(SubSeq(t, 7, 8)),
                      IF k = 0 THEN 0 ELSE DigitsVal(SubSeq(t, 10, Len(t))) * Pow10[10 - k]>>

\* ================================================================ (c) version-1 UUIDs
\* an instant: [days |-> day count since 1970-01-01, sod |-> 0..86399, us |-> 0..999999] (UTC, no leap seconds)
UuidEpochDay == DaysFromCivil(1582, 10, 15)          \* "00:00:00.00, 15 October 1582", proleptic Gregorian = -141427
ASSUME UuidEpochDay = -141427
TenMillion == 10000000
\* seconds between the UUID epoch and the instant's second, in limbs (days + 141427 >= 0)
SecsSinceUuidEpoch(i) == Add(Mul(NatLE(i.days - UuidEpochDay), NatLE(DaySecs)), NatLE(i.sod))
\* "a 60-bit value ... represented by Coordinated Universal Time (UTC) as a count of 100-nanosecond intervals since
\* 00:00:00.00, 15 October 1582"
Count100(i, rem) == Add(Mul(SecsSinceUuidEpoch(i), NatLE(TenMillion)), NatLE(i.us * 10 + rem))
\* the offset of the unix epoch, as the driver writes it: 0x01B21DD213814000
UnixOffset == Mul(Mul(NatLE(-UuidEpochDay), NatLE(DaySecs)), NatLE(TenMillion))
ASSUME BE(UnixOffset, 8) = <<1, 178, 29, 210, 19, 129, 64, 0>>
Below2p60(cnt) == LET b == Trim(cnt) IN Len(b) < 8 \/ (Len(b) = 8 /\ b[8] < 16)
InUuidRange(i) == i.days >= UuidEpochDay /\ Below2p60(Count100(i, 0))
Ts8(i, rem) == BE(Count100(i, rem), 8)                                          \* top nibble 0

\* RFC 4122 4.1.2: time_low (4) | time_mid (2) | time_hi_and_version (2) | clock_seq_hi_and_reserved (1) |
\* clock_seq_low (1) | node (6); version 1 in the top nibble of octet 6, variant 10x in the top bits of octet 8
Layout(ts, cs, node) == <<ts[5], ts[6], ts[7], ts[8], ts[3], ts[4], 16 + ts[1], ts[2], 128 + cs \div 256, cs % 256>> \o node
TsOf(u)      == <<u[7] % 16, u[8], u[5], u[6], u[1], u[2], u[3], u[4]>>          \* the 60-bit count, big endian
VersionOf(u) == u[7] \div 16
VariantOK(u) == u[9] \div 64 = 2
ClockSeqOf(u) == (u[9] % 64) * 256 + u[10]
NodeOf(u)    == SubSeq(u, 11, 16)
TailOf(u)    == SubSeq(u, 9, 16)
\* decode: microseconds since the unix epoch = floor((count - offset) / 10), as an instant; plus the 100-ns rest
DecodeUuid(u) ==
    LET cnt == FromBE(TsOf(u))
        d10 == DivK(cnt, 10)                       \* microseconds since the UUID epoch, rest
        d1  == DivK(d10.q, 1000)   d2 == DivK(d1.q, 1000)          \* seconds since the UUID epoch
        us  == d2.r * 1000 + d1.r
        dd  == DivK(d2.q, 60)      dh == DivK(dd.q, 60)     dy == DivK(dh.q, 24)
    IN [days |-> ToInt(Trim(dy.q)) + UuidEpochDay, sod |-> (dy.r * 60 + dh.r) * 60 + dd.r, us |-> us, rem |-> d10.r]

\* Cassandra's order.  TimeUUIDType.compareCustom: "reorderTimestampBytes" puts time_hi (with the version) | time_mid |
\* time_low into one long and compares; then "this has to be a signed per-byte comparison for compatibility" on the
\* other 8 bytes.
RECURSIVE LexLessBy(_, _, _)
SByte(b) == IF b < 128 THEN b ELSE b - 256
LexLessBy(a, b, signed) == IF Len(a) = 0 \/ Len(b) = 0 THEN Len(a) < Len(b)
                           ELSE LET x == IF signed THEN SByte(a[1]) ELSE a[1]
                                    y == IF signed THEN SByte(b[1]) ELSE b[1] IN
                                IF x # y THEN x < y ELSE LexLessBy(Tail(a), Tail(b), signed)
CassLess(u, v) == LET tu == <<u[7]>> \o Tail(TsOf(u))  tv == <<v[7]>> \o Tail(TsOf(v)) IN      \* version nibble included
                  IF tu # tv THEN LexLessBy(tu, tv, FALSE) ELSE LexLessBy(TailOf(u), TailOf(v), TRUE)
CassLeq(u, v) == ~CassLess(v, u)
\* what a comparison of the 16 bytes as unsigned bytes in field order would say (NOT Cassandra's order)
PlainLess(u, v) == LexLessBy(u, v, FALSE)
\* the least / greatest last-8-bytes of a version-1, variant-10x UUID in that order: every byte the least / greatest
\* signed byte its position admits (octet 8 is 10xxxxxx: 0x80..0xBF, i.e. -128..-65)
MinTail == <<128, 128, 128, 128, 128, 128, 128, 128>>
MaxTail == <<191, 127, 127, 127, 127, 127, 127, 127>>
ASSUME /\ \A b \in 0..255 : SByte(128) <= SByte(b) /\ SByte(b) <= SByte(127)
       /\ \A b \in 128..191 : SByte(128) <= SByte(b) /\ SByte(b) <= SByte(191)
MinUuid(ts) == SubSeq(Layout(ts, 0, <<>>), 1, 8) \o MinTail
MaxUuid(ts) == SubSeq(Layout(ts, 0, <<>>), 1, 8) \o MaxTail

InstLess(i, j) == i.days < j.days \/ (i.days = j.days /\ (i.sod < j.sod \/ (i.sod = j.sod /\ i.us < j.us)))

-----------------------------------------------------------------------------
\* ================================================================ alphabets
\* ---- dates
Years == {1, 2, 3, 4, 5, 99, 100, 101, 399, 400, 401, 1000, 1582, 1583, 1600, 1699, 1700, 1752, 1899, 1900, 1901, 1968,
          1969, 1970, 1971, 1972, 1999, 2000, 2001, 2023, 2024, 2025, 2026, 2027, 2037, 2038, 2039, 2100, 2106, 2400,
          4000, 5236, 9600, 9900, 9995, 9996, 9997, 9998, 9999}
DaysOfMonth(y, m) == LET L == MonthLen(y, m) IN {1, 2, 15, L - 1, L} \cup (IF m = 2 THEN {28} ELSE {})
CivilSet == {<<y, m, d>> : y \in Years, m \in 1..12, d \in 1..31} \cap
            UNION {{<<y, m, d>> : d \in DaysOfMonth(y, m)} : y \in Years, m \in 1..12}
MaxI == 2147483647
MinI == (-2147483647) - 1
\* raw day counts: the epoch neighbourhood, both ends of the year range and one step outside, the ends of the CQL
\* encoding (2^31 offset), byte boundaries of the encoding
RawDays == (-3..3) \cup {FirstDay, FirstDay + 1, FirstDay - 1, LastDay, LastDay - 1, LastDay + 1,
                         MaxI, MaxI - 1, MinI, MinI + 1, 255, 256, -256, -257, 65535, 65536, -65536, -65537,
                         16777215, 16777216, -16777216, -16777217, 19000, 20718}

\* ---- times
HourSet == IF Rich THEN {0, 1, 9, 11, 12, 13, 22, 23} ELSE {0, 12, 23}
MinSet  == IF Rich THEN {0, 1, 9, 30, 58, 59} ELSE {0, 59}
SecSet  == IF Rich THEN {0, 1, 9, 30, 58, 59} ELSE {0, 1, 59}
NsSet   == {0, 1, 9, 10, 99, 100, 999, 1000, 1001, 999999, 1000000, 1000001, 123456789, 120000000, 500000000,
            100000000, 999000000, 999999000, 999999999}
           \cup (IF Rich THEN {5, 50, 12300, 7000000, 30000000, 1234000, 999999990, 999999900, 900000000} ELSE {})
\* integers that are not a time of day
BadInts == {[neg |-> FALSE, secs |-> s, ns |-> n] : s \in {DaySecs, DaySecs + 1, 2 * DaySecs, MaxI}, n \in {0, 1, Giga - 1}}
           \cup {[neg |-> TRUE, secs |-> s, ns |-> n] : s \in {0, 1, DaySecs - 1, DaySecs, MaxI}, n \in {1, Giga - 1}}
           \cup {[neg |-> TRUE, secs |-> s, ns |-> 0] : s \in {1, DaySecs}}
\* 'hh:mm:ss[.fff]' strings whose fields are not a time of day
BadFields == {<<h, mi, s>> : h \in {24, 25, 99}, mi \in {0, 59}, s \in {0, 59}}
             \cup {<<23, 59, 60>>, <<23, 59, 61>>, <<23, 60, 0>>, <<23, 60, 59>>, <<0, 0, 60>>, <<12, 30, 60>>, <<0, 60, 0>>,
                   <<12, 30, 61>>, <<23, 59, 99>>}

\* 'hh:mm:ss.f...' with MORE than nine fractional digits: not a form the driver documents ("HH:MM:SS[.mmmuuunnn]"), and
\* not losslessly representable (nanoseconds).  The time such a string spells is hh:mm:ss plus a fraction below one
\* second, i.e. within the day whenever hh:mm:ss is.  Fractions are given as digit sequences (their value as an integer
\* does not fit TLC's numbers): all nines, 0.1 ns, exactly 0.1 s written with ten digits, twelve mixed digits.
LongFractions == {[k \in 1..10 |-> 9], [k \in 1..10 |-> IF k = 10 THEN 1 ELSE 0], [k \in 1..10 |-> IF k = 1 THEN 1 ELSE 0],
                  <<1, 3, 8, 3, 3, 6, 8, 4, 5, 8, 9, 1>>, [k \in 1..11 |-> IF k = 11 THEN 0 ELSE 9]}
LongFields == {<<23, 59, 59>>, <<23, 59, 0>>, <<0, 0, 0>>, <<12, 30, 0>>, <<23, 58, 59>>}
LongText(f, ds) == Two(f[1]) \o <<Colon>> \o Two(f[2]) \o <<Colon>> \o Two(f[3]) \o <<Dot>> \o [k \in 1..Len(ds) |-> Dg(ds[k])]
WellFormedLongTime(t) == /\ Len(t) >= 19 /\ t[3] = Colon /\ t[6] = Colon /\ t[9] = Dot
                         /\ \A i \in 1..Len(t) : i \in {3, 6, 9} \/ IsDg(t[i])

\* ---- instants for time-UUIDs
Inst(t, sod, us) == [days |-> DaysFromCivil(t[1], t[2], t[3]), sod |-> sod, us |-> us]
UuidDates == IF Rich THEN {<<1582, 10, 15>>, <<1582, 10, 16>>, <<1583, 1, 1>>, <<1600, 2, 29>>, <<1684, 7, 27>>, <<1684, 7, 29>>,
                           <<1900, 1, 1>>, <<1969, 12, 31>>, <<1970, 1, 1>>, <<1970, 1, 2>>, <<2001, 9, 9>>, <<2026, 9, 22>>,
                           <<2027, 1, 31>>, <<2027, 2, 2>>, <<2038, 1, 19>>, <<2084, 3, 2>>, <<2084, 3, 4>>, <<2106, 2, 7>>, <<2242, 3, 17>>, <<2255, 6, 5>>,
                           <<2255, 6, 7>>, <<2300, 1, 1>>, <<4000, 2, 29>>, <<5236, 3, 30>>}
             ELSE {<<1582, 10, 15>>, <<1600, 2, 29>>, <<1969, 12, 31>>, <<1970, 1, 1>>, <<2026, 9, 22>>, <<2027, 2, 2>>,
                   <<2106, 2, 7>>, <<2300, 1, 1>>, <<5236, 3, 30>>}
SodSet == IF Rich THEN {0, 1, 43200, 86399} ELSE {0, 86399}
UsSet  == IF Rich THEN {0, 1, 2, 3, 7, 999, 1000, 1001, 125000, 250000, 499999, 500000, 500001, 999998, 999999}
          ELSE {0, 1, 999, 500000, 999999}
\* where a field of the layout overflows into the next (count 2^32, 2^48) and the last instant a 60-bit count holds
EdgeInstants == {Inst(<<1582, 10, 15>>, 429, 496729), Inst(<<1582, 10, 15>>, 429, 496730),
                 Inst(<<1583, 9, 5>>, 67497, 671065), Inst(<<1583, 9, 5>>, 67497, 671066),
                 Inst(<<5236, 3, 31>>, 76860, 684697), Inst(<<5236, 3, 31>>, 76860, 684696),
                 Inst(<<2038, 1, 19>>, 11648, 0), Inst(<<2106, 2, 7>>, 23296, 0)}
Instants == {i \in {Inst(t, s, u) : t \in UuidDates, s \in SodSet, u \in UsSet} \cup EdgeInstants : InUuidRange(i)}
Rep(b) == <<b, b, b, b, b, b>>
Nodes == {Rep(0), Rep(255), Rep(128), Rep(127), <<1, 35, 69, 103, 137, 171>>, <<128, 0, 0, 0, 0, 0>>}
         \cup (IF Rich THEN {<<127, 128, 0, 255, 129, 126>>} ELSE {})
ClockSeqs == {0, 1, 128, 16383, 16255}                                  \* 0x0000, 0x0001, 0x0080, 0x3FFF, 0x3F7F
             \cup (IF Rich THEN {255, 8192} ELSE {})
\* for the order itself: a few instants x tails chosen around the sign bit
PairInstants == {Inst(<<1970, 1, 1>>, 0, 0), Inst(<<1970, 1, 1>>, 0, 1), Inst(<<1582, 10, 15>>, 429, 496729),
                 Inst(<<1582, 10, 15>>, 429, 496730)} \cup (IF Rich THEN {Inst(<<2026, 9, 22>>, 43200, 500000)} ELSE {})
PairNodes == {Rep(0), Rep(255), Rep(127), <<128, 0, 0, 0, 0, 0>>} \cup (IF Rich THEN {Rep(128)} ELSE {})
PairSeqs  == {0, 128, 16255} \cup (IF Rich THEN {16383} ELSE {})
Rems == {1, 4, 5, 6, 9}

-----------------------------------------------------------------------------
\* ================================================================ the answers
DateAnswer(n) ==
    IF DayInRange(n)
    THEN LET t == Civil(n) IN [inrange |-> TRUE, ymd |-> t, text |-> DateText(t[1], t[2], t[3]), enc |-> DateEnc(n)]
    ELSE [inrange |-> FALSE, ymd |-> <<>>, text |-> <<>>, enc |-> DateEnc(n)]

TimeForms(h, ns, ks) == LET t == Hms(h) IN {TimeText(t[1], t[2], t[3], ns, k) : k \in {j \in ks : Denotable(ns, j)}}
TimeAnswer(secs, ns) ==
    LET t == Hms(secs) IN
    [expect |-> "ok", hmsn |-> <<t[1], t[2], t[3], ns>>, enc |-> TimeEnc(secs, ns),
     forms |-> TimeForms(secs, ns, DocForms), openforms |-> TimeForms(secs, ns, OpenForms),
     whole_us |-> ns % 1000 = 0]
\* a string of well-formed fields that do not make a time of day: it must be refused when the time it spells lies
\* outside the day; when only a field is out of its range but the total is within the day the statement is silent
BadStringExpect(h, mi, s) == IF SecsOf(h, mi, s) >= DaySecs THEN "reject" ELSE "open"

UuidAnswer(ts, node, cs) ==          \* ts = Ts8(instant, 0)
    [ts |-> ts, uuid |-> Layout(ts, cs, node), min |-> MinUuid(ts), max |-> MaxUuid(ts)]

Rel(u, v) == IF CassLess(u, v) THEN "lt" ELSE IF CassLess(v, u) THEN "gt" ELSE "eq"

-----------------------------------------------------------------------------
VARIABLES fam, ph, c, x
vars == <<fam, ph, c, x>>

Init == /\ fam \in Families
        /\ ph = "seed"
        /\ c \in {[seed |-> s] : s \in 0..(NSeeds - 1)}
        /\ x = <<>>

Mine(k) == k % NSeeds = c.seed                   \* this seed's share of an enumeration by numbers
Emit(cc, xx) == ph' = "case" /\ c' = cc /\ x' = xx /\ UNCHANGED fam

DateCivilCase == /\ fam = "date" /\ ph = "seed"
                 /\ \E t \in CivilSet : /\ Mine(t[1] + t[2])
                                        /\ LET n == DaysFromCivil(t[1], t[2], t[3]) IN
                                           Emit([n |-> n, from |-> t], DateAnswer(n))
DateRawCase   == /\ fam = "date" /\ ph = "seed"
                 /\ \E n \in RawDays : Mine(n % 7) /\ Emit([n |-> n, from |-> <<>>], DateAnswer(n))

\* every day of the years 1..9999, BlockSize days per state; packed[i] = yyyymmdd of day start + i - 1
NBlocks == (LastDay - FirstDay) \div BlockSize + 1
DateBlockCase == /\ fam = "dateall" /\ ph = "seed"
                 /\ \E b \in 0..(NBlocks - 1) :
                      /\ Mine(b)
                      /\ LET s == FirstDay + b * BlockSize
                             e == Min2(s + BlockSize - 1, LastDay) IN
                         Emit([start |-> s, count |-> e - s + 1], [packed |-> [k \in 1..(e - s + 1) |-> Pack(Civil(s + k - 1))] \o <<>>])

TimeValueCase == /\ fam = "time" /\ ph = "seed"
                 /\ \E h \in HourSet, mi \in MinSet, s \in SecSet, ns \in NsSet :
                      /\ Mine(h + mi + s)
                      /\ Emit([kind |-> "value", secs |-> SecsOf(h, mi, s), ns |-> ns], TimeAnswer(SecsOf(h, mi, s), ns))
TimeBadIntCase == /\ fam = "time" /\ ph = "seed" /\ c.seed = 0
                  /\ \E v \in BadInts : Emit([kind |-> "int", neg |-> v.neg, secs |-> v.secs, ns |-> v.ns],
                                             [expect |-> "reject", why |-> IF v.neg THEN "negative" ELSE "beyond-the-day"])
TimeBadStringCase == /\ fam = "time" /\ ph = "seed" /\ c.seed = 0
                     /\ \E f \in BadFields, k \in {0, 3, 9}, ns \in {0, Giga - 1} :
                          /\ Denotable(ns, k) \/ k = 9
                          /\ Emit([kind |-> "string", text |-> TimeText(f[1], f[2], f[3], ns, k), fields |-> <<f[1], f[2], f[3], ns>>],
                                  [expect |-> BadStringExpect(f[1], f[2], f[3]), why |-> "fields-beyond-the-day"])

\* what the statement says about such a string: it need not be accepted, and no particular value is promised (both
\* recorded, not judged) - but "only accepts times within one day": if it is accepted the result is a time of the day.
\* nine |-> the value a parser keeping the first nine digits gives (for the record only)
TimeLongFractionCase == /\ fam = "time" /\ ph = "seed" /\ c.seed = 0
                        /\ \E f \in LongFields, ds \in LongFractions :
                             Emit([kind |-> "longfraction", text |-> LongText(f, ds), fields |-> f, digits |-> Len(ds)],
                                  [expect |-> "within", why |-> "fraction-of-more-than-nine-digits",
                                   nine |-> [secs |-> SecsOf(f[1], f[2], f[3]), ns |-> DigitsVal([k \in 1..9 |-> Dg(ds[k])])]])

UuidCase == /\ fam = "uuid" /\ ph = "seed"
            /\ \E i \in Instants : /\ Mine(i.days + i.us + i.sod)
                                   /\ LET ts == Ts8(i, 0) IN
                                      \E node \in Nodes, cs \in ClockSeqs :
                                        Emit([inst |-> i, node |-> node, cs |-> cs], UuidAnswer(ts, node, cs))
\* UUIDs whose count is not a whole number of microseconds (made elsewhere): decoding only
Uuid100Case == /\ fam = "uuid100" /\ ph = "seed"
               /\ \E i \in Instants, r \in Rems : /\ Mine(i.days + i.us + r) /\ Below2p60(Count100(i, r))
                                                  /\ Emit([inst |-> i, rem |-> r], [uuid |-> Layout(Ts8(i, r), 0, Rep(0))])
PairCase == /\ fam = "pair" /\ ph = "seed"
            /\ \E i \in PairInstants, j \in PairInstants : /\ Mine(i.us + j.sod)
               /\ LET ti == Ts8(i, 0)  tj == Ts8(j, 0) IN
                  \E n1 \in PairNodes, n2 \in PairNodes, s1 \in PairSeqs, s2 \in PairSeqs :
                    LET u == Layout(ti, s1, n1)  v == Layout(tj, s2, n2) IN
                    Emit([a |-> [inst |-> i, node |-> n1, cs |-> s1], b |-> [inst |-> j, node |-> n2, cs |-> s2]],
                         [ua |-> u, ub |-> v, rel |-> Rel(u, v), plain |-> IF PlainLess(u, v) THEN "lt" ELSE IF PlainLess(v, u) THEN "gt" ELSE "eq"])

Next == DateCivilCase \/ DateRawCase \/ DateBlockCase \/ TimeValueCase \/ TimeBadIntCase \/ TimeBadStringCase \/ TimeLongFractionCase
        \/ UuidCase \/ Uuid100Case \/ PairCase
Spec == Init /\ [][Next]_vars

-----------------------------------------------------------------------------
\* ================================================================ the property's formulas, on the specification
IsBytes(b, w) == Len(b) = w /\ \A k \in 1..w : b[k] \in 0..255
Case(f) == ph = "case" /\ fam = f

\* ---- C34 (a): day count <-> date <-> text are bijections on the years 1..9999
DateRoundTrip ==
    Case("date") /\ x.inrange =>
        /\ ValidCivil(x.ymd[1], x.ymd[2], x.ymd[3])
        /\ DaysFromCivil(x.ymd[1], x.ymd[2], x.ymd[3]) = c.n                    \* days -> date -> days
        /\ (c.from # <<>> => x.ymd = c.from)                                     \* date -> days -> date
        /\ WellFormedDate(x.text) /\ ParseDateText(x.text) = x.ymd               \* date -> text -> date
        /\ (c.n < LastDay => Civil(c.n + 1) = NextDay(x.ymd))                    \* the closed form agrees with "next day"
DateEncoding == Case("date") => IsBytes(x.enc, 4) /\ DateDec(x.enc) = c.n
DateRangeExact == Case("date") => (x.inrange <=> (c.from # <<>> \/ \E y \in MinYear..MaxYear : DaysFromCivil(y, 1, 1) <= c.n /\ c.n <= DaysFromCivil(y, 12, 31)))
DateBlocks ==
    Case("dateall") =>
        /\ Len(x.packed) = c.count
        /\ \A k \in 1..c.count :
              LET t == Unpack(x.packed[k]) IN
              /\ ValidCivil(t[1], t[2], t[3])
              /\ DaysFromCivil(t[1], t[2], t[3]) = c.start + k - 1
              /\ (k < c.count => Unpack(x.packed[k + 1]) = NextDay(t))
\* the digits of yyyymmdd are the text form without the hyphens (the harness prints blocks from the packed number)
PackedIsText == Case("date") /\ x.inrange =>
                   LET p == Pack(x.ymd) IN
                   <<x.text[1], x.text[2], x.text[3], x.text[4], x.text[6], x.text[7], x.text[9], x.text[10]>>
                     = [k \in 1..8 |-> Dg((p \div Pow10[9 - k]) % 10)]

\* ---- C34 (b): nanoseconds <-> <<h, m, s, ns>> <-> strings; only times within one day
TimeRoundTrip ==
    Case("time") /\ x.expect = "ok" =>
        /\ TimeInDay(FALSE, c.secs, c.ns)
        /\ x.hmsn[1] \in 0..23 /\ x.hmsn[2] \in 0..59 /\ x.hmsn[3] \in 0..59
        /\ SecsOf(x.hmsn[1], x.hmsn[2], x.hmsn[3]) = c.secs /\ x.hmsn[4] = c.ns
        /\ IsBytes(x.enc, 8) /\ TimeDec(x.enc) = [secs |-> c.secs, ns |-> c.ns]
        /\ \A f \in x.forms \cup x.openforms : WellFormedTime(f) /\ ParseTimeText(f) = x.hmsn
        /\ TimeText(x.hmsn[1], x.hmsn[2], x.hmsn[3], c.ns, 9) \in x.forms
        /\ Less(TotalNs(c.secs, c.ns), Mul(NatLE(DaySecs), NatLE(Giga)))
TimeRejectJustified ==
    Case("time") /\ x.expect = "reject" =>
        IF c.kind = "int" THEN ~TimeInDay(c.neg, c.secs, c.ns) /\ (c.neg => c.secs > 0 \/ c.ns > 0)
        ELSE /\ WellFormedTime(c.text) /\ ParseTimeText(c.text) = c.fields
             /\ Leq(Mul(NatLE(DaySecs), NatLE(Giga)), TotalNs(SecsOf(c.fields[1], c.fields[2], c.fields[3]), c.fields[4]))

\* a string with a longer fraction spells a time within the day (so the statement does not demand its refusal), and is not
\* one of the documented forms of any value
TimeLongFraction ==
    Case("time") /\ x.expect = "within" =>
        /\ WellFormedLongTime(c.text) /\ ~WellFormedTime(c.text) /\ c.digits > 9 /\ Len(c.text) = 9 + c.digits
        /\ c.fields[1] \in 0..23 /\ c.fields[2] \in 0..59 /\ c.fields[3] \in 0..59
        /\ SecsOf(c.fields[1], c.fields[2], c.fields[3]) < DaySecs
        /\ TimeInDay(FALSE, x.nine.secs, x.nine.ns)
        /\ SubSeq(c.text, 1, 18) = TimeText(c.fields[1], c.fields[2], c.fields[3], x.nine.ns, 9)

\* ---- C34 (c): layout, decode, bounds in Cassandra's order
UuidLayout ==
    Case("uuid") =>
        /\ IsBytes(x.uuid, 16) /\ IsBytes(x.min, 16) /\ IsBytes(x.max, 16) /\ x.ts[1] < 16
        /\ VersionOf(x.uuid) = 1 /\ VariantOK(x.uuid) /\ VersionOf(x.min) = 1 /\ VariantOK(x.min) /\ VersionOf(x.max) = 1 /\ VariantOK(x.max)
        /\ TsOf(x.uuid) = x.ts /\ ClockSeqOf(x.uuid) = c.cs /\ NodeOf(x.uuid) = c.node
        /\ TsOf(x.min) = x.ts /\ TsOf(x.max) = x.ts
        /\ TailOf(x.min) = MinTail /\ TailOf(x.max) = MaxTail
UuidDecode ==      \* "decode back to that instant"
    Case("uuid") => DecodeUuid(x.uuid) = [days |-> c.inst.days, sod |-> c.inst.sod, us |-> c.inst.us, rem |-> 0]
\* count = offset + 10 * (unix microseconds): checked for instants at or after the unix epoch (both sides natural)
UuidOffset ==
    Case("uuid") /\ c.inst.days >= 0 =>
        Eq(FromBE(x.ts), Add(UnixOffset, Add(Mul(Add(Mul(NatLE(c.inst.days), NatLE(DaySecs)), NatLE(c.inst.sod)), NatLE(TenMillion)),
                                             NatLE(c.inst.us * 10))))
UuidBounds ==      \* min <= u <= max in Cassandra's order, whatever the node and clock sequence
    Case("uuid") => CassLeq(x.min, x.uuid) /\ CassLeq(x.uuid, x.max)
Uuid100Decode ==
    Case("uuid100") => DecodeUuid(x.uuid) = [days |-> c.inst.days, sod |-> c.inst.sod, us |-> c.inst.us, rem |-> c.rem]
\* the order is total, follows the instants, and within an instant the signed tails
OrderSane ==
    Case("pair") =>
        /\ x.rel = "eq" <=> x.ua = x.ub
        /\ (InstLess(c.a.inst, c.b.inst) => x.rel = "lt") /\ (InstLess(c.b.inst, c.a.inst) => x.rel = "gt")
        /\ (c.a.inst = c.b.inst /\ x.rel = "lt" => LexLessBy(TailOf(x.ua), TailOf(x.ub), TRUE))
        /\ (x.rel = "lt" <=> Rel(x.ub, x.ua) = "gt")

TypeOK == /\ fam \in Families /\ ph \in {"seed", "case"}
          /\ Case("time") => x.expect \in {"ok", "reject", "open", "within"}

-----------------------------------------------------------------------------
\* ================================================================ vacuity witnesses (TLC must VIOLATE each)
\* Each is the negation of ONE particular case (checks/_calendar.py checks them in the enumeration run with -continue).
E0 == Inst(<<1970, 1, 1>>, 0, 0)
Witness_LeapCentury   == ~(Case("date") /\ x.inrange /\ x.ymd = <<2000, 2, 29>> /\ c.from = <<2000, 2, 29>>)
Witness_NoLeapCentury == ~(Case("date") /\ x.inrange /\ x.ymd = <<1900, 3, 1>> /\ c.n = DaysFromCivil(1900, 2, 28) + 1)
Witness_YearOne       == ~(Case("date") /\ x.inrange /\ c.from = <<1, 1, 1>> /\ c.n = FirstDay /\ x.text = <<48, 48, 48, 49, 45, 48, 49, 45, 48, 49>>)
Witness_Year9999      == ~(Case("date") /\ x.inrange /\ c.from = <<9999, 12, 31>> /\ x.enc = <<128, 44, 192, 160>>)
Witness_DateOutside   == ~(Case("date") /\ ~x.inrange /\ x.enc = <<255, 255, 255, 255>>)
Witness_LastNano      == ~(Case("time") /\ x.expect = "ok" /\ x.hmsn = <<23, 59, 59, 999999999>> /\ x.enc = <<0, 0, 78, 148, 145, 78, 255, 255>>)
Witness_ShortForms    == ~(Case("time") /\ x.expect = "ok" /\ x.hmsn = <<12, 0, 0, 0>> /\ Cardinality(x.forms) = 4)
Witness_TimeNegative  == ~(Case("time") /\ x.expect = "reject" /\ c.kind = "int" /\ c.neg /\ c.secs = 0 /\ c.ns = 1)
Witness_TimeString60  == ~(Case("time") /\ x.expect = "reject" /\ c.kind = "string" /\ c.fields = <<23, 59, 60, 0>> /\ Len(c.text) = 8)
Witness_TimeOpen      == ~(Case("time") /\ x.expect = "open" /\ c.fields = <<0, 0, 60, 0>> /\ Len(c.text) = 8)
Witness_LongFraction  == ~(Case("time") /\ x.expect = "within" /\ c.fields = <<23, 59, 59>> /\ c.digits = 10 /\ x.nine.ns = 999999999)
Witness_TimeLowWraps  == ~(Case("uuid") /\ SubSeq(x.uuid, 1, 4) = <<0, 0, 0, 4>> /\ x.uuid[6] = 1 /\ c.node = Rep(0) /\ c.cs = 0)
Witness_Pre1970       == ~(Case("uuid") /\ c.inst = Inst(<<1969, 12, 31>>, 86399, 999999) /\ c.node = Rep(255) /\ c.cs = 16383)
Witness_SignBitNode   == ~(Case("uuid") /\ c.inst = E0 /\ c.node = Rep(255) /\ c.cs = 16383 /\ PlainLess(x.max, x.uuid) /\ CassLess(x.uuid, x.max))
Witness_Last60        == ~(Case("uuid") /\ x.ts = <<15, 255, 255, 255, 255, 255, 255, 250>> /\ c.node = Rep(0) /\ c.cs = 0)
Witness_SignedDiffers == ~(Case("pair") /\ x.rel = "lt" /\ x.plain = "gt" /\ c.a = [inst |-> E0, node |-> Rep(255), cs |-> 0]
                           /\ c.b = [inst |-> E0, node |-> Rep(0), cs |-> 0])
Witness_Rem           == ~(Case("uuid100") /\ c.rem = 9 /\ c.inst = E0)
=============================================================================
