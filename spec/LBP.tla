-------------------------------- MODULE LBP --------------------------------
(* Built-in load-balancing policies of the driver (cassandra/policies.py)    *)
(* under the membership events the cluster delivers (C21).                   *)
(*                                                                           *)
(* The specification is the *intended* behaviour: what a policy must         *)
(* consider live after a history of events, and which constraints every      *)
(* query plan and every distance() answer has to satisfy in that state.  It  *)
(* does not prescribe one plan: round-robin rotation and the order inside    *)
(* the local part / inside a remote datacenter are left open (DESIGN 13).    *)
(*                                                                           *)
(* Hosts are 1..N.  dc[h] is the datacenter the cluster currently reports    *)
(* for h (NoDC = not known yet: contact points before the first refresh).    *)
(* Events, as cassandra/cluster.py delivers them to policy objects:          *)
(*   Learn(h, d, up)    before populate: the cluster records host h, located *)
(*                      in d, in its metadata - no policy call               *)
(*   Populate           populate(cluster, hosts): all known hosts handed     *)
(*                      over in ANY order (Cluster.connect 1733-1736,        *)
(*                      add_execution_profile 1543)                          *)
(*   Up(h) / Down(h)    on_up / on_down  (Cluster.on_up 1877, on_down 1974)  *)
(*   Add(h, d)          on_add of a host object located in d (on_add 2012)   *)
(*   Remove(h)          on_remove (on_remove 2082)                           *)
(*   Relocate(h, d)     ControlConnection._update_location_info 4001-4011:   *)
(*                      on_down(h) with the old location, set_location_info, *)
(*                      on_up(h) - whatever the host's up/down state is;     *)
(*                      the replay calls that very function (and, for whole- *)
(*                      cluster histories, _refresh_node_list_and_token_map  *)
(*                      with changed system.peers rows), so the delivery     *)
(*                      order is the code's own                              *)
(*                                                                           *)
(* Policy configurations (records of the constant set Policies):             *)
(*   RR          RoundRobinPolicy                              153-198       *)
(*   DCAware     DCAwareRoundRobinPolicy(local, k)             201-316       *)
(*               local = NoDC: local dc auto-detected from the first contact *)
(*               point (cp) that comes up with a datacenter; quantified only *)
(*               over contact points sharing one datacenter (CPDC)           *)
(*   WhiteList   WhiteListRoundRobinPolicy(allowed)            406-450       *)
(*   HostFilter  HostFilterPolicy(RoundRobinPolicy, allowed)   453-562       *)
(*   Default     DefaultLoadBalancingPolicy(RoundRobinPolicy), statement     *)
(*               with target_host = target (0 = none)          1131-1162     *)
(*                                                                           *)
(* TLC labels every edge of the dumped state graph with the action and its    *)
(* arguments (Up(2), Relocate(1,"B"), Learn(1,"",TRUE)); the replay reads    *)
(* the call to make from that label.                                         *)
EXTENDS Naturals, Sequences, FiniteSets, TLC

CONSTANTS N,          \* hosts are 1..N
          DCs,        \* datacenter names, e.g. {"A", "B", "C"}; "A" must be one of them
          Policies    \* set of [kind, local, k, allowed, target, cp] records

H == 1..N
NoDC == ""
CPDC == "A"           \* the datacenter all contact points live in when local_dc is auto-detected
AllDist == {"LOCAL", "REMOTE", "IGNORED"}

VARIABLES pol,        \* the policy configuration of this behaviour
          populated,  \* populate() was called
          known,      \* hosts the cluster knows (populated or added, not removed)
          live,       \* hosts the policy has to consider live
          dc,         \* host -> datacenter reported by the cluster (NoDC: unknown)
          local,      \* DCAware: the local datacenter (configured or detected), NoDC while undetected
          isup,       \* hosts whose Host.is_up is True (only tracked for Default)
          exp         \* what plans and distances have to look like in this state (function of the rest)
vars == <<pol, populated, known, live, dc, local, isup, exp>>

Auto(p) == p.kind = "DCAware" /\ p.local = NoDC

\* a host may be unlocated only while it is a contact point; auto-detection requires one dc for all of them
DcAllowed(p, h, d) ==
    /\ d = NoDC => h \in p.cp
    /\ (Auto(p) /\ h \in p.cp) => d \in {NoDC, CPDC}

EffDc(d, loc, h) == IF d[h] = NoDC THEN loc ELSE d[h]

-----------------------------------------------------------------------------
(* Expectations: e.first = hosts that come first, all of them (any order);   *)
(* e.head = host that must be the very first (0 = none); e.remote[x] = live  *)
(* hosts of remote datacenter x, of which at most e.k may follow;            *)
(* e.dist[h] = admissible distance() answers.  ~e.strict (local dc not       *)
(* detected yet): only "no duplicates, nothing that is not live".            *)
NoRemote == [x \in DCs |-> {}]

Expect(p, kn, lv, d, loc, up) ==
    CASE p.kind = "RR" ->
            [strict |-> TRUE, head |-> 0, first |-> lv, remote |-> NoRemote, k |-> 0,
             dist |-> [h \in H |-> IF h \in kn THEN {"LOCAL"} ELSE AllDist]]
      [] p.kind \in {"WhiteList", "HostFilter"} ->
            [strict |-> TRUE, head |-> 0, first |-> lv \cap p.allowed, remote |-> NoRemote, k |-> 0,
             dist |-> [h \in H |-> IF h \notin kn THEN AllDist
                                   ELSE IF h \in p.allowed THEN {"LOCAL"} ELSE {"IGNORED"}]]
      [] p.kind = "Default" ->
            LET hd == IF p.target \in (kn \cap up) THEN p.target ELSE 0 IN
            [strict |-> TRUE, head |-> hd, first |-> lv \cup (IF hd = 0 THEN {} ELSE {hd}), remote |-> NoRemote,
             k |-> 0, dist |-> [h \in H |-> IF h \in kn THEN {"LOCAL"} ELSE AllDist]]
      [] p.kind = "DCAware" ->
            IF loc = NoDC
            THEN [strict |-> FALSE, head |-> 0, first |-> lv, remote |-> NoRemote, k |-> p.k,
                  dist |-> [h \in H |-> AllDist]]
            ELSE [strict |-> TRUE, head |-> 0,
                  first |-> {h \in lv : EffDc(d, loc, h) = loc},
                  remote |-> [x \in DCs |-> IF x = loc THEN {} ELSE {h \in lv : EffDc(d, loc, h) = x}],
                  k |-> p.k,
                  dist |-> [h \in H |-> IF h \notin kn THEN AllDist
                                        ELSE IF EffDc(d, loc, h) = loc THEN {"LOCAL"}
                                        ELSE IF h \in lv /\ p.k > 0 THEN {"REMOTE", "IGNORED"}
                                        ELSE {"IGNORED"}]]

RangeOf(s) == {s[i] : i \in 1..Len(s)}
NoDup(s) == \A i, j \in 1..Len(s) : i # j => s[i] # s[j]

\* the constraints a query plan (sequence of hosts) has to satisfy
PlanOK(p, e) ==
    /\ NoDup(p)
    /\ IF ~e.strict THEN RangeOf(p) \subseteq e.first
       ELSE LET nf == Cardinality(e.first) IN
            /\ e.head # 0 => (Len(p) >= 1 /\ p[1] = e.head)
            /\ Len(p) >= nf
            /\ {p[i] : i \in 1..nf} = e.first                        \* all of them, before anything else
            /\ \A i \in (nf + 1)..Len(p) : \E x \in DCs : p[i] \in e.remote[x]
            /\ \A x \in DCs : Cardinality({i \in (nf + 1)..Len(p) : p[i] \in e.remote[x]}) <= e.k

\* the constraints distance() has to satisfy, given the plan made in the same state
DistOK(ds, p, e, kn, lv) ==
    \A h \in kn :
        /\ ds[h] \in e.dist[h]
        /\ e.strict => /\ (ds[h] = "REMOTE" => h \in RangeOf(p))
                       /\ (h \in RangeOf(p) => ds[h] # "IGNORED")
                       /\ (h \in lv /\ ds[h] # "IGNORED" => h \in RangeOf(p))

-----------------------------------------------------------------------------
InitWith(p) ==
        /\ pol = p
        /\ populated = FALSE
        /\ known = {} /\ live = {} /\ isup = {}
        /\ dc = [h \in H |-> NoDC]
        /\ local = p.local
        /\ exp = Expect(p, {}, {}, [h \in H |-> NoDC], p.local, {})

Init == \E p \in Policies : InitWith(p)

TrackUp(s) == IF pol.kind = "Default" THEN s ELSE {}

\* DCAwareRoundRobinPolicy.on_up: the first contact point that comes up located fixes the local dc
Detect(h, d) == IF Auto(pol) /\ local = NoDC /\ h \in pol.cp /\ d[h] # NoDC THEN d[h] ELSE local

Finish == exp' = Expect(pol, known', live', dc', local', isup')

\* Before populate() the cluster only fills its metadata (Cluster.add_host(signal=False) for the contact
\* points, 1727; or everything already known when a profile is added later): no policy call.
Learn(h, d, up) ==
    /\ ~populated
    /\ h \in H \ known /\ d \in DCs \cup {NoDC}
    /\ DcAllowed(pol, h, d)
    /\ pol.kind # "Default" => up
    /\ known' = known \cup {h}
    /\ dc' = [dc EXCEPT ![h] = d]
    /\ isup' = TrackUp(IF up THEN isup \cup {h} ELSE isup)
    /\ UNCHANGED <<pol, populated, live, local>>
    /\ Finish

\* populate(cluster, metadata.all_hosts()): every known host, in ANY order (the order is not part of the
\* post-state; the replay tries every order)
Populate ==
    /\ ~populated
    /\ known # {}
    /\ populated' = TRUE
    /\ live' = known
    /\ UNCHANGED <<pol, known, dc, local, isup>>
    /\ Finish

Up(h) ==
    /\ populated /\ h \in known
    /\ live' = live \cup {h}
    /\ isup' = TrackUp(isup \cup {h})
    /\ local' = Detect(h, dc)
    /\ UNCHANGED <<pol, populated, known, dc>>
    /\ Finish

Down(h) ==
    /\ populated /\ h \in known
    /\ live' = live \ {h}
    /\ isup' = TrackUp(isup \ {h})
    /\ UNCHANGED <<pol, populated, known, dc, local>>
    /\ Finish

Add(h, d) ==
    /\ populated /\ h \in H \ known /\ d \in DCs
    /\ DcAllowed(pol, h, d)
    /\ known' = known \cup {h}
    /\ live' = live \cup {h}
    /\ isup' = TrackUp(isup \cup {h})
    /\ dc' = [dc EXCEPT ![h] = d]
    /\ local' = Detect(h, dc')
    /\ UNCHANGED <<pol, populated>>
    /\ Finish

Remove(h) ==
    /\ populated /\ h \in known
    /\ known' = known \ {h}
    /\ live' = live \ {h}
    /\ isup' = TrackUp(isup \ {h})
    /\ dc' = [dc EXCEPT ![h] = NoDC]
    /\ UNCHANGED <<pol, populated, local>>
    /\ Finish

Relocate(h, d) ==
    /\ populated /\ h \in known /\ d \in DCs /\ d # dc[h]
    /\ DcAllowed(pol, h, d)
    /\ dc' = [dc EXCEPT ![h] = d]
    /\ live' = live \cup {h}               \* on_down(h); location change; on_up(h)
    /\ local' = Detect(h, dc')
    /\ UNCHANGED <<pol, populated, known, isup>>
    /\ Finish

Next ==
    \/ Populate
    \/ \E h \in H, d \in DCs \cup {NoDC}, up \in BOOLEAN : Learn(h, d, up)
    \/ \E h \in H : Up(h) \/ Down(h) \/ Remove(h)
    \/ \E h \in H, d \in DCs : Add(h, d) \/ Relocate(h, d)

Spec == Init /\ [][Next]_vars

-----------------------------------------------------------------------------
(* Invariants (C21 on the specification's own plan)                          *)
RECURSIVE Sort(_)
Sort(S) == IF S = {} THEN <<>>
           ELSE LET m == CHOOSE x \in S : \A y \in S : x <= y IN <<m>> \o Sort(S \ {m})

Take(s, n) == SubSeq(s, 1, IF Len(s) < n THEN Len(s) ELSE n)

RECURSIVE RemotePart(_, _)
RemotePart(e, ds) == IF ds = {} THEN <<>>
                     ELSE LET x == CHOOSE y \in ds : TRUE IN Take(Sort(e.remote[x]), e.k) \o RemotePart(e, ds \ {x})

\* one plan the specification allows, and the distances that go with it
SpecPlan(e) ==
    (IF e.head = 0 THEN <<>> ELSE <<e.head>>) \o Sort(e.first \ {e.head}) \o (IF e.strict THEN RemotePart(e, DCs) ELSE <<>>)
SpecDist(e, p) ==
    [h \in H |-> IF "LOCAL" \in e.dist[h] /\ e.strict THEN "LOCAL"
                 ELSE IF h \in RangeOf(p) /\ e.strict THEN "REMOTE" ELSE "IGNORED"]

TypeOK ==
    /\ live \subseteq known /\ known \subseteq H /\ isup \subseteq known
    /\ dc \in [H -> DCs \cup {NoDC}]
    /\ \A h \in H : (dc[h] = NoDC /\ h \in known) => h \in pol.cp
    /\ \A h \in H \ known : dc[h] = NoDC
    /\ local \in DCs \cup {NoDC}

\* the constraints are satisfiable and the canonical plan satisfies them
PlanSane ==
    populated => LET p == SpecPlan(exp) IN PlanOK(p, exp) /\ DistOK(SpecDist(exp, p), p, exp, known, live)

\* plans never contain a host that is not live (except Default's explicit target) and never an excluded one
OnlyLive ==
    /\ exp.first \subseteq live \cup (IF exp.head = 0 THEN {} ELSE {exp.head})
    /\ \A x \in DCs : exp.remote[x] \subseteq live /\ exp.remote[x] \cap exp.first = {}
    /\ \A x, y \in DCs : x # y => exp.remote[x] \cap exp.remote[y] = {}

FilterNeverYieldsExcluded ==
    pol.kind \in {"WhiteList", "HostFilter"} =>
        /\ exp.first \cap (H \ pol.allowed) = {}
        /\ \A h \in known \ pol.allowed : exp.dist[h] = {"IGNORED"}

\* DCAware: once the local dc is known every live host is either local (first) or in exactly one remote dc
DCAwarePartition ==
    (pol.kind = "DCAware" /\ local # NoDC) =>
        /\ exp.first \cup UNION {exp.remote[x] : x \in DCs} = live
        /\ exp.first = {h \in live : EffDc(dc, local, h) = local}

AutoLocalIsContactDc == Auto(pol) /\ local # NoDC => local = CPDC
ExplicitLocalKept == (pol.kind = "DCAware" /\ ~Auto(pol)) => local = pol.local

\* vacuity witnesses (expected to be VIOLATED)
Witness_RemoteCapped == ~(exp.strict /\ exp.k > 0 /\ \E x \in DCs : Cardinality(exp.remote[x]) > exp.k)
Witness_AutoDetected == ~(Auto(pol) /\ local # NoDC)
Witness_UnlocatedAfterDetect == ~(Auto(pol) /\ local # NoDC /\ \E h \in live : dc[h] = NoDC)
Witness_TargetDown == ~(pol.kind = "Default" /\ pol.target \in live \ isup)
Witness_ExcludedLive == ~(pol.kind \in {"WhiteList", "HostFilter"} /\ live \ pol.allowed # {} /\ exp.first # {})
=============================================================================
