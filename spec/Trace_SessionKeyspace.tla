---------------------- MODULE Trace_SessionKeyspace ----------------------
(* Trace validation (code -> spec) for SessionKeyspace.tla.  The first event   *)
(* of a recorded run is its configuration (pool states, outcomes the nodes     *)
(* will give); the following ones name the step the harness let the real       *)
(* session take and carry the observed post-state.                             *)
EXTENDS SessionKeyspace, TraceLib

VARIABLES tid, l
tvars == <<vars, tid, l>>

Tr == Traces[tid]
ToSet(s) == {s[i] : i \in 1..Len(s)}

Post(p) ==
    /\ completions' = p.completions
    /\ result' = p.result
    /\ asked' = ToSet(p.outstanding)
    /\ \A q \in Pools : /\ connks'[q] = p.connks[q]
                        /\ borrowed'[q] = p.borrowed[q]
                        /\ pstate[q] # "shutdown" => poolks'[q] = p.poolks[q]
                        /\ newks'[q] = p.newks[q]

TraceInit ==
    /\ tid \in 1..NTraces /\ l = 1
    /\ Len(Traces[tid][1].pstate) = NPools
    /\ pstate = [q \in Pools |-> Traces[tid][1].pstate[q]]          \* the recorded configuration, then Init checks it
    /\ outcome = [q \in Pools |-> Traces[tid][1].outcome[q]]
    /\ rph = [q \in Pools |-> Traces[tid][1].rph[q]]
    /\ Init

TraceNext ==
    /\ l <= Len(Tr)
    /\ l' = l + 1
    /\ UNCHANGED tid
    /\ LET e == Tr[l] IN
       \/ e.e = "Config"     /\ UNCHANGED vars
       \/ /\ \/ e.e = "Start"      /\ Start
             \/ e.e = "PoolFinish" /\ PoolFinish(e.p)
             \/ e.e = "Reconnect"  /\ Reconnect(e.p)
             \/ e.e = "Borrow"     /\ Borrow(e.p)
             \/ e.e = "RCheck"     /\ RCheck(e.p)
             \/ e.e = "ROpen"      /\ ROpen(e.p)
             \/ e.e = "RUse"       /\ RUse(e.p)
             \/ e.e = "RPublish"   /\ RPublish(e.p)
          /\ Post(e.post)

TraceSpec == TraceInit /\ [][TraceNext]_tvars

Progress == RecordProgress(tid, l)
Done == PrintProgress
=============================================================================
