---------------------------- MODULE Trace_Framing ----------------------------
(* Trace validation (code -> spec) for Framing.tla.  A recorded run of the real *)
(* connection is: one "Init" event naming the frame sequence the node sent, then *)
(* one "Read" event per invocation of the read handler with the number of bytes  *)
(* handed over and the projected state of the real connection afterwards.  An    *)
(* event is accepted iff Read(k) is enabled and produces exactly that state.     *)
EXTENDS Framing, TraceLib

VARIABLES tid, l
tvars == <<fvars, tid, l>>

Tr == Traces[tid]

Rec(d) == [idx |-> d.idx, stream |-> d.stream, len |-> d.len, exact |-> d.exact]
Recs(s) == [j \in 1..Len(s) |-> Rec(s[j])]
Ints(s) == [j \in 1..Len(s) |-> s[j]]

Post(p) ==
    /\ sent' = p.sent
    /\ Len(buf') = p.buflen
    /\ (cur' # 0) = p.cur
    /\ delivered' = Recs(p.delivered)
    /\ pushed' = Recs(p.pushed)
    /\ \A w \in Watchers : wseen'[w] = Ints(p.wseen[w])
    /\ order' = Ints(p.order)
    /\ Len(order') = p.nmsgs
    /\ desync' = p.defunct

Shape(f) == [ver |-> f.ver, neg |-> f.neg, blen |-> f.blen, sid |-> f.sid]

TraceInit ==
    /\ tid \in 1..NTraces
    /\ l = 2
    /\ Tr[1].e = "Init"
    /\ InitWith([j \in 1..Len(Tr[1].frames) |-> Shape(Tr[1].frames[j])])

TraceNext ==
    /\ l <= Len(Tr)
    /\ l' = l + 1
    /\ UNCHANGED tid
    /\ LET e == Tr[l] IN
       /\ e.e = "Read"
       /\ Read(e.k)
       /\ Post(e.post)

TraceSpec == TraceInit /\ [][TraceNext]_tvars

Progress == RecordProgress(tid, l)
Done == PrintProgress
=============================================================================
