------------------------------ MODULE PoolV12 ------------------------------
(* The protocol-v1/v2 connection pool of the driver: HostConnectionPool, a    *)
(* copy-on-write *list* of connections between core and max size.             *)
(*                                                                            *)
(* Code anchors (cassandra/pool.py, class HostConnectionPool):                *)
(*   borrow_connection / _wait_for_conn (least busy connection of the list,   *)
(*   empty-list path, _maybe_spawn_new_connection), return_connection         *)
(*   (dead -> _replace, trashed -> close when idle, _maybe_trash_connection   *)
(*   with _MIN_TRASH_INTERVAL), _create_new_connection / _retrying_replace ->  *)
(*   _add_conn_if_under_max (count check | connect | publish), shutdown.      *)
(*   cluster.py ResponseFuture._query / _set_result as in Pool.tla.           *)
(*                                                                            *)
(* Grain as in Pool.tla: loop-thread callbacks (Respond, ConnFails) are       *)
(* atomic; client threads (BorrowStart | BorrowTake | Send), executor tasks   *)
(* (TaskCheck | TaskOpen | TaskPublish) and shutdown() (ShutdownMark |        *)
(* ShutdownClose) are cut before every outermost acquisition of a lock; the   *)
(* lock-free code runs with the critical section before it.  In particular    *)
(* the new list is built *inside* the publishing critical section (pool.py    *)
(* 729-731, 841-843, 863-865): a list computed in an earlier step and         *)
(* published later would lose the updates made in between.                    *)
(* Client timeouts / orphaned streams are not modelled here (Pool.tla does).  *)
EXTENDS Integers, Sequences, FiniteSets, TLC

CONSTANTS MaxId,        \* requests in flight per connection
          Core, MaxConns,   \* core / max connections per host
          MaxReqs,      \* max_requests_per_connection: a borrow that brings the least busy connection to it asks for another connection
          MinReqs,      \* min_requests_per_connection: a return that leaves at most that many may trash the connection
          Reqs, NConns, NTasks, MaxFails, MaxConnFails

Conns == 1..NConns
Tasks == 1..NTasks

VARIABLES inflight, reg, owed, closed, defunct, signaled,      \* per connection
          pool,       \* [conns (list), trash (open members), openCount, sched, shutdown, sd, trashOk, tasks, ntasks]
          opened, fails, cfails,
          st, on,
          viaEmpty,   \* requests that borrowed through the empty-list path (653-655: no check for one more connection)
          act
cvars == <<inflight, reg, owed, closed, defunct, signaled>>
vars == <<cvars, pool, opened, fails, cfails, st, on, viaEmpty, act>>

NoTask == [kind |-> "none", ph |-> "none", new |-> 0]
A(name, r, c, f) == [name |-> name, r |-> r, c |-> c, f |-> f]
SeqSet(s) == {s[i] : i \in 1..Len(s)}
Without(s, c) == SelectSeq(s, LAMBDA x : x # c)

Init ==
    /\ inflight = [c \in Conns |-> 0]
    /\ reg = [c \in Conns |-> {}] /\ owed = [c \in Conns |-> {}]
    /\ closed = [c \in Conns |-> FALSE] /\ defunct = [c \in Conns |-> FALSE] /\ signaled = [c \in Conns |-> FALSE]
    /\ pool = [conns |-> [i \in 1..Core |-> i], trash |-> {}, openCount |-> Core, sched |-> 0, shutdown |-> FALSE,
               sd |-> "none", trashOk |-> TRUE, tasks |-> [t \in Tasks |-> NoTask], ntasks |-> 0]
    /\ opened = Core /\ fails = 0 /\ cfails = 0
    /\ st = [r \in Reqs |-> "new"] /\ on = [r \in Reqs |-> 0] /\ viaEmpty = {}
    /\ act = A("Init", 0, 0, FALSE)

-----------------------------------------------------------------------------
(* min(conns, key=in_flight): one of the least busy connections of the list.  Which one wins a tie is the    *)
(* implementation's business (C12 only says that it has free capacity), so the choice is left open.          *)
LeastBusySet(s, infl) == {s[i] : i \in {k \in 1..Len(s) : \A j \in 1..Len(s) : infl[s[k]] <= infl[s[j]]}}

CanAdd(P) == P.ntasks < NTasks
AddTask(P, kind) == [P EXCEPT !.tasks[P.ntasks + 1] = [kind |-> kind, ph |-> "queued", new |-> 0], !.ntasks = P.ntasks + 1]

Apply(K, D, S, infl, rg, ow, stx) ==
    LET V == UNION {rg[c] : c \in K} IN
    /\ closed' = [c \in Conns |-> closed[c] \/ c \in K]
    /\ defunct' = [c \in Conns |-> defunct[c] \/ c \in D]
    /\ signaled' = [c \in Conns |-> signaled[c] \/ c \in S \/ (c \in K /\ rg[c] # {})]
    /\ st' = [r \in Reqs |-> IF r \in V THEN "errored" ELSE stx[r]]
    /\ inflight' = [c \in Conns |-> IF c \in K THEN infl[c] - Cardinality(rg[c]) ELSE infl[c]]
    /\ reg' = [c \in Conns |-> IF c \in K THEN {} ELSE rg[c]]
    /\ owed' = [c \in Conns |-> IF c \in K THEN {} ELSE ow[c]]

OpenOf(K) == {c \in K : ~closed[c]}

(* shutdown() run completely (887-900); the list and the trash are left as they are *)
ShutAll(P) == [P EXCEPT !.shutdown = TRUE, !.sd = "done", !.openCount = P.openCount - Len(P.conns), !.trash = {}]

(* return_connection finding c dead (791-801).  Result <<pool, connections closed besides c, enabled>> *)
Dead(P, c, down) ==
    IF signaled[c] THEN <<P, {}, TRUE>>
    ELSE IF down
         THEN IF P.shutdown THEN <<P, {}, TRUE>>
              ELSE <<ShutAll(P), OpenOf((SeqSet(P.conns) \cup P.trash) \ {c}), TRUE>>
         ELSE IF c \in SeqSet(P.conns)                      \* _replace (859-875)
              THEN <<AddTask([P EXCEPT !.conns = Without(P.conns, c), !.openCount = P.openCount - 1, !.trash = P.trash \ {c}], "replace"),
                     {}, CanAdd(P)>>
              ELSE <<[P EXCEPT !.trash = P.trash \ {c}], {}, TRUE>>

(* return_connection of a live connection whose in_flight is now n (802-822, 831-857).  Result <<pool, closes>> *)
Live(P, c, n) ==
    IF c \in P.trash
    THEN IF n = 0 THEN <<[P EXCEPT !.trash = P.trash \ {c}], {c}>> ELSE <<P, {}>>
    ELSE IF Len(P.conns) > Core /\ n <= MinReqs /\ P.trashOk /\ c \in SeqSet(P.conns) /\ P.openCount > Core
         THEN IF n = 0
              THEN <<[P EXCEPT !.conns = Without(P.conns, c), !.openCount = P.openCount - 1], {c}>>
              ELSE <<[P EXCEPT !.conns = Without(P.conns, c), !.openCount = P.openCount - 1, !.trash = P.trash \cup {c},
                               !.trashOk = FALSE], {}>>
         ELSE <<P, {}>>

-----------------------------------------------------------------------------
(* borrow_connection up to its first lock: the shutdown check, the list snapshot, the least busy connection *)
BorrowStart(r) ==
    /\ st[r] = "new"
    /\ IF pool.shutdown
       THEN st' = [st EXCEPT ![r] = "nohost"] /\ UNCHANGED on
       ELSE /\ st' = [st EXCEPT ![r] = "picked"]
            /\ \E c \in (IF pool.conns = <<>> THEN {0} ELSE LeastBusySet(pool.conns, inflight)) : on' = [on EXCEPT ![r] = c]
    /\ act' = A("BorrowStart", r, 0, FALSE)
    /\ UNCHANGED <<cvars, pool, opened, fails, cfails, viaEmpty>>

(* the rest of borrow_connection up to the moment a connection is taken (or none is): empty list -> ask for   *)
(* the core connections and wait; full connection -> wait; after the wait the list is read again              *)
BorrowTake(r) ==
    /\ st[r] = "picked"
    /\ LET c == on[r]
           n == IF c = 0 /\ Core - (Len(pool.conns) + pool.sched) > 0 THEN Core - (Len(pool.conns) + pool.sched) ELSE 0
           P1 == IF n = 0 THEN pool ELSE [AddTask(pool, "create") EXCEPT !.sched = pool.sched + 1]      \* Core - len <= 1 in the instances checked
           direct == c # 0 /\ inflight[c] < MaxId
           again == IF P1.shutdown \/ P1.conns = <<>> THEN {0}
                    ELSE LET lb == LeastBusySet(P1.conns, inflight) IN
                         IF \E x \in lb : inflight[x] < MaxId THEN lb ELSE {0}       \* equally busy: all or none have room
           ts == IF direct THEN {c} ELSE again IN
       /\ n <= 1 /\ (n = 1 => CanAdd(pool))
       /\ pool' = P1
       /\ \E t \in ts :
          IF t # 0
          THEN /\ inflight' = [inflight EXCEPT ![t] = @ + 1]
               /\ on' = [on EXCEPT ![r] = t] /\ st' = [st EXCEPT ![r] = "borrowed"]
          ELSE /\ on' = [on EXCEPT ![r] = 0] /\ st' = [st EXCEPT ![r] = "nohost"]
               /\ UNCHANGED inflight
    /\ viaEmpty' = IF on[r] = 0 THEN viaEmpty \cup {r} ELSE viaEmpty
    /\ act' = A("BorrowTake", r, on[r], FALSE)
    /\ UNCHANGED <<reg, owed, closed, defunct, signaled, opened, fails, cfails>>

(* end of borrow_connection (685-686: maybe ask for one more connection), then send_msg *)
Send(r, down) ==
    /\ st[r] = "borrowed"
    /\ LET c == on[r]
           spawn == /\ r \notin viaEmpty
                    /\ inflight[c] >= MaxReqs /\ Len(pool.conns) < MaxConns
                    /\ pool.sched < 1 /\ pool.openCount < MaxConns
           P1 == IF spawn THEN [AddTask(pool, "create") EXCEPT !.sched = pool.sched + 1] ELSE pool IN
       /\ spawn => CanAdd(pool)
       /\ IF ~closed[c]
          THEN /\ down = FALSE
               /\ reg' = [reg EXCEPT ![c] = @ \cup {r}] /\ owed' = [owed EXCEPT ![c] = @ \cup {r}]
               /\ st' = [st EXCEPT ![r] = "sent"]
               /\ pool' = P1
               /\ UNCHANGED <<inflight, closed, defunct, signaled>>
          ELSE /\ IF signaled[c] \/ P1.shutdown THEN down = P1.shutdown ELSE TRUE
               /\ LET e == Dead(P1, c, down) IN
                  /\ e[3]
                  /\ Apply(e[2], {}, {c}, [inflight EXCEPT ![c] = @ - 1], reg, owed, [st EXCEPT ![r] = "refused"])
                  /\ pool' = e[1]
    /\ act' = A("Send", r, 0, down)
    /\ UNCHANGED <<on, opened, fails, cfails, viaEmpty>>

Respond(c, q) ==
    /\ q \in owed[c] /\ ~closed[c] /\ q \in reg[c]
    /\ LET infl == [inflight EXCEPT ![c] = @ - 1]
           e == Live(pool, c, infl[c]) IN
       /\ Apply(e[2], {}, {}, infl, [reg EXCEPT ![c] = @ \ {q}], [owed EXCEPT ![c] = @ \ {q}], [st EXCEPT ![q] = "done"])
       /\ pool' = e[1]
    /\ act' = A("Respond", q, c, FALSE)
    /\ UNCHANGED <<on, opened, fails, cfails, viaEmpty>>

ConnFails(c, down) ==
    /\ c <= opened /\ ~closed[c]
    /\ \A t \in Tasks : ~(pool.tasks[t].ph = "publish" /\ pool.tasks[t].new = c)
    /\ cfails < MaxConnFails /\ cfails' = cfails + 1
    /\ IF reg[c] = {}
       THEN /\ down = FALSE
            /\ Apply({c}, {c}, {}, inflight, reg, owed, st)
            /\ pool' = [pool EXCEPT !.trash = @ \ {c}]
       ELSE /\ pool.shutdown => down
            /\ LET e == Dead(pool, c, down) IN
               /\ e[3]
               /\ Apply({c} \cup e[2], {c}, {}, inflight, reg, owed, st)
               /\ pool' = [e[1] EXCEPT !.trash = @ \ {c}]
    /\ act' = A("ConnFails", 0, c, down)
    /\ UNCHANGED <<on, opened, fails, viaEmpty>>

(* _MIN_TRASH_INTERVAL passes *)
ClockAdvance ==
    /\ ~pool.trashOk
    /\ pool' = [pool EXCEPT !.trashOk = TRUE]
    /\ act' = A("ClockAdvance", 0, 0, FALSE)
    /\ UNCHANGED <<cvars, opened, fails, cfails, st, on, viaEmpty>>

-----------------------------------------------------------------------------
(* executor tasks _create_new_connection / _retrying_replace -> _add_conn_if_under_max *)
Finish(P, t, replaced) ==       \* the task's own epilogue: create: _scheduled_for_creation -= 1; replace: resubmit unless replaced
    LET P1 == [P EXCEPT !.tasks[t] = NoTask] IN
    IF P.tasks[t].kind = "create" THEN [P1 EXCEPT !.sched = P.sched - 1]
    ELSE IF replaced THEN P1 ELSE AddTask(P1, "replace")

(* 713-721: is_shutdown / open_count under the lock *)
TaskCheck(t) ==
    /\ pool.tasks[t].ph = "queued"
    /\ IF pool.shutdown \/ pool.openCount >= MaxConns
       THEN pool' = Finish(pool, t, TRUE)
       ELSE pool' = [pool EXCEPT !.tasks[t].ph = "open", !.openCount = @ + 1]
    /\ act' = A("TaskCheck", t, 0, FALSE)
    /\ UNCHANGED <<cvars, opened, fails, cfails, st, on, viaEmpty>>

(* 725-728 connect (and re-arm the trash interval); 736-742 on failure *)
TaskOpen(t, ok) ==
    /\ pool.tasks[t].ph = "open"
    /\ IF ok
       THEN /\ opened < NConns /\ opened' = opened + 1
            /\ pool' = [pool EXCEPT !.tasks[t].ph = "publish", !.tasks[t].new = opened + 1, !.trashOk = FALSE]
            /\ UNCHANGED fails
       ELSE /\ fails < MaxFails /\ fails' = fails + 1
            /\ pool.tasks[t].kind = "replace" => CanAdd(pool)
            /\ pool' = Finish([pool EXCEPT !.openCount = @ - 1], t, FALSE)
            /\ UNCHANGED opened
    /\ act' = A("TaskOpen", t, 0, ok)
    /\ UNCHANGED <<cvars, cfails, st, on, viaEmpty>>

(* 729-735: under the lock, the list plus the new connection becomes the list.                  *)
(* INTENDED (C12): a pool shut down meanwhile closes the new connection instead of listing it   *)
(* (the pinned code lists it; shutdown() has already gone through the list).                    *)
TaskPublish(t) ==
    /\ pool.tasks[t].ph = "publish"
    /\ LET n == pool.tasks[t].new IN
       IF pool.shutdown
       THEN /\ Apply({n}, {}, {}, inflight, reg, owed, st)
            /\ pool' = Finish([pool EXCEPT !.openCount = @ - 1], t, TRUE)
       ELSE /\ pool' = Finish([pool EXCEPT !.conns = Append(@, n)], t, TRUE)
            /\ UNCHANGED cvars /\ UNCHANGED st
    /\ act' = A("TaskPublish", t, 0, FALSE)
    /\ UNCHANGED <<opened, fails, cfails, on, viaEmpty>>

ShutdownMark ==
    /\ pool.sd = "none" /\ ~pool.shutdown
    /\ pool' = [pool EXCEPT !.shutdown = TRUE, !.sd = "marked"]
    /\ act' = A("ShutdownMark", 0, 0, FALSE)
    /\ UNCHANGED <<cvars, opened, fails, cfails, st, on, viaEmpty>>

ShutdownClose ==
    /\ pool.sd = "marked"
    /\ Apply(OpenOf(SeqSet(pool.conns) \cup pool.trash), {}, {}, inflight, reg, owed, st)
    /\ pool' = [pool EXCEPT !.sd = "done", !.trash = {}, !.openCount = @ - Len(pool.conns)]
    /\ act' = A("ShutdownClose", 0, 0, FALSE)
    /\ UNCHANGED <<opened, fails, cfails, on, viaEmpty>>

Next ==
    \/ \E r \in Reqs : BorrowStart(r) \/ BorrowTake(r)
    \/ \E r \in Reqs, d \in BOOLEAN : Send(r, d)
    \/ \E c \in Conns, q \in Reqs : Respond(c, q)
    \/ \E c \in Conns, d \in BOOLEAN : ConnFails(c, d)
    \/ ClockAdvance
    \/ \E t \in Tasks : TaskCheck(t) \/ TaskPublish(t) \/ \E ok \in BOOLEAN : TaskOpen(t, ok)
    \/ ShutdownMark \/ ShutdownClose

Spec == Init /\ [][Next]_vars

-----------------------------------------------------------------------------
(* C12 on the v1/v2 pool *)
Capacity == \A c \in Conns : inflight[c] <= MaxId
NonNegative == \A c \in Conns : inflight[c] >= 0
ShutdownRefuses == [][\A r \in Reqs : (pool.shutdown /\ st[r] = "new") => st'[r] \in {"new", "nohost"}]_vars
Accounting == \A c \in Conns : inflight[c] = Cardinality({r \in Reqs : on[r] = c /\ st[r] \in {"borrowed", "sent"}})
Connecting == {t \in Tasks : pool.tasks[t].ph \in {"open", "publish"}}
(* the list the pool hands out from: no duplicates, within max, never a connection the pool closed (a dead one only *)
(* until its failure is noticed), and together with the connections being opened exactly what open_count counts    *)
ListOK ==
    ~pool.shutdown =>
        /\ \A i, j \in 1..Len(pool.conns) : i # j => pool.conns[i] # pool.conns[j]
        /\ Len(pool.conns) <= MaxConns
        /\ \A c \in SeqSet(pool.conns) : c <= opened /\ (closed[c] => defunct[c] /\ ~signaled[c])
        /\ SeqSet(pool.conns) \cap pool.trash = {}
        /\ pool.openCount = Len(pool.conns) + Cardinality(Connecting)
        /\ \A c \in 1..opened : ~closed[c] => \/ c \in SeqSet(pool.conns) \/ c \in pool.trash
                                              \/ \E t \in Connecting : pool.tasks[t].new = c
Quiescent == /\ pool.sd = "done" /\ \A t \in Tasks : pool.tasks[t].ph = "none"
             /\ \A r \in Reqs : st[r] \notin {"picked", "borrowed", "sent"}
AllClosed == Quiescent => \A c \in 1..opened : closed[c]
TrashBusy == \A c \in pool.trash : ~closed[c] /\ inflight[c] > 0

(* vacuity witnesses *)
Witness_TwoListed == Len(pool.conns) < 2
Witness_Trashed == pool.trash = {}
Witness_ClosedByReturn == ~(act.name = "Respond" /\ closed[act.c] /\ ~defunct[act.c] /\ ~pool.shutdown)
Witness_ReplaceWhileConnecting == ~(act.name = "ConnFails" /\ ~act.f /\ signaled[act.c] /\ \E t \in Tasks : pool.tasks[t].ph = "publish")
Witness_TwoConnecting == Cardinality(Connecting) < 2
Witness_PublishAfterShutdown == ~(act.name = "TaskPublish" /\ pool.sd = "done")
Witness_EmptyListBorrow == ~(act.name = "BorrowTake" /\ act.c = 0)
Witness_CapacityRefusal == ~(act.name = "BorrowTake" /\ st[act.r] = "nohost" /\ pool.conns # <<>> /\ ~pool.shutdown)

(* ACTION_CONSTRAINT for random simulation only *)
Sim_LateFaults ==
    act'.name \in {"ShutdownMark", "ConnFails"} =>
        \/ pool.ntasks > 0 \/ Cardinality({r \in Reqs : st[r] # "new"}) >= Cardinality(Reqs) - 1
=============================================================================
