------------------------------ MODULE TraceLib ------------------------------
(* Shared plumbing for batched trace validation (code -> spec).              *)
(* A trace file is a JSON array of traces; each trace is a JSON array of      *)
(* event objects.  A trace spec declares VARIABLES tid, l (trace picked,      *)
(* index of the next event to consume), starts with tid \in 1..NTraces,       *)
(* l = 1, and consumes one event per step.  TLC register 1 keeps, per trace,  *)
(* the furthest position reached; harness/tlc.py reads it from the            *)
(* POSTCONDITION print-out.  Requires -workers 1.                             *)
EXTENDS Naturals, Sequences, TLC, Json, IOUtils

Traces  == JsonDeserialize(IOEnv.TRACE_FILE)
NTraces == Len(Traces)

ASSUME TLCSet(1, [t \in 1..NTraces |-> 0])

RecordProgress(tid, l) ==
    LET cur == TLCGet(1) IN
    IF cur[tid] < l THEN TLCSet(1, [cur EXCEPT ![tid] = l]) ELSE TRUE

PrintProgress == PrintT(<<"TRACE_PROGRESS", TLCGet(1)>>)

Has(rec, f) == f \in DOMAIN rec
=============================================================================
