----------------------------- MODULE Reprepare -----------------------------
(* One execution of a prepared statement whose id a node does not know:      *)
(* the transparent re-prepare path of ResponseFuture.                         *)
(*                                                                           *)
(* Code anchors (cassandra/cluster.py):                                      *)
(*   Session.execute_async, ResponseFuture.send_request/_query   (Start,     *)
(*                                                     SendRequest, SendTo)  *)
(*   ResponseFuture._set_result, PreparedQueryNotFound branch    (AnsUnprepared) *)
(*   ResponseFuture._set_result, RESULT_KIND_ROWS branch          (AnsRows)   *)
(*   ResponseFuture._reprepare  (executor task)                  (RunReprepare) *)
(*   connection callback = partial(session.submit,                           *)
(*                 _execute_after_prepare, host, connection, pool)           *)
(*                                            (AnsPrepare, ConnLost: queue)  *)
(*   ResponseFuture._execute_after_prepare (executor task)       (RunAfter)  *)
(*   ResponseFuture._on_timeout                                  (Timeout)   *)
(*   HostConnection.borrow_connection / shutdown, Connection.defunct         *)
(*                                               (pool, ConnLost, PoolDown)  *)
(*   protocol.PrepareMessage.send_body (keyspace only with protocol v5)      *)
(*                                                                           *)
(* Threads.  _set_result and the PREPARE callback run on the loop thread and *)
(* only enqueue an executor task (session.submit); _reprepare and            *)
(* _execute_after_prepare run on an executor thread.  Hence two explicit     *)
(* hops, each hop one action; the environment (answers, connection loss,     *)
(* pool shutdown, client timeout) acts between them.                         *)
(*                                                                           *)
(* Stream ids.  cfg.ids is the size of the id space of every pool connection *)
(* (0 = the driver's default, ids not observed; 1, 2 = a space so small that *)
(* ids wrap at once and the EXECUTE, the PREPARE and the re-sent EXECUTE get *)
(* stream id 0 in some behaviours).  Connection.get_request_id takes the head *)
(* of a FIFO deque, process_msg appends the id after the callback ran.  No   *)
(* decision of the re-prepare path may depend on the id a request was given; *)
(* the only place an id matters is _on_timeout, which removes the handler    *)
(* registered under ResponseFuture._req_id (the id of the last request sent  *)
(* by send_request) - with a tiny id space that is the PREPARE's handler,    *)
(* and the late answer is then dropped as an orphan.                         *)
(*   connection.py  Connection.get_request_id, process_msg   (NextId, Release) *)
(*                                                                           *)
(* Speculative execution.  cfg.spec = 1: the bound statement is idempotent    *)
(* and the profile has a ConstantSpeculativeExecutionPolicy(max_attempts=1): *)
(* the first timer of the future is _on_speculative_execute (SpecExec), which *)
(* sends the request to the next host of the plan while the first attempt is *)
(* still unanswered, then arms the client timeout.  Two EXECUTEs of the same  *)
(* request are then in flight on different nodes, ResponseFuture._current_host *)
(* / _connection name the LAST node queried - not the node whose answer is    *)
(* being handled.  The re-preparation belongs to the node that answered       *)
(* UNPREPARED (the `host` handed from _set_result to _reprepare and on to     *)
(* _execute_after_prepare), whatever the future queried last.                 *)
(*   cluster.py  ResponseFuture._start_timer, _on_speculative_execute (SpecExec) *)
(*                                                                           *)
(* The module describes the behaviour the property demands.  Where the       *)
(* pinned code deviates this is said at the action (see RunAfter, "diff").   *)
EXTENDS Integers, Sequences, FiniteSets, TLC

CONSTANTS NHosts,      \* the query plan is h1, h2, ... h<NHosts>, in this order
          MaxUnprep,   \* how often nodes may answer UNPREPARED during the execution
          SpecIds      \* id-space sizes explored together with a speculative execution (subset of {1, 2})

Hosts == [i \in 1..NHosts |-> "h" \o ToString(i)]
HostSet == {Hosts[i] : i \in 1..Len(Hosts)}
Pos(h) == CHOOSE i \in 1..Len(Hosts) : Hosts[i] = h

VARIABLES cfg,     \* [pv: protocol version, sks: keyspace of the statement, cks: keyspace of the session's connections]
          plan,    \* hosts of the query plan not yet taken (ResponseFuture.query_plan iterator)
          sent,    \* every PREPARE / EXECUTE frame the nodes received for this execution, in order
          srv,     \* requests a node still owes an answer to: [h, kind, n (index in sent), sid (stream id),
                   \*   live (its handler is still registered in Connection._requests)]
          queue,   \* executor tasks of this future not yet run: [t: "reprepare" | "after", h, resp]
          final,   \* "unset" | "rows" | name of the exception class the future failed with
          pool,    \* per host: "ok" | "shutdown" | "noconn"  (can a connection be borrowed?)
          unprep,  \* UNPREPARED answers so far
          timer,   \* "none" | "spec" (next: speculative execution) | "armed" (next: client timeout) | "off"
          free,    \* per host: Connection.request_ids (FIFO of reusable stream ids), when cfg.ids # 0
          hi,      \* per host: Connection.highest_request_id
          rid,     \* ResponseFuture._req_id: stream id of the last request sent by send_request (-1: none / not observed)
          ridn,    \* index in `sent` of the frame that id was given to (0: none)
          lc,      \* host of ResponseFuture._connection: the connection borrowed last ("-": none)
          stop,    \* ghost: Len(sent) when the request failed with id mismatch / keyspace mismatch, else -1
          act      \* last action
vars == <<cfg, plan, sent, srv, queue, final, pool, unprep, timer, free, hi, rid, ridn, lc, stop, act>>

\* (speculative executions are explored with statement and connection keyspace "ks" and the shrunk id spaces only: with
\*  ids not observed, whether _on_timeout finds a handler of this future on _connection under a _req_id that was
\*  allocated on ANOTHER connection is a coincidence of two id counters the model does not follow)
Configs == {c \in [pv : {4, 5}, sks : {"none", "ks"}, cks : {"none", "ks", "ks2"}, ids : {0, 1, 2}, spec : {0, 1}] :
                c.spec = 1 => (c.sks = "ks" /\ c.cks = "ks" /\ c.ids \in SpecIds)}

Exec(h) == [h |-> h, kind |-> "EXECUTE", q |-> "id", ks |-> "none"]
\* same query text; the keyspace travels in the PREPARE iff the protocol carries it (v5)
Prep(h) == [h |-> h, kind |-> "PREPARE", q |-> "Q", ks |-> IF cfg.pv >= 5 THEN cfg.sks ELSE "none"]

A(name, h, resp) == [name |-> name, h |-> h, resp |-> resp, was |-> final, n |-> Len(sent), pok |-> TRUE]
Failed == final \notin {"unset", "rows"}
\* _set_final_result / _set_final_exception complete the future once; later completions (the request was answered through
\* a speculative execution meanwhile) change nothing
Fin(x) == IF final = "unset" THEN x ELSE final

RECURSIVE FirstUsable(_)
FirstUsable(p) == IF p = <<>> THEN 0
                  ELSE IF pool[Head(p)] = "ok" THEN 1
                  ELSE LET r == FirstUsable(Tail(p)) IN IF r = 0 THEN 0 ELSE r + 1

(* Connection.get_request_id: head of the deque, a fresh id when it is empty *)
NextId(h) == IF cfg.ids = 0 THEN -1 ELSE IF free[h] # <<>> THEN Head(free[h]) ELSE hi[h] + 1
Base(m) == [h |-> m.h, kind |-> m.kind, q |-> m.q, ks |-> m.ks]

(* ResponseFuture._query(host, message): borrow a stream id, send_msg *)
SendTo(h, msg) ==
    LET sid == NextId(h) IN
    /\ sent' = Append(sent, [h |-> h, kind |-> msg.kind, q |-> msg.q, ks |-> msg.ks, sid |-> sid])
    /\ srv' = srv \cup {[h |-> h, kind |-> msg.kind, n |-> Len(sent) + 1, sid |-> sid, live |-> TRUE]}
    /\ free' = IF cfg.ids = 0 \/ free[h] = <<>> THEN free ELSE [free EXCEPT ![h] = Tail(@)]
    /\ hi' = IF cfg.ids # 0 /\ free[h] = <<>> THEN [hi EXCEPT ![h] = @ + 1] ELSE hi
    /\ lc' = h
NoSend == UNCHANGED <<sent, srv, free, hi, lc>>

(* Connection.process_msg: the answered stream id goes back to the end of the deque *)
Answered(r) ==
    /\ srv' = srv \ {r}
    /\ free' = IF cfg.ids = 0 THEN free ELSE [free EXCEPT ![r.h] = Append(@, r.sid)]
    /\ UNCHANGED <<sent, hi, rid, ridn, lc>>

(* ResponseFuture.send_request: next host of the plan whose pool yields a connection, else NoHostAvailable *)
SendRequest ==
    LET k == FirstUsable(plan) IN
    IF k = 0
    THEN /\ plan' = <<>>
         /\ final' = Fin("NoHostAvailable")
         /\ timer' = "off"
         /\ NoSend
         /\ UNCHANGED <<rid, ridn>>
    ELSE /\ plan' = SubSeq(plan, k + 1, Len(plan))
         /\ SendTo(plan[k], Exec(plan[k]))
         /\ rid' = NextId(plan[k])                      \* self._req_id = req_id
         /\ ridn' = Len(sent) + 1
         /\ UNCHANGED <<final, timer>>

InitWith(c) ==
    /\ cfg = c
    /\ plan = Hosts
    /\ sent = <<>> /\ srv = {} /\ queue = <<>>
    /\ final = "unset"
    /\ pool = [h \in HostSet |-> "ok"]
    /\ unprep = 0
    /\ timer = "none"
    /\ free = [h \in HostSet |-> [i \in 1..c.ids |-> i - 1]]
    /\ hi = [h \in HostSet |-> c.ids - 1]
    /\ rid = -1 /\ ridn = 0 /\ lc = "-"
    /\ stop = -1
    /\ act = [name |-> "Init", h |-> "-", resp |-> "-", was |-> "unset", n |-> 0, pok |-> TRUE]

Init == \E c \in Configs : InitWith(c)

(* session.execute_async(bound statement) *)
(* ResponseFuture._on_speculative_execute (loop thread): the request goes to the next host of the plan that can take it *)
(* (none: nothing is sent and nothing fails), the client timeout is armed                                             *)
SpecExec ==
    /\ timer = "spec" /\ final = "unset"
    /\ LET k == FirstUsable(plan) IN
       IF k = 0 THEN plan' = <<>> /\ NoSend /\ UNCHANGED <<rid, ridn>>
       ELSE /\ plan' = SubSeq(plan, k + 1, Len(plan))
            /\ SendTo(plan[k], Exec(plan[k]))
            /\ rid' = NextId(plan[k])
            /\ ridn' = Len(sent) + 1
    /\ timer' = "armed"
    /\ act' = A("SpecExec", "-", "-")
    /\ UNCHANGED <<cfg, queue, final, pool, unprep, stop>>

Start ==
    /\ sent = <<>> /\ final = "unset" /\ timer = "none"
    /\ LET k == FirstUsable(plan) IN
       /\ k # 0
       /\ plan' = SubSeq(plan, k + 1, Len(plan))
       /\ SendTo(plan[k], Exec(plan[k]))
       /\ rid' = NextId(plan[k])
       /\ ridn' = Len(sent) + 1
    /\ timer' = IF cfg.spec = 1 THEN "spec" ELSE "armed"                  \* _start_timer
    /\ act' = A("Start", "-", "-")
    /\ UNCHANGED <<cfg, queue, final, pool, unprep, stop>>

(* a node answers the EXECUTE with ERROR UNPREPARED(id); loop thread: _set_result *)
AnsUnprepared(r) ==
    /\ r \in srv /\ r.kind = "EXECUTE"
    /\ unprep < MaxUnprep
    /\ ~Failed
    \* scope: one re-preparation at a time - while one is under way the other attempt in flight is not answered UNPREPARED
    /\ queue = <<>> /\ \A x \in srv : x.kind # "PREPARE"
    /\ Answered(r)
    /\ unprep' = unprep + 1
    /\ IF cfg.pv < 5 /\ cfg.sks # "none" /\ cfg.cks # cfg.sks
       THEN \* the protocol cannot carry the keyspace and the connection is in another one: ValueError, nothing sent
            /\ final' = Fin("ValueError")
            /\ timer' = "off"
            /\ stop' = IF final = "unset" THEN Len(sent) ELSE stop
            /\ UNCHANGED queue
       ELSE /\ queue' = Append(queue, [t |-> "reprepare", h |-> r.h, resp |-> "-"])
            /\ UNCHANGED <<final, timer, stop>>
    /\ act' = A("AnsUnprepared", r.h, "-")
    /\ UNCHANGED <<cfg, plan, pool>>

(* a node answers the EXECUTE with rows *)
AnsRows(r) ==
    /\ r \in srv /\ r.kind = "EXECUTE"
    /\ ~Failed
    /\ Answered(r)
    /\ final' = Fin("rows")
    /\ timer' = "off"
    /\ act' = A("AnsRows", r.h, "-")
    /\ UNCHANGED <<cfg, plan, queue, pool, unprep, stop>>

(* executor: ResponseFuture._reprepare - PREPARE to the same host on a newly borrowed stream *)
RunReprepare ==
    /\ queue # <<>> /\ Head(queue).t = "reprepare"
    /\ LET h == Head(queue).h IN
       /\ IF pool[h] = "ok"
          THEN /\ SendTo(h, Prep(h))                 \* the node that answered UNPREPARED, whatever was queried since
               /\ UNCHANGED <<plan, final, timer, rid, ridn>>
          ELSE SendRequest                          \* no connection to that host: original request to the next host
       /\ act' = [A("RunReprepare", h, "-") EXCEPT !.pok = (pool[h] = "ok")]
    /\ queue' = Tail(queue)
    /\ UNCHANGED <<cfg, pool, unprep, stop>>

(* a node answers the PREPARE: kind = "same" (RESULT prepared, same id), "diff" (other id), "error" (ERROR);  *)
(* loop thread: the callback only submits _execute_after_prepare                                             *)
AnsPrepare(r, kind) ==
    /\ r \in srv /\ r.kind = "PREPARE"
    /\ Answered(r)
    /\ queue' = IF r.live THEN Append(queue, [t |-> "after", h |-> r.h, resp |-> kind])
                ELSE queue                                  \* handler removed by the timeout: the answer is an orphan
    /\ act' = A("AnsPrepare", r.h, kind)
    /\ UNCHANGED <<cfg, plan, final, pool, unprep, timer, stop>>

(* the connection carrying the PREPARE dies: its callback gets a ConnectionException *)
ConnLost(h) ==
    /\ \E r \in srv : r.h = h /\ r.kind = "PREPARE" /\ r.live
    /\ srv' = {r \in srv : r.h # h}
    /\ queue' = Append(queue, [t |-> "after", h |-> h, resp |-> "connerr"])
    /\ pool' = [pool EXCEPT ![h] = "noconn"]
    /\ act' = A("ConnLost", h, "-")
    /\ UNCHANGED <<cfg, plan, sent, final, unprep, timer, free, hi, rid, ridn, lc, stop>>

(* the host's pool is shut down while one of the two hops is pending *)
PoolDown(h) ==
    /\ pool[h] = "ok"
    /\ queue # <<>>
    /\ \A r \in srv : r.h # h
    /\ pool' = [pool EXCEPT ![h] = "shutdown"]
    /\ act' = A("PoolDown", h, "-")
    /\ UNCHANGED <<cfg, plan, sent, srv, queue, final, unprep, timer, free, hi, rid, ridn, lc, stop>>

(* executor: ResponseFuture._execute_after_prepare *)
RunAfter ==
    /\ queue # <<>> /\ Head(queue).t = "after"
    /\ LET h == Head(queue).h
           resp == Head(queue).resp IN
       /\ IF Failed
          THEN NoSend /\ UNCHANGED <<plan, final, timer, rid, ridn, stop>>    \* e.g. timed out meanwhile: nothing more
          ELSE CASE resp = "same" ->
                        /\ IF pool[h] = "ok"
                           THEN SendTo(h, Exec(h)) /\ UNCHANGED <<plan, final, timer, rid, ridn>>  \* original request, same host,
                                                                                            \* whatever stream id it is given
                           ELSE SendRequest
                        /\ UNCHANGED stop
                 [] resp = "diff" ->
                        \* DriverException("ID mismatch ..."); the request has failed, nothing further is sent.
                        \* (The pinned code sets the exception but falls through to self._query(host).)
                        /\ final' = Fin("DriverException")
                        /\ timer' = "off"
                        /\ stop' = IF final = "unset" THEN Len(sent) ELSE stop
                        /\ NoSend /\ UNCHANGED <<plan, rid, ridn>>
                 [] resp = "error" ->
                        /\ final' = Fin("InvalidRequest")                     \* the server's error surfaces
                        /\ timer' = "off"
                        /\ NoSend /\ UNCHANGED <<plan, rid, ridn, stop>>
                 [] resp = "connerr" ->
                        /\ SendRequest                                        \* original request to the next host of the plan
                        /\ UNCHANGED stop
       /\ act' = [A("RunAfter", h, resp) EXCEPT !.pok = (pool[h] = "ok")]
    /\ queue' = Tail(queue)
    /\ UNCHANGED <<cfg, pool, unprep>>

(* the node stays silent on the PREPARE until the client timeout fires (loop thread) *)
Timeout ==
    /\ timer = "armed" /\ final = "unset"
    /\ \E r \in srv : r.kind = "PREPARE"
    /\ final' = "OperationTimedOut"
    /\ timer' = "off"
    \* _on_timeout removes what this future registered on self._connection under self._req_id: the frame send_request
    \* sent last, if it is still unanswered and that connection was the last one borrowed - and, in a tiny id space,
    \* whatever other frame of this future travels on that connection under the same id (the PREPARE)
    /\ srv' = {IF r.h = lc /\ (r.n = ridn \/ (cfg.ids # 0 /\ r.sid = rid)) THEN [r EXCEPT !.live = FALSE] ELSE r : r \in srv}
    /\ act' = A("Timeout", "-", "-")
    /\ UNCHANGED <<cfg, plan, sent, queue, pool, unprep, free, hi, rid, ridn, lc, stop>>

Next ==
    \/ Start
    \/ SpecExec
    \/ \E r \in srv : AnsUnprepared(r)
    \/ \E r \in srv : AnsRows(r)
    \/ \E r \in srv, k \in {"same", "diff", "error"} : AnsPrepare(r, k)
    \/ RunReprepare
    \/ RunAfter
    \/ \E h \in HostSet : ConnLost(h)
    \/ \E h \in HostSet : PoolDown(h)
    \/ Timeout

Spec == Init /\ [][Next]_vars

-----------------------------------------------------------------------------
(* C19 *)
Last(s) == s[Len(s)]
Preps == {i \in 1..Len(sent) : sent[i].kind = "PREPARE"}

TypeOK ==
    /\ cfg \in Configs
    /\ final \in {"unset", "rows", "ValueError", "DriverException", "InvalidRequest", "OperationTimedOut", "NoHostAvailable"}
    /\ Cardinality(srv) <= 1 + cfg.spec
    /\ Len(queue) <= 1

Execs == {i \in 1..Len(sent) : sent[i].kind = "EXECUTE"}
To(S, h) == {i \in S : sent[i].h = h}

\* the PREPARE names the same query text, carries the keyspace iff the protocol can, and goes to a node that has been
\* sent the EXECUTE before
PrepareWellFormed ==
    \A i \in Preps : /\ sent[i].q = "Q"
                     /\ sent[i].ks = (IF cfg.pv >= 5 THEN cfg.sks ELSE "none")
                     /\ \E j \in Execs : j < i /\ sent[j].h = sent[i].h
\* ... namely to the node that answered UNPREPARED, whatever node the future queried last (a speculative execution)
PrepareOnAnsweringNode ==
    (act.name = "RunReprepare" /\ act.pok) => (Len(sent) = act.n + 1 /\ Base(Last(sent)) = Prep(act.h))

\* exactly one PREPARE per UNPREPARED answer that is acted upon
OnePreparePerUnprepared == Cardinality(Preps) <= unprep

\* what may follow what in the send log: the request goes through the plan in order; a node gets it a second time only
\* after it has been re-prepared, once per PREPARE
SendOrder ==
    /\ \A j \in Execs : \/ \A i \in Execs : i < j => Pos(sent[i].h) < Pos(sent[j].h)
                         \/ \E k \in Preps : k < j /\ sent[k].h = sent[j].h
    /\ \A h \in HostSet : Cardinality(To(Execs, h)) <= 1 + Cardinality(To(Preps, h))

\* once re-preparing succeeded the original request is re-sent, exactly once, to the same host
ResentOnSuccess ==
    (act.name = "RunAfter" /\ act.resp = "same" /\ act.was = "unset" /\ act.pok) =>
        /\ Len(sent) = act.n + 1
        /\ Base(Last(sent)) = Exec(act.h)                 \* whatever stream id it travels under

\* a failed PREPARE surfaces as the request's error and nothing is sent
PrepareErrorSurfaces ==
    (act.name = "RunAfter" /\ act.resp = "error" /\ act.was = "unset") => (final = "InvalidRequest" /\ Len(sent) = act.n)

\* connection loss (or an unusable pool) moves the original request to the next host of the plan
LossMovesOn ==
    (/\ act.was = "unset"
     /\ \/ act.name = "RunReprepare" /\ ~act.pok
        \/ act.name = "RunAfter" /\ (act.resp = "connerr" \/ (act.resp = "same" /\ ~act.pok))) =>
        \/ /\ Len(sent) = act.n + 1
           /\ Last(sent).kind = "EXECUTE"
           /\ Pos(Last(sent).h) > Pos(act.h)
        \/ final = "NoHostAvailable" /\ Len(sent) = act.n

\* id mismatch / keyspace mismatch: the request fails with that error and the send log stops
MismatchStops ==
    stop >= 0 => /\ Len(sent) = stop
                 /\ final \in {"ValueError", "DriverException"}
                 /\ queue = <<>> /\ \A r \in srv : r.kind = "EXECUTE"     \* (a speculative execution may be left unanswered)

KeyspaceRule ==
    /\ final = "ValueError" => (cfg.pv < 5 /\ cfg.sks # "none" /\ cfg.cks # cfg.sks)
    /\ (cfg.pv < 5 /\ cfg.sks # "none" /\ cfg.cks # cfg.sks) => Preps = {}

NothingAfterStop == [][stop >= 0 => sent' = sent /\ final' = final]_vars

\* with one request of the execution in flight at a time the ids never leave the (shrunk) id space
IdsInSpace == cfg.ids # 0 => \A i \in 1..Len(sent) : sent[i].sid \in 0..(cfg.ids - 1)

\* vacuity witnesses (each must be violated = reachable)
Witness_Mismatch == final # "DriverException"
Witness_KsMismatch == final # "ValueError"
Witness_NextHostAfterLoss == ~(Len(sent) >= 3 /\ sent[Len(sent) - 1].kind = "PREPARE" /\ Last(sent).kind = "EXECUTE"
                               /\ Last(sent).h # sent[Len(sent) - 1].h)
Witness_SecondRound == ~(unprep = 2 /\ final = "rows" /\ Cardinality(Preps) = 2)
Witness_NoHost == final # "NoHostAvailable"
Witness_LateAnswerAfterTimeout == ~(act.name = "RunAfter" /\ act.was = "OperationTimedOut")
Witness_V5Keyspace == \A i \in Preps : sent[i].ks # "ks"
Witness_ResendOnStreamZero == ~(act.name = "RunAfter" /\ act.resp = "same" /\ act.was = "unset" /\ Len(sent) = act.n + 1
                                /\ Last(sent).kind = "EXECUTE" /\ Last(sent).sid = 0 /\ Len(plan) >= 1)
Witness_TimeoutTakesPrepareHandler == \A r \in srv : r.live
Witness_ReprepareBehindSpeculation == ~(act.name = "RunReprepare" /\ act.pok /\ Len(sent) >= 3
                                        /\ sent[Len(sent) - 1].kind = "EXECUTE" /\ sent[Len(sent) - 1].h # act.h)
Witness_SpeculativeAnswered == ~(final = "rows" /\ Cardinality(Execs) >= 2 /\ Preps = {} /\ srv # {})
Witness_PoolDownBeforePrepare == ~(act.name = "RunReprepare" /\ ~act.pok /\ Len(sent) = act.n + 1)
=============================================================================
