----------------------------- MODULE WirePrims -----------------------------
(* Notation of the CQL native protocol documents (native_protocol_v1..v5.spec, *)
(* section 3 "Notations") as byte-sequence combinators.  A byte string is a    *)
(* sequence over 0..255.  TLC integers are 32 bit, therefore                   *)
(*   - [int]  is given as a TLC integer in -2^31 .. 2^31-1, or as two 16-bit   *)
(*            limbs (Word32) when the top bit is a flag (DSE paging flags);    *)
(*   - [long] is given as four 16-bit limbs (Long16) or as a sign-extended     *)
(*            TLC integer (LongS).                                             *)
(* Text is given as the bytes of its UTF-8 encoding (TLC cannot look into a    *)
(* TLA+ string); the harness converts (harness/replay/wire_bind.py).           *)
(* Used by WireRequests.tla (C03) and WireResponses.tla (C04).                 *)
EXTENDS Integers, Sequences, FiniteSets, TLC

\* ---------------------------------------------------------------- options
None       == <<>>
Some(x)    == <<x>>
IsSome(m)  == Len(m) = 1
The(m)     == m[1]

\* [bytes] / [value]: a byte string, null (length -1) or "not set" (length -2, v4+)
V(b)   == <<"v", b>>
Null   == <<"null", <<>>>>
Unset  == <<"unset", <<>>>>
IsV(v) == v[1] = "v"

\* ---------------------------------------------------------------- numbers
Byte(n)  == <<n>>                                         \* [byte]   0..255
Short(n) == <<n \div 256, n % 256>>                       \* [short]  0..65535
U31(n)   == <<n \div 16777216, (n \div 65536) % 256, (n \div 256) % 256, n % 256>>
I32(n)   == IF n >= 0 THEN U31(n)                         \* [int]    two's complement, big endian
            ELSE LET m == U31(-(n + 1)) IN <<255 - m[1], 255 - m[2], 255 - m[3], 255 - m[4]>>
Word32(hi, lo)       == Short(hi) \o Short(lo)             \* [int] given as two 16-bit limbs
Long16(a, b, c, d)   == Short(a) \o Short(b) \o Short(c) \o Short(d)      \* [long], 16-bit limbs, most significant first
LongL(l)             == Long16(l[1], l[2], l[3], l[4])
LongS(n)             == (IF n >= 0 THEN <<0, 0, 0, 0>> ELSE <<255, 255, 255, 255>>) \o I32(n)

RECURSIVE Cat(_)                                          \* concatenation of a sequence of byte strings
Cat(ss) == IF Len(ss) = 0 THEN <<>> ELSE Head(ss) \o Cat(Tail(ss))

Map(Op(_), s) == [i \in 1..Len(s) |-> Op(s[i])]

\* ---------------------------------------------------------------- strings, bytes, collections
String(s)      == Short(Len(s)) \o s                      \* [string]       (s = UTF-8 bytes)
LongString(s)  == I32(Len(s)) \o s                        \* [long string]
ShortBytes(b)  == Short(Len(b)) \o b                      \* [short bytes]
Bytes(v)       == CASE v[1] = "null"  -> I32(-1)          \* [bytes] and [value]
                    [] v[1] = "unset" -> I32(-2)
                    [] OTHER          -> I32(Len(v[2])) \o v[2]
StringList(l)  == Short(Len(l)) \o Cat(Map(String, l))    \* [string list]
StringPair(kv) == String(kv[1]) \o String(kv[2])
StringMap(m)   == Short(Len(m)) \o Cat(Map(StringPair, m))          \* [string map]; m = sequence of <<key, value>>
MultiPair(kv)  == String(kv[1]) \o StringList(kv[2])
StringMultimap(m) == Short(Len(m)) \o Cat(Map(MultiPair, m))        \* [string multimap]
BytesPair(kv)  == String(kv[1]) \o Bytes(kv[2])
BytesMap(m)    == Short(Len(m)) \o Cat(Map(BytesPair, m))           \* [bytes map]
InetAddr(a)    == Byte(Len(a)) \o a                       \* [inetaddr]  4 or 16 address bytes
Inet(a, port)  == InetAddr(a) \o I32(port)                \* [inet]
Uuid(u)        == u                                       \* [uuid] 16 opaque bytes
Consistency(c) == Short(c)                                \* [consistency]

\* the entries of a map may be written in any order: all orders of a sequence
Orders(s) == {[i \in 1..Len(s) |-> s[p[i]]] : p \in Permutations(1..Len(s))}

\* ---------------------------------------------------------------- readers (specification-level parser)
\* A reader takes the byte string and a position and returns [v |-> value, p |-> next position].
R(v, p)          == [v |-> v, p |-> p]
RdByte(b, p)     == R(b[p], p + 1)
RdShort(b, p)    == R(b[p] * 256 + b[p + 1], p + 2)
RdInt(b, p)      == IF b[p] < 128
                    THEN R(((b[p] * 256 + b[p + 1]) * 256 + b[p + 2]) * 256 + b[p + 3], p + 4)
                    ELSE R(-((((255 - b[p]) * 256 + (255 - b[p + 1])) * 256 + (255 - b[p + 2])) * 256 + (255 - b[p + 3])) - 1, p + 4)
RdWord32(b, p)   == R(<<b[p] * 256 + b[p + 1], b[p + 2] * 256 + b[p + 3]>>, p + 4)         \* <<hi, lo>>
RdLong16(b, p)   == R(<<b[p] * 256 + b[p + 1], b[p + 2] * 256 + b[p + 3],
                        b[p + 4] * 256 + b[p + 5], b[p + 6] * 256 + b[p + 7]>>, p + 8)
RdRaw(b, p, n)   == R(SubSeq(b, p, p + n - 1), p + n)
RdString(b, p)   == LET n == RdShort(b, p) IN RdRaw(b, n.p, n.v)
RdLongString(b, p) == LET n == RdInt(b, p) IN RdRaw(b, n.p, n.v)
RdValue(b, p)    == LET n == RdInt(b, p) IN
                    IF n.v = -1 THEN R(Null, n.p)
                    ELSE IF n.v = -2 THEN R(Unset, n.p)
                    ELSE LET x == RdRaw(b, n.p, n.v) IN R(V(x.v), x.p)
\* n items read by Rd(b, p), as a sequence
RECURSIVE RdMany(_, _, _, _)
RdMany(Rd(_, _), b, p, n) ==
    IF n = 0 THEN R(<<>>, p)
    ELSE LET x == Rd(b, p) rest == RdMany(Rd, b, x.p, n - 1) IN R(<<x.v>> \o rest.v, rest.p)
RdStringList(b, p) == LET n == RdShort(b, p) IN RdMany(RdString, b, n.p, n.v)
RdStringPair(b, p) == LET k == RdString(b, p) v == RdString(b, k.p) IN R(<<k.v, v.v>>, v.p)
RdStringMap(b, p)  == LET n == RdShort(b, p) IN RdMany(RdStringPair, b, n.p, n.v)
RdBytesPair(b, p)  == LET k == RdString(b, p) v == RdValue(b, k.p) IN R(<<k.v, v.v>>, v.p)
RdBytesMap(b, p)   == LET n == RdShort(b, p) IN RdMany(RdBytesPair, b, n.p, n.v)
Bit(x, k)          == (x \div k) % 2 = 1          \* k a power of two
AsSet(s)           == {s[i] : i \in 1..Len(s)}

\* ---------------------------------------------------------------- protocol versions
DSE1 == 65      \* DSE_V1 = 0x41
DSE2 == 66      \* DSE_V2 = 0x42
Versions == {1, 2, 3, 4, 5, 6, DSE1, DSE2}
Standard == {1, 2, 3, 4, 5, 6}
IsDse(pv)               == pv \in {DSE1, DSE2}
\* v6 is a beta number without a published document of its own; it is taken to be v5 (assumption)
V5Like(pv)              == pv \in {5, 6}
IntFlags(pv)            == V5Like(pv) \/ IsDse(pv)      \* QUERY/EXECUTE/BATCH <flags> is an [int] (v5 spec 4.1.4; DSE)
HasKeyspace(pv)         == V5Like(pv) \/ pv = DSE2      \* per-request keyspace, PREPARE <flags> (v5 spec 4.1.4/4.1.5; DSE_V2)
HasResultMetadataId(pv) == V5Like(pv) \/ pv = DSE2      \* <result_metadata_id> (v5 spec 4.1.6, 4.2.5.4; DSE_V2)
HasReasonMap(pv)        == V5Like(pv) \/ IsDse(pv)      \* Read_failure/Write_failure <reasonmap> (v5 spec 9; DSE)
HasContPaging(pv)       == IsDse(pv)                    \* DSE continuous paging
HasNextPages(pv)        == pv = DSE2                    \* DSE_V2: queue size / REVISE_REQUEST backpressure
ModernFraming(pv)       == V5Like(pv)                   \* v5 framing: compression moves to the segment layer
HeaderLen(pv)           == IF pv >= 3 THEN 9 ELSE 8     \* 2-byte stream ids from v3 on
=============================================================================
