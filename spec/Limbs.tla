------------------------------- MODULE Limbs -------------------------------
(* Natural numbers of any width as sequences of BYTES, least significant     *)
(* first ("limbs" of 8 bits).  TLC's integers are 32 bit; everything wider     *)
(* (nanoseconds of a day, 60-bit UUID timestamps, epoch milliseconds of the    *)
(* year 9999, two's complement 64-bit fields) is computed here with schoolbook *)
(* arithmetic whose intermediate values stay below 2^31:                       *)
(*   a limb is 0..255; a small factor / divisor k is below 2^23, so that       *)
(*   255 * k + carry < 2^31 and 256 * remainder + limb < 2^31.                 *)
(* The harness converts such sequences to Python integers and cross-checks     *)
(* every wide number the specification states (harness/replay/calendar.py).    *)
(* Used by Calendar.tla (C34) and ColumnValues.tla (C36).                      *)
EXTENDS Integers, Sequences

MaxSmall == 8388607          \* 2^23 - 1: largest k for MulK / DivK

RECURSIVE NatLE(_)           \* a TLC integer n >= 0 as limbs
NatLE(n) == IF n = 0 THEN <<>> ELSE <<n % 256>> \o NatLE(n \div 256)

RECURSIVE Trim(_)            \* without most significant zero limbs
Trim(a) == IF Len(a) > 0 /\ a[Len(a)] = 0 THEN Trim(SubSeq(a, 1, Len(a) - 1)) ELSE a

IsZero(a) == Len(Trim(a)) = 0

RECURSIVE ToInt(_)           \* only when the number is below 2^31
ToInt(a) == IF Len(a) = 0 THEN 0 ELSE a[1] + 256 * ToInt(Tail(a))

RECURSIVE AddC(_, _, _)
AddC(a, b, c) ==
    IF Len(a) = 0 /\ Len(b) = 0 THEN (IF c = 0 THEN <<>> ELSE <<c>>)
    ELSE LET x == IF Len(a) > 0 THEN a[1] ELSE 0
             y == IF Len(b) > 0 THEN b[1] ELSE 0
             t == x + y + c IN
         <<t % 256>> \o AddC(IF Len(a) > 0 THEN Tail(a) ELSE a, IF Len(b) > 0 THEN Tail(b) ELSE b, t \div 256)
Add(a, b) == AddC(a, b, 0)

RECURSIVE MulK(_, _, _)      \* a * k + c, 0 <= k <= MaxSmall, 0 <= c <= k
MulK(a, k, c) == IF Len(a) = 0 THEN NatLE(c)
                 ELSE LET t == a[1] * k + c IN <<t % 256>> \o MulK(Tail(a), k, t \div 256)

RECURSIVE Mul(_, _)          \* schoolbook: a * (b[1] + 256 * rest)
Mul(a, b) == IF Len(b) = 0 THEN <<>> ELSE Add(MulK(a, b[1], 0), <<0>> \o Mul(a, Tail(b)))

RECURSIVE SubB(_, _, _)      \* a - b - borrow, for a >= b + borrow
SubB(a, b, br) ==
    IF Len(a) = 0 THEN <<>>
    ELSE LET y == (IF Len(b) > 0 THEN b[1] ELSE 0) + br
             t == a[1] - y IN
         <<IF t < 0 THEN t + 256 ELSE t>> \o SubB(Tail(a), IF Len(b) > 0 THEN Tail(b) ELSE b, IF t < 0 THEN 1 ELSE 0)
Sub(a, b) == SubB(a, b, 0)

RECURSIVE LessFrom(_, _, _)  \* same length: compare from limb i downwards
LessFrom(x, y, i) == IF i = 0 THEN FALSE ELSE IF x[i] # y[i] THEN x[i] < y[i] ELSE LessFrom(x, y, i - 1)
Less(a, b) == LET x == Trim(a) y == Trim(b) IN
              IF Len(x) # Len(y) THEN Len(x) < Len(y) ELSE LessFrom(x, y, Len(x))
Eq(a, b)   == Trim(a) = Trim(b)
Leq(a, b)  == ~Less(b, a)

RECURSIVE DivK(_, _)         \* [q |-> a \div k, r |-> a % k], 1 <= k <= MaxSmall
DivK(a, k) == IF Len(a) = 0 THEN [q |-> <<>>, r |-> 0]
              ELSE LET hi == DivK(Tail(a), k)               \* a = a[1] + 256 * (hi.q * k + hi.r)
                       t  == 256 * hi.r + a[1] IN          \* < 256 * k
                   [q |-> <<t \div k>> \o hi.q, r |-> t % k]

\* big-endian, exactly w bytes (the number must fit)
Fits(a, w) == Len(Trim(a)) <= w
BE(a, w)   == [i \in 1..w |-> IF w - i + 1 <= Len(a) THEN a[w - i + 1] ELSE 0] \o <<>>
FromBE(b)  == [i \in 1..Len(b) |-> b[Len(b) - i + 1]] \o <<>>
Pow256(w)  == [i \in 1..(w + 1) |-> IF i = w + 1 THEN 1 ELSE 0] \o <<>>
\* two's complement of -a on w bytes (0 < a <= 2^(8w-1)); a signed field of w bytes
SignedBE(neg, a, w) == IF neg /\ ~IsZero(a) THEN BE(Sub(Pow256(w), a), w) ELSE BE(a, w)
FitsSigned(neg, a, w) ==          \* -2^(8w-1) <= +-a < 2^(8w-1)
    LET half == [i \in 1..w |-> IF i = w THEN 128 ELSE 0] \o <<>> IN IF neg THEN Leq(a, half) ELSE Less(a, half)
\* the value of a signed big-endian field: [neg, mag]
FromSignedBE(b) == IF b[1] < 128 THEN [neg |-> FALSE, mag |-> Trim(FromBE(b))]
                   ELSE [neg |-> TRUE, mag |-> Trim(Sub(Pow256(Len(b)), FromBE(b)))]
=============================================================================
