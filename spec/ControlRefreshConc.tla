------------------------- MODULE ControlRefreshConc -------------------------
(* C42, clause "newly seen hosts are announced once" when node-list refreshes *)
(* run CONCURRENTLY (two executor threads: a scheduled refresh and one         *)
(* triggered by a topology event / on_remove / the application).               *)
(*                                                                            *)
(* Code anchors (cassandra/):                                                 *)
(*   metadata.py Metadata.add_or_return_host: ONE critical section under      *)
(*               _hosts_lock - look the endpoint up and, if unknown, insert   *)
(*               the new Host; returns (host, new)                            *)
(*   cluster.py  Cluster.add_host: signals Cluster.on_add (policies',         *)
(*               listeners' on_add, pools) iff new;                           *)
(*               ControlConnection._refresh_node_list_and_token_map: for each *)
(*               valid peer row unknown to the metadata -> add_host           *)
(*                                                                            *)
(* Each thread refreshes against the same tables, which describe the peers in *)
(* NewPeers (all unknown before).  One action = one add_or_return_host        *)
(* critical section; everything else a refresh does for a row is local to the *)
(* thread.  ControlRefresh.tla is the sequential model of a refresh.          *)
EXTENDS Naturals, FiniteSets, TLC

CONSTANTS Threads, NewPeers

VARIABLES hosts,      \* endpoints known to the metadata (0 = the control node)
          announced,  \* peer -> number of on_add announcements
          todo        \* thread -> peers whose row it has not processed yet
vars == <<hosts, announced, todo>>

Init == /\ hosts = {0}
        /\ announced = [p \in NewPeers |-> 0]
        /\ todo = [t \in Threads |-> NewPeers]

\* with self._hosts_lock: known? return (known, False) : insert, return (host, True)  ->  on_add iff new
AddOrReturn(t, p) ==
    /\ p \in todo[t]
    /\ todo' = [todo EXCEPT ![t] = @ \ {p}]
    /\ IF p \in hosts
       THEN UNCHANGED <<hosts, announced>>
       ELSE hosts' = hosts \cup {p} /\ announced' = [announced EXCEPT ![p] = @ + 1]

Next == \E t \in Threads, p \in NewPeers : AddOrReturn(t, p)
Spec == Init /\ [][Next]_vars /\ WF_vars(Next)

Done == \A t \in Threads : todo[t] = {}

AnnouncedAtMostOnce == \A p \in NewPeers : announced[p] <= 1
AnnouncedIffKnown   == \A p \in NewPeers : (p \in hosts) <=> (announced[p] = 1)
AllKnownAtTheEnd    == Done => hosts = {0} \cup NewPeers
Terminates          == <>Done
=============================================================================
