-------------------------- MODULE Trace_Timestamps --------------------------
(* Trace validation (code -> spec) for Timestamps.tla.  Events are recorded    *)
(* from the real generator running under a random line-level schedule          *)
(* (harness/replay/timestamps.py):                                              *)
(*   acq(t)      the lock was acquired            Acquire(t)                    *)
(*   read(t, v)  the clock was read, returned v   ReadClock(t, v)               *)
(*   conf        first event: the configuration  (binds conf in TraceInit)      *)
(*   set(t, x, w) self.last = x was executed      Compute(t) with last' = x and  *)
(*               w warnings logged by this call   warnings' = warnings + w       *)
(*   rel(t)      the lock is released             Release(t)                    *)
(*   ret(t, x)   the call returned x              no state change; x = ret[t]   *)
(* A generator without the lock produces read/set events outside an            *)
(* acq..rel bracket (or two reads inside one), which no action accepts.         *)
EXTENDS Timestamps, TraceLib

VARIABLES tid, l
tvars == <<vars, tid, l>>

Tr == Traces[tid]

TraceInit == /\ tid \in 1..NTraces /\ l = 2 /\ Init
             /\ conf = [warn |-> Tr[1].warn, eager |-> Tr[1].eager]

TraceNext ==
    /\ l <= Len(Tr)
    /\ l' = l + 1
    /\ UNCHANGED tid
    /\ LET e == Tr[l] IN
          \/ e.e = "acq"  /\ Acquire(e.t)
          \/ e.e = "read" /\ ReadClock(e.t, e.v)
          \/ e.e = "set"  /\ Compute(e.t) /\ last' = e.x /\ warnings' = warnings + e.w
          \/ e.e = "rel"  /\ Release(e.t)
          \/ e.e = "ret"  /\ pc[e.t] = "idle" /\ calls[e.t] > 0 /\ ret[e.t] = e.x /\ UNCHANGED vars

TraceSpec == TraceInit /\ [][TraceNext]_tvars

Progress == RecordProgress(tid, l)
Done == PrintProgress
=============================================================================
