--------------------------- MODULE Trace_Callbacks ---------------------------
(* Trace validation (code -> spec) for Callbacks.tla.  A trace is the sequence *)
(* of observable effects of a seeded random line-level schedule of the real    *)
(* ResponseFuture methods (DetSched line mode):                                *)
(*   Config                 kinds of the completers, ops of the registrars, pre *)
(*   acq t / rel t          _callback_lock acquired / released by thread t      *)
(*   set t k                _final_result ("res") / _final_exception ("err") set *)
(*   iter t which ids       _callbacks / _errbacks iterated (the snapshot)       *)
(*   evt t                  _event.set()                                         *)
(*   append t which h       handler of owner h appended to _callbacks/_errbacks  *)
(*   call t h which o       handler (h, which) invoked by thread t with outcome o *)
(*   end                    all threads returned                                 *)
(* Each event must be the next effect of the named thread in the specification. *)
EXTENDS Callbacks, TraceLib

VARIABLES tid, l
tvars == <<vars, tid, l>>
Tr == Traces[tid]

Post(p) ==
    /\ Has(p, "final") => final' = p.final
    /\ Has(p, "lock")  => lock' = p.lock
    /\ Has(p, "cc")    => \A o \in Owners : ccalls'[o] = p.cc[o + 1]
    /\ Has(p, "ec")    => \A o \in Owners : ecalls'[o] = p.ec[o + 1]

TraceInit ==
    /\ tid \in 1..NTraces
    /\ l = 2
    /\ Len(Tr) >= 1 /\ Tr[1].e = "Config"
    /\ Len(Tr[1].kind) = NC /\ Len(Tr[1].op) = NR
    /\ \A c \in Completers : Tr[1].kind[c] \in Kinds
    /\ \A r \in Registrars : Tr[1].op[r - NC] \in Ops
    /\ Tr[1].pre \in PreChoices
    /\ InitWith([c \in Completers |-> Tr[1].kind[c]], [r \in Registrars |-> Tr[1].op[r - NC]], Tr[1].pre)

Which(c) == IF kind[c] = "res" THEN "cb" ELSE "eb"

TraceNext ==
    /\ l <= Len(Tr)
    /\ l' = l + 1
    /\ UNCHANGED tid
    /\ LET e == Tr[l] IN
       /\ e.t \in Threads
       /\ \/ e.e = "acq"    /\ Acq(e.t)
          \/ e.e = "set"    /\ CSet(e.t) /\ e.k = kind[e.t]
          \/ e.e = "iter"   /\ CSnap(e.t) /\ e.which = Which(e.t) /\ snap'[e.t] = e.ids
          \/ e.e = "rel"    /\ (CRel(e.t) \/ CRelAbort(e.t) \/ RRel(e.t))
          \/ e.e = "evt"    /\ CEvt(e.t)
          \/ e.e = "append" /\ RAppend(e.t) /\ e.h = e.t /\ e.which = phase[e.t]
          \/ e.e = "end"    /\ AllDone /\ UNCHANGED vars            \* every thread returned: nothing is left to run
          \/ e.e = "call"   /\ e.o = final
                            /\ \/ CRun(e.t) /\ e.h = Head(snap[e.t]) /\ e.which = Which(e.t)
                               \/ RRunNow(e.t) /\ e.h = e.t /\ e.which = phase[e.t]
       /\ Has(e, "post") => Post(e.post)

TraceSpec == TraceInit /\ [][TraceNext]_tvars

Progress == RecordProgress(tid, l)
Done == PrintProgress
=============================================================================
