-------------------------------- MODULE Bind --------------------------------
(* Binding of prepared statements and routing keys (C30), and the routing key *)
(* the object mapper attaches to a statement (C38).                           *)
(*                                                                            *)
(* Code anchors                                                               *)
(*   cassandra/query.py  BoundStatement.bind / _append_unset_value   560-657  *)
(*                       BoundStatement.routing_key                  659-673  *)
(*                       Statement._key_parts_packed                 292-295  *)
(*                       PreparedStatement.from_message              463-496  *)
(*   cassandra/cqlengine/models.py   key_serializer                  947-954  *)
(*   cassandra/cqlengine/query.py    _execute_statement            1520-1530  *)
(*                                                                            *)
(* This module is the reference definition.  A state is one CASE (an input)   *)
(* together with the answer the property demands (`out`).  TLC enumerates all *)
(* cases (two enumerations: Init for C30, MapperInit for C38), checks the     *)
(* clauses of the property as invariants on the definition itself, and dumps  *)
(* the states; checks/c30.py and checks/c38.py evaluate every state on the    *)
(* real driver objects.                                                       *)
(*                                                                            *)
(* Where the statement of C30 leaves the answer open the definition admits    *)
(* both (out.accept and out.reject both TRUE), see BindSeq.                   *)
EXTENDS Integers, Sequences, FiniteSets, TLC

CONSTANTS MaxCols,      \* bind metadata has 1..MaxCols columns
          MaxPk,        \* 0..MaxPk of them are partition key components (any positions, any key order)
          PVs,          \* native protocol versions
          NVals,        \* distinct non-null values per int column (1 or 2; the second is negative)
          NTextVals,    \* distinct non-null values per text column (1 or 2; the second is the EMPTY string)
          Partial,      \* TRUE: also shapes whose table has one more partition key column that is not bound
          MTypes,       \* C38: key column types
          MMaxPk,       \* C38: 1..MMaxPk partition key columns
          MOps,         \* C38: mapper operations (opaque to this module)
          MOrders,      \* C38: what the application defined and used BEFORE the model of the case (opaque here):
                        \*      "base_first": models keyed by the base column classes (Integer, Text),
                        \*      "subclass_first": models keyed by their subclasses (BigInt, SmallInt, TinyInt, Ascii)
          MFull,        \* C38: TRUE: int / text / blob key columns also take a third value (every type always has an
                        \*      ordinary and a falsy-but-present one)
          MLayouts,     \* C38: where the model DECLARES its clustering column relative to the partition key columns:
                        \*      "keys_first" (the usual layout), "clustering_first", "clustering_between" (after the
                        \*      first partition key column; needs two of them).  The table is PRIMARY KEY ((k1..kn), ck)
                        \*      whatever the declaration order, and so is the partition key Cassandra hashes.
          MPairTypes,   \* C38: key types for which TWO statements on one model are enumerated whose key values compare
                        \*      EQUAL in Python but are different values for Cassandra (different bytes, hence different
                        \*      partitions): decimal 1.0 / 1.00 (scale), float and double 0.0 / -0.0 (sign of zero)
          MLayoutMaxPk  \* C38: the unusual layouts are enumerated for models with up to this many partition key columns

-----------------------------------------------------------------------------
\* Bytes are sequences of 0..255.

RECURSIVE BE(_, _)
\* w-byte big-endian two's complement of v (\div floors, % is non-negative)
BE(w, v) == IF w = 0 THEN <<>> ELSE Append(BE(w - 1, v \div 256), v % 256)

RECURSIVE Concat(_)
Concat(ss) == IF ss = <<>> THEN <<>> ELSE Head(ss) \o Concat(Tail(ss))

\* One component of Cassandra's CompositeType: 2-byte big-endian length, the bytes, an end-of-component 0
Component(b) == BE(2, Len(b)) \o b \o <<0>>

\* Cassandra's partition key bytes for the component encodings `parts` (in partition key order)
KeyBytes(parts) == IF Len(parts) = 1 THEN parts[1]
                   ELSE Concat([i \in 1..Len(parts) |-> Component(parts[i])])

\* An EMPTY component is a component like any other (the empty string '' and the empty blob serialize to no bytes;
\* that is not null): alone it is the empty key, inside a composite it is 0x0000 ++ (nothing) ++ 0x00.
ASSUME EmptyComponentEncoding ==
    /\ Component(<<>>) = <<0, 0, 0>>
    /\ KeyBytes(<< <<>> >>) = <<>>
    /\ KeyBytes(<< <<>>, <<7>> >>) = <<0, 0, 0, 0, 1, 7, 0>>
    /\ KeyBytes(<< <<7>>, <<>> >>) = <<0, 1, 7, 0, 0, 0, 0>>

\* An independent reader of the composite layout (what the server's CompositeType does when it splits a key)
RECURSIVE SplitComposite(_)
SplitComposite(b) ==
    IF b = <<>> THEN <<>>
    ELSE LET n == b[1] * 256 + b[2] IN
         <<SubSeq(b, 3, 2 + n)>> \o SplitComposite(SubSeq(b, 4 + n, Len(b)))

\* A value: integer-like types use field i, string-like types use field s (a sequence of byte codes,
\* ASCII only, so that UTF-8 is the identity).  Value encodings as such are Codec.tla's concern; here
\* they only need to be predictable.
V(i, s) == [i |-> i, s |-> s]
Enc(ty, v) ==
    CASE ty = "int"      -> BE(4, v.i)
      [] ty = "bigint"   -> BE(8, v.i)
      [] ty = "smallint" -> BE(2, v.i)
      [] ty = "tinyint"  -> BE(1, v.i)
      [] ty = "boolean"  -> <<v.i>>
      [] OTHER           -> v.s            \* text, ascii, blob, uuid (16 literal bytes)

-----------------------------------------------------------------------------
\* C30: cases

ColType(c) == IF c % 2 = 1 THEN "int" ELSE "text"

\* k-th value of column c: distinct per column, so that a value bound to the wrong marker shows.
ColVal(c, k) ==
    IF ColType(c) = "int"
    THEN (IF k = 1 THEN V(256 * c + 7, <<>>) ELSE V(0 - c, <<>>))
    ELSE (IF k = 1 THEN V(0, <<96 + c, 122>>) ELSE V(0, <<>>))          \* "bz", "dz" / the empty string

\* What the caller supplies for one bind marker.  k: "val" | "null" | "unset" | "missing" (name absent from a dict)
Given(c, k, n) == [k |-> k, ty |-> ColType(c), v |-> IF k = "val" THEN ColVal(c, n) ELSE V(0, <<>>)]

NV(c) == IF ColType(c) = "int" THEN NVals ELSE NTextVals
SeqEntries(c) == {Given(c, "val", n) : n \in 1..NV(c)} \cup {Given(c, "null", 0), Given(c, "unset", 0)}
MapEntries(c) == SeqEntries(c) \cup {Given(c, "missing", 0)}

\* all injective sequences over S of length k
RECURSIVE Inj(_, _)
Inj(S, k) == IF k = 0 THEN {<<>>} ELSE UNION {{<<x>> \o t : t \in Inj(S \ {x}, k - 1)} : x \in S}

PkSeqs(n) == UNION {Inj(1..n, k) : k \in 0..(IF MaxPk < n THEN MaxPk ELSE n)}

\* all sequences <<e_lo, .., e_hi>> with e_c an admissible entry for marker c
Entries(byName, c) == IF byName THEN MapEntries(c) ELSE SeqEntries(c)
RECURSIVE Prod(_, _, _)
Prod(byName, lo, hi) == IF lo > hi THEN {<<>>}
                        ELSE {<<x>> \o t : x \in Entries(byName, lo), t \in Prod(byName, lo + 1, hi)}

-----------------------------------------------------------------------------
\* C30: the definition

Slot(t, b) == [t |-> t, b |-> b]                  \* t: "bytes" | "null" | "unset"
SlotOf(e) == CASE e.k = "val"  -> Slot("bytes", Enc(e.ty, e.v))
               [] e.k = "null" -> Slot("null", <<>>)
               [] OTHER        -> Slot("unset", <<>>)          \* "unset", and "missing" where that is allowed

Min(a, b) == IF a < b THEN a ELSE b
Range(s) == {s[i] : i \in 1..Len(s)}

\* The routing key indexes a PreparedStatement gets (from_message): the positions, in partition key order,
\* of the bind markers of the partition key columns - or nothing when some key column is not bound.
RoutingIndexes(pk, partial) == IF partial THEN <<>> ELSE pk

RK(t, b) == [t |-> t, b |-> b]
\* t = "none": the statement has no routing key; "any": the property does not say (a null key component is
\* not a partition key Cassandra can hash); "bytes": exactly these bytes - possibly none at all (b = <<>>, the
\* key of a single empty component), which is a routing key and not the absence of one
RoutingKey(slots, rki) ==
    IF rki = <<>> THEN RK("none", <<>>)
    ELSE IF \E j \in 1..Len(rki) : slots[rki[j]].t # "bytes" THEN RK("any", <<>>)
    ELSE RK("bytes", KeyBytes([j \in 1..Len(rki) |-> slots[rki[j]].b]))

Rejected(kinds) == [accept |-> FALSE, reject |-> TRUE, kinds |-> kinds, slots |-> <<>>, rk |-> RK("any", <<>>)]
Bound(slots, rki, mayReject) ==
    [accept |-> TRUE, reject |-> mayReject, kinds |-> {}, slots |-> slots, rk |-> RoutingKey(slots, rki)]

\* Positional binding of ents (length 0..n+1) to n markers
BindSeq(n, rki, ents, pv) ==
    LET L == Len(ents)
        kinds == (IF L > n THEN {"too_many"} ELSE {})
           \cup (IF pv < 4 /\ \E i \in 1..Min(L, n) : ents[i].k = "unset" THEN {"unset_before_v4"} ELSE {})
           \cup (IF pv >= 4 /\ \E j \in 1..Len(rki) : rki[j] > L \/ ents[rki[j]].k = "unset"
                 THEN {"unset_key_component"} ELSE {})
           \cup (IF pv < 4 /\ \E j \in 1..Len(rki) : rki[j] > L THEN {"missing_key_component"} ELSE {})
    IN IF kinds # {} THEN Rejected(kinds)
       ELSE IF L = n THEN Bound([i \in 1..n |-> SlotOf(ents[i])], rki, FALSE)
       ELSE IF pv >= 4 THEN Bound([i \in 1..n |-> IF i <= L THEN SlotOf(ents[i]) ELSE Slot("unset", <<>>)], rki, FALSE)
       \* before v4 nothing can stand for the missing trailing values.  The statement only says they do not
       \* become 'unset'; whether the driver rejects the call or hands the short list to the server (which
       \* rejects it) is left open, and the driver's own suite pins the second: both are admitted.
       ELSE Bound([i \in 1..L |-> SlotOf(ents[i])], rki, TRUE)

\* Binding by name: ents has one entry per marker ("missing" when the dict lacks the name);
\* names that are no bind markers are ignored (documented: bind() "will not throw if extra keys are present")
BindMap(n, rki, ents, pv) ==
    LET kinds == (IF pv < 4 /\ \E i \in 1..n : ents[i].k = "missing" THEN {"missing_name"} ELSE {})
           \cup (IF pv < 4 /\ \E i \in 1..n : ents[i].k = "unset" THEN {"unset_before_v4"} ELSE {})
           \cup (IF pv >= 4 /\ \E j \in 1..Len(rki) : ents[rki[j]].k \in {"unset", "missing"}
                 THEN {"unset_key_component"} ELSE {})
    IN IF kinds # {} THEN Rejected(kinds) ELSE Bound([i \in 1..n |-> SlotOf(ents[i])], rki, FALSE)

\* the dict that makes the same assignment as a positional list
AsMap(n, ents) == [i \in 1..n |-> IF i <= Len(ents) THEN ents[i] ELSE Given(i, "missing", 0)]

-----------------------------------------------------------------------------
VARIABLES case, out
vars == <<case, out>>

Init ==
    \E n \in 1..MaxCols : \E pk \in PkSeqs(n) : \E partial \in (IF Partial /\ pk # <<>> THEN BOOLEAN ELSE {FALSE}) :
    \E pv \in PVs : \E kind \in {"seq", "map"} :
       LET rki == RoutingIndexes(pk, partial) IN
       IF kind = "seq"
       THEN \E L \in 0..(n + 1) : \E ents \in Prod(FALSE, 1, L) :
               /\ case = [prop |-> "C30", n |-> n, pk |-> pk, partial |-> partial, pv |-> pv, kind |-> "seq",
                          ents |-> ents, extra |-> FALSE]
               /\ out = BindSeq(n, rki, ents, pv)
       ELSE \E ents \in Prod(TRUE, 1, n) : \E extra \in BOOLEAN :
               /\ case = [prop |-> "C30", n |-> n, pk |-> pk, partial |-> partial, pv |-> pv, kind |-> "map",
                          ents |-> ents, extra |-> extra]
               /\ out = BindMap(n, rki, ents, pv)

\* ---- C38: a model with partition key columns of types tys (declaration order = key order), an operation
\* of the mapper that fixes the whole partition key to the values number vs[i] of each type
\* Value k of a key column of type ty.  k = 1: an ordinary value.  k = 2: the value that is PRESENT but falsy in
\* Python - 0, False, the empty string, the empty blob (a uuid has none: a second uuid).  A statement that fixes a
\* key component to such a value fixes it; "whole partition key fixed" means no component is missing (None), not
\* that every component is truthy.  k = 3 (MFull, some types): a negative number, a longer string.
MVal(ty, k) ==
    CASE ty = "int"      -> IF k = 1 THEN V(258, <<>>) ELSE IF k = 2 THEN V(0, <<>>) ELSE V(0 - 2, <<>>)
      [] ty = "bigint"   -> IF k = 1 THEN V(65537, <<>>) ELSE V(0, <<>>)
      [] ty = "smallint" -> IF k = 1 THEN V(513, <<>>) ELSE V(0, <<>>)
      [] ty = "tinyint"  -> IF k = 1 THEN V(5, <<>>) ELSE V(0, <<>>)
      [] ty = "boolean"  -> IF k = 1 THEN V(1, <<>>) ELSE V(0, <<>>)
      [] ty = "text"     -> IF k = 1 THEN V(0, <<97>>) ELSE IF k = 2 THEN V(0, <<>>) ELSE V(0, <<98, 99, 100>>)
      [] ty = "ascii"    -> IF k = 1 THEN V(0, <<120, 121>>) ELSE V(0, <<>>)
      [] ty = "blob"     -> IF k = 1 THEN V(0, <<0, 255>>) ELSE IF k = 2 THEN V(0, <<>>) ELSE V(0, <<1, 0, 0>>)
      [] ty = "uuid"     -> IF k = 1 THEN V(0, [i \in 1..16 |-> i]) ELSE V(0, [i \in 1..16 |-> 255 - i])

Falsy(ty, v) == ty # "uuid" /\ v.i = 0 /\ v.s = <<>>

\* The clustering column's type differs from the type of the partition key column whose place it takes in the
\* declaration order (a key component encoded with a neighbour's type must show)
CkType(tys, layout) ==
    LET displaced == IF layout = "clustering_between" THEN tys[2] ELSE tys[1]
    IN IF displaced = "bigint" THEN "int" ELSE "bigint"

NMVals(ty) == IF MFull /\ ty \in {"int", "text", "blob"} THEN 3 ELSE 2

\* Values that are equal for Python and distinct for Cassandra.  The encodings are written out (s); i only numbers
\* the variant.  decimal: 4-byte scale ++ unscaled varint; float / double: IEEE 754 big-endian.
PairVal(ty, a) ==
    CASE ty = "decimal" -> IF a = 1 THEN V(1, <<0, 0, 0, 1, 10>>) ELSE V(2, <<0, 0, 0, 2, 100>>)          \* 1.0 / 1.00
      [] ty = "double"  -> IF a = 1 THEN V(1, <<0, 0, 0, 0, 0, 0, 0, 0>>) ELSE V(2, <<128, 0, 0, 0, 0, 0, 0, 0>>)   \* 0.0 / -0.0
      [] ty = "float"   -> IF a = 1 THEN V(1, <<0, 0, 0, 0>>) ELSE V(2, <<128, 0, 0, 0>>)

MapperKey(tys, vals) == RK("bytes", KeyBytes([i \in 1..Len(tys) |-> Enc(tys[i], vals[i])]))

\* An ordinary case: one statement (case.before = <<>>: what ran on the model before is not part of the case)
MapperSingle ==
    \E k \in 1..MMaxPk : \E tys \in [1..k -> MTypes] : \E vs \in [1..k -> 1..3] : \E op \in MOps : \E ord \in MOrders :
    \E lay \in MLayouts :
       /\ \A i \in 1..k : vs[i] <= NMVals(tys[i])
       /\ (lay # "keys_first" => k <= MLayoutMaxPk)
       /\ (lay = "clustering_between" => k >= 2)
       /\ case = [prop |-> "C38", tys |-> tys, vals |-> [i \in 1..k |-> MVal(tys[i], vs[i])], op |-> op, order |-> ord,
                  layout |-> lay, ckty |-> CkType(tys, lay), before |-> <<>>]
       /\ out = [rk |-> MapperKey(tys, [i \in 1..k |-> MVal(tys[i], vs[i])]), rkBefore |-> RK("none", <<>>)]

\* A pair: the statement of the case is preceded, on the same model and through the same operation, by one whose key
\* values (case.before) are equal in Python and different for Cassandra - alone or as a component of a composite key.
\* Each statement carries the key of ITS values.
MapperPair ==
    \E pt \in MPairTypes : \E shape \in {"alone", "first", "second"} : \E a \in 1..2 : \E op \in MOps : \E ord \in MOrders :
       LET other == MVal("int", 1)
           tys  == CASE shape = "alone" -> <<pt>> [] shape = "first" -> <<pt, "int">> [] OTHER -> <<"int", pt>>
           mk(x) == CASE shape = "alone" -> <<PairVal(pt, x)>> [] shape = "first" -> <<PairVal(pt, x), other>>
                      [] OTHER -> <<other, PairVal(pt, x)>>
       IN /\ case = [prop |-> "C38", tys |-> tys, vals |-> mk(a), op |-> op, order |-> ord,
                     layout |-> "keys_first", ckty |-> CkType(tys, "keys_first"), before |-> mk(3 - a)]
          /\ out = [rk |-> MapperKey(tys, mk(a)), rkBefore |-> MapperKey(tys, mk(3 - a))]

MapperInit == MapperSingle \/ MapperPair

Next == UNCHANGED vars          \* the cases are the initial states
Spec == Init /\ [][Next]_vars

-----------------------------------------------------------------------------
\* C30 on the definition itself

IsSeq == case.kind = "seq"
Rki == RoutingIndexes(case.pk, case.partial)
SameAnswer(a, b) == a.accept = b.accept /\ a.reject = b.reject /\ a.slots = b.slots /\ a.rk = b.rk

\* positional and by-name binding of the same assignment agree (where a dict can express it: before v4 a
\* dict cannot leave a name out)
PositionalEqualsByName ==
    IsSeq /\ Len(case.ents) <= case.n /\ (case.pv >= 4 \/ Len(case.ents) = case.n)
        => SameAnswer(out, BindMap(case.n, Rki, AsMap(case.n, case.ents), case.pv))

\* serialized values are in bind-marker order
MarkerOrder ==
    out.accept => \A i \in 1..Min(Len(out.slots), Len(case.ents)) :
        case.ents[i].k = "val" => out.slots[i] = Slot("bytes", Enc(ColType(i), case.ents[i].v))

UnsetOnlyFromV4 == out.accept /\ (\E i \in 1..Len(out.slots) : out.slots[i].t = "unset") => case.pv >= 4

MissingBecomeUnset ==
    out.accept /\ case.pv >= 4 =>
        /\ Len(out.slots) = case.n
        /\ \A i \in 1..case.n : (i > Len(case.ents) \/ case.ents[i].k \in {"missing", "unset"}) <=> out.slots[i].t = "unset"

\* a partition key component is never unset, never missing
KeyComponentsBound ==
    out.accept => \A j \in 1..Len(Rki) : Rki[j] <= Len(out.slots) /\ out.slots[Rki[j]].t # "unset"

ExtraPositionalRejected == IsSeq /\ Len(case.ents) > case.n => ~out.accept /\ out.reject

SomeAnswer == out.accept \/ out.reject

\* the routing key splits back into the key components, in partition key order ("length-prefixed composite")
RoutingKeyIsCompositeOfComponents ==
    out.accept /\ out.rk.t = "bytes" =>
        LET parts == [j \in 1..Len(Rki) |-> out.slots[Rki[j]].b] IN
        IF Len(Rki) = 1 THEN out.rk.b = parts[1] ELSE SplitComposite(out.rk.b) = parts

C30Invariants == /\ PositionalEqualsByName /\ MarkerOrder /\ UnsetOnlyFromV4 /\ MissingBecomeUnset
                 /\ KeyComponentsBound /\ ExtraPositionalRejected /\ SomeAnswer /\ RoutingKeyIsCompositeOfComponents

\* C38 on the definition
MapperKeyIsComposite ==
    LET k == Len(case.tys)
        parts == [i \in 1..k |-> Enc(case.tys[i], case.vals[i])] IN
    IF k = 1 THEN out.rk.b = parts[1] ELSE SplitComposite(out.rk.b) = parts

\* equal for Python is not equal for Cassandra: the two statements of a pair address different partitions
PairKeysDiffer == case.before # <<>> => out.rk # out.rkBefore

\* vacuity witnesses (each must be VIOLATED)
Witness_PaddedUnset == ~(IsSeq /\ out.accept /\ Len(case.ents) < case.n /\ Len(out.slots) = case.n)
Witness_KeyOrderNotMarkerOrder == ~(out.accept /\ out.rk.t = "bytes" /\ Len(case.pk) >= 2 /\ case.pk[1] > case.pk[2])
Witness_ShortBeforeV4 == ~(out.accept /\ out.reject)
Witness_NullKeyComponent == ~(out.accept /\ out.rk.t = "any")
Witness_EmptySingleKey == ~(out.accept /\ out.rk.t = "bytes" /\ Len(case.pk) = 1 /\ out.rk.b = <<>>)
Witness_EmptyInComposite == ~(out.accept /\ out.rk.t = "bytes" /\ Len(case.pk) >= 2
                              /\ \E j \in 1..Len(case.pk) : out.slots[case.pk[j]].b = <<>>)
Witness_FalsySingleKey == ~(Len(case.tys) = 1 /\ Falsy(case.tys[1], case.vals[1]))
Witness_FalsyInComposite == ~(Len(case.tys) >= 2 /\ \E i \in 1..Len(case.tys) : Falsy(case.tys[i], case.vals[i])
                                                  /\ \E j \in 1..Len(case.tys) : ~Falsy(case.tys[j], case.vals[j]))
Witness_PairAlone == ~(case.before # <<>> /\ Len(case.tys) = 1)
Witness_PairInComposite == ~(case.before # <<>> /\ Len(case.tys) = 2)
Witness_ClusteringDeclaredFirst == ~(case.layout = "clustering_first" /\ case.ckty # case.tys[1])
Witness_ClusteringDeclaredBetween == ~(case.layout = "clustering_between" /\ case.ckty # case.tys[2])
Witness_MapperComposite == ~(Len(case.tys) >= 2)
=============================================================================
