-------------------------------- MODULE Pool --------------------------------
(* The protocol-v3+ connection pool of the driver: one HostConnection over    *)
(* the connections it opens during its life (the first one, replacements).    *)
(*                                                                            *)
(* Code anchors (cassandra/):                                                 *)
(*   pool.py     HostConnection.borrow_connection 422-451, return_connection  *)
(*               453-494, on_orphaned_stream_released 496-502, _replace       *)
(*               504-527, shutdown 529-549                                    *)
(*   cluster.py  ResponseFuture._query 4586-4630 (borrow, send, return on a   *)
(*               refused send), _set_result 4707-4711 (return), _on_timeout   *)
(*               4480-4533 (orphaning, threshold), Session.submit 3489        *)
(*   connection.py  process_msg 1241-1306 (orphan released), defunct /        *)
(*               error_all_requests 982-1047, send_msg 1070-1090              *)
(*                                                                            *)
(* A connection is the record of Connection.tla with stream ids abstracted to *)
(* the requests that own them (id uniqueness and recycling are C09's):        *)
(* inflight, orph (timed-out requests whose stream is still reserved), reg    *)
(* (requests with a registered handler), owed (requests the node will still   *)
(* answer), thr (orphaned_threshold_reached), closed, defunct, signaled.      *)
(*                                                                            *)
(* Threads.  Loop thread (atomic w.r.t. itself): Respond, Timeout, ConnFails. *)
(* Client threads: BorrowStart | BorrowMark | BorrowTake | Send, anything in   *)
(* between.  Executor task _replace: ReplaceCheck | ReplaceOpen |             *)
(* ReplacePublish | ReplaceRetire, delayed arbitrarily.  A thread calling     *)
(* shutdown(): ShutdownMark | ShutdownCloseCur | ShutdownCloseTrash.  One     *)
(* action = one outermost critical section plus the lock-free code up to the  *)
(* next one.                                                                  *)
(*                                                                            *)
(* Four steps are specified as the property (C12) needs them, not as the      *)
(* pinned code has them (see INTENDED below); replay reports the difference.  *)
EXTENDS Integers, FiniteSets, TLC

CONSTANTS MaxId,        \* max_request_id: at most MaxId requests in flight per connection
          Threshold,    \* orphaned_threshold
          Reqs,         \* request names
          NConns,       \* connections the pool may open during its life
          MaxFails,     \* failed attempts to open a replacement
          MaxConnFails, \* socket errors
          Ks,           \* BOOLEAN: the session has a keyspace, so _replace selects it on the new connection (a USE round trip)
          SubmitAtTimeout  \* BOOLEAN: an implementation choice the properties leave open - once the threshold is reached the
                           \* replacement is requested by the next borrow (FALSE), or already by a timeout that finds it reached (TRUE)

Conns == 1..NConns

VARIABLES inflight, orph, reg, owed, thr, closed, defunct, signaled,     \* per connection
          cur,        \* _connection (0 = None)
          trash,      \* _trash, open members only
          replacing,  \* _is_replacing
          shutdown,   \* is_shutdown
          sd,         \* progress of the thread inside shutdown(): none, marked, curclosed, done
          rep,        \* the _replace task: [ph, old, new], ph: none, queued, open, use (only with Ks), publish, retire
          opened,     \* connections opened so far (they are 1..opened)
          fails, cfails,
          st,         \* per request: new, marking, picked, borrowed, sent, done, timedout, errored, refused, nohost
          on,         \* per request: the connection it picked / borrowed (0 = none)
          late,       \* the connection whose late response the loop thread is in the middle of handling (0 = none)
          act
cvars == <<inflight, orph, reg, owed, thr, closed, defunct, signaled>>
pvars == <<cur, trash, replacing, shutdown, sd, rep, opened, fails, cfails>>
vars  == <<cvars, pvars, st, on, late, act>>

NoRep == [ph |-> "none", old |-> 0, new |-> 0]
Queued(c) == [ph |-> "queued", old |-> c, new |-> 0]
A(name, r, c, f) == [name |-> name, r |-> r, c |-> c, f |-> f]

Live(c) == inflight[c] - Cardinality(orph[c])

Init ==
    /\ inflight = [c \in Conns |-> 0]
    /\ orph = [c \in Conns |-> {}]
    /\ reg = [c \in Conns |-> {}]
    /\ owed = [c \in Conns |-> {}]
    /\ thr = [c \in Conns |-> FALSE]
    /\ closed = [c \in Conns |-> FALSE]
    /\ defunct = [c \in Conns |-> FALSE]
    /\ signaled = [c \in Conns |-> FALSE]
    /\ cur = 1 /\ trash = {} /\ replacing = FALSE /\ shutdown = FALSE /\ sd = "none"
    /\ rep = NoRep /\ opened = 1 /\ fails = 0 /\ cfails = 0
    /\ st = [r \in Reqs |-> "new"]
    /\ on = [r \in Reqs |-> 0]
    /\ late = 0
    /\ act = A("Init", 0, 0, FALSE)

-----------------------------------------------------------------------------
(* Closing the connections K (and marking D defunct) on top of the action's   *)
(* own effects infl/rg/ow/stx: every registered handler of a closed           *)
(* connection gets one connection error (error_all_requests), the request's   *)
(* _set_result returns the connection (in_flight -= 1) and, having found it   *)
(* dead, flags it (signaled_error).  S: connections flagged for other reasons.*)
Apply(K, D, S, infl, rg, ow, stx) ==
    LET V == UNION {rg[c] : c \in K} IN
    /\ closed' = [c \in Conns |-> closed[c] \/ c \in K]
    /\ defunct' = [c \in Conns |-> defunct[c] \/ c \in D]
    /\ signaled' = [c \in Conns |-> signaled[c] \/ c \in S \/ (c \in K /\ rg[c] # {})]
    /\ st' = [r \in Reqs |-> IF r \in V THEN "errored" ELSE stx[r]]
    /\ inflight' = [c \in Conns |-> IF c \in K THEN infl[c] - Cardinality(rg[c]) ELSE infl[c]]
    /\ reg' = [c \in Conns |-> IF c \in K THEN {} ELSE rg[c]]
    /\ owed' = [c \in Conns |-> IF c \in K THEN {} ELSE ow[c]]

OpenOf(K) == {c \in K : c # 0 /\ ~closed[c]}

(* return_connection finding connection c dead (pool.py 460-484).  `down` is  *)
(* the conviction policy's verdict.  Result: the pool variables and the       *)
(* connections the step closes besides c.                                     *)
(* INTENDED (C12): only a failure of the *current* connection clears          *)
(* _connection and asks for a replacement; the pinned code clears it for any  *)
(* dead connection, dropping a healthy current one without closing it.        *)
Same == [cur |-> cur, trash |-> trash, replacing |-> replacing, rep |-> rep, shutdown |-> shutdown, sd |-> sd, K |-> {}]
DeadEffect(c, down) ==
    IF signaled[c] THEN Same
    ELSE IF down
         THEN IF shutdown THEN Same
              ELSE [Same EXCEPT !.cur = 0, !.trash = {}, !.shutdown = TRUE, !.sd = "done",
                                !.K = OpenOf(({cur} \cup trash) \ {c})]          \* self.shutdown(), all of it
         ELSE IF cur = c
              THEN [Same EXCEPT !.cur = 0, !.replacing = TRUE, !.rep = IF replacing THEN rep ELSE Queued(c)]
              ELSE Same

SetPool(e, c) ==
    /\ cur' = e.cur /\ trash' = e.trash \ {c} /\ replacing' = e.replacing /\ rep' = e.rep
    /\ shutdown' = e.shutdown /\ sd' = e.sd

-----------------------------------------------------------------------------
(* borrow_connection, its lock-free beginning (423-424): _get_connection reads *)
(* _connection into a local, orphaned_threshold_reached is read from it; a     *)
(* borrower that finds the threshold reached goes on to the pool lock          *)
BorrowStart(r) ==
    /\ st[r] = "new"
    /\ IF shutdown \/ cur = 0
       THEN /\ st' = [st EXCEPT ![r] = "nohost"]
            /\ UNCHANGED on
       ELSE /\ st' = [st EXCEPT ![r] = IF thr[cur] THEN "marking" ELSE "picked"]
            /\ on' = [on EXCEPT ![r] = cur]
    /\ act' = A("BorrowStart", r, 0, FALSE)
    /\ UNCHANGED late
    /\ UNCHANGED <<cvars, pvars>>

(* under the pool lock (425-432): test-and-set _is_replacing, submit _replace  *)
(* for the connection read above.  Anything may have happened since the read,  *)
(* a complete replacement of that connection included.                         *)
(* INTENDED (C12): the task is submitted only while the connection read is     *)
(* still the pool's current one; the pinned code submits it again for a        *)
(* connection that was already replaced, and the second replacement overwrites *)
(* (and drops, open) the connection the first one published.                   *)
BorrowMark(r) ==
    /\ st[r] = "marking"
    /\ IF ~replacing /\ on[r] = cur
       THEN replacing' = TRUE /\ rep' = Queued(on[r])
       ELSE UNCHANGED <<replacing, rep>>
    /\ st' = [st EXCEPT ![r] = "picked"]
    /\ act' = A("BorrowMark", r, on[r], FALSE)
    /\ UNCHANGED late
    /\ UNCHANGED <<cvars, cur, trash, shutdown, sd, opened, fails, cfails, on>>

CanTake(c) == ~(thr[c] /\ closed[c]) /\ inflight[c] < MaxId
(* the loop of borrow_connection run to its end: take under conn.lock; a      *)
(* retired connection (threshold reached and closed) is given up for the      *)
(* pool's current one; otherwise wait, retry, NoConnectionsAvailable          *)
Target(r) ==
    LET c == on[r] IN
    IF CanTake(c) THEN c
    ELSE IF thr[c] /\ closed[c] /\ ~shutdown /\ cur # 0 /\ cur # c /\ CanTake(cur) THEN cur
    ELSE 0

BorrowTake(r) ==
    /\ st[r] = "picked"
    /\ LET t == Target(r) IN
       IF t # 0
       THEN /\ inflight' = [inflight EXCEPT ![t] = @ + 1]
            /\ on' = [on EXCEPT ![r] = t]
            /\ st' = [st EXCEPT ![r] = "borrowed"]
       ELSE /\ st' = [st EXCEPT ![r] = "nohost"]
            /\ on' = [on EXCEPT ![r] = 0]
            /\ UNCHANGED inflight
    /\ act' = A("BorrowTake", r, on[r], FALSE)        \* c: the connection picked earlier
    /\ UNCHANGED late
    /\ UNCHANGED <<orph, reg, owed, thr, closed, defunct, signaled, pvars>>

(* send_msg; on a dead connection ConnectionShutdown, _query returns it *)
Send(r, down) ==
    /\ st[r] = "borrowed"
    /\ LET c == on[r] IN
       IF ~closed[c]
       THEN /\ down = FALSE
            /\ reg' = [reg EXCEPT ![c] = @ \cup {r}]
            /\ owed' = [owed EXCEPT ![c] = @ \cup {r}]
            /\ st' = [st EXCEPT ![r] = "sent"]
            /\ UNCHANGED <<inflight, closed, defunct, signaled, cur, trash, replacing, rep, shutdown, sd>>
       ELSE /\ IF signaled[c] \/ shutdown THEN down = shutdown ELSE TRUE
            /\ LET e == DeadEffect(c, down) IN
               /\ Apply(e.K, {}, {c}, [inflight EXCEPT ![c] = @ - 1], reg, owed, [st EXCEPT ![r] = "refused"])
               /\ SetPool(e, 0)
    /\ act' = A("Send", r, 0, down)
    /\ UNCHANGED late
    /\ UNCHANGED <<orph, thr, on, opened, fails, cfails>>

(* a trashed connection is closed by the return that leaves only orphans (pool.py 486-494) *)
Drained(c, infl, orp) == c \in trash /\ infl[c] = Cardinality(orp[c])

(* process_msg for the answer to q on connection c, its handler still registered *)
Respond(c, q) ==
    /\ late = 0
    /\ q \in owed[c] /\ ~closed[c] /\ q \in reg[c]
    /\ LET infl == [inflight EXCEPT ![c] = @ - 1]
           K == IF Drained(c, infl, orph) THEN {c} ELSE {} IN
       /\ Apply(K, {}, {}, infl, [reg EXCEPT ![c] = @ \ {q}], [owed EXCEPT ![c] = @ \ {q}], [st EXCEPT ![q] = "done"])
       /\ trash' = trash \ K
    /\ orph' = orph
    /\ act' = A("Respond", q, c, FALSE)
    /\ UNCHANGED late
    /\ UNCHANGED <<thr, cur, replacing, shutdown, sd, rep, opened, fails, cfails, on>>

(* process_msg for a late answer (the request timed out), connection.py 1261-1267: under conn.lock the       *)
(* orphaned stream is released - in_flight and orphaned_request_ids change in ONE critical section, so that *)
(* in_flight - |orphaned_request_ids| (the requests somebody still waits for) is never seen too small.      *)
(* The rest of the callback (notify the pool, recycle the id) follows in LateFinish; client threads and     *)
(* executor tasks may run in between, the loop thread's own callbacks may not.                              *)
LateStart(c, q) ==
    /\ late = 0
    /\ q \in owed[c] /\ ~closed[c] /\ q \notin reg[c]
    /\ orph' = [orph EXCEPT ![c] = @ \ {q}]
    /\ inflight' = [inflight EXCEPT ![c] = IF q \in orph[c] THEN @ - 1 ELSE @]
    /\ owed' = [owed EXCEPT ![c] = @ \ {q}]
    /\ late' = c
    /\ act' = A("LateStart", q, c, FALSE)
    /\ UNCHANGED <<reg, closed, defunct, signaled, st, trash, thr, cur, replacing, shutdown, sd, rep, opened, fails, cfails, on>>

LateFinish ==
    /\ late # 0
    /\ late' = 0
    /\ act' = A("LateFinish", 0, late, FALSE)
    /\ UNCHANGED <<cvars, pvars, st, on>>

(* ResponseFuture._on_timeout *)
Timeout(r) ==
    /\ late = 0
    /\ st[r] = "sent"
    /\ LET c == on[r]
           rg == [reg EXCEPT ![c] = @ \ {r}] IN
       IF shutdown
       THEN \* cluster.py 4510: nothing is orphaned or returned once the pool is shut down
            /\ reg' = rg /\ st' = [st EXCEPT ![r] = "timedout"]
            /\ UNCHANGED <<inflight, orph, owed, thr, closed, defunct, signaled, trash, replacing, rep>>
       ELSE LET orp == [orph EXCEPT ![c] = @ \cup {r}]
                K == IF Drained(c, inflight, orp) THEN {c} ELSE {}
                \* the flag is latched: it stays set when late responses release orphaned streams again
                th == [thr EXCEPT ![c] = @ \/ Cardinality(orp[c]) >= Threshold]
                sub == SubmitAtTimeout /\ th[c] /\ c = cur /\ ~closed[c] /\ ~replacing IN
            /\ orph' = orp
            /\ thr' = th
            /\ Apply(K, {}, {}, inflight, rg, owed, [st EXCEPT ![r] = "timedout"])
            /\ trash' = trash \ K
            /\ replacing' = (replacing \/ sub)
            /\ rep' = IF sub THEN Queued(c) ELSE rep
    /\ act' = A("Timeout", r, 0, FALSE)
    /\ UNCHANGED late
    /\ UNCHANGED <<cur, shutdown, sd, opened, fails, cfails, on>>

(* socket error: defunct, close, error_all_requests; the first errored request's return tells the pool *)
ConnFails(c, down) ==
    /\ late = 0
    /\ c <= opened /\ ~closed[c]
    /\ ~(rep.ph \in {"use", "publish"} /\ rep.new = c)
    /\ cfails < MaxConnFails
    /\ cfails' = cfails + 1
    /\ IF reg[c] = {}
       THEN /\ down = FALSE            \* nobody returns it: the pool does not learn
            /\ Apply({c}, {c}, {}, inflight, reg, owed, st)
            /\ trash' = trash \ {c}
            /\ UNCHANGED <<cur, replacing, rep, shutdown, sd>>
       ELSE /\ shutdown => down
            /\ LET e == DeadEffect(c, down) IN
               /\ Apply({c} \cup e.K, {c}, {}, inflight, reg, owed, st)
               /\ SetPool(e, c)
    /\ act' = A("ConnFails", 0, c, down)
    /\ UNCHANGED late
    /\ UNCHANGED <<orph, thr, opened, fails, on>>

-----------------------------------------------------------------------------
(* _replace, pool.py 505-507 *)
ReplaceCheck ==
    /\ rep.ph = "queued"
    /\ rep' = IF shutdown THEN NoRep ELSE [rep EXCEPT !.ph = "open"]
    /\ act' = A("ReplaceCheck", 0, 0, FALSE)
    /\ UNCHANGED late
    /\ UNCHANGED <<cvars, cur, trash, replacing, shutdown, sd, opened, fails, cfails, st, on>>

(* connection_factory (511); on failure the task resubmits itself (515-517) *)
ReplaceOpen(ok) ==
    /\ rep.ph = "open"
    /\ IF ok
       THEN /\ opened < NConns
            /\ opened' = opened + 1
            /\ rep' = [rep EXCEPT !.ph = IF Ks THEN "use" ELSE "publish", !.new = opened + 1]
            /\ UNCHANGED fails
       ELSE /\ fails < MaxFails
            /\ fails' = fails + 1
            /\ rep' = Queued(rep.old)
            /\ UNCHANGED opened
    /\ act' = A("ReplaceOpen", 0, 0, ok)
    /\ UNCHANGED late
    /\ UNCHANGED <<cvars, cur, trash, replacing, shutdown, sd, cfails, st, on>>

(* conn.set_keyspace_blocking(self._keyspace) (512-513): a round trip on the new, not yet published  *)
(* connection; anything may happen meanwhile, shutdown() included                                    *)
ReplaceUse ==
    /\ rep.ph = "use"
    /\ rep' = [rep EXCEPT !.ph = "publish"]
    /\ act' = A("ReplaceUse", 0, 0, FALSE)
    /\ UNCHANGED late
    /\ UNCHANGED <<cvars, cur, trash, replacing, shutdown, sd, opened, fails, cfails, st, on>>

(* self._connection = conn (514).                                             *)
(* INTENDED (C12): a pool that was shut down meanwhile closes the fresh       *)
(* connection instead of publishing it; the pinned code publishes it and      *)
(* nobody ever closes it.                                                     *)
ReplacePublish ==
    /\ rep.ph = "publish"
    /\ IF shutdown
       THEN /\ Apply({rep.new}, {}, {}, inflight, reg, owed, st)
            /\ rep' = NoRep
            /\ UNCHANGED cur
       ELSE /\ cur' = rep.new
            /\ rep' = [rep EXCEPT !.ph = "retire"]
            /\ UNCHANGED <<inflight, reg, owed, closed, defunct, signaled, st>>
    /\ act' = A("ReplacePublish", 0, 0, FALSE)
    /\ UNCHANGED late
    /\ UNCHANGED <<orph, thr, trash, replacing, shutdown, sd, opened, fails, cfails, on>>

(* retiring the old connection under its lock and the pool lock (519-527).    *)
(* INTENDED (C12): after a shutdown the old connection is closed, not put in  *)
(* a trash nobody will empty.                                                 *)
ReplaceRetire ==
    /\ rep.ph = "retire"
    /\ LET c == rep.old
           close == thr[c] /\ ~closed[c] /\ (shutdown \/ Live(c) = 0)
           keep == thr[c] /\ ~closed[c] /\ ~close IN
       /\ Apply(IF close THEN {c} ELSE {}, {}, {}, inflight, reg, owed, st)
       /\ trash' = IF keep THEN trash \cup {c} ELSE trash
    /\ replacing' = FALSE
    /\ rep' = NoRep
    /\ act' = A("ReplaceRetire", 0, 0, FALSE)
    /\ UNCHANGED late
    /\ UNCHANGED <<orph, thr, cur, shutdown, sd, opened, fails, cfails, on>>

-----------------------------------------------------------------------------
(* shutdown(), pool.py 530-535 *)
ShutdownMark ==
    /\ sd = "none" /\ ~shutdown
    /\ shutdown' = TRUE /\ sd' = "marked"
    /\ act' = A("ShutdownMark", 0, 0, FALSE)
    /\ UNCHANGED late
    /\ UNCHANGED <<cvars, cur, trash, replacing, rep, opened, fails, cfails, st, on>>

(* 537-539 *)
ShutdownCloseCur ==
    /\ sd = "marked"
    /\ Apply(OpenOf({cur}), {}, {}, inflight, reg, owed, st)
    /\ cur' = 0 /\ sd' = "curclosed"
    /\ act' = A("ShutdownCloseCur", 0, 0, FALSE)
    /\ UNCHANGED late
    /\ UNCHANGED <<orph, thr, trash, replacing, shutdown, rep, opened, fails, cfails, on>>

(* 541-549.  INTENDED (C12): the connections taken out of _trash are closed;  *)
(* the pinned code iterates the new, empty set.                               *)
ShutdownCloseTrash ==
    /\ sd = "curclosed"
    /\ Apply(OpenOf(trash), {}, {}, inflight, reg, owed, st)
    /\ trash' = {} /\ sd' = "done"
    /\ act' = A("ShutdownCloseTrash", 0, 0, FALSE)
    /\ UNCHANGED late
    /\ UNCHANGED <<orph, thr, cur, replacing, shutdown, rep, opened, fails, cfails, on>>

Other ==
    \/ \E r \in Reqs : BorrowStart(r) \/ BorrowMark(r) \/ BorrowTake(r) \/ Timeout(r)
    \/ \E r \in Reqs, d \in BOOLEAN : Send(r, d)
    \/ \E c \in Conns, q \in Reqs : Respond(c, q)
    \/ \E c \in Conns, d \in BOOLEAN : ConnFails(c, d)
    \/ ReplaceCheck \/ ReplaceUse \/ ReplacePublish \/ ReplaceRetire
    \/ \E ok \in BOOLEAN : ReplaceOpen(ok)
    \/ ShutdownMark \/ ShutdownCloseCur \/ ShutdownCloseTrash

Next ==
    \/ Other
    \/ \E c \in Conns, q \in Reqs : LateStart(c, q)
    \/ LateFinish

Spec == Init /\ [][Next]_vars

-----------------------------------------------------------------------------
(* C12 *)
TypeOK ==
    /\ cur \in 0..opened /\ trash \subseteq 1..opened /\ opened \in 1..NConns
    /\ \A c \in Conns : c > opened => inflight[c] = 0 /\ ~closed[c]
    /\ ~replacing => rep.ph = "none"
    /\ \A c \in Conns : defunct[c] => closed[c]

Capacity == \A c \in Conns : inflight[c] <= MaxId              \* never handed out beyond capacity
NonNegative == \A c \in Conns : inflight[c] >= 0
ShutdownRefuses ==                                            \* a borrow from a shut-down pool fails
    [][\A r \in Reqs : (shutdown /\ st[r] = "new") => st'[r] \in {"new", "nohost"}]_vars
Accounting ==
    ~shutdown => \A c \in Conns :
        inflight[c] = Cardinality({r \in Reqs : on[r] = c /\ st[r] \in {"borrowed", "sent"}}) + Cardinality(orph[c])

Quiescent == /\ sd = "done" /\ rep.ph = "none"
             /\ \A r \in Reqs : st[r] \notin {"marking", "picked", "borrowed", "sent"}
             /\ late = 0
AllClosed == Quiescent => \A c \in 1..opened : closed[c]       \* everything ever opened is closed
NoCurAfterShutdown == sd = "done" => cur = 0 /\ trash = {}

(* C13 *)
Using(c, s) == {r \in Reqs : on[r] = c /\ s[r] \in {"borrowed", "sent"}}
NoAbandon ==      \* closed only when defunct, at shutdown, or with nobody waiting on it
    [][\A c \in Conns : (closed'[c] /\ ~closed[c] /\ ~defunct'[c] /\ ~shutdown')
            => /\ Using(c, st) \ {act'.r} = {}
               /\ \A r \in Reqs : on[r] = c => st'[r] # "errored"]_vars
NewBorrowsUseCurrent ==
    [][\A r \in Reqs : /\ (st[r] = "new" /\ st'[r] \in {"marking", "picked"}) => on'[r] = cur /\ cur \notin trash
                       /\ (st[r] = "picked" /\ st'[r] = "borrowed") => on'[r] \in {on[r], cur}]_vars
PublishedIsCurrent == [][act'.name = "ReplacePublish" /\ ~shutdown => cur' = rep.new /\ ~closed'[cur']]_vars
TrashDrains ==    \* a trashed connection with only orphaned streams left does not stay open
    \A c \in trash : ~closed[c] /\ Live(c) > 0
CurNotTrashed == cur = 0 \/ cur \notin trash

(* ACTION_CONSTRAINT for random simulation only (replay of sampled behaviours of the larger instances):  *)
(* shutdown and socket errors come late, when a replacement is under way or most requests were issued,  *)
(* so that sampled behaviours are not all cut short by an early shutdown.                               *)
Sim_LateFaults ==
    act'.name \in {"ShutdownMark", "ConnFails"} =>
        \/ rep.ph # "none" \/ trash # {}
        \/ Cardinality({r \in Reqs : st[r] # "new"}) >= Cardinality(Reqs) - 1

(* vacuity witnesses: each must be violated (= reachable) *)
Witness_Trashed == trash = {}
Witness_TrashClosedByRespond == ~(act.name = "Respond" /\ ~shutdown /\ closed[act.c] /\ ~defunct[act.c])
Witness_TrashClosedByTimeout == ~(act.name = "Timeout" /\ ~shutdown /\ closed[on[act.r]] /\ ~defunct[on[act.r]])
Witness_PublishAfterShutdown == ~(act.name = "ReplacePublish" /\ shutdown)
Witness_ShutdownWithTrash == ~(sd = "curclosed" /\ trash # {})
Witness_RetireAfterShutdown == ~(rep.ph = "retire" /\ shutdown /\ thr[rep.old] /\ ~closed[rep.old] /\ Live(rep.old) > 0)
Witness_CapacityRefusal == ~(act.name = "BorrowTake" /\ st[act.r] = "nohost" /\ \E c \in Conns : ~closed[c] /\ inflight[c] = MaxId)
Witness_FailedOldWhileCurrentHealthy ==
    ~(act.name = "ConnFails" /\ ~act.f /\ signaled[act.c] /\ cur # 0 /\ cur # act.c /\ ~shutdown /\ ~closed[cur])
Witness_Repick == ~(act.name = "BorrowTake" /\ st[act.r] = "borrowed" /\ on[act.r] # act.c)
Witness_InlineShutdown == ~(act.name \in {"ConnFails", "Send"} /\ act.f /\ sd = "done" /\ opened >= 2)
Witness_QuiescentAllClosed == ~(Quiescent /\ opened >= 2)
\* shutdown() of a pool that has no current connection (its replacement is still queued) but a trashed one with a live request
Witness_ShutdownTrashWithoutCurrent ==
    ~(act.name = "ShutdownCloseTrash" /\ rep.ph = "queued" /\ defunct[rep.old]
      /\ \E c \in 1..opened : c # rep.old /\ closed[c] /\ ~defunct[c] /\ thr[c] /\ \E r \in Reqs : on[r] = c /\ st[r] = "errored")
\* the latch matters: a timeout that leaves fewer orphaned streams than the threshold on a connection whose flag is set
Witness_TimeoutBelowThresholdAfterLatch ==
    ~(act.name = "Timeout" /\ ~shutdown /\ thr[on[act.r]] /\ Cardinality(orph[on[act.r]]) < Threshold /\ replacing)
Witness_RetireDuringLateResponse == ~(act.name = "ReplaceRetire" /\ late # 0 /\ late \in trash)
Witness_BorrowDuringLateResponse == ~(act.name = "BorrowTake" /\ late # 0 /\ st[act.r] = "borrowed" /\ on[act.r] = late)
Witness_MarkAfterReplacement == ~(act.name = "BorrowMark" /\ on[act.r] # cur /\ cur # 0 /\ ~replacing /\ ~shutdown)
Witness_ShutdownDuringUse == ~(Ks /\ act.name = "ReplacePublish" /\ shutdown /\ sd = "done")
=============================================================================
