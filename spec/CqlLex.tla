------------------------------- MODULE CqlLex -------------------------------
(* What Cassandra's CQL lexer (src/antlr/Lexer.g, 3.0 - 4.x) does with the      *)
(* characters of an identifier, a string literal or a constant, written as a   *)
(* character-level automaton, plus the reference quoting functions             *)
(* (ColumnIdentifier.maybeQuote and the '' / "" escapes).                      *)
(*                                                                             *)
(*   IDENT          LETTER (LETTER | DIGIT | '_')*     case-folded to lower    *)
(*   QUOTED_NAME    '"' (~'"' | '"' '"')+ '"'          taken literally         *)
(*   EMPTY_QUOTED_NAME '"' '"'                          (column identifiers)   *)
(*   STRING_LITERAL '\'' (~'\'' | '\'' '\'')* '\''     taken literally         *)
(*   WS             ' ' | '\t' | '\n' | '\r'           skipped                 *)
(*   K_xxx          keywords, case-insensitive; the RESERVED ones are not      *)
(*                  identifiers, the unreserved ones are                       *)
(*   BOOLEAN        T R U E | F A L S E                not an identifier       *)
(*   INTEGER FLOAT HEXNUMBER UUID                      (used by CqlTerm.tla)   *)
(*                                                                             *)
(* A character is a one-character string.  Anything that is not in the ASCII   *)
(* tables below is of class "other" (legal only inside quotes); the two        *)
(* stand-ins "U+00E9" and "U+1D11E" of the enumeration alphabet are such       *)
(* characters (the harness substitutes the real code points, TLC prints        *)
(* non-ASCII text unreliably).                                                 *)
(*                                                                             *)
(* C27 - checked here by TLC for every name of Names: the automaton reads      *)
(* Quote(n) and MaybeQuote(n) back as the single identifier n, QuoteStr(n) as  *)
(* the single string n, and the raw characters of n as the identifier n        *)
(* exactly when BareOk(n).  Trace_CqlLex.tla runs the same automaton over the  *)
(* characters the driver produced.                                             *)
EXTENDS Naturals, Sequences, FiniteSets, TLC

CONSTANT MaxLen        \* names are all words over Alphabet up to this length, plus the keyword names

LowerSeq == <<"a","b","c","d","e","f","g","h","i","j","k","l","m","n","o","p","q","r","s","t","u","v","w","x","y","z">>
UpperSeq == <<"A","B","C","D","E","F","G","H","I","J","K","L","M","N","O","P","Q","R","S","T","U","V","W","X","Y","Z">>
DigitSeq == <<"0","1","2","3","4","5","6","7","8","9">>
RangeOf(s) == {s[i] : i \in DOMAIN s}
Lower    == RangeOf(LowerSeq)
Upper    == RangeOf(UpperSeq)
Letter   == Lower \cup Upper
Digit    == RangeOf(DigitSeq)
HexDigit == Digit \cup {"a","b","c","d","e","f","A","B","C","D","E","F"}

FoldFn     == [c \in Upper |-> LowerSeq[CHOOSE i \in 1..26 : UpperSeq[i] = c]]
Fold(c)    == IF c \in Upper THEN FoldFn[c] ELSE c
FoldSeq(s) == [i \in 1..Len(s) |-> Fold(s[i])]

\* Cassandra 4.x: org.apache.cassandra.cql3.ReservedKeywords.reservedKeywords (62 words)
Reserved == {
    <<"s","e","l","e","c","t">>, <<"f","r","o","m">>, <<"w","h","e","r","e">>, <<"a","n","d">>,
    <<"e","n","t","r","i","e","s">>, <<"f","u","l","l">>, <<"i","n","s","e","r","t">>,
    <<"u","p","d","a","t","e">>, <<"w","i","t","h">>, <<"l","i","m","i","t">>, <<"u","s","i","n","g">>,
    <<"u","s","e">>, <<"s","e","t">>, <<"b","e","g","i","n">>, <<"u","n","l","o","g","g","e","d">>,
    <<"b","a","t","c","h">>, <<"a","p","p","l","y">>, <<"t","r","u","n","c","a","t","e">>,
    <<"d","e","l","e","t","e">>, <<"i","n">>, <<"c","r","e","a","t","e">>,
    <<"k","e","y","s","p","a","c","e">>, <<"s","c","h","e","m","a">>,
    <<"c","o","l","u","m","n","f","a","m","i","l","y">>, <<"t","a","b","l","e">>,
    <<"m","a","t","e","r","i","a","l","i","z","e","d">>, <<"v","i","e","w">>, <<"i","n","d","e","x">>,
    <<"o","n">>, <<"t","o">>, <<"d","r","o","p">>, <<"p","r","i","m","a","r","y">>, <<"i","n","t","o">>,
    <<"a","l","t","e","r">>, <<"r","e","n","a","m","e">>, <<"a","d","d">>, <<"o","r","d","e","r">>,
    <<"b","y">>, <<"a","s","c">>, <<"d","e","s","c">>, <<"a","l","l","o","w">>, <<"i","f">>, <<"i","s">>,
    <<"g","r","a","n","t">>, <<"o","f">>, <<"r","e","v","o","k","e">>, <<"m","o","d","i","f","y">>,
    <<"a","u","t","h","o","r","i","z","e">>, <<"d","e","s","c","r","i","b","e">>,
    <<"e","x","e","c","u","t","e">>, <<"n","o","r","e","c","u","r","s","i","v","e">>, <<"t","o","k","e","n">>,
    <<"n","u","l","l">>, <<"n","o","t">>, <<"n","a","n">>, <<"i","n","f","i","n","i","t","y">>, <<"o","r">>,
    <<"r","e","p","l","a","c","e">>, <<"d","e","f","a","u","l","t">>, <<"u","n","s","e","t">>,
    <<"m","b","e","a","n">>, <<"m","b","e","a","n","s">>
  }

\* a few of the UNRESERVED keywords (Parser.g unreserved_keyword): they lex as identifiers
SomeUnreserved == {
    <<"k","e","y">>, <<"t","e","x","t">>, <<"t","t","l">>, <<"c","o","u","n","t">>, <<"t","y","p","e">>,
    <<"l","i","s","t">>, <<"u","s","e","r">>, <<"j","s","o","n">>, <<"a","s">>, <<"a","l","l">>,
    <<"v","a","l","u","e","s">>, <<"s","t","a","t","i","c">>, <<"f","r","o","z","e","n">>,
    <<"t","u","p","l","e">>, <<"f","i","l","t","e","r","i","n","g">>, <<"w","r","i","t","e","t","i","m","e">>,
    <<"c","a","s","t">>, <<"l","i","k","e">>, <<"g","r","o","u","p">>,
    <<"p","a","r","t","i","t","i","o","n">>, <<"p","e","r">>
  }

BoolWords == { <<"t","r","u","e">>, <<"f","a","l","s","e">> }

\* mixed-case keywords, the BOOLEAN words, plain multi-letter names, names / texts with backslashes
ExtraNames == {
    <<"S","e","l","e","c","t">>, <<"F","R","O","M">>, <<"t","r","u","e">>, <<"f","a","l","s","e">>,
    <<"T","r","u","e">>, <<"n","U","l","l">>, <<"a","_","0">>, <<"z","z","_","t","o","p","9">>,
    \* the backslash is an ordinary character inside "..." and '...' (CQL has no backslash escapes):
    \* alone, doubled, before / after each quote character, between letters, at the end
    <<"\\">>, <<"\\","\\">>, <<"\\","'">>, <<"'","\\">>, <<"\\","\"">>, <<"\"","\\">>,
    <<"a","\\","z">>, <<"a","\\","'","z">>, <<"a","\\">>, <<"\\","n">>
  }

ClassOf(c) ==
    IF c \in Lower THEN "lower"
    ELSE IF c \in Upper THEN "upper"
    ELSE IF c \in Digit THEN "digit"
    ELSE IF c = "_" THEN "us"
    ELSE IF c = "\"" THEN "dq"
    ELSE IF c = "'" THEN "sq"
    ELSE IF c \in {" ", "\t", "\n", "\r"} THEN "ws"
    ELSE IF c \in {"(", ")", "[", "]", "{", "}", ",", ":"} THEN "punct"
    ELSE IF c \in {"-", "+"} THEN "sign"
    ELSE IF c = "." THEN "dot"
    ELSE "other"

\* characters that continue a bare word: identifiers, keywords and the constants INTEGER, FLOAT,
\* HEXNUMBER, UUID are maximal runs of these (a run that is none of them is not a token of a term)
WordClass == {"lower", "upper", "digit", "us", "sign", "dot"}

AllIn(w, S) == \A i \in 1..Len(w) : w[i] \in S
From(w, i)  == SubSeq(w, i, Len(w))

IsIdent(w)    == Len(w) >= 1 /\ w[1] \in Letter /\ AllIn(w, Letter \cup Digit \cup {"_"})
IsDigits(w)   == Len(w) >= 1 /\ AllIn(w, Digit)
IsInteger(w)  == IF Len(w) >= 1 /\ w[1] = "-" THEN IsDigits(Tail(w)) ELSE IsDigits(w)        \* '-'? DIGIT+
IsExponent(w) == /\ Len(w) >= 2 /\ w[1] \in {"e", "E"}                                        \* E ('+'|'-')? DIGIT+
                 /\ IF w[2] \in {"+", "-"} THEN IsDigits(From(w, 3)) ELSE IsDigits(Tail(w))
IsFloat(w)    ==                                            \* INTEGER EXPONENT | INTEGER '.' DIGIT* EXPONENT?
    \/ \E i \in 1..(Len(w) - 1) : IsInteger(SubSeq(w, 1, i)) /\ IsExponent(From(w, i + 1))
    \/ \E i \in 2..Len(w) : /\ w[i] = "."
                            /\ IsInteger(SubSeq(w, 1, i - 1))
                            /\ LET rest == From(w, i + 1) IN
                               \/ AllIn(rest, Digit)
                               \/ \E j \in 0..(Len(rest) - 1) : /\ AllIn(SubSeq(rest, 1, j), Digit)
                                                                /\ IsExponent(From(rest, j + 1))
IsHex(w)      == Len(w) >= 2 /\ w[1] = "0" /\ w[2] \in {"x", "X"} /\ AllIn(From(w, 3), HexDigit)  \* '0' X HEX*
IsUuid(w)     == /\ Len(w) = 36
                 /\ \A i \in 1..36 : IF i \in {9, 14, 19, 24} THEN w[i] = "-" ELSE w[i] \in HexDigit

Tok(k, v) == [k |-> k, v |-> v]

NanInf == { <<"n","a","n">>, <<"i","n","f","i","n","i","t","y">> }

\* the token a maximal bare word stands for
Classify(w) ==
    IF IsIdent(w) THEN
        LET lw == FoldSeq(w) IN
        IF lw \in Reserved THEN Tok("keyword", lw)
        ELSE IF lw \in BoolWords THEN Tok("bool", lw)
        ELSE Tok("ident", lw)                       \* IDENT or an unreserved keyword
    ELSE IF IsInteger(w) THEN Tok("int", w)
    ELSE IF IsFloat(w) THEN Tok("float", w)
    ELSE IF IsHex(w) THEN Tok("hex", FoldSeq(From(w, 3)))
    ELSE IF IsUuid(w) THEN Tok("uuid", FoldSeq(w))
    ELSE IF Len(w) >= 2 /\ w[1] = "-" /\ IsIdent(Tail(w)) /\ FoldSeq(Tail(w)) \in NanInf
         THEN Tok("negkeyword", FoldSeq(Tail(w)))     \* '-' K_NAN | '-' K_INFINITY (two lexer tokens, one constant)
    ELSE Tok("bad", w)

\* modes: start | word | qid (inside "...") | qidq (after a " inside "...": end or escape) | str | strq
CloseOf(mode, cur) ==
    CASE mode = "word" -> <<Classify(cur)>>
      [] mode = "qidq" -> <<Tok("ident", cur)>>
      [] mode = "strq" -> <<Tok("str", cur)>>
      [] OTHER         -> <<>>

R(mode, cur, emit) == [mode |-> mode, cur |-> cur, emit |-> emit]

FromStart(c) ==
    LET cl == ClassOf(c) IN
    CASE cl = "ws"         -> R("start", <<>>, <<>>)
      [] cl = "dq"         -> R("qid", <<>>, <<>>)
      [] cl = "sq"         -> R("str", <<>>, <<>>)
      [] cl \in WordClass  -> R("word", <<c>>, <<>>)
      [] cl = "punct"      -> R("start", <<>>, <<Tok("punct", <<c>>)>>)
      [] OTHER             -> R("start", <<>>, <<Tok("bad", <<c>>)>>)

\* one character: new mode, new partial token, tokens completed by this character
LexStep(mode, cur, c) ==
    LET cl == ClassOf(c)
        restart == LET r == FromStart(c) IN R(r.mode, r.cur, CloseOf(mode, cur) \o r.emit)
    IN
    CASE mode = "start" -> FromStart(c)
      [] mode = "word"  -> IF cl \in WordClass THEN R("word", Append(cur, c), <<>>) ELSE restart
      [] mode = "qid"   -> IF cl = "dq" THEN R("qidq", cur, <<>>) ELSE R("qid", Append(cur, c), <<>>)
      [] mode = "qidq"  -> IF cl = "dq" THEN R("qid", Append(cur, c), <<>>) ELSE restart
      [] mode = "str"   -> IF cl = "sq" THEN R("strq", cur, <<>>) ELSE R("str", Append(cur, c), <<>>)
      [] mode = "strq"  -> IF cl = "sq" THEN R("str", Append(cur, c), <<>>) ELSE restart

\* end of input: an unterminated quoted name / string is a lexer error
AtEnd(mode, cur) == IF mode \in {"qid", "str"} THEN <<Tok("bad", cur)>> ELSE CloseOf(mode, cur)

RECURSIVE LexFrom(_, _, _, _)
LexFrom(mode, cur, s, i) ==
    IF i > Len(s) THEN AtEnd(mode, cur)
    ELSE LET r == LexStep(mode, cur, s[i]) IN r.emit \o LexFrom(r.mode, r.cur, s, i + 1)
Lex(s) == LexFrom("start", <<>>, s, 1)

-----------------------------------------------------------------------------
\* reference quoting
RECURSIVE Doubled(_, _)
Doubled(s, q) == IF s = <<>> THEN <<>>
                 ELSE (IF Head(s) = q THEN <<q, q>> ELSE <<Head(s)>>) \o Doubled(Tail(s), q)
Quote(n)    == <<"\"">> \o Doubled(n, "\"") \o <<"\"">>
QuoteStr(s) == <<"'">> \o Doubled(s, "'") \o <<"'">>

\* [a-z][a-z0-9_]*, not reserved (and not a BOOLEAN word, which the lexer never reads as an identifier)
BareSyntax(n) == Len(n) >= 1 /\ n[1] \in Lower /\ AllIn(n, Lower \cup Digit \cup {"_"})
BareOk(n)     == BareSyntax(n) /\ n \notin Reserved /\ n \notin BoolWords
MaybeQuote(n) == IF BareOk(n) THEN n ELSE Quote(n)

Alphabet == {"a", "A", "z", "0", "_", "\"", "'", " ", "\n", "U+00E9", "U+1D11E"}
Names    == UNION {[1..k -> Alphabet] : k \in 0..MaxLen} \cup Reserved \cup SomeUnreserved \cup ExtraNames
Forms    == {"raw", "maybe", "quoted", "string"}

-----------------------------------------------------------------------------
VARIABLES n,       \* the name / text (sequence of characters)
          form,    \* what is fed to the automaton: Forms, or "trace" (characters come from a recorded trace)
          pos,     \* next character
          mode, cur, toks,   \* automaton: mode, partial token, completed tokens
          done,
          bare     \* BareOk(n), carried so that the binding reads the specification's answer from the state
vars == <<n, form, pos, mode, cur, toks, done, bare>>

Input == CASE form = "raw"    -> n
           [] form = "maybe"  -> MaybeQuote(n)
           [] form = "quoted" -> Quote(n)
           [] form = "string" -> QuoteStr(n)
           [] OTHER           -> <<>>

Auto0 == pos = 1 /\ mode = "start" /\ cur = <<>> /\ toks = <<>> /\ done = FALSE

Init == n \in Names /\ form \in Forms /\ bare = BareOk(n) /\ Auto0
InitNames == n \in Names /\ form = "raw" /\ bare = BareOk(n) /\ Auto0    \* enumeration of the names only

Feed(c) == LET r == LexStep(mode, cur, c) IN
           /\ mode' = r.mode /\ cur' = r.cur /\ toks' = toks \o r.emit
           /\ pos' = pos + 1

Finish == /\ toks' = toks \o AtEnd(mode, cur)
          /\ mode' = "start" /\ cur' = <<>> /\ done' = TRUE /\ UNCHANGED pos

Char == ~done /\ pos <= Len(Input) /\ Feed(Input[pos]) /\ UNCHANGED <<n, form, done, bare>>
End  == ~done /\ pos > Len(Input) /\ Finish /\ UNCHANGED <<n, form, bare>>
Next == Char \/ End
Stutter == UNCHANGED vars      \* NEXT of the configuration that only enumerates Init (names for the binding)

Spec == Init /\ [][Next]_vars

-----------------------------------------------------------------------------
TypeOK == mode \in {"start", "word", "qid", "qidq", "str", "strq"} /\ pos \in 1..(2 * Len(n) + 3)

Ident(x) == <<Tok("ident", x)>>
QuotedReadsBack == done /\ form = "quoted" => toks = Ident(n)
MaybeReadsBack  == done /\ form = "maybe"  => toks = Ident(n)
StringReadsBack == done /\ form = "string" => toks = <<Tok("str", n)>>
BareIff         == done /\ form = "raw"    => (BareOk(n) <=> toks = Ident(n))
AgreesWithLex   == done /\ form \in Forms => toks = Lex(Input)

\* vacuity witnesses (each must be VIOLATED; pinned to one name so that few states violate them)
Witness_EscapedQuote  == ~(done /\ form = "quoted" /\ n = <<"a", "\"">> /\ toks = Ident(n))
Witness_ReservedBare  == ~(done /\ form = "raw" /\ n = <<"s","e","l","e","c","t">> /\ toks = <<Tok("keyword", n)>>)
Witness_NewlineSplits == ~(done /\ form = "raw" /\ n = <<"a", "\n">> /\ toks = Ident(<<"a">>))
Witness_Backslash     == ~(done /\ form = "string" /\ n = <<"\\", "'">> /\ toks = <<Tok("str", n)>>)
Witness_BareKept      == ~(done /\ form = "maybe" /\ n = <<"a", "z">> /\ Input = n /\ toks = Ident(n))
=============================================================================
