------------------------------- MODULE Options -------------------------------
(* Resolution of per-request options (C46).                                   *)
(*                                                                            *)
(* Code anchors: cassandra/cluster.py Session._create_response_future,        *)
(* ExecutionProfile, Session.default_* (legacy mode);                         *)
(* cassandra/query.py Statement.__init__, BoundStatement.__init__ (inherits   *)
(* the prepared statement's options).                                         *)
(*                                                                            *)
(* Every option is looked up through an ordered list of LAYERS; the first     *)
(* layer that is set wins, and the last layer is the driver's documented      *)
(* default, which is always "set".  A state of this specification is one      *)
(* configuration (which layers are set) together with the winning layer per   *)
(* option; TLC enumerates all of them and the check builds each on a real     *)
(* Cluster / Session / Statement.                                             *)
EXTENDS Naturals, Sequences, FiniteSets, TLC

CONSTANTS TieStmt,       \* TRUE: cl / serial / retry / fetch have the same layers set (quick tier: per-option coverage
                         \*       of all layer subsets is kept, only cross-combinations between options are dropped)
          TiePrepared,   \* TRUE: the prepared statement has all four options set, or none (quick tier)
          TieExtras      \* TRUE: row factory / load balancer / speculative policy are set together

Kinds == {"simple", "bound", "batch"}
Modes == {"legacy", "profile_default", "profile_named"}

\* options a statement can carry itself
StmtOpts  == {"cl", "serial", "retry", "fetch"}
\* options only the profile (or, in legacy mode, the session / cluster) carries
LevelOpts == {"rowf", "lbp", "spec"}
AllOpts   == StmtOpts \cup LevelOpts \cup {"timeout"}

\* Layers, highest priority first.  "call" = argument of execute()/execute_async();
\* "stmt" = the statement object; "prepared" = the PreparedStatement a BoundStatement came from;
\* "level" = execution profile (profile modes) or session/cluster attribute (legacy mode);
\* "default" = documented default.
Layers(o, kind) ==
    IF o = "timeout" THEN <<"call", "level", "default">>
    ELSE IF o \in StmtOpts
         THEN IF kind = "bound" THEN <<"stmt", "prepared", "level", "default">>
                                ELSE <<"stmt", "level", "default">>
         ELSE <<"level", "default">>

\* A batch has no page size; legacy mode has no speculative execution policy at all
Applicable(o, kind, mode) ==
    /\ ~(o = "fetch" /\ kind = "batch")
    /\ ~(o = "spec" /\ mode = "legacy")

VARIABLES phase,      \* "pick" (kind and mode chosen) -> "done" (a complete configuration; these are the cases)
                      \* -> "again" (the SAME statement object executed a second time under another profile /
                      \*    changed session defaults: resolution is stateless, the statement keeps no memory)
          kind, mode,
          set,        \* set[o] = set of layers of option o that are configured (never contains "default")
          callNone,   \* the timeout given at the highest configured layer (the call's, else the profile's / session's) is
                      \* an explicit None (= never time out on the client): a value like any other, not "not set"
          winner      \* winner[o] = the layer whose value must be in effect
vars == <<phase, kind, mode, set, callNone, winner>>

First(o, k, s) ==
    LET ls == Layers(o, k)
        idx == {i \in 1..Len(ls) : ls[i] \in s \/ ls[i] = "default"}
        m == CHOOSE i \in idx : \A j \in idx : i <= j
    IN ls[m]

LayerSets(o, k) == SUBSET ({Layers(o, k)[i] : i \in 1..Len(Layers(o, k))} \ {"default"})

\* domains restricted up front when layers are tied (keeps TLC's initial-state enumeration small)
LSP(o, k, prep) == IF TiePrepared /\ k = "bound" THEN {x \in LayerSets(o, k) : ("prepared" \in x) = prep} ELSE LayerSets(o, k)
LSX(o, k, ex)   == IF TieExtras THEN {x \in LayerSets(o, k) : ("level" \in x) = ex} ELSE LayerSets(o, k)

Init ==
    /\ phase = "pick"
    /\ kind \in Kinds
    /\ mode \in Modes
    /\ set = [o \in AllOpts |-> {}]
    /\ callNone = FALSE
    /\ winner = [o \in AllOpts |-> "default"]

\* one step per configuration, so that TLC's workers enumerate the lattice in parallel
Configure ==
    /\ phase = "pick"
    /\ phase' = "done"
    /\ UNCHANGED <<kind, mode>>
    /\ \E prep \in (IF TiePrepared THEN BOOLEAN ELSE {FALSE}), ex \in (IF TieExtras THEN BOOLEAN ELSE {FALSE}) :
       \E cl \in LSP("cl", kind, prep) :
       \E se \in (IF TieStmt THEN {cl} ELSE LSP("serial", kind, prep)),
          re \in (IF TieStmt THEN {cl} ELSE LSP("retry", kind, prep)),
          fe \in (IF TieStmt THEN {cl} ELSE LSP("fetch", kind, prep)), ti \in LayerSets("timeout", kind),
          rf \in LSX("rowf", kind, ex), lb \in LSX("lbp", kind, ex), sp \in LSX("spec", kind, ex) :
          LET f == ("cl" :> cl) @@ ("serial" :> se) @@ ("retry" :> re) @@ ("fetch" :> fe) @@ ("timeout" :> ti)
                   @@ ("rowf" :> rf) @@ ("lbp" :> lb) @@ ("spec" :> sp)
              g == [o \in AllOpts |-> IF Applicable(o, kind, mode) THEN f[o] ELSE {}] IN
          set' = g
    /\ callNone' \in BOOLEAN
    /\ (callNone' => set'["timeout"] # {})
    /\ winner' = [o \in AllOpts |-> First(o, kind, set'[o])]

\* Executing the same statement object again under a different profile (profile modes) or after the
\* session defaults were changed (legacy mode): the layers that are set are the same, the "level" layer now
\* holds the other profile's values; nothing from the first execution may stick to the statement.
Reexecute ==
    /\ phase = "done"
    /\ phase' = "again"
    /\ UNCHANGED <<kind, mode, set, callNone, winner>>

Next == Configure \/ Reexecute
Spec == Init /\ [][Next]_vars

-----------------------------------------------------------------------------
\* C46 on the specification itself
Stateless == [][phase = "done" /\ phase' = "again" => winner' = winner /\ set' = set]_vars
StatementWins == \A o \in StmtOpts : "stmt" \in set[o] => winner[o] = "stmt"
CallWins      == "call" \in set["timeout"] => winner["timeout"] = "call"
PreparedNext  == \A o \in StmtOpts : ("prepared" \in set[o] /\ "stmt" \notin set[o]) => winner[o] = "prepared"
LevelNext     == \A o \in AllOpts : (set[o] = {"level"}) => winner[o] = "level"
DefaultLast   == \A o \in AllOpts : (winner[o] = "default") <=> set[o] = {}
WinnerIsSet   == \A o \in AllOpts : winner[o] = "default" \/ winner[o] \in set[o]



=============================================================================
