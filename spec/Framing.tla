------------------------------- MODULE Framing -------------------------------
(* Reassembly of native-protocol frames (v1-v4 headers) from a byte stream     *)
(* that the transport hands over in arbitrary pieces.                          *)
(*                                                                            *)
(* Code anchors (cassandra/connection.py):                                    *)
(*   reactor read handler   self._iobuf.write(chunk); self.process_io_buffer() *)
(*   process_io_buffer      the drain loop (1206-1238)                         *)
(*   _read_frame_header     header parse, sets _current_frame (1165-1181)      *)
(*   process_msg            hands (header, body) to the handler registered in  *)
(*                          _requests[stream] or, for ANY stream < 0 (not only *)
(*                          -1), to the push watchers (1240-1306)              *)
(*   _ConnectionIOBuffer    reset_io_buffer: keep only the unread tail         *)
(*                                                                            *)
(* Abstraction.  The wire is a sequence of *tagged* bytes <<i, p>> = byte p of *)
(* frame i, so that "the right bytes, all of them, nothing else" is decidable  *)
(* without modelling byte values.  A header parse succeeds only on the exact   *)
(* run <<i,1>> .. <<i,hdr>>; anything else sets `desync` (the receiver would    *)
(* interpret body bytes as a header).  Header length is 8 for v1/v2 and 9 for  *)
(* v3/v4 (frame_header_v1_v2 / frame_header_v3 + the version byte).            *)
(*                                                                            *)
(* One Read(k) = one invocation of the read handler = append k bytes, then the *)
(* maximal drain loop of process_io_buffer (operator Drain, made of the        *)
(* ParseHeader and Deliver steps).  All loop-thread callbacks are atomic with  *)
(* respect to each other, so Read is one action.                               *)
EXTENDS Integers, Sequences, FiniteSets, TLC

CONSTANTS Vers,        \* protocol versions of the frame headers (subset of 1..4; 5 in Segments.tla)
          PosLens,     \* body lengths of responses (stream id >= 0)
          NegLens,     \* body lengths of server pushes (stream id < 0)
          PushIds,     \* magnitudes m of the stream ids -m the server may put on a push: any negative id of the
                       \* header's width (v1/v2: a signed byte, -128..-1; v3+: a signed short, -32768..-1)
                       \* (magnitudes because a TLC configuration file has no negative numbers)
          MinFrames,
          MaxFrames,   \* Init picks any sequence of MinFrames..MaxFrames shapes
          AbsHdr,      \* header length used for ver >= 5 (Segments.tla scales it down; 9 in reality)
          Watchers,    \* callbacks registered in _push_watchers for the event type of the pushes (a set, any order)
          Raising      \* the ones among them that raise when called (handle_pushed logs and goes on)

VARIABLES frames,      \* what the server sends: Seq(Kinds)
          wire,        \* tagged bytes still in the network (not yet handed to the connection)
          sent,        \* number of wire bytes handed to the connection so far
          buf,         \* _io_buffer / cql frame buffer: bytes read but not yet consumed
          cur,         \* _current_frame: index of the frame whose header has been parsed, 0 = None
          delivered,   \* invocations of request handlers, in order
          pushed,      \* the pushes handed to the watchers (handle_pushed), in order
          wseen,       \* per registered watcher: the pushes (frame indices) it was called with, in order
          order,       \* frame indices in the order process_msg saw them
          desync       \* a header was parsed from bytes that are not a header
fvars == <<frames, wire, sent, buf, cur, delivered, pushed, wseen, order, desync>>

(* frame shapes: neg = server push; sid = the (negative) stream id it carries, 0 for a response, *)
(* whose stream id is the one of the request it answers (StreamOf)                              *)
MinSid(v) == IF v <= 2 THEN -128 ELSE -32768
Kinds == [ver : Vers, neg : {FALSE}, blen : PosLens, sid : {0}]
         \cup {k \in [ver : Vers, neg : {TRUE}, blen : NegLens, sid : {0 - m : m \in PushIds}] : k.sid < 0 /\ k.sid >= MinSid(k.ver)}

HdrLen(v) == IF v <= 2 THEN 8 ELSE IF v <= 4 THEN 9 ELSE AbsHdr
FrameLenOf(f) == HdrLen(f.ver) + f.blen

RECURSIVE SumLen(_, _)
SumLen(fs, n) == IF n = 0 THEN 0 ELSE SumLen(fs, n - 1) + FrameLenOf(fs[n])

FrameBytes(fs, i) == [p \in 1..FrameLenOf(fs[i]) |-> <<i, p>>]
RECURSIVE WireOf(_, _)
WireOf(fs, n) == IF n = 0 THEN <<>> ELSE WireOf(fs, n - 1) \o FrameBytes(fs, n)

Wire    == WireOf(frames, Len(frames))
WireLen == SumLen(frames, Len(frames))

(* The handler registered for a response is found through the stream id of its *)
(* header; frame i answers the request registered under stream id i.           *)
StreamOf(fs, i) == IF fs[i].neg THEN fs[i].sid ELSE i
ExpectedBody(fs, i) == [p \in 1..fs[i].blen |-> <<i, HdrLen(fs[i].ver) + p>>]

FrameSeqs == UNION {[1..n -> Kinds] : n \in MinFrames..MaxFrames}

(* ---- receiver state as a record, so that Segments.tla can feed the same     *)
(* ---- frame layer with segment payloads                                      *)
FState == [buf |-> buf, cur |-> cur, delivered |-> delivered, pushed |-> pushed, wseen |-> wseen,
           order |-> order, desync |-> desync]
FInit  == [buf |-> <<>>, cur |-> 0, delivered |-> <<>>, pushed |-> <<>>, wseen |-> [w \in Watchers |-> <<>>],
           order |-> <<>>, desync |-> FALSE]

(* _read_frame_header: the first buffered byte is taken as the version byte; with a whole header *)
(* in the buffer _current_frame is set                                                          *)
ParseHeader(fs, r) ==
    IF r.desync \/ r.cur # 0 \/ Len(r.buf) = 0 THEN r
    ELSE LET b1 == r.buf[1] IN
         IF b1[2] # 1 THEN [r EXCEPT !.desync = TRUE]
         ELSE LET i == b1[1]
                  h == HdrLen(fs[i].ver) IN
              IF Len(r.buf) < h THEN r                                   \* incomplete header: wait
              ELSE IF \A p \in 1..h : r.buf[p] = <<i, p>>
                   THEN [r EXCEPT !.cur = i]
                   ELSE [r EXCEPT !.desync = TRUE]

(* pos >= _current_frame.end_pos *)
CanDeliver(fs, r) == ~r.desync /\ r.cur # 0 /\ Len(r.buf) >= HdrLen(fs[r.cur].ver) + fs[r.cur].blen

(* process_msg(frame, body); reset_cql_frame_buffer(); _current_frame = None *)
Deliver(fs, r) ==
    LET i == r.cur
        h == HdrLen(fs[i].ver)
        e == h + fs[i].blen                                              \* _Frame.end_pos
        body == SubSeq(r.buf, h + 1, e)
        rec  == [idx |-> i, stream |-> StreamOf(fs, i), len |-> Len(body),
                 exact |-> body = ExpectedBody(fs, i)]
        rest == SubSeq(r.buf, e + 1, Len(r.buf)) IN
    [r EXCEPT !.buf = rest, !.cur = 0, !.order = Append(@, i),
              !.delivered = IF fs[i].neg THEN @ ELSE Append(@, rec),
              !.pushed = IF fs[i].neg THEN Append(@, rec) ELSE @,
              (* handle_pushed: EVERY registered watcher is called, one by one; one that raises (Raising) has *)
              (* been called too, and does not keep the others from being called                              *)
              !.wseen = IF fs[i].neg THEN [w \in Watchers |-> Append(@[w], i)] ELSE @]

(* the loop of process_io_buffer (without checksumming): parse, deliver, again, until something is incomplete *)
RECURSIVE Drain(_, _)
Drain(fs, r) ==
    LET r1 == ParseHeader(fs, r) IN
    IF CanDeliver(fs, r1) THEN Drain(fs, Deliver(fs, r1)) ELSE r1

Feed(fs, r, chunk) == Drain(fs, [r EXCEPT !.buf = @ \o chunk])

SetF(r) ==
    /\ buf' = r.buf /\ cur' = r.cur /\ delivered' = r.delivered
    /\ pushed' = r.pushed /\ wseen' = r.wseen /\ order' = r.order /\ desync' = r.desync

InitWith(fs) ==
    /\ frames = fs /\ sent = 0 /\ wire = WireOf(fs, Len(fs))
    /\ buf = <<>> /\ cur = 0 /\ delivered = <<>> /\ pushed = <<>> /\ order = <<>> /\ desync = FALSE
    /\ wseen = [w \in Watchers |-> <<>>]

Init == \E fs \in FrameSeqs : InitWith(fs)

Read(k) ==
    /\ ~desync
    /\ k \in 1..Len(wire)
    /\ sent' = sent + k
    /\ wire' = SubSeq(wire, k + 1, Len(wire))
    /\ SetF(Feed(frames, FState, SubSeq(wire, 1, k)))
    /\ UNCHANGED frames

Next == \E k \in 1..Len(wire) : Read(k)

Spec == Init /\ [][Next]_fvars

(* ------------------------------ invariants ------------------------------ *)
N == Len(frames)
NDone == Len(order)

TypeOK ==
    /\ sent \in 0..WireLen
    /\ cur \in 0..N
    /\ desync \in BOOLEAN

Inv_Sync == ~desync

(* every frame is seen exactly once and in stream order; responses went to the  *)
(* handler of their own stream id, pushes to the watchers                       *)
Inv_Prefix ==
    /\ \A j \in 1..NDone : order[j] = j
    /\ NDone <= N
    /\ LET resp == SelectSeq(order, LAMBDA i : ~frames[i].neg)
           push == SelectSeq(order, LAMBDA i : frames[i].neg) IN
       /\ Len(delivered) = Len(resp) /\ \A j \in 1..Len(resp) : delivered[j].idx = resp[j]
       /\ Len(pushed) = Len(push) /\ \A j \in 1..Len(push) : pushed[j].idx = push[j]

Inv_Exact ==
    /\ \A j \in 1..Len(delivered) :
          LET d == delivered[j] IN d.exact /\ d.len = frames[d.idx].blen /\ d.stream = d.idx
    /\ \A j \in 1..Len(pushed) :
          LET d == pushed[j] IN d.exact /\ d.len = frames[d.idx].blen /\ d.stream < 0 /\ d.stream = frames[d.idx].sid

(* server-pushed events go to the registered event watchers: each of them, whatever the others do, *)
(* is called with every push exactly once and in order                                             *)
Inv_AllWatchers ==
    LET push == SelectSeq(order, LAMBDA i : frames[i].neg) IN
    /\ Raising \subseteq Watchers
    /\ \A w \in Watchers : wseen[w] = push

(* nothing is lost or delivered in part: the buffer is exactly the unconsumed tail *)
Inv_NoPartial ==
    /\ sent = SumLen(frames, NDone) + Len(buf)
    /\ sent + Len(wire) = WireLen
    /\ buf \o wire = SubSeq(Wire, sent - Len(buf) + 1, WireLen)

(* every frame that is completely there has been delivered (no response is held back) *)
Inv_Eager ==
    /\ NDone < N => Len(buf) < FrameLenOf(frames[NDone + 1])
    /\ NDone = N => Len(buf) = 0
    /\ cur # 0 <=> (NDone < N /\ Len(buf) >= HdrLen(frames[NDone + 1].ver))
    /\ cur # 0 => cur = NDone + 1

Inv_Terminal == wire = <<>> => (NDone = N /\ buf = <<>> /\ cur = 0)

(* ------------------------- vacuity witnesses (must be violated) ---------- *)
Witness_PartialHeader == ~(Len(buf) > 0 /\ cur = 0)
Witness_PartialBody   == ~(cur # 0 /\ Len(buf) > HdrLen(frames[cur].ver))
Witness_Pushed        == ~(Len(pushed) > 0 /\ Len(delivered) > 0)
Witness_AllDone       == ~(sent = WireLen /\ NDone = N /\ N >= MinFrames)
Witness_PushOtherId   == ~(\E j \in 1..Len(pushed) : pushed[j].stream < -1)                       \* a push not on stream -1
Witness_PushMinId     == ~(\E j \in 1..Len(pushed) : pushed[j].stream = MinSid(frames[pushed[j].idx].ver))
Witness_RaisingWatcher == ~(\E b \in Raising, g \in Watchers \ Raising : Len(wseen[b]) > 0 /\ Len(wseen[g]) > 0)

(* One TLC run (-workers 1, CONSTRAINT WitnessScan) reports every witness whose negation is reached, *)
(* each once: <<"WITNESS", name>>.                                                                   *)
FWitnessNames == <<"Witness_PartialHeader", "Witness_PartialBody", "Witness_Pushed", "Witness_AllDone",
                   "Witness_PushOtherId", "Witness_PushMinId", "Witness_RaisingWatcher">>
FWitnessReached(i) == CASE i = 1 -> ~Witness_PartialHeader [] i = 2 -> ~Witness_PartialBody
                        [] i = 3 -> ~Witness_Pushed [] i = 4 -> ~Witness_AllDone
                        [] i = 5 -> ~Witness_PushOtherId [] i = 6 -> ~Witness_PushMinId
                        [] i = 7 -> ~Witness_RaisingWatcher
ASSUME \A i \in 1..20 : TLCSet(100 + i, 0)
WitnessScan == \A i \in 1..Len(FWitnessNames) :
    (FWitnessReached(i) /\ TLCGet(100 + i) = 0) => (TLCSet(100 + i, 1) /\ PrintT(<<"WITNESS", FWitnessNames[i]>>))
=============================================================================
