------------------------ MODULE Trace_ControlEvents ------------------------
(* Trace validation (code -> spec) for ControlEvents.tla.  Each recorded event  *)
(* names the operation performed on the real Cluster (run this executor task,   *)
(* hand this scheduler entry over, next step of this control reconnection, push *)
(* this event on the connection to that host, membership change, node mode,     *)
(* connection death, heartbeat notice, the next stretch of Cluster.shutdown)    *)
(* and carries the state of the real objects after it, projected on the         *)
(* specification's variables.  An event is accepted iff the specification       *)
(* action is enabled and yields exactly the logged post-state.                  *)
(*                                                                              *)
(* Log format: `up` is an array over the hosts in increasing order; sets are    *)
(* arrays; bags are arrays of task / thread objects with a count field n;       *)
(* emissions are compared as bags (the order inside one action is left open).   *)
EXTENDS ControlEvents, TraceLib

VARIABLES tid, l
tvars == <<vars, tid, l>>

Tr == Traces[tid]
HS == SortedSeq(Hosts)

TaskOf(x) == T(x.k, x.h, x.x, x.c, x.a)
ThreadOf(x) == R(x.via, x.canc, x.att, x.plan, x.conn, x.st)
BagIs(b, arr, Of(_)) == /\ DOMAIN b = {Of(arr[i]) : i \in 1..Len(arr)}
                        /\ \A i \in 1..Len(arr) : b[Of(arr[i])] = arr[i].n
SeqBag(s) == [x \in ToSet(s) |-> Cardinality({i \in 1..Len(s) : s[i] = x})]
NOpen(st) == (IF st.ctl.st = "open" THEN 1 ELSE 0) + BagCount(st.rcs, LAMBDA r : r.conn # 0)

Post(p) ==
    /\ known' = p.known
    /\ \A i \in 1..Len(HS) : up'[HS[i]] = p.up[i]
    /\ lbp' = ToSet(p.lbp)
    /\ hrec' = ToSet(p.hrec)
    /\ ctl' = [h |-> p.ctl.h, st |-> p.ctl.st]
    /\ chand' = p.chand
    /\ BagIs(exec', p.exec, TaskOf)
    /\ BagIs(sched', p.sched, TaskOf)
    /\ BagIs(rcs', p.rcs, ThreadOf)
    /\ SeqBag(em') = SeqBag(p.em)
    /\ phase' = p.phase
    /\ NOpen(cs') = p.nopen

TraceInit == tid \in 1..NTraces /\ l = 1 /\ Init

Arg(e, f, d) == IF f \in DOMAIN e THEN e[f] ELSE d

TraceNext ==
    /\ l <= Len(Tr)
    /\ l' = l + 1
    /\ UNCHANGED tid
    /\ LET e == Tr[l] IN
       /\ \/ e.e = "Exec"       /\ Exec(TaskOf(e.t))
          \/ e.e = "Fire"       /\ Fire(TaskOf(e.t))
          \/ e.e = "RcStep"     /\ RcStep(ThreadOf(e.r))
          \/ e.e = "Push"       /\ Push(e.c, e.kind, Arg(e, "h", 0), Arg(e, "x", ""))
          \/ e.e = "RingAdd"    /\ RingAdd(e.h)
          \/ e.e = "RingRemove" /\ RingRemove(e.h)
          \/ e.e = "NodeMode"   /\ NodeMode(e.h)
          \/ e.e = "ConnDie"    /\ ConnDie
          \/ e.e = "Heartbeat"  /\ Heartbeat
          \/ e.e = "ShutA"      /\ ShutA
          \/ e.e = "ShutB"      /\ ShutB
          \/ e.e = "ShutC"      /\ ShutC
       /\ Post(e.post)

TraceSpec == TraceInit /\ [][TraceNext]_tvars

Progress == RecordProgress(tid, l)
Done == PrintProgress
=============================================================================
