----------------------- MODULE Script_ControlRefresh -----------------------
(* ControlRefresh.tla driven by scripted snapshot sequences (one JSON array  *)
(* of scripts in IOEnv.TRACE_FILE, each script an array of                    *)
(* {snap: {local, info, shape, ctlDup}, force}).  The harness chooses the     *)
(* snapshots (seeded), TLC computes what the specification does with them     *)
(* (all invariants of ControlRefresh on) and dumps the states; the harness    *)
(* replays each script on the real ControlConnection and compares.  Used for  *)
(* host counts whose snapshot space is too large to enumerate.                *)
(* Peers must be 1..N (JSON arrays become sequences).                         *)
EXTENDS ControlRefresh, Json, IOUtils

Scripts == JsonDeserialize(IOEnv.TRACE_FILE)

VARIABLES sid, l, script      \* script = Scripts[sid], read once (TLC re-reads the file on every reference to Scripts)

SnapOf(j) == [local  |-> [loc |-> j.local.loc, tok |-> j.local.tok],
              info   |-> [p \in Peers |-> [loc |-> j.info[p].loc, tok |-> j.info[p].tok]],
              shape  |-> [p \in Peers |-> j.shape[p]],
              ctlDup |-> j.ctlDup]

ScriptInit == \E all \in {Scripts} :          \* binds the file's content once
                /\ sid \in 1..Len(all)
                /\ script = all[sid]
                /\ l = 1
                /\ Init
ScriptNext == /\ l <= Len(script)
              /\ Refresh(SnapOf(script[l].snap), script[l].force)
              /\ l' = l + 1
              /\ UNCHANGED <<sid, script>>
=============================================================================
