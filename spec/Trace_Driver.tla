---------------------------- MODULE Trace_Driver ----------------------------
(* Trace validation (code -> spec) for Driver.tla: whole-driver runs.  A trace *)
(* is one seeded random schedule of operations performed on a real Cluster /   *)
(* Session over simulated nodes (harness/replay/driver.py).  Every event names *)
(* the operation and its arguments and carries the state of the real objects   *)
(* after it, projected on the specification's variables.  What the driver does *)
(* inside an operation (which hosts a request skipped, which stream id the     *)
(* connection handed out, which tasks an executor task submitted, what a       *)
(* closing connection did to the requests on it) is not logged: the consuming  *)
(* action derives it, and the event is accepted iff the action is enabled and  *)
(* yields exactly the logged post-state.                                       *)
(*                                                                             *)
(* Log format: functions over hosts are arrays in increasing host order; bags   *)
(* are arrays of task objects with a count c; sets are arrays; a connection's   *)
(* reg / owed are arrays of [stream id, request, X|P]; attempts are arrays      *)
(* [host, connection, stream id, connection keyspace, session keyspace].        *)
EXTENDS Driver, TraceLib

CONSTANT Check     \* which parts of the logged post-state are compared: subset of {"host", "conn", "out", "att", "errs", "ks"}
                   \* (all of them for validation; one left out at a time to localise a rejection)

VARIABLES tid, l
tvars == <<vars, tid, l>>

Tr == Traces[tid]
ToSet(s) == {s[i] : i \in 1..Len(s)}
HS == SortedSeq(Hosts)
AS == SortedSeq(AllHosts)

TaskOf(x) == H!T(x.k, x.s, x.h, x.kind, x.f1, x.f2, x.n)
BagIs(b, arr) == /\ DOMAIN b = {TaskOf(arr[i]) : i \in 1..Len(arr)}
                 /\ \A i \in 1..Len(arr) : b[TaskOf(arr[i])] = arr[i].c
SeqBag(s) == [x \in ToSet(s) |-> Cardinality({i \in 1..Len(s) : s[i] = x})]

HostPost(p) ==
    LET st == cs' IN
    /\ \A i \in 1..Len(HS) : /\ st.known[HS[i]] = p.known[i]
                             /\ st.removed[HS[i]] = p.removed[i]
                             /\ st.up[HS[i]] = p.up[i]
                             /\ st.handling[HS[i]] = p.handling[i]
                             /\ st.recon[HS[i]] = p.recon[i]
    /\ \A j \in 1..Len(AS) : st.pools[1][AS[j]] = p.pools[1][j]
    /\ DOMAIN st.grp = {<<p.grp[i].h, p.grp[i].kind, p.grp[i].n>> : i \in 1..Len(p.grp)}
    /\ \A i \in 1..Len(p.grp) : LET g == st.grp[<<p.grp[i].h, p.grp[i].kind, p.grp[i].n>>] IN
                                    g.left = ToSet(p.grp[i].left) /\ g.ok = p.grp[i].ok /\ g.open = p.grp[i].open
    /\ BagIs(st.exec, p.exec)
    /\ BagIs(st.sched, p.sched)
    /\ st.lbpLive = ToSet(p.lbpLive)
    /\ phase' = p.phase
    /\ st.ctl = p.ctl
    /\ st.ctlPend = p.ctlPend
    /\ SeqBag(st.emL) = SeqBag(p.emL)
    /\ SeqBag(st.emP) = SeqBag(p.emP)
    /\ H!NOpenOf(st.ctl, st.ctlPend, st.leaked, st.pools, st.exec) = p.nopen

ConnPost(p) ==
    /\ Len(conns') = Len(p.conns)
    /\ \A i \in 1..Len(p.conns) :
         LET k == conns'[i]
             q == p.conns[i] IN
         /\ k.h = q.h /\ k.open = q.open /\ k.inst = q.inst /\ k.sig = q.sig
         /\ q.open => /\ k.reg = ToSet(q.reg)
                      /\ k.orph = ToSet(q.orph)
                      /\ k.owed = ToSet(q.owed)
                      /\ Infl(k) = q.infl
                      /\ Ids \ InUse(k) = ToSet(q.free)

OutPost(p) ==  \A r \in Reqs : LET k == rq'[r]
                                    q == p.reqs[r] IN
                                k.st = q.st /\ k.out = q.out /\ k.n = q.n /\ k.timer = q.timer
AttPost(p) ==  \A r \in Reqs : LET k == rq'[r]
                                    q == p.reqs[r] IN
                                /\ k.att = q.att /\ k.lc = q.lc /\ k.lid = q.lid
                                /\ k.st = "open" => k.plan = q.plan
ErrsPost(p) == \A r \in Reqs : rq'[r].errs = ToSet(p.reqs[r].errs)
KsPost(p) ==   /\ sks' = p.sks
               /\ Len(conns') = Len(p.conns) => \A i \in 1..Len(p.conns) : conns'[i].ks = p.conns[i].ks

Post(p) == /\ "host" \in Check => HostPost(p)
           /\ "conn" \in Check => ConnPost(p)
           /\ "out"  \in Check => OutPost(p)
           /\ "att"  \in Check => AttPost(p)
           /\ "errs" \in Check => ErrsPost(p)
           /\ "ks"   \in Check => KsPost(p)

TraceInit == tid \in 1..NTraces /\ l = 1 /\ Init

TraceNext ==
    /\ l <= Len(Tr)
    /\ l' = l + 1
    /\ UNCHANGED tid
    /\ LET e == Tr[l] IN
       /\ \/ e.e = "Init"        /\ UNCHANGED vars
          \/ e.e = "StartReq"    /\ \E sid \in Ids : StartReq(e.r, e.rot, e.x, e.idem, e.prep, sid)
          \/ e.e = "Answer"      /\ \E x \in conns[e.c].owed : x[1] = e.sid /\ Answer(e.c, e.sid, x[2], x[3], e.x)
          \/ e.e = "Drop"        /\ \E x \in conns[e.c].owed : x[1] = e.sid /\ Drop(e.c, e.sid, x[2], x[3])
          \/ e.e = "FireTimer"   /\ \E sid \in Ids : FireTimer(e.r, sid)
          \/ e.e = "Exec"        /\ CASE e.t.k = "Retry"     -> \E sid \in Ids : ExecRetry(e.t.n, sid)
                                      [] e.t.k = "Reprepare" -> \E sid \in Ids : ExecReprepare(e.t.n, e.t.h, sid)
                                      [] e.t.k = "AfterPrep" -> \E sid \in Ids : ExecAfter(TaskOf(e.t), sid)
                                      [] OTHER               -> ExecHost(TaskOf(e.t))
          \/ e.e = "Fire"        /\ Fire(TaskOf(e.t))
          \/ e.e = "Kill"        /\ Kill(e.c)
          \/ e.e = "StatusEvent" /\ StatusEvent(e.h, e.x)
          \/ e.e = "SetMode"     /\ SetMode(e.h, e.x)
          \/ e.e = "ShutdownA"   /\ ShutdownA
          \/ e.e = "ShutdownS"   /\ ShutdownS
          \/ e.e = "ShutdownE"   /\ ShutdownE
       /\ Post(e.post)

TraceSpec == TraceInit /\ [][TraceNext]_tvars

Progress == RecordProgress(tid, l)
Done == PrintProgress
=============================================================================
