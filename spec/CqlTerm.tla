------------------------------- MODULE CqlTerm -------------------------------
(* C29.  A push-down recogniser of ONE CQL literal term on top of the lexer of  *)
(* CqlLex.tla (Cassandra Parser.g: term / value / constant / collectionLiteral /*)
(* tupleLiteral):                                                              *)
(*   constant   STRING_LITERAL | INTEGER | FLOAT | BOOLEAN | UUID | HEXNUMBER   *)
(*              | ['-'] (K_NAN | K_INFINITY)         and K_NULL                 *)
(*   list       '[' [term {',' term}] ']'                                       *)
(*   set / map  '{' '}' | '{' term {',' term} '}'                               *)
(*              | '{' term ':' term {',' term ':' term} '}'                     *)
(*   tuple      '(' term {',' term} ')'   - '(' ')' only as an IN value list,   *)
(*              i.e. outermost                                                  *)
(* Identifiers, other keywords, stray characters, function calls are not      *)
(* literal terms.  The recogniser consumes the tokens the lexer completes, one *)
(* character at a time, with a stack of open brackets.                        *)
(*                                                                             *)
(* The second half is the domain of the property: SHAPES of Python values      *)
(* (type tag x payload x children), what the encoder must produce for a shape  *)
(* (Expect: the kind of term, with the decoded text / digits / hex digits when *)
(* they are determined by the value) and a reference encoder (RefEncode).      *)
(* TLC runs the recogniser over RefEncode(shape) for every shape and checks    *)
(* that exactly one term matching Expect(shape) comes out; Trace_CqlTerm.tla   *)
(* runs it over the characters cassandra.query.bind_params produced.           *)
(* Not decided here: that a float / decimal literal denotes the same NUMBER     *)
(* (Expect only asks for a number / integer / string token there).  Decided    *)
(* for timestamps near the epoch: a datetime with wall-clock time w (ms since  *)
(* 1970-01-01T00:00 on its own clock) and UTC offset o denotes the instant     *)
(* w - o; a naive datetime is taken as UTC (what DateType.serialize sends on   *)
(* the prepared path); the literal must be exactly that integer.  The SIGN of  *)
(* a float / decimal literal is decided too (-0.0 is not 0.0).                 *)
(* Statements with SEVERAL parameters (tag "params", query (%s, %s ..)): every *)
(* parameter is substituted as its own literal, also next to parameters that   *)
(* compare equal to it (1 / True, 0 / False, 0.0 / -0.0, (0,) / (-0.0,)).      *)
EXTENDS CqlLex, Integers

CONSTANT Rich          \* BOOLEAN: larger payload alphabets and more children (thorough tier)

-----------------------------------------------------------------------------
\* recogniser.  A term is [k, v]: scalars carry their characters, list/tuple/set a sequence of
\* terms, map a sequence of <<key, value>>.
NoTerm == [k |-> "none", v |-> <<>>]
T(k, v) == [k |-> k, v |-> v]

ScalarTok == {"str", "int", "float", "hex", "uuid", "bool"}
NullWord  == <<"n","u","l","l">>

IsTermTok(tok) == \/ tok.k \in ScalarTok
                  \/ tok.k = "keyword" /\ (tok.v = NullWord \/ tok.v \in NanInf)
                  \/ tok.k = "negkeyword"
TermOfTok(tok) == CASE tok.k \in ScalarTok                       -> T(tok.k, tok.v)
                    [] tok.k = "keyword" /\ tok.v = NullWord     -> T("null", <<>>)
                    [] tok.k = "keyword"                         -> T("float", tok.v)
                    [] OTHER                                     -> T("float", <<"-">> \o tok.v)

\* frame of an open bracket: b the bracket, items what is complete, key a pending map key / first element,
\* st: open (nothing yet) | term (an item is complete) | comma | first ('{' x: set or map not known yet)
\*     | key ('{' .. k, expects ':') | colon ;  mode of a '{': unk | set | map
Frame(b) == [b |-> b, items |-> <<>>, key |-> NoTerm, st |-> "open", mode |-> IF b = "{" THEN "unk" ELSE "seq"]
P0 == [stack |-> <<>>, out |-> <<>>, err |-> FALSE]
Bad(ps) == [ps EXCEPT !.err = TRUE]

PushTerm(ps, t) ==
    LET d == Len(ps.stack) IN
    IF d = 0 THEN [ps EXCEPT !.out = Append(@, t)]
    ELSE LET f == ps.stack[d] IN
         IF f.st \in {"open", "comma"} THEN
             IF f.b = "{" /\ f.mode = "map" THEN [ps EXCEPT !.stack[d] = [f EXCEPT !.key = t, !.st = "key"]]
             ELSE IF f.b = "{" /\ f.mode = "unk" THEN [ps EXCEPT !.stack[d] = [f EXCEPT !.key = t, !.st = "first"]]
             ELSE [ps EXCEPT !.stack[d] = [f EXCEPT !.items = Append(@, t), !.st = "term"]]
         ELSE IF f.st = "colon" THEN
             [ps EXCEPT !.stack[d] = [f EXCEPT !.items = Append(@, <<f.key, t>>), !.key = NoTerm, !.st = "term"]]
         ELSE Bad(ps)

Opener(c) == CASE c = ")" -> "(" [] c = "]" -> "[" [] OTHER -> "{"

TermOfFrame(f) ==
    CASE f.b = "["       -> T("list", f.items)
      [] f.b = "("       -> T("tuple", f.items)
      [] f.st = "open"   -> T("empty_brace", <<>>)
      [] f.st = "first"  -> T("set", <<f.key>>)
      [] f.mode = "map"  -> T("map", f.items)
      [] OTHER           -> T("set", f.items)

POpen(ps, c) ==
    LET d == Len(ps.stack)
        misplaced == d > 0 /\ ps.stack[d].st \notin {"open", "comma", "colon"} IN
    [ps EXCEPT !.stack = Append(@, Frame(c)), !.err = (@ \/ misplaced)]

PClose(ps, c) ==
    LET d == Len(ps.stack) IN
    IF d = 0 THEN Bad(ps)
    ELSE LET f == ps.stack[d]
             popped == [ps EXCEPT !.stack = SubSeq(@, 1, d - 1)] IN
         IF f.b # Opener(c) \/ f.st \notin {"open", "term", "first"} THEN Bad(popped)
         ELSE IF f.b = "(" /\ f.st = "open" /\ d > 1 THEN Bad(popped)          \* '()' is not a tuple literal
         ELSE PushTerm(popped, TermOfFrame(f))

PComma(ps) ==
    LET d == Len(ps.stack) IN
    IF d = 0 THEN Bad(ps)
    ELSE LET f == ps.stack[d] IN
         IF f.st = "term" THEN [ps EXCEPT !.stack[d] = [f EXCEPT !.st = "comma"]]
         ELSE IF f.st = "first"
              THEN [ps EXCEPT !.stack[d] = [f EXCEPT !.mode = "set", !.items = Append(@, f.key), !.key = NoTerm, !.st = "comma"]]
         ELSE Bad(ps)

PColon(ps) ==
    LET d == Len(ps.stack) IN
    IF d = 0 THEN Bad(ps)
    ELSE LET f == ps.stack[d] IN
         IF f.b # "{" THEN Bad(ps)
         ELSE IF f.st = "first" THEN [ps EXCEPT !.stack[d] = [f EXCEPT !.mode = "map", !.st = "colon"]]
         ELSE IF f.st = "key" THEN [ps EXCEPT !.stack[d] = [f EXCEPT !.st = "colon"]]
         ELSE Bad(ps)

PTok(ps, tok) ==
    IF tok.k = "punct" THEN
        LET c == tok.v[1] IN
        IF c \in {"(", "[", "{"} THEN POpen(ps, c)
        ELSE IF c \in {")", "]", "}"} THEN PClose(ps, c)
        ELSE IF c = "," THEN PComma(ps)
        ELSE PColon(ps)
    ELSE IF IsTermTok(tok) THEN PushTerm(ps, TermOfTok(tok))
    ELSE IF Len(ps.stack) = 0 THEN [ps EXCEPT !.err = TRUE, !.out = Append(@, T("nonterm", tok.v))]
    ELSE Bad(ps)

\* a character completes at most two tokens
PFeed(ps, emit) == IF Len(emit) = 0 THEN ps
                   ELSE IF Len(emit) = 1 THEN PTok(ps, emit[1])
                   ELSE PTok(PTok(ps, emit[1]), emit[2])

RECURSIVE Matches(_, _)
Matches(t, w) ==
    CASE w.k = "number" -> t.k \in {"int", "float"} /\ ((Len(t.v) > 0 /\ t.v[1] = "-") <=> w.v = <<"-">>)
      [] w.k = "anystr" -> t.k = "str"
      [] w.k = "anyint" -> t.k = "int"
      [] w.k = "null"   -> t.k = "null"
      [] w.k \in {"str", "int", "hex", "uuid", "bool"} -> t.k = w.k /\ t.v = w.v
      [] w.k \in {"list", "tuple"} ->
             t.k = w.k /\ Len(t.v) = Len(w.v) /\ \A i \in 1..Len(w.v) : Matches(t.v[i], w.v[i])
      [] w.k = "set" ->
             IF Len(w.v) = 0 THEN t.k = "empty_brace"
             ELSE /\ t.k = "set" /\ Len(t.v) = Len(w.v)
                  /\ \E p \in Permutations(1..Len(w.v)) : \A i \in 1..Len(w.v) : Matches(t.v[i], w.v[p[i]])
      [] w.k = "map" ->
             IF Len(w.v) = 0 THEN t.k = "empty_brace"
             ELSE /\ t.k = "map" /\ Len(t.v) = Len(w.v)
                  /\ \A i \in 1..Len(w.v) : Matches(t.v[i][1], w.v[i][1]) /\ Matches(t.v[i][2], w.v[i][2])
      [] OTHER -> FALSE

-----------------------------------------------------------------------------
\* Python value shapes: [tag, p (payload: characters), kids (shapes; for maps k1, v1, k2, v2, ...)]
S(tag, p)    == [tag |-> tag, p |-> p, kids |-> <<>>]
C(tag, kids) == [tag |-> tag, p |-> <<>>, kids |-> kids]

StrTags    == {"str", "MyStr"}                                   \* MyStr: class MyStr(str)
BytesTags  == {"bytes", "bytearray", "memoryview", "MyBytes"}
IntTags    == {"int", "MyInt"}
FloatTags  == {"float", "MyFloat", "Decimal"}
UuidTags   == {"uuid", "MyUUID"}
TzTag      == "datetime_tz"                                     \* datetime near the epoch: p = wall ms "@" utc offset
AnyIntTags == {"datetime", "Date"}                               \* millisecond timestamp, days (cassandra.util.Date)
AnyStrTags == {"date", "time", "Time", "inet4", "inet6"}
ListTags   == {"list", "tuple", "MyList", "namedtuple", "generator"}   \* the encoder targets a list literal for all of them
SetTags    == {"set", "frozenset", "sortedset", "MySet"}
MapTags    == {"dict", "OrderedDict", "MyDict", "OrderedMap"}
CollTags   == ListTags \cup SetTags \cup MapTags \cup {"valueseq"}
HashableColl == {"tuple", "namedtuple", "frozenset"}

StrPayloads ==
    { <<>>, <<"a">>, <<"'">>, <<"a", "'", "b">>, <<"U+1D11E">>, <<"\"", " ", "-", "-">> }
    \cup IF Rich THEN { <<"'", "'">>, <<"U+00E9", "'", "\n">>, <<"%", "s">>, <<"x", "'", ";">>, <<"0", "x">>, <<"n","u","l","l">> }
         ELSE {}
BytesPayloads == { <<>>, <<"0", "0">>, <<"2", "7", "f", "f">> }              \* hex digits of the bytes
IntPayloads   == { <<"0">>, <<"1">>, <<"-", "7">>,
                   <<"9","2","2","3","3","7","2","0","3","6","8","5","4","7","7","5","8","0","8">> }    \* 2^63
BoolPayloads  == BoolWords
FloatPayloads == { <<"1", ".", "5">>, <<"0", ".", "0">>, <<"-", "0", ".", "0">>, <<"1", "e", "+", "3", "0", "0">>,
                   <<"N", "a", "N">>, <<"I","n","f","i","n","i","t","y">>, <<"-","I","n","f","i","n","i","t","y">> }
UuidPayloads  == { <<"1","2","3","e","4","5","6","7","-","e","8","9","b","-","1","2","d","3","-","a","4","5","6","-",
                     "4","2","6","6","1","4","1","7","4","0","0","0">>,
                   <<"f","f","f","f","f","f","f","f","-","0","0","0","0","-","0","0","0","0","-","0","0","0","0","-",
                     "0","0","0","0","0","0","0","0","0","0","0","a">> }
Variants      == { <<"1">>, <<"2">> }                              \* the harness holds two values per temporal / inet tag

\* datetimes near the epoch.  Payload: digits of the wall-clock milliseconds, "@", then "n" (naive) or the signed
\* UTC offset in milliseconds.  All numbers stay far below 2^31.
WallPayloads == { <<"0">>, <<"1","0","0","0">>, <<"8","6","4","0","0","1","2","3">>,           \* 0, 1 s, 1 day + 123 ms
                  <<"0","u","5","0","0">> }                                              \* 0 ms + 500 microseconds
OffPayloads  == { <<"n">>, <<"+","0">>, <<"+","7","2","0","0","0","0","0">>, <<"-","3","6","0","0","0","0","0">> }
DtzShapes    == {S(TzTag, w \o <<"@">> \o o) : w \in WallPayloads, o \in OffPayloads}

DigitVal == [c \in Digit |-> (CHOOSE i \in 1..10 : DigitSeq[i] = c) - 1]
RECURSIVE NatOf(_), NatChars(_)
NatOf(ds)   == IF Len(ds) = 0 THEN 0 ELSE 10 * NatOf(SubSeq(ds, 1, Len(ds) - 1)) + DigitVal[ds[Len(ds)]]
NatChars(x) == IF x < 10 THEN <<DigitSeq[x + 1]>> ELSE NatChars(x \div 10) \o <<DigitSeq[(x % 10) + 1]>>
IntChars(x) == IF x < 0 THEN <<"-">> \o NatChars(0 - x) ELSE NatChars(x)
AtPos(p)    == CHOOSE i \in 1..Len(p) : p[i] = "@"
\* an optional "u" + digits after the wall milliseconds: microseconds below the millisecond (1..999)
HasSub(p)   == \E i \in 1..(AtPos(p) - 1) : p[i] = "u"
UPos(p)     == CHOOSE i \in 1..(AtPos(p) - 1) : p[i] = "u"
WallMs(p)   == NatOf(SubSeq(p, 1, (IF HasSub(p) THEN UPos(p) ELSE AtPos(p)) - 1))
SubUs(p)    == IF HasSub(p) THEN NatOf(SubSeq(p, UPos(p) + 1, AtPos(p) - 1)) ELSE 0
OffsetMs(p) == LET o == From(p, AtPos(p) + 1) IN
               IF o = <<"n">> THEN 0                                  \* naive: read as UTC
               ELSE IF o[1] = "-" THEN 0 - NatOf(Tail(o)) ELSE NatOf(Tail(o))
\* the instant, in milliseconds since the epoch: what the prepared path sends and the literal must say
\* (a CQL timestamp has millisecond resolution: microseconds below it are dropped by truncation toward zero, the
\* convention of DateType.serialize - so before the epoch a non-zero sub-millisecond part gives the NEXT millisecond)
EpochMs(p)  == LET ms == WallMs(p) - OffsetMs(p) IN IF ms < 0 /\ SubUs(p) > 0 THEN ms + 1 ELSE ms

Scalars ==
         {S(t, p) : t \in StrTags, p \in StrPayloads}
    \cup {S(t, p) : t \in BytesTags, p \in BytesPayloads}
    \cup {S(t, p) : t \in IntTags, p \in IntPayloads}
    \cup {S("bool", p) : p \in BoolPayloads}
    \cup {S(t, p) : t \in FloatTags, p \in FloatPayloads}
    \cup {S(t, p) : t \in UuidTags, p \in UuidPayloads}
    \cup {S(t, p) : t \in AnyIntTags \cup AnyStrTags, p \in Variants}
    \cup {S("none", <<>>)}
    \cup DtzShapes

\* children of collections: pairwise different Python values, all hashable
Kid1 == S("str", <<"a", "'", "b">>)
Kid2 == S("MyStr", <<"'">>)
Kid3 == S("int", <<"-", "7">>)
Kid4 == S("bytes", <<"2", "7", "f", "f">>)
Kid5 == S("none", <<>>)
KidSeq == IF Rich THEN <<Kid1, Kid2, Kid3, Kid4, Kid5, S("float", <<"N", "a", "N">>), S("MyInt", <<"0">>),
                         S("bool", <<"t","r","u","e">>), S("str", <<"U+1D11E">>)>>
          ELSE <<Kid1, Kid2, Kid3, Kid4, Kid5>>
Kids == RangeOf(KidSeq)

Seqs(X, lo, hi) == UNION {[1..k -> X] : k \in lo..hi}
\* a sorted set needs mutually comparable elements
SortedOk(tag, ks) == tag # "sortedset" \/ \A i \in 1..Len(ks) : ks[i].tag \in StrTags
Hashable(s) == s.tag \notin CollTags \/ s.tag \in HashableColl
Distinct2(a, b) == a # b /\ ~(a.tag \in CollTags /\ b.tag \in CollTags)     \* different Python values

SetKids(X) == {ks \in Seqs(X, 0, 2) : /\ \A i \in 1..Len(ks) : Hashable(ks[i])
                                      /\ Len(ks) = 2 => Distinct2(ks[1], ks[2])}
\* k1 v1 (k2 v2): keys hashable and different
Key4 == {Kid1, Kid2, Kid3, Kid4}
MapKids(K, V) ==      {<<>>}
                 \cup {<<k, v>> : k \in {x \in K : Hashable(x)}, v \in V}
                 \cup {x \in {<<k1, v1, k2, Kid3>> : k1 \in Key4, k2 \in Key4, v1 \in V \cap Kids} : x[1] # x[3]}

Level2 ==
         {C(t, ks) : t \in ListTags \cup {"valueseq"}, ks \in Seqs(Kids, 0, 2)}
    \cup {c \in {C(t, ks) : t \in SetTags, ks \in SetKids(Kids)} : SortedOk(c.tag, c.kids)}
    \cup {C(t, ks) : t \in MapTags, ks \in MapKids(Kids, Kids)}

\* level-2 values used as children at level 3: collections holding a string with a quote, once as a plain
\* str and once as the user subclass (and the empty collections when Rich)
Core2 == {C(t, <<k>>) : t \in ListTags \cup (SetTags \ {"sortedset"}), k \in {Kid1, Kid2}}
         \cup {C(t, <<Kid1, Kid2>>) : t \in MapTags} \cup {C(t, <<Kid3, Kid1>>) : t \in MapTags}
         \cup IF Rich THEN {C(t, <<>>) : t \in ListTags \cup SetTags \cup MapTags} ELSE {}
\* scalars that accompany a level-2 child
Pal == IF Rich THEN Kids ELSE {Kid3, Kid5}

HasCore(ks) == \E i \in 1..Len(ks) : ks[i] \in Core2
\* outer tags at level 3 (all of them when Rich)
T3List == IF Rich THEN ListTags \cup {"valueseq"} ELSE {"list", "tuple", "MyList", "namedtuple"}
T3Set  == IF Rich THEN SetTags \ {"sortedset"} ELSE {"set", "MySet"}
T3Map  == IF Rich THEN MapTags ELSE {"dict", "MyDict"}
Level3 ==
         {C(t, ks) : t \in T3List,
                     ks \in {x \in Seqs(Pal \cup Core2, 1, 2) : HasCore(x) /\ (Len(x) = 2 => (x[1] \in Pal \/ x[2] \in Pal))}}
    \cup {C(t, ks) : t \in T3Set, ks \in {x \in SetKids(Pal \cup Core2) : HasCore(x)}}
    \cup {C(t, ks) : t \in T3Map, ks \in {x \in MapKids(Pal \cup Core2, Pal \cup Core2) : Len(x) = 2 /\ HasCore(x)}}

\* three brackets deep
Deep ==  {C(t, <<C(t2, <<c>>)>>) : t \in {"list", "MyList"}, t2 \in {"tuple", "list"}, c \in Core2}
    \cup {C("dict", <<Kid1, C("list", <<c>>)>>) : c \in Core2}

\* several parameters of ONE statement, bound as (%s, %s) / (%s, %s, %s): values that compare (and hash) equal in
\* Python although they are different values for Cassandra, next to each other in every order
ParamSet == { S("int", <<"0">>), S("int", <<"1">>), S("bool", <<"t","r","u","e">>), S("bool", <<"f","a","l","s","e">>),
              S("float", <<"0", ".", "0">>), S("float", <<"-", "0", ".", "0">>),
              C("tuple", <<S("int", <<"0">>)>>), C("tuple", <<S("float", <<"-", "0", ".", "0">>)>>), Kid1 }
ParamTriple == { S("int", <<"1">>), S("bool", <<"t","r","u","e">>), S("float", <<"-", "0", ".", "0">>) }
ParamLists ==      {C("params", <<a, b>>) : a \in ParamSet, b \in ParamSet}
              \cup {C("params", <<a, b, c>>) : a \in ParamTriple, b \in ParamTriple, c \in ParamTriple}

Shapes == Scalars \cup Level2 \cup Level3 \cup Deep \cup {C("list", <<s>>) : s \in DtzShapes} \cup ParamLists

RECURSIVE Expect(_)
Expect(s) ==
    CASE s.tag \in StrTags    -> T("str", s.p)
      [] s.tag \in BytesTags  -> T("hex", s.p)
      [] s.tag \in IntTags    -> T("int", s.p)
      [] s.tag = "bool"       -> T("bool", s.p)
      [] s.tag \in FloatTags  -> T("number", IF s.p[1] = "-" THEN <<"-">> ELSE <<>>)
      [] s.tag \in UuidTags   -> T("uuid", s.p)
      [] s.tag \in AnyIntTags -> T("anyint", <<>>)
      [] s.tag = TzTag        -> T("int", IntChars(EpochMs(s.p)))
      [] s.tag \in AnyStrTags -> T("anystr", <<>>)
      [] s.tag = "none"       -> T("null", <<>>)
      [] s.tag \in ListTags   -> T("list", [i \in 1..Len(s.kids) |-> Expect(s.kids[i])])
      [] s.tag \in {"valueseq", "params"} -> T("tuple", [i \in 1..Len(s.kids) |-> Expect(s.kids[i])])
      [] s.tag \in SetTags    -> T("set", [i \in 1..Len(s.kids) |-> Expect(s.kids[i])])
      [] s.tag \in MapTags    -> T("map", [i \in 1..(Len(s.kids) \div 2) |->
                                               <<Expect(s.kids[2 * i - 1]), Expect(s.kids[2 * i])>>])

\* reference encoder (canonical CQL text of a shape)
RECURSIVE Joined(_, _), RefEncode(_)
Joined(parts, sep) == IF Len(parts) = 0 THEN <<>>
                      ELSE IF Len(parts) = 1 THEN parts[1]
                      ELSE parts[1] \o sep \o Joined(Tail(parts), sep)
CommaSp == <<",", " ">>
RefEncode(s) ==
    CASE s.tag \in StrTags    -> QuoteStr(s.p)
      [] s.tag \in BytesTags  -> <<"0", "x">> \o s.p
      [] s.tag \in IntTags \cup FloatTags \cup UuidTags \cup {"bool"} -> s.p
      [] s.tag \in AnyIntTags -> <<"-", "1", "5">>
      [] s.tag = TzTag        -> IntChars(EpochMs(s.p))
      [] s.tag \in AnyStrTags -> QuoteStr(<<"1", ":", "2">>)
      [] s.tag = "none"       -> <<"N", "U", "L", "L">>
      [] s.tag \in ListTags   -> <<"[">> \o Joined([i \in 1..Len(s.kids) |-> RefEncode(s.kids[i])], CommaSp) \o <<"]">>
      [] s.tag \in {"valueseq", "params"} -> <<"(">> \o Joined([i \in 1..Len(s.kids) |-> RefEncode(s.kids[i])], CommaSp) \o <<")">>
      [] s.tag \in SetTags    -> <<"{">> \o Joined([i \in 1..Len(s.kids) |-> RefEncode(s.kids[i])], CommaSp) \o <<"}">>
      [] s.tag \in MapTags    -> <<"{">> \o Joined([i \in 1..(Len(s.kids) \div 2) |->
                                     RefEncode(s.kids[2 * i - 1]) \o <<":", " ">> \o RefEncode(s.kids[2 * i])], CommaSp) \o <<"}">>

-----------------------------------------------------------------------------
VARIABLES shape, want,          \* the value shape and Expect(shape)
          stack, out, err       \* recogniser: open brackets, completed outermost terms, error flag
tvars == <<vars, shape, want, stack, out, err>>

NoShape == S("none", <<>>)
Rec0 == stack = <<>> /\ out = <<>> /\ err = FALSE

TInit == /\ shape \in Shapes
         /\ want = Expect(shape)
         /\ n = RefEncode(shape) /\ form = "raw" /\ bare = FALSE
         /\ Auto0 /\ Rec0

Consume(emit) == LET ps == PFeed([stack |-> stack, out |-> out, err |-> err], emit) IN
                 stack' = ps.stack /\ out' = ps.out /\ err' = ps.err

\* one character through lexer and recogniser (c is the character Feed consumes)
TFeed(c) == Feed(c) /\ Consume(LexStep(mode, cur, c).emit)
TFinish  == Finish /\ Consume(AtEnd(mode, cur))

\* the few shapes the vacuity witnesses need (a subset of Shapes), INIT of the witness configuration
WitnessShapes == {C("MyList", <<C("tuple", <<C("list", <<Kid2>>)>>)>>),
                  C("set", <<>>), C("list", <<Kid1>>), C("list", <<C("dict", <<Kid1, Kid2>>)>>),
                  S(TzTag, <<"0", "@", "+","7","2","0","0","0","0","0">>),
                  C("params", <<S("int", <<"1">>), S("bool", <<"t","r","u","e">>)>>)}
TInitW == /\ shape \in WitnessShapes
          /\ want = Expect(shape)
          /\ n = RefEncode(shape) /\ form = "raw" /\ bare = FALSE
          /\ Auto0 /\ Rec0

TChar == ~done /\ pos <= Len(n) /\ TFeed(n[pos]) /\ UNCHANGED <<n, form, done, bare, shape, want>>
TEnd  == ~done /\ pos > Len(n) /\ TFinish /\ UNCHANGED <<n, form, bare, shape, want>>
TNext == TChar \/ TEnd
TStutter == UNCHANGED tvars

Accepted == done /\ ~err /\ Len(stack) = 0 /\ Len(out) = 1 /\ Matches(out[1], want)

\* C29 on the specification itself: the canonical text of every shape is one term of the expected kind
RefAccepted == done => Accepted
StackBounded == Len(stack) <= 3

\* vacuity witnesses (must be VIOLATED)
Witness_Depth3     == ~(Len(stack) = 3 /\ shape.tag = "MyList" /\ stack[3].st = "open")
Witness_MapInList  == ~(done /\ Accepted /\ out[1].k = "list" /\ \E i \in 1..Len(out[1].v) : out[1].v[i].k = "map")
Witness_EmptyBrace == ~(done /\ Accepted /\ out[1].k = "empty_brace")
Witness_AwareBeforeEpoch == ~(done /\ Accepted /\ shape.tag = TzTag /\ out[1].v = <<"-","7","2","0","0","0","0","0">>)
Witness_EqualButDifferent == ~(done /\ Accepted /\ shape.tag = "params" /\ Len(out[1].v) = 2
                                /\ out[1].v[1].k = "int" /\ out[1].v[1].v = <<"1">> /\ out[1].v[2].k = "bool")
Witness_QuoteInStr == ~(done /\ Accepted /\ out[1].k = "list" /\ Len(out[1].v) = 1 /\ out[1].v[1].k = "str"
                          /\ \E i \in 1..Len(out[1].v[1].v) : out[1].v[1].v[i] = "'")
=============================================================================
