---------------------------- MODULE ReplicaCache ----------------------------
(* The lazily built, cached token -> replicas map of ONE keyspace            *)
(* (TokenMap.tokens_to_hosts_by_ks[ks]) under concurrent use: a client       *)
(* thread makes the first token-aware plan for the keyspace while the        *)
(* control connection's thread installs new replication settings for it.     *)
(*                                                                           *)
(* Builder  B  TokenAwarePolicy.make_query_plan -> Metadata.get_replicas ->  *)
(*             TokenMap.get_replicas (metadata.py 1765-1783): reads the      *)
(*             cache without lock; when absent rebuild_keyspace(             *)
(*             build_if_absent=True) (1740-1753): under _rebuild_lock test   *)
(*             "still absent", read Metadata.keyspaces[ks], compute          *)
(*             (make_token_replica_map), publish; then reads the cache.      *)
(* Updater  U  Metadata._update_keyspace (180-194): keyspaces[ks] := new     *)
(*             meta, then _keyspace_updated -> rebuild_keyspace(             *)
(*             build_if_absent=False): under _rebuild_lock test "present",   *)
(*             read keyspaces[ks], compute, publish.                         *)
(*                                                                           *)
(* One action per critical section / lock-free access; a thread can be       *)
(* pre-empted before acquiring the lock, inside the computation and after    *)
(* releasing.  Settings are abstract: 0 = the old ones, 1 = the new ones.    *)
(* Property (C22/C26 at quiescence): whatever is cached was computed from    *)
(* the CURRENT settings, so every later plan follows the current             *)
(* replication; the builder's own plan follows the old or the new settings.  *)
EXTENDS Integers, TLC

CONSTANTS WarmChoices     \* subset of BOOLEAN: was the map already built before the two threads start

VARIABLES settings,   \* what Metadata.keyspaces[ks] holds: 0 / 1
          cache,      \* -1 = no map cached, else the settings the cached map was computed from
          lock,       \* "free" | "B" | "U"
          bpc, upc,   \* program counters
          bsnap, usnap,   \* settings read under the lock, being computed
          bplan       \* settings the builder's plan was made from (-1: not yet)
vars == <<settings, cache, lock, bpc, upc, bsnap, usnap, bplan>>

Init == /\ settings = 0
        /\ \E w \in WarmChoices : cache = IF w THEN 0 ELSE -1
        /\ lock = "free"
        /\ bpc = "start" /\ upc = "start"
        /\ bsnap = -1 /\ usnap = -1 /\ bplan = -1

\* ---- builder
B_Lookup ==                              \* TokenMap.get_replicas: tokens_to_hosts_by_ks.get(ks), no lock
    /\ bpc = "start"
    /\ IF cache # -1 THEN bplan' = cache /\ bpc' = "done" ELSE bplan' = bplan /\ bpc' = "want"
    /\ UNCHANGED <<settings, cache, lock, upc, bsnap, usnap>>

B_Enter ==                               \* acquire; test "absent"; read keyspaces[ks]
    /\ bpc = "want" /\ lock = "free"
    /\ IF cache = -1
       THEN lock' = "B" /\ bsnap' = settings /\ bpc' = "compute"
       ELSE lock' = "free" /\ bsnap' = bsnap /\ bpc' = "released"      \* nothing to build: acquire and release
    /\ UNCHANGED <<settings, cache, upc, usnap, bplan>>

B_Publish ==                             \* make_token_replica_map; publish; release
    /\ bpc = "compute"
    /\ cache' = bsnap /\ lock' = "free" /\ bpc' = "released"
    /\ UNCHANGED <<settings, upc, bsnap, usnap, bplan>>

B_Return ==                              \* TokenMap.get_replicas reads the cache again and answers
    /\ bpc = "released"
    /\ bplan' = cache /\ bpc' = "done"
    /\ UNCHANGED <<settings, cache, lock, upc, bsnap, usnap>>

\* ---- updater
U_Install ==                             \* Metadata._update_keyspace: keyspaces[ks] = new meta (no lock)
    /\ upc = "start"
    /\ settings' = 1 /\ upc' = "want"
    /\ UNCHANGED <<cache, lock, bpc, bsnap, usnap, bplan>>

U_Enter ==                               \* acquire; test "present"; read keyspaces[ks]
    /\ upc = "want" /\ lock = "free"
    /\ IF cache # -1
       THEN lock' = "U" /\ usnap' = settings /\ upc' = "compute"
       ELSE lock' = "free" /\ usnap' = usnap /\ upc' = "released"      \* nothing cached: nothing to rebuild
    /\ UNCHANGED <<settings, cache, bpc, bsnap, bplan>>

U_Publish ==
    /\ upc = "compute"
    /\ cache' = usnap /\ lock' = "free" /\ upc' = "released"
    /\ UNCHANGED <<settings, bpc, bsnap, usnap, bplan>>

U_Return ==
    /\ upc = "released"
    /\ upc' = "done"
    /\ UNCHANGED <<settings, cache, lock, bpc, bsnap, usnap, bplan>>

Next == B_Lookup \/ B_Enter \/ B_Publish \/ B_Return \/ U_Install \/ U_Enter \/ U_Publish \/ U_Return
Spec == Init /\ [][Next]_vars

-----------------------------------------------------------------------------
Quiescent == bpc = "done" /\ upc = "done"

TypeOK == /\ settings \in {0, 1} /\ cache \in {-1, 0, 1} /\ lock \in {"free", "B", "U"}
          /\ (lock = "B") = (bpc = "compute") /\ (lock = "U") = (upc = "compute")

\* what is cached at quiescence was computed from the current settings: later plans follow the current replication
CacheCurrent == Quiescent => cache \in {-1, settings}

\* the builder's own plan follows the settings that were current at some moment of its execution
BuilderPlanFromRealSettings == bpc = "done" => bplan \in {0, 1} /\ bplan <= settings

\* nothing computed from superseded settings is ever published over newer content
NoStalePublish == (cache = 0 /\ settings = 1) => (upc # "done")

\* vacuity witnesses (expected to be VIOLATED)
Witness_UpdateWhileComputing == ~(bpc = "compute" /\ bsnap = 0 /\ upc = "want")
Witness_UpdaterRebuilds == ~(upc = "compute")
Witness_UpdaterFindsNothing == ~(upc = "released" /\ cache = -1)
=============================================================================
