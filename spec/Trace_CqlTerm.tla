---------------------------- MODULE Trace_CqlTerm ----------------------------
(* Trace validation (code -> spec) for CqlTerm.tla (C29).  One trace = the      *)
(* characters cassandra.query.bind_params produced for one parameter value:     *)
(*   {e: "begin", want: <image of Expect(shape), as enumerated by TLC>}         *)
(*   {e: "ch", ch: <character>, cp: <code point>, cls: <character class>}  ...  *)
(*   {e: "end"}                                                                 *)
(* Every character goes through the lexer and the push-down recogniser; the     *)
(* trace is accepted iff exactly one term comes out and it matches `want`.      *)
EXTENDS CqlTerm, TraceLib

VARIABLES tid, l
trvars == <<tvars, tid, l>>

Tr == Traces[tid]

TraceInit == /\ tid \in 1..NTraces /\ l = 1
             /\ shape = NoShape /\ want = NoTerm
             /\ n = <<>> /\ form = "trace" /\ bare = FALSE
             /\ Auto0 /\ Rec0

TraceNext ==
    /\ l <= Len(Tr)
    /\ l' = l + 1
    /\ UNCHANGED tid
    /\ LET e == Tr[l] IN
       \/ /\ e.e = "begin" /\ l = 1
          /\ want' = e.want
          /\ UNCHANGED <<n, form, bare, shape, pos, mode, cur, toks, done, stack, out, err>>
       \/ /\ e.e = "ch" /\ l > 1 /\ ~done
          /\ ClassOf(e.ch) = e.cls
          /\ (e.cp >= 128 => e.cls = "other")
          /\ TFeed(e.ch)
          /\ UNCHANGED <<n, form, done, bare, shape, want>>
       \/ /\ e.e = "end" /\ l > 1 /\ ~done
          /\ TFinish
          /\ UNCHANGED <<n, form, bare, shape, want>>
          /\ Accepted'

TraceSpec == TraceInit /\ [][TraceNext]_trvars

Progress == RecordProgress(tid, l)
Done == PrintProgress
=============================================================================
