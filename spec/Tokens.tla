------------------------------- MODULE Tokens -------------------------------
(* Partition tokens of Cassandra's three partitioners as a REFERENCE           *)
(* DEFINITION, written from Cassandra's sources - NOT from the driver's code:  *)
(*   org.apache.cassandra.utils.MurmurHash.hash3_x64_128(key, offset, length,  *)
(*     seed) and org.apache.cassandra.dht.Murmur3Partitioner.getToken /        *)
(*     normalize (first word h1 of the hash with seed 0; Long.MIN_VALUE is     *)
(*     mapped to Long.MAX_VALUE);                                              *)
(*   org.apache.cassandra.dht.RandomPartitioner.getToken =                     *)
(*     FBUtilities.hashToBigInteger = new BigInteger(md5(key)).abs();          *)
(*   org.apache.cassandra.dht.ByteOrderedPartitioner: the token is the key,    *)
(*     ordered by FBUtilities.compareUnsigned (unsigned lexicographic, a       *)
(*     proper prefix first).                                                   *)
(*                                                                             *)
(* TLC integers are 32 bit.  A 64-bit word is therefore a sequence of 8 limbs  *)
(* 0..255, LITTLE endian (limb i has weight 256^(i-1)); all arithmetic is done *)
(* on limbs and never leaves 0 .. 8*255*255 + carry.  A signed decimal number  *)
(* (the token as the driver reports it) is [neg, digits] with the decimal      *)
(* digits of the magnitude, most significant first (ToSigned), obtained by     *)
(* long division of the limbs - so that the known vectors below can be written *)
(* down as the same decimals that appear in tests/unit/test_metadata.py.       *)
(*                                                                             *)
(* Cassandra's hash differs from canonical MurmurHash3_x64_128 in exactly one  *)
(* place: the 1..15 TAIL bytes are read with ByteBuffer.get (a signed Java     *)
(* byte) and widened with (long), i.e. SIGN-extended before they are shifted   *)
(* and xor-ed into k1 / k2.  The full 16-byte blocks are read as little-endian *)
(* words (no sign issue).                                                      *)
(*                                                                             *)
(* MD5 itself is NOT specified here: the RandomPartitioner rule is defined on  *)
(* a GIVEN 16-byte digest (RFC 1321 test-suite digests are quoted as facts).   *)
(*                                                                             *)
(* Enumerator pattern: a case = one TLC state (fam, tag, key, aux) whose `res` *)
(* is empty in the initial state and the specification's value after the       *)
(* single Compute step (the step exists so that TLC's workers evaluate the     *)
(* hashes in parallel).  checks/c08.py evaluates every computed state on the   *)
(* real driver code.                                                           *)
EXTENDS Integers, Sequences, FiniteSets, Bitwise, TLC

CONSTANTS Families,      \* subset of {"anchor","const","onehot","signs","lcg","minmap","rp","rpkey","bop"}
          MaxBlocks,     \* key lengths 0 .. 16*MaxBlocks + 15: every tail size with 0..MaxBlocks full blocks
          OneHotBlocks,  \* BOOLEAN: "onehot" puts the marked byte at EVERY position, on backgrounds 0x00 and 0x7f (else: at the tail
                         \* positions and the first / last byte of each 8-byte word of the blocks, on the background 0x7f)
          SignsBlocks,   \* block counts for which the sign-subset lattice of the tail is enumerated
          SignsMaxTail,  \* ... for tail sizes 1..SignsMaxTail (every subset of tail positions holding a negative byte)
          SignPairIds,   \* ... with these <<negative byte, non-negative byte>> pairs (indices into SignAlphabets)
          LcgSeeds       \* seeds of the pseudo-random keys, per length

-----------------------------------------------------------------------------
\* ------------------------------------------------------------------ 64-bit words on 8-bit limbs
Mk8(F(_)) == <<F(1), F(2), F(3), F(4), F(5), F(6), F(7), F(8)>>          \* eager 8-limb word
IsWord(w) == /\ DOMAIN w = 1..8 /\ \A i \in 1..8 : w[i] \in 0..255
Zero64 == <<0, 0, 0, 0, 0, 0, 0, 0>>
One64  == <<1, 0, 0, 0, 0, 0, 0, 0>>
BE(b)  == Mk8(LAMBDA i : b[9 - i])                                       \* a constant written most significant byte first

\* bytes (at most 8), least significant first, zero-extended: an UNSIGNED little-endian read
FromBytesLE(bs) == Mk8(LAMBDA i : IF i <= Len(bs) THEN bs[i] ELSE 0)
\* (long) b for a Java byte: 0..127 as is, 128..255 denote -128..-1 and widen to 0xFF..FF in the upper limbs
SignExtend(b) == Mk8(LAMBDA i : IF i = 1 THEN b ELSE IF b >= 128 THEN 255 ELSE 0)

\* a + b modulo 2^64: s_i = limb sum + carry of the limb below; the carry out of limb 8 is dropped
Add64(a, b) ==
    LET s1 == a[1] + b[1]
        s2 == a[2] + b[2] + (s1 \div 256)
        s3 == a[3] + b[3] + (s2 \div 256)
        s4 == a[4] + b[4] + (s3 \div 256)
        s5 == a[5] + b[5] + (s4 \div 256)
        s6 == a[6] + b[6] + (s5 \div 256)
        s7 == a[7] + b[7] + (s6 \div 256)
        s8 == a[8] + b[8] + (s7 \div 256)
    IN <<s1 % 256, s2 % 256, s3 % 256, s4 % 256, s5 % 256, s6 % 256, s7 % 256, s8 % 256>>

\* a * b modulo 2^64, schoolbook on limbs: column i (weight 256^(i-1)) is the sum of a[j] * b[i+1-j] plus the carry of the
\* column below; a column is at most 8 * 255 * 255 = 520200 and the carry stays below 2^12 - far inside TLC's 32-bit integers
Mul64(a, b) ==
    LET s1 == a[1] * b[1]
        s2 == a[1] * b[2] + a[2] * b[1] + (s1 \div 256)
        s3 == a[1] * b[3] + a[2] * b[2] + a[3] * b[1] + (s2 \div 256)
        s4 == a[1] * b[4] + a[2] * b[3] + a[3] * b[2] + a[4] * b[1] + (s3 \div 256)
        s5 == a[1] * b[5] + a[2] * b[4] + a[3] * b[3] + a[4] * b[2] + a[5] * b[1] + (s4 \div 256)
        s6 == a[1] * b[6] + a[2] * b[5] + a[3] * b[4] + a[4] * b[3] + a[5] * b[2] + a[6] * b[1] + (s5 \div 256)
        s7 == a[1] * b[7] + a[2] * b[6] + a[3] * b[5] + a[4] * b[4] + a[5] * b[3] + a[6] * b[2] + a[7] * b[1] + (s6 \div 256)
        s8 == a[1] * b[8] + a[2] * b[7] + a[3] * b[6] + a[4] * b[5] + a[5] * b[4] + a[6] * b[3] + a[7] * b[2] + a[8] * b[1] + (s7 \div 256)
    IN <<s1 % 256, s2 % 256, s3 % 256, s4 % 256, s5 % 256, s6 % 256, s7 % 256, s8 % 256>>

Xor64(a, b) == Mk8(LAMBDA i : a[i] ^^ b[i])
Not64(a)    == Mk8(LAMBDA i : 255 - a[i])
Neg64(a)    == Add64(Not64(a), One64)                                    \* two's complement

\* shifts / rotation by r = 8q + s bits: move q limbs, then s bits across neighbouring limbs
Shl64(x, r) == LET q == r \div 8  s == r % 8
                   at(i) == IF i < 1 THEN 0 ELSE x[i]
               IN Mk8(LAMBDA i : ((at(i - q) * 2^s) % 256) + (at(i - q - 1) \div 2^(8 - s)))
Shr64(x, r) == LET q == r \div 8  s == r % 8                             \* LOGICAL (Java >>>)
                   at(i) == IF i > 8 THEN 0 ELSE x[i]
               IN Mk8(LAMBDA i : (at(i + q) \div 2^s) + ((at(i + q + 1) * 2^(8 - s)) % 256))
Rotl64(x, r) == LET q == r \div 8  s == r % 8
                    at(i) == x[((i - 1 - q + 16) % 8) + 1]               \* limb index modulo 8
                IN Mk8(LAMBDA i : ((at(i) * 2^s) % 256) + (at(i - 1) \div 2^(8 - s)))

MinLong == <<0, 0, 0, 0, 0, 0, 0, 128>>                                  \* Long.MIN_VALUE = -2^63
MaxLong == <<255, 255, 255, 255, 255, 255, 255, 127>>                    \* Long.MAX_VALUE = 2^63 - 1

\* ------------------------------------------------------------------ decimal reading (for vectors and for the binding)
IsZeroB(b) == \A i \in 1..Len(b) : b[i] = 0
RECURSIVE Div10(_, _, _)                                                 \* long division by 10 of a BIG-endian byte string
Div10(b, i, r) == IF i > Len(b) THEN [q |-> <<>>, r |-> r]
                  ELSE LET cur == r * 256 + b[i]
                           rest == Div10(b, i + 1, cur % 10)
                       IN [q |-> <<cur \div 10>> \o rest.q, r |-> rest.r]
RECURSIVE Digits(_)
Digits(b)  == IF IsZeroB(b) THEN <<>> ELSE LET d == Div10(b, 1, 0) IN Digits(d.q) \o <<d.r>>
Decimal(b) == IF IsZeroB(b) THEN <<0>> ELSE Digits(b)                    \* unsigned big-endian bytes -> decimal digits
Rev(s)     == [i \in 1..Len(s) |-> s[Len(s) + 1 - i]] \o <<>>
IsNeg64(w) == w[8] >= 128
\* the word read as a signed (two's complement) 64-bit integer
ToSigned(w) == [neg |-> IsNeg64(w), digits |-> Decimal(Rev(IF IsNeg64(w) THEN Neg64(w) ELSE w))]
Pos(d) == [neg |-> FALSE, digits |-> d]
Neg(d) == [neg |-> TRUE, digits |-> d]

-----------------------------------------------------------------------------
\* ------------------------------------------------------------------ MurmurHash.hash3_x64_128, seed 0
C1 == BE(<<135, 195, 123, 145,  17,  66,  83, 213>>)                     \* 0x87c37b91114253d5
C2 == BE(<< 76, 245, 173,  67,  39,  69, 147, 127>>)                     \* 0x4cf5ad432745937f
N1 == BE(<<  0,   0,   0,   0,  82, 220, 231,  41>>)                     \* 0x52dce729
N2 == BE(<<  0,   0,   0,   0,  56,  73,  90, 181>>)                     \* 0x38495ab5
F1 == BE(<<255,  81, 175, 215, 237,  85, 140, 205>>)                     \* 0xff51afd7ed558ccd
F2 == BE(<<196, 206, 185, 254,  26, 133, 236,  83>>)                     \* 0xc4ceb9fe1a85ec53
Five == <<5, 0, 0, 0, 0, 0, 0, 0>>

MixK1(k) == Mul64(Rotl64(Mul64(k, C1), 31), C2)                          \* k1 *= c1; k1 = rotl64(k1,31); k1 *= c2
MixK2(k) == Mul64(Rotl64(Mul64(k, C2), 33), C1)                          \* k2 *= c2; k2 = rotl64(k2,33); k2 *= c1

\* one full block; h = <<h1, h2>>
Block(h, k1, k2) ==
    LET h1 == Add64(Mul64(Add64(Rotl64(Xor64(h[1], MixK1(k1)), 27), h[2]), Five), N1)     \* h1 ^= k1; rotl 27; += h2; *5 + n1
        h2 == Add64(Mul64(Add64(Rotl64(Xor64(h[2], MixK2(k2)), 31), h1), Five), N2)       \* h2 ^= k2; rotl 31; += h1; *5 + n2
    IN <<h1, h2>>

NBlocks(key) == Len(key) \div 16
TailLen(key) == Len(key) % 16
TailOf(key)  == SubSeq(key, 16 * NBlocks(key) + 1, Len(key))             \* tail[j] of the text is TailOf(key)[j + 1]

RECURSIVE Body(_, _, _)                                                  \* i = blocks already consumed
Body(key, i, h) ==
    IF i >= NBlocks(key) THEN h
    ELSE Body(key, i + 1, Block(h, FromBytesLE(SubSeq(key, 16 * i + 1, 16 * i + 8)),
                                   FromBytesLE(SubSeq(key, 16 * i + 9, 16 * i + 16))))

\* the switch of the tail: for j = hi down to lo:  k ^= ((long) tail[j]) << (8 * (j - lo))
RECURSIVE TailWord(_, _, _, _)
TailWord(tail, lo, j, k) ==
    IF j < lo THEN k
    ELSE TailWord(tail, lo, j - 1, Xor64(k, Shl64(SignExtend(tail[j + 1]), 8 * (j - lo))))
Min(a, b) == IF a < b THEN a ELSE b
TailK2(tail) == TailWord(tail, 8, Len(tail) - 1, Zero64)                 \* cases 15..9 (only when Len(tail) > 8)
TailK1(tail) == TailWord(tail, 0, Min(7, Len(tail) - 1), Zero64)         \* cases 8..1  (only when Len(tail) > 0)

TailMix(key, h) ==
    LET tail == TailOf(key)
        t    == Len(tail)
        h2   == IF t > 8 THEN Xor64(h[2], MixK2(TailK2(tail))) ELSE h[2]
        h1   == IF t > 0 THEN Xor64(h[1], MixK1(TailK1(tail))) ELSE h[1]
    IN <<h1, h2>>

Fmix(k) == LET a == Xor64(k, Shr64(k, 33))
               b == Mul64(a, F1)
               c == Xor64(b, Shr64(b, 33))
               d == Mul64(c, F2)
           IN Xor64(d, Shr64(d, 33))

LenWord(n) == <<n % 256, (n \div 256) % 256, n \div 65536, 0, 0, 0, 0, 0>>       \* the (non-negative int) length as a long

Final(h, n) ==
    LET a1 == Xor64(h[1], LenWord(n))
        a2 == Xor64(h[2], LenWord(n))
        b1 == Add64(a1, a2)                                              \* h1 += h2
        b2 == Add64(a2, b1)                                              \* h2 += h1
        c1 == Fmix(b1)
        c2 == Fmix(b2)
        d1 == Add64(c1, c2)                                              \* h1 += h2
        d2 == Add64(c2, d1)                                              \* h2 += h1
    IN <<d1, d2>>

Hash128(key)     == Final(TailMix(key, Body(key, 0, <<Zero64, Zero64>>)), Len(key))
Murmur3Hash(key) == Hash128(key)[1]

\* Murmur3Partitioner.normalize
Normalize(w) == IF w = MinLong THEN MaxLong ELSE w
\* the token of a partition key (the driver's Murmur3Token.from_key)
Murmur3Token(key) == Normalize(Murmur3Hash(key))
\* Murmur3Partitioner.getToken additionally answers MINIMUM (Long.MIN_VALUE) for the EMPTY byte string.  The empty
\* string is not a partition key (Cassandra refuses it: "Key may not be empty"), MINIMUM is the ring's lower bound and
\* not the token of any row; C08 quantifies over partition keys, so the token of the empty string is not compared
\* (res.legal = FALSE), only the hash function's value on it.
CassandraGetToken(key) == IF Len(key) = 0 THEN MinLong ELSE Murmur3Token(key)

\* canonical MurmurHash3_x64_128 reads the tail bytes UNSIGNED; used only to state where the two differ
RECURSIVE CanonTailWord(_, _, _, _)
CanonTailWord(tail, lo, j, k) ==
    IF j < lo THEN k
    ELSE CanonTailWord(tail, lo, j - 1, Xor64(k, Shl64(FromBytesLE(<<tail[j + 1]>>), 8 * (j - lo))))

\* Second derivation of the sign-extended tail word, limb by limb (by hand from Java's semantics): ((long) b) << 8m
\* for a negative b puts 0xFF into every limb above m, so limb i of the word is the tail byte at that position,
\* inverted iff an ODD number of LOWER positions of the same word hold a negative byte.
TailWordDirect(tail, lo, hi) ==
    Mk8(LAMBDA i : LET j == lo + i - 1 IN
                   (IF j <= hi THEN tail[j + 1] ELSE 0)
                   ^^ (IF Cardinality({l \in lo..Min(j - 1, hi) : tail[l + 1] >= 128}) % 2 = 1 THEN 255 ELSE 0))

-----------------------------------------------------------------------------
\* ------------------------------------------------------------------ RandomPartitioner on a given digest
\* new BigInteger(digest).abs(): the 16 bytes are a BIG-endian two's complement number
InvB(s) == [i \in 1..Len(s) |-> 255 - s[i]] \o <<>>
RECURSIVE IncB(_)                                                        \* + 1 on a big-endian byte string, carry out dropped
IncB(s) == IF Len(s) = 0 THEN <<>>
           ELSE LET f == SubSeq(s, 1, Len(s) - 1)  l == s[Len(s)] IN
                IF l < 255 THEN f \o <<l + 1>> ELSE IncB(f) \o <<0>>
\* magnitude as an UNSIGNED big-endian byte string of the same length (2^127 for the most negative digest)
AbsBE(d) == IF d[1] >= 128 THEN IncB(InvB(d)) ELSE d
RPToken(digest) == Pos(Decimal(AbsBE(digest)))

\* ------------------------------------------------------------------ ByteOrderedPartitioner
BOPToken(key) == key
RECURSIVE CmpU(_, _, _)                                                  \* FBUtilities.compareUnsigned from position i
CmpU(a, b, i) == IF i > Len(a) /\ i > Len(b) THEN "eq"
                 ELSE IF i > Len(a) THEN "lt"
                 ELSE IF i > Len(b) THEN "gt"
                 ELSE IF a[i] < b[i] THEN "lt"
                 ELSE IF a[i] > b[i] THEN "gt"
                 ELSE CmpU(a, b, i + 1)
BOPCompare(a, b) == CmpU(a, b, 1)
Flip(c) == CASE c = "lt" -> "gt" [] c = "gt" -> "lt" [] OTHER -> "eq"

-----------------------------------------------------------------------------
\* ------------------------------------------------------------------ KNOWN VECTORS (checked by TLC before anything is enumerated)
Rep(s, n) == [i \in 1..(n * Len(s)) |-> s[((i - 1) % Len(s)) + 1]] \o <<>>
K123   == <<49, 50, 51>>                                                                      \* b'123'
KMaxL  == <<57, 50, 50, 51, 51, 55, 50, 48, 51, 54, 56, 53, 52, 55, 55, 53, 56, 48, 55>>      \* b'9223372036854775807'
KFoo   == <<102, 111, 111>>                                                                   \* b'foo'
KFox   == <<84, 104, 101, 32, 113, 117, 105, 99, 107, 32, 98, 114, 111, 119, 110, 32, 102, 111, 120, 32, 106, 117,
            109, 112, 115, 32, 111, 118, 101, 114, 32, 116, 104, 101, 32, 108, 97, 122, 121, 32, 100, 111, 103>>
            \* b'The quick brown fox jumps over the lazy dog' (43 bytes: 2 blocks + 11 tail bytes)
K5x10  == Rep(<<0, 255, 16, 250, 153>>, 10)                      \* b'\x00\xff\x10\xfa\x99' * 10 (3 blocks + tail fa 99: both negative)
KFE8   == Rep(<<254>>, 8)                                         \* b'\xfe' * 8 (tail of 8 negative bytes)
K10x8  == Rep(<<16>>, 8)                                          \* b'\x10' * 8

\* tests/unit/test_metadata.py, Murmur3TokensTest._verify_hash (values produced by Cassandra)
ASSUME Vector_123   == ToSigned(Murmur3Hash(K123))  = Neg(<<7,4,6,8,3,2,5,9,6,2,8,5,1,6,4,7,6,3,8>>)      \* -7468325962851647638
ASSUME Vector_5x10  == ToSigned(Murmur3Hash(K5x10)) = Pos(<<5,8,3,7,3,4,2,7,0,3,2,9,1,4,5,9,7,6,5>>)      \*  5837342703291459765
ASSUME Vector_FE8   == ToSigned(Murmur3Hash(KFE8))  = Neg(<<8,9,2,7,4,3,0,7,3,3,7,0,8,4,6,1,9,3,5>>)      \* -8927430733708461935
ASSUME Vector_10x8  == ToSigned(Murmur3Hash(K10x8)) = Pos(<<1,4,4,6,1,7,2,8,4,0,2,4,3,2,2,8,7,9,6>>)      \*  1446172840243228796
ASSUME Vector_MaxL  == ToSigned(Murmur3Hash(KMaxL)) = Pos(<<7,1,6,2,2,9,0,9,1,0,8,1,0,0,1,5,5,4,7>>)      \*  7162290910810015547
\* the two vectors with negative tail bytes do distinguish Cassandra's variant from the canonical one
CanonHash128(key) ==
    LET tail == TailOf(key)  t == Len(tail)  h == Body(key, 0, <<Zero64, Zero64>>)
        h2 == IF t > 8 THEN Xor64(h[2], MixK2(CanonTailWord(tail, 8, t - 1, Zero64))) ELSE h[2]
        h1 == IF t > 0 THEN Xor64(h[1], MixK1(CanonTailWord(tail, 0, Min(7, t - 1), Zero64))) ELSE h[1]
    IN Final(<<h1, h2>>, Len(key))
ASSUME Vector_Distinguishes == /\ CanonHash128(KFE8)[1] # Murmur3Hash(KFE8)
                               /\ CanonHash128(K5x10)[1] # Murmur3Hash(K5x10)
                               /\ CanonHash128(K123) = Hash128(K123)
\* published vectors of canonical MurmurHash3_x64_128, seed 0 (keys without a byte >= 0x80, on which Cassandra's variant
\* coincides): the hex digest e34bbc7bbc071b6c7a433ca9c49a9347 of the fox sentence (h1 then h2, most significant byte
\* first) and mmh3's documented hash64('foo') = (-2129773440516405919, 9128664383759220103); they also pin h2 and the
\* k2 half of the tail (11 tail bytes)
ASSUME Vector_Fox == Hash128(KFox) = <<BE(<<227, 75, 188, 123, 188, 7, 27, 108>>), BE(<<122, 67, 60, 169, 196, 154, 147, 71>>)>>
ASSUME Vector_Foo == /\ ToSigned(Hash128(KFoo)[1]) = Neg(<<2,1,2,9,7,7,3,4,4,0,5,1,6,4,0,5,9,1,9>>)
                     /\ ToSigned(Hash128(KFoo)[2]) = Pos(<<9,1,2,8,6,6,4,3,8,3,7,5,9,2,2,0,1,0,3>>)
ASSUME Vector_Empty == Hash128(<<>>) = <<Zero64, Zero64>>                                     \* no block, no tail, length 0

\* the arithmetic operators on values whose result is evident
AllOnes == Not64(Zero64)
ASSUME Lemma_Words ==
    /\ ToSigned(MinLong) = Neg(<<9,2,2,3,3,7,2,0,3,6,8,5,4,7,7,5,8,0,8>>)                     \* -2^63
    /\ ToSigned(MaxLong) = Pos(<<9,2,2,3,3,7,2,0,3,6,8,5,4,7,7,5,8,0,7>>)
    /\ ToSigned(AllOnes) = Neg(<<1>>) /\ ToSigned(Zero64) = Pos(<<0>>)
    /\ Add64(MaxLong, One64) = MinLong /\ Add64(AllOnes, One64) = Zero64
    /\ Mul64(AllOnes, AllOnes) = One64                                                         \* (-1) * (-1)
    /\ Mul64(C1, C2) = Mul64(C2, C1) /\ Mul64(C1, One64) = C1
    /\ Mul64(C1, Five) = Add64(Shl64(C1, 2), C1)
    /\ Add64(C1, Neg64(C1)) = Zero64
    /\ \A r \in {27, 31, 33} : /\ Rotl64(Rotl64(C1, r), 64 - r) = C1
                               /\ Rotl64(F2, r) = Xor64(Shl64(F2, r), Shr64(F2, 64 - r))
    /\ Shr64(MinLong, 33) = <<0, 0, 0, 64, 0, 0, 0, 0>>                                        \* 2^63 >>> 33 = 2^30: logical
    /\ SignExtend(128) = <<128, 255, 255, 255, 255, 255, 255, 255>> /\ SignExtend(127) = FromBytesLE(<<127>>)
    /\ ToSigned(SignExtend(254)) = Neg(<<2>>)
    /\ Normalize(MinLong) = MaxLong /\ Normalize(Add64(MinLong, One64)) = Add64(MinLong, One64)

\* RandomPartitioner: tests/unit/test_metadata.py MD5TokensTest (digests of b'123' = 202cb962ac59075b964b07152d234b70 and
\* of b'9223372036854775807' = 15767b252275cf5107bba9267b88e787), and the evident corners -1 -> 1, -2^127 -> 2^127
D123  == <<32, 44, 185, 98, 172, 89, 7, 91, 150, 75, 7, 21, 45, 35, 75, 112>>
DMaxL == <<21, 118, 123, 37, 34, 117, 207, 81, 7, 187, 169, 38, 123, 136, 231, 135>>
DMinus1 == Rep(<<255>>, 16)
DMostNeg == <<128>> \o Rep(<<0>>, 15)
DMostPos == <<127>> \o Rep(<<255>>, 15)
DAbc  == <<144, 1, 80, 152, 60, 210, 79, 176, 214, 150, 63, 125, 40, 225, 127, 114>>      \* RFC 1321: MD5("abc") = 900150983cd24fb0d6963f7d28e17f72
ASSUME Vector_RP ==
    /\ RPToken(D123)  = Pos(<<4,2,7,6,7,5,1,6,9,9,0,3,6,8,4,9,3,1,3,8,7,7,6,5,8,4,3,0,5,0,2,4,1,2,5,8,0,8>>)
    /\ RPToken(DMaxL) = Pos(<<2,8,5,2,8,9,7,6,6,1,9,2,7,8,5,1,8,8,5,3,8,1,5,2,7,6,2,0,4,5,4,2,4,5,3,6,3,9>>)
    /\ RPToken(DMinus1) = Pos(<<1>>)
    /\ RPToken(DMostNeg) = Pos(<<1,7,0,1,4,1,1,8,3,4,6,0,4,6,9,2,3,1,7,3,1,6,8,7,3,0,3,7,1,5,8,8,4,1,0,5,7,2,8>>)     \* 2^127
    /\ RPToken(DMostPos) = Pos(<<1,7,0,1,4,1,1,8,3,4,6,0,4,6,9,2,3,1,7,3,1,6,8,7,3,0,3,7,1,5,8,8,4,1,0,5,7,2,7>>)     \* 2^127 - 1
    /\ RPToken(DAbc) = Pos(<<1,4,8,8,6,6,7,0,8,5,7,6,7,7,9,6,9,7,2,9,5,3,4,3,1,3,4,1,5,3,8,4,5,4,0,7,8,8,6>>)         \* 2^128 - 0x9001...7f72
ASSUME Vector_BOP == /\ BOPCompare(<<127>>, <<128>>) = "lt"              \* unsigned: 0x7f < 0x80 (a signed comparison says the opposite)
                     /\ BOPCompare(<<1>>, <<1, 0>>) = "lt" /\ BOPCompare(<<>>, <<0>>) = "lt" /\ BOPCompare(<<2>>, <<1, 255>>) = "gt"

-----------------------------------------------------------------------------
\* ------------------------------------------------------------------ the enumerated cases
Lens == 0..(16 * MaxBlocks + 15)
Alpha == {0, 1, 127, 128, 255}

\* pseudo-random bytes: the ZX81 generator x' = 75 x + 74 mod 65537 (products stay below 2^23), low byte
LcgStep(x) == (75 * x + 74) % 65537
RECURSIVE LcgBytes(_, _)
LcgBytes(x, n) == IF n = 0 THEN <<>> ELSE LET y == LcgStep(x) IN <<y % 256>> \o LcgBytes(y, n - 1)
LcgKey(seed, n) == LcgBytes((seed * 2503 + n * 31 + 7) % 65537, n)

Case(f, t, k, a) == [fam |-> f, tag |-> t, key |-> k, aux |-> a]

AnchorCases == {Case("m3", <<"anchor">>, k, <<>>) : k \in {K123, K5x10, KFE8, K10x8, KMaxL, KFoo, KFox}}

\* every length x one byte of the alphabet repeated
ConstCases == {Case("m3", <<"const", n, b>>, Rep(<<b>>, n), <<>>) : n \in Lens, b \in Alpha}

\* one marked byte (sign bit set) on a background of non-negative bytes: at every tail position, and inside the full
\* blocks (where it must NOT be sign-extended)
HotPositions(n) == IF OneHotBlocks THEN 1..n
                   ELSE {p \in 1..n : p > 16 * (n \div 16) \/ p % 16 \in {0, 1, 8, 9}}
OneHotBgs == IF OneHotBlocks THEN {0, 127} ELSE {127}
\* (one set constructor over the admissible <<length, position>> pairs: TLC's UNION is quadratic in the size of the result)
OneHotCases == {Case("m3", <<"onehot", np[1], np[2], m, bg>>, [i \in 1..np[1] |-> IF i = np[2] THEN m ELSE bg] \o <<>>, <<>>) :
                    np \in {x \in (Lens \ {0}) \X (1..(16 * MaxBlocks + 15)) : x[2] \in HotPositions(x[1])},
                    m \in {128, 255}, bg \in OneHotBgs}

\* the sign lattice of the tail: for a tail of t bytes every subset (mask) of positions holding a negative byte; the blocks
\* before it are pseudo-random.  A pair (t, mask) is enumerated as ONE code c = 2^t + mask, i.e. the binary numeral "1"
\* followed by the t mask bits, c \in 2 .. 2^(SignsMaxTail+1) - 1.
RECURSIVE BitLen(_)
BitLen(c) == IF c = 0 THEN 0 ELSE 1 + BitLen(c \div 2)
CodeTail(c) == BitLen(c) - 1
CodeMask(c) == c - 2^CodeTail(c)
Bit(mask, j) == (mask \div 2^j) % 2
SignKey(nb, t, mask, pr) == LcgKey(mask + 1, 16 * nb) \o [j \in 1..t |-> IF Bit(mask, j - 1) = 1 THEN pr[1] ELSE pr[2]]
SignAlphabets == <<<<128, 127>>, <<255, 1>>, <<129, 0>>>>
SignPairs == {SignAlphabets[i] : i \in SignPairIds}
SignCases == {Case("m3", <<"signs", nb, CodeTail(c), CodeMask(c), pr[1], pr[2]>>, SignKey(nb, CodeTail(c), CodeMask(c), pr), <<>>) :
                  nb \in SignsBlocks, c \in 2..(2^(SignsMaxTail + 1) - 1), pr \in SignPairs}

LcgCases == {Case("m3", <<"lcg", n, s>>, LcgKey(s, n), <<>>) : n \in Lens, s \in LcgSeeds}

\* Murmur3Partitioner.normalize on given hash values (key = the hash as a word): the -2^63 -> 2^63-1 mapping and its neighbours
MinMapCases == {Case("minmap", <<"minmap">>, w, <<>>) :
                    w \in {MinLong, Add64(MinLong, One64), MaxLong, Zero64, One64, AllOnes, C1, C2}}

\* RandomPartitioner on given digests: sign bit clear / set, the most negative, -1, 0, boundaries, RFC 1321 digests
RPDigests == {D123, DMaxL, DMinus1, DMostNeg, DMostPos, DAbc, Rep(<<0>>, 16), Rep(<<0>>, 15) \o <<1>>,
              <<128>> \o Rep(<<0>>, 14) \o <<1>>, <<255>> \o Rep(<<0>>, 15), <<0>> \o Rep(<<255>>, 15),
              <<0, 128>> \o Rep(<<0>>, 14), Rep(<<128>>, 16), Rep(<<127>>, 16),
              LcgKey(1, 16), LcgKey(2, 16), LcgKey(3, 16), LcgKey(4, 16), LcgKey(5, 16), LcgKey(6, 16)}
RPCases == {Case("rp", <<"digest">>, d, <<>>) : d \in RPDigests}
\* RFC 1321 appendix A.5 test suite (+ the two keys of test_metadata.py): key, MD5(key) as a FACT - MD5 is not specified
RFC1321 == {<<K123, D123>>, <<KMaxL, DMaxL>>, <<<<97, 98, 99>>, DAbc>>,
            <<<<97>>, <<12, 193, 117, 185, 192, 241, 182, 168, 49, 195, 153, 226, 105, 119, 38, 97>>>>,
            <<<<109, 101, 115, 115, 97, 103, 101, 32, 100, 105, 103, 101, 115, 116>>,
              <<249, 107, 105, 125, 124, 183, 147, 141, 82, 90, 47, 49, 170, 241, 97, 208>>>>,
            <<<<97, 98, 99, 100, 101, 102, 103, 104, 105, 106, 107, 108, 109, 110, 111, 112, 113, 114, 115, 116, 117, 118,
                119, 120, 121, 122>>,
              <<195, 252, 211, 215, 97, 146, 228, 0, 125, 251, 73, 108, 202, 103, 225, 59>>>>}
RPKeyCases == {Case("rpkey", <<"rfc1321">>, kd[1], kd[2]) : kd \in RFC1321}

\* ByteOrderedPartitioner: pairs of keys (token of the first, order of the two)
BOPKeys == {<<>>, <<0>>, <<1>>, <<127>>, <<128>>, <<255>>, <<0, 0>>, <<1, 0>>, <<1, 255>>, <<127, 255>>, <<128, 0>>,
            <<255, 255>>, <<255, 0, 1>>, <<65, 66, 67>>, <<97, 98, 99>>, LcgKey(1, 17), LcgKey(2, 17)}
BOPCases == {Case("bop", <<"pair">>, a, b) : a \in BOPKeys, b \in BOPKeys}

Pick(f, S) == IF f \in Families THEN S ELSE {}
Cases == Pick("anchor", AnchorCases) \cup Pick("const", ConstCases) \cup Pick("onehot", OneHotCases)
         \cup Pick("signs", SignCases) \cup Pick("lcg", LcgCases) \cup Pick("minmap", MinMapCases)
         \cup Pick("rp", RPCases) \cup Pick("rpkey", RPKeyCases) \cup Pick("bop", BOPCases)

-----------------------------------------------------------------------------
VARIABLES fam,   \* "m3" | "minmap" | "rp" | "rpkey" | "bop"
          tag,   \* how the case was generated
          key,   \* m3: the partition key; minmap: a hash value (word); rp: a digest; rpkey: a key; bop: the first key
          aux,   \* rpkey: MD5(key); bop: the second key
          stage, \* "case" (initial state), then "done"
          res    \* <<>>, then the specification's answer (a record)
vars == <<fam, tag, key, aux, stage, res>>

Eval(f, k, a) ==
    CASE f = "m3" ->
            LET h == Murmur3Hash(k) IN
            [hash |-> h, h |-> ToSigned(h), token |-> ToSigned(Normalize(h)), legal |-> Len(k) > 0]
      [] f = "minmap" -> [h |-> ToSigned(k), token |-> ToSigned(Normalize(k))]
      [] f = "rp"     -> [token |-> RPToken(k)]
      [] f = "rpkey"  -> [token |-> RPToken(a)]
      [] f = "bop"    -> [token |-> BOPToken(k), cmp |-> BOPCompare(k, a), rcmp |-> BOPCompare(a, k)]

Init == \E c \in Cases : /\ fam = c.fam /\ tag = c.tag /\ key = c.key /\ aux = c.aux /\ stage = "case" /\ res = <<>>

Compute == /\ stage = "case"
           /\ stage' = "done"
           /\ res' = Eval(fam, key, aux)
           /\ UNCHANGED <<fam, tag, key, aux>>

Next == Compute
Halt == FALSE /\ UNCHANGED vars           \* NEXT of the witness configuration: initial states only
Spec == Init /\ [][Next]_vars

-----------------------------------------------------------------------------
\* ------------------------------------------------------------------ invariants (C08 on the specification itself)
Done == stage = "done"
IsSigned(x) == /\ x.neg \in BOOLEAN /\ Len(x.digits) \in 1..39 /\ \A i \in 1..Len(x.digits) : x.digits[i] \in 0..9
               /\ (Len(x.digits) > 1 => x.digits[1] # 0)
IsBytes(s) == \A i \in 1..Len(s) : s[i] \in 0..255

TypeOK == /\ fam \in {"m3", "minmap", "rp", "rpkey", "bop"}
          /\ IsBytes(key) /\ IsBytes(aux)
          /\ Done /\ fam = "m3" => IsWord(res.hash) /\ IsSigned(res.h) /\ IsSigned(res.token) /\ Len(res.h.digits) <= 19
          /\ Done /\ fam = "minmap" => IsWord(key) /\ IsSigned(res.token)
          /\ Done /\ fam \in {"rp", "rpkey"} => IsSigned(res.token)

\* a token is never Long.MIN_VALUE, and is the hash otherwise
MinSigned == ToSigned(MinLong)
MaxSigned == ToSigned(MaxLong)
NeverMinimum == Done /\ fam \in {"m3", "minmap"} =>
                    /\ res.token # MinSigned
                    /\ (res.h = MinSigned => res.token = MaxSigned)
                    /\ (res.h # MinSigned => res.token = res.h)

\* the sign-extending switch, limb by limb (second derivation of the same words)
TailSigns == Done /\ fam = "m3" =>
                 LET tail == TailOf(key)  t == Len(tail) IN
                 /\ t > 0 => TailK1(tail) = TailWordDirect(tail, 0, Min(7, t - 1))
                 /\ t > 8 => TailK2(tail) = TailWordDirect(tail, 8, t - 1)

\* RandomPartitioner tokens are never negative and at most 2^127
RPRange == Done /\ fam \in {"rp", "rpkey"} => /\ ~res.token.neg
                                               /\ Len(res.token.digits) <= 39
\* the unsigned order is a total order consistent in both directions; the token is the key
BOPOrder == Done /\ fam = "bop" => /\ res.rcmp = Flip(res.cmp)
                                   /\ (res.cmp = "eq" <=> key = aux)
                                   /\ res.token = key

\* ------------------------------------------------------------------ vacuity: the enumerated set holds the cases that matter
M3Keys == {c.key : c \in {x \in Cases : x.fam = "m3"}}
NegAtTail(k, j) == TailLen(k) > j /\ TailOf(k)[j + 1] >= 128
CoverageOK(keys) ==
    /\ \A nb \in 0..MaxBlocks : \A t \in 0..15 : \E k \in keys : NBlocks(k) = nb /\ TailLen(k) = t
    /\ \A nb \in 0..MaxBlocks : \A j \in 0..14 : \E k \in keys : NBlocks(k) = nb /\ NegAtTail(k, j)
    /\ MaxBlocks >= 2 => \E k \in keys : NBlocks(k) >= 2
    /\ \E k \in keys : \E i \in 1..(16 * NBlocks(k)) : k[i] >= 128                         \* a sign bit inside a full block
    /\ \E k \in keys : \E j1, j2 \in 0..14 : j1 < j2 /\ NegAtTail(k, j1) /\ ~NegAtTail(k, j2) /\ TailLen(k) > j2
    /\ "rp" \in Families => /\ \E d \in RPDigests : d[1] >= 128
                            /\ \E d \in RPDigests : d[1] < 128
                            /\ DMostNeg \in RPDigests
    /\ "minmap" \in Families => \E c \in MinMapCases : c.key = MinLong
\* checked by TLC at start-up whenever the general families are enumerated (a false assumption stops the run)
ASSUME Coverage == {"const", "onehot", "lcg"} \subseteq Families => CoverageOK(M3Keys)

\* witnesses (expected to be VIOLATED; checked on the initial states with NEXT Halt - Compute is total and deterministic,
\* and checks/c08.py requires one computed state per initial state)
Witness_AllTailNegative2Blocks == ~(fam = "m3" /\ NBlocks(key) >= 2 /\ TailLen(key) = 15 /\ \A j \in 0..14 : NegAtTail(key, j))
Witness_RPMostNegative         == ~(fam = "rp" /\ key = DMostNeg)
=============================================================================
