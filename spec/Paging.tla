------------------------------- MODULE Paging -------------------------------
(* A paged query result as seen by the node that serves it, by the request   *)
(* future that fetches it page by page, and by the application that consumes *)
(* it through a ResultSet.                                                   *)
(*                                                                           *)
(* Code anchors (cassandra/cluster.py):                                      *)
(*   Session.execute_async / ResponseFuture.send_request      (Execute)      *)
(*   ResponseFuture._set_result, RESULT_KIND_ROWS branch      (FetchPage)    *)
(*   ResponseFuture.has_more_pages, start_fetching_next_page  (FetchPage)    *)
(*   ResponseFuture.result -> ResultSet.__init__              (FetchPage)    *)
(*   ResultSet.__iter__                                       (Iter)         *)
(*   ResultSet.next / __next__                                (NextOp)       *)
(*   ResultSet.fetch_next_page                                (FetchNext)    *)
(*   ResultSet.all, list(rs)                                  (List)         *)
(*   ResultSet._fetch_all, _enter_list_mode, __getitem__,                    *)
(*             __eq__                                          (ListMode)     *)
(*   ResultSet.current_rows, one, has_more_pages: pure reads, compared with  *)
(*             Cur / One / HasMore below in every state by the binding       *)
(*                                                                           *)
(* Node side.  The result has NPages pages; page p holds layout[p] rows      *)
(* (possibly none) named 10*p+k.  Every page but the last is returned with a *)
(* paging state token, here the page number p (distinct per page); the last  *)
(* carries none (0).  The node is stateless: a request carrying token t is   *)
(* answered with page t+1, a request without token with page 1.  A client    *)
(* that sends a wrong token therefore gets a wrong page.                     *)
(*                                                                           *)
(* A second consumer is the documented callback-chained pattern              *)
(* (docs/query_paging.rst, PagedResultHandler): future.add_callbacks(handle_ *)
(* page, ..) where handle_page(rows) consumes the page and, if               *)
(* future.has_more_pages, calls future.start_fetching_next_page().  Here the *)
(* node's answer is a step of its own (Deliver): the callback runs on the    *)
(* loop thread inside the completion of that page (_set_result ->            *)
(* _set_final_result -> callbacks) and sends the next request from there.    *)
(*   ResponseFuture.add_callbacks / add_callback              (AddCallback)  *)
(*   ResponseFuture._set_result ROWS -> _set_final_result     (Deliver)      *)
(*   the user callback, has_more_pages, start_fetching_next_page (CbRun)     *)
(*                                                                           *)
(* Threads.  The consumer is one application thread; every page fetch blocks *)
(* in ResponseFuture.result() until the loop thread has run _set_result, so  *)
(* request, answer and ResultSet update are one step of this module.         *)
EXTENDS Integers, Sequences, FiniteSets, TLC

CONSTANTS MaxPages,   \* 1..MaxPages pages
          MaxRows,    \* 0..MaxRows rows per page
          MaxIdx      \* rs[i] is tried for i in 0..MaxIdx

VARIABLES layout,   \* Seq(0..MaxRows): rows per page (environment, fixed at Init)
          started,  \* execute_async has been called and its first page has arrived
          reqs,     \* tokens carried by the requests the node received, in order (0 = none)
          served,   \* pages the node returned, in order
          ps,       \* ResponseFuture._paging_state (0 = None)
          cur,      \* ResultSet._current_rows
          it,       \* ResultSet._page_iter: [set |-> it is not None, rest |-> rows it will still return]
          mode,     \* "paged" | "list"   (ResultSet._list_mode)
          lh,       \* the plain list iterator iter(rs) hands out in list mode (held by the consumer)
          yielded,  \* rows handed to the consumer by next() since the last iter(rs)
          cb,       \* callback consumer: [st: "off" | "sent" (execute_async done) | "on" (callback registered),
                    \*   owed: the node owes the answer to the last request, rows: rows handed to the callback,
                    \*   calls: invocations of the callback, done: the callback saw has_more_pages = False]
          seg,      \* ghost: [on, start, clean, done] of that iteration (see Contiguous); lstart: where list mode began
          act       \* last action [name, arg, out]
vars == <<layout, started, reqs, served, ps, cur, it, mode, lh, yielded, cb, seg, act>>

-----------------------------------------------------------------------------
NPages == Len(layout)
Row(p, k) == 10 * p + k
PageRows(p) == [k \in 1..layout[p] |-> Row(p, k)]
Tok(p) == IF p < NPages THEN p ELSE 0                     \* token returned with page p

RECURSIVE RowsFrom(_)                                      \* rows of pages p..NPages, server order
RowsFrom(p) == IF p > NPages THEN <<>> ELSE PageRows(p) \o RowsFrom(p + 1)
AllRows == RowsFrom(1)
RECURSIVE PageStart(_)                                     \* number of rows before page p
PageStart(p) == IF p <= 1 THEN 0 ELSE PageStart(p - 1) + layout[p - 1]

NoIter == [set |-> FALSE, rest |-> <<>>]
A(name, arg, out) == [name |-> name, arg |-> arg, out |-> out]

\* the client side as one record, so that next()/list()/list mode can be composed functionally
Client == [reqs |-> reqs, served |-> served, ps |-> ps, cur |-> cur, it |-> it, mode |-> mode]

(* start_fetching_next_page: message.paging_state = _paging_state; send; the node answers page ps+1;   *)
(* _set_result stores the new paging state; result() wraps the page in a ResultSet whose rows          *)
(* fetch_next_page copies into this ResultSet.                                                         *)
FetchPage(c) ==
    LET p == c.ps + 1 IN
    [c EXCEPT !.reqs = Append(@, c.ps), !.served = Append(@, p), !.ps = Tok(p), !.cur = PageRows(p)]

(* ResultSet.fetch_next_page *)
FetchNext(c) == IF c.ps # 0 THEN FetchPage(c) ELSE [c EXCEPT !.cur = <<>>]

(* ResultSet.__iter__ in paged mode: restarts at the first row of the current page *)
IterOp(c) == [c EXCEPT !.it = [set |-> TRUE, rest |-> c.cur]]

(* ResultSet.next in paged mode: out = <<row>>, or <<>> for StopIteration *)
RECURSIVE NextOp(_)
NextOp(c) ==
    IF c.it.rest # <<>>
    THEN [c |-> [c EXCEPT !.it.rest = Tail(@)], out |-> <<Head(c.it.rest)>>]
    ELSE IF c.ps = 0
         THEN [c |-> [c EXCEPT !.cur = <<>>], out |-> <<>>]             \* no more pages: rows cleared, StopIteration
         ELSE NextOp(IterOp(FetchPage(c)))                              \* fetch, restart on the new page, recurse (empty pages)

(* list(rs) / rs.all() / _fetch_all's list(self): __iter__ then next() until StopIteration *)
RECURSIVE Drain(_, _)
Drain(c, acc) == LET r == NextOp(c) IN
                 IF r.out = <<>> THEN [c |-> r.c, out |-> acc] ELSE Drain(r.c, acc \o r.out)

\* index in AllRows at which the rows of _current_rows begin
CurStart == IF mode = "list" THEN seg.lstart
            ELSE IF cur = <<>> /\ ps = 0 THEN Len(AllRows)
            ELSE PageStart(served[Len(served)])

Set(c) ==
    /\ reqs' = c.reqs /\ served' = c.served /\ ps' = c.ps
    /\ cur' = c.cur /\ it' = c.it /\ mode' = c.mode

-----------------------------------------------------------------------------
Layouts == UNION {[1..n -> 0..MaxRows] : n \in 1..MaxPages}

InitWith(lay) ==
    /\ layout = lay
    /\ started = FALSE
    /\ reqs = <<>> /\ served = <<>> /\ ps = 0
    /\ cur = <<>> /\ it = NoIter /\ mode = "paged" /\ lh = NoIter
    /\ yielded = <<>>
    /\ cb = [st |-> "off", owed |-> FALSE, rows |-> <<>>, calls |-> 0, done |-> FALSE]
    /\ seg = [on |-> FALSE, start |-> 0, clean |-> TRUE, done |-> FALSE, lstart |-> -1]
    /\ act = A("Init", 0, <<>>)

Init == \E lay \in Layouts : InitWith(lay)

(* session.execute_async(SimpleStatement(q, fetch_size=..)); future.result() *)
Execute ==
    /\ ~started /\ cb.st = "off"
    /\ started' = TRUE
    /\ Set(FetchPage(Client))
    /\ act' = A("Execute", 0, <<>>)
    /\ UNCHANGED <<layout, lh, yielded, cb, seg>>

(* h = iter(rs) *)
Iter ==
    /\ started
    /\ IF mode = "list"
       THEN /\ lh' = [set |-> TRUE, rest |-> cur]          \* return iter(self._current_rows)
            /\ UNCHANGED <<reqs, served, ps, cur, it, mode>>
       ELSE /\ Set(IterOp(Client))
            /\ UNCHANGED lh
    /\ yielded' = <<>>
    /\ seg' = [seg EXCEPT !.on = TRUE, !.start = CurStart, !.clean = TRUE, !.done = FALSE]
    /\ act' = A("Iter", 0, <<>>)
    /\ UNCHANGED <<layout, started, cb>>

(* next(h) on the iterator obtained by the last iter(rs) *)
Next_ ==
    /\ started
    /\ IF mode = "list"
       THEN /\ lh.set
            /\ LET out == IF lh.rest = <<>> THEN <<>> ELSE <<Head(lh.rest)>> IN
               /\ lh' = IF lh.rest = <<>> THEN lh ELSE [lh EXCEPT !.rest = Tail(@)]
               /\ yielded' = yielded \o out
               /\ seg' = [seg EXCEPT !.done = (out = <<>>)]
               /\ act' = A("Next", 0, out)
            /\ UNCHANGED <<reqs, served, ps, cur, it, mode>>
       ELSE /\ it.set
            /\ LET r == NextOp(Client) IN
               /\ Set(r.c)
               /\ yielded' = yielded \o r.out
               /\ seg' = [seg EXCEPT !.done = (r.out = <<>>)]
               /\ act' = A("Next", 0, r.out)
            /\ UNCHANGED lh
    /\ UNCHANGED <<layout, started, cb>>

(* rs.fetch_next_page() called by the application (manual paging) *)
Fetch ==
    /\ started
    /\ mode = "paged"            \* scope: manual fetches after materialisation (which wipe the list) are not explored
    /\ Set(FetchNext(Client))
    /\ seg' = [seg EXCEPT !.clean = FALSE]                   \* mixing manual fetches into a running iteration
    /\ act' = A("Fetch", 0, <<>>)
    /\ UNCHANGED <<layout, started, lh, yielded, cb>>

(* list(rs) / rs.all(): a new iteration run to its end in one go *)
List ==
    /\ started
    /\ IF mode = "list"
       THEN /\ act' = A("List", 0, cur)                      \* an independent list(iter(_current_rows)); the held iterator is untouched
            /\ UNCHANGED <<reqs, served, ps, cur, it, mode, yielded, seg>>
       ELSE LET d == Drain(IterOp(Client), <<>>) IN
            /\ Set(d.c)
            /\ yielded' = d.out
            /\ act' = A("List", 0, d.out)
            /\ seg' = [seg EXCEPT !.on = TRUE, !.start = CurStart, !.clean = TRUE, !.done = TRUE]
    /\ UNCHANGED <<layout, started, lh, cb>>

(* rs[i] (op = "index") / rs == AllRows (op = "eq"): _enter_list_mode, then a read of the materialized list *)
ListMode(op, i) ==
    /\ started
    /\ IF mode = "list"
       THEN UNCHANGED <<reqs, served, ps, cur, it, mode>>
       ELSE IF it.set
            THEN UNCHANGED <<reqs, served, ps, cur, it, mode>>       \* RuntimeError("Cannot use ... when results have been iterated")
            ELSE LET d == Drain(IterOp(Client), <<>>) IN
                 Set([d.c EXCEPT !.cur = d.out, !.it = NoIter, !.mode = "list"])
    /\ act' = IF mode # "list" /\ it.set THEN A(op, i, <<-1>>)                     \* -1: RuntimeError
              ELSE IF op = "eq" THEN A(op, i, <<IF cur' = AllRows THEN 1 ELSE 0>>)
              ELSE IF i < Len(cur') THEN A(op, i, <<cur'[i + 1]>>)
              ELSE A(op, i, <<-2>>)                                                \* -2: IndexError
    /\ seg' = IF mode' = "list" /\ mode = "paged" THEN [seg EXCEPT !.lstart = CurStart] ELSE seg
    /\ UNCHANGED <<layout, started, lh, yielded, cb>>

-----------------------------------------------------------------------------
(* The callback-chained consumer.                                                                        *)

(* the user callback handle_page(rows): consume; if future.has_more_pages: future.start_fetching_next_page() *)
(* k = the paging state the future shows when the callback runs                                             *)
CbRun(c, rows, k) ==
    [c EXCEPT !.rows = @ \o rows, !.calls = @ + 1, !.owed = (k # 0), !.done = (k = 0)]

(* future = session.execute_async(statement): the first request goes out, the node has not answered yet *)
ExecAsync ==
    /\ ~started /\ cb.st = "off"
    /\ reqs' = Append(reqs, 0)
    /\ cb' = [cb EXCEPT !.st = "sent", !.owed = TRUE]
    /\ act' = A("ExecAsync", 0, <<>>)
    /\ UNCHANGED <<layout, started, served, ps, cur, it, mode, lh, yielded, seg>>

(* future.add_callbacks(handle_page, handle_error): before the first page arrived, or after (then it runs at once) *)
AddCallback ==
    /\ cb.st = "sent"
    /\ IF cb.owed
       THEN /\ cb' = [cb EXCEPT !.st = "on"]
            /\ UNCHANGED reqs
       ELSE /\ cb' = CbRun([cb EXCEPT !.st = "on"], cur, ps)
            /\ reqs' = IF ps # 0 THEN Append(reqs, ps) ELSE reqs
    /\ act' = A("AddCallback", 0, <<>>)
    /\ UNCHANGED <<layout, started, served, ps, cur, it, mode, lh, yielded, seg>>

(* the node answers the outstanding request with the page its token designates; loop thread: _set_result stores the *)
(* new paging state, _set_final_result completes the future and runs the registered callback                        *)
Deliver ==
    /\ cb.owed
    /\ LET p == reqs[Len(reqs)] + 1 IN
       /\ served' = Append(served, p)
       /\ ps' = Tok(p)
       /\ cur' = PageRows(p)                                   \* the future's result: this page's rows
       /\ IF cb.st = "on"
          THEN /\ cb' = CbRun(cb, PageRows(p), Tok(p))
               /\ reqs' = IF Tok(p) # 0 THEN Append(reqs, Tok(p)) ELSE reqs
          ELSE /\ cb' = [cb EXCEPT !.owed = FALSE]
               /\ UNCHANGED reqs
    /\ act' = A("Deliver", 0, <<>>)
    /\ UNCHANGED <<layout, started, it, mode, lh, yielded, seg>>

Next ==
    \/ Execute
    \/ ExecAsync
    \/ AddCallback
    \/ Deliver
    \/ Iter
    \/ Next_
    \/ Fetch
    \/ List
    \/ \E i \in 0..MaxIdx : ListMode("index", i)
    \/ ListMode("eq", 0)

Spec == Init /\ [][Next]_vars

-----------------------------------------------------------------------------
(* pure reads of the ResultSet, compared by the binding in every state *)
HasMore == ps # 0                                                   \* has_more_pages
One     == IF cur = <<>> THEN <<>> ELSE <<cur[1]>>                  \* one()

-----------------------------------------------------------------------------
(* C18 *)
TypeOK ==
    /\ mode \in {"paged", "list"}
    /\ ps \in 0..MaxPages
    /\ Len(reqs) = Len(served) + (IF cb.owed THEN 1 ELSE 0)
    /\ cb.st \in {"off", "sent", "on"}

\* each page request carries the paging state returned with the previous page
TokenChain ==
    /\ \A i \in 1..Len(reqs) : reqs[i] = IF i = 1 THEN 0 ELSE Tok(served[i - 1])
    /\ \A i \in 1..Len(reqs) : i > 1 => reqs[i] # 0

\* pages arrive in server order, none twice, none skipped
ServedInOrder == \A i \in 1..Len(served) : served[i] = i

\* no further page is requested once a page arrived without paging state
NoRequestAfterLast ==
    /\ Len(reqs) <= NPages
    /\ (Len(served) >= 1 /\ ps = 0) <=> (Len(served) = NPages)
StopsAfterLast == [][(Len(served) >= 1 /\ ps = 0) => reqs' = reqs]_vars

\* manual paging: what current_rows shows is exactly the page just fetched (or nothing after the end)
CurIsPage == (started /\ mode = "paged" /\ cur # <<>>) => cur = PageRows(served[Len(served)])

\* iteration: the rows handed out since iter(rs) are the rows of the result, in server order, each once,
\* starting with the first row of the page that was current, and StopIteration comes only after the last row
Contiguous ==
    (seg.on /\ seg.clean) =>
        /\ seg.start + Len(yielded) <= Len(AllRows)
        /\ yielded = SubSeq(AllRows, seg.start + 1, seg.start + Len(yielded))
        /\ seg.done => seg.start + Len(yielded) = Len(AllRows)

\* an iteration / list() begun on the fresh result returns everything
Complete == (seg.on /\ seg.clean /\ seg.done /\ seg.start = 0) => yielded = AllRows

\* materialising the full list agrees with iteration
ListAgrees ==
    mode = "list" => /\ seg.lstart \in 0..Len(AllRows)
                     /\ cur = SubSeq(AllRows, seg.lstart + 1, Len(AllRows))     \* everything from the page that was current
                     /\ ps = 0
                     /\ Len(served) = NPages
                     /\ ~it.set

\* the callback is handed the pages one by one, in server order, each once; it stops at the token-less page
RECURSIVE RowsUpTo(_)
RowsUpTo(p) == IF p = 0 THEN <<>> ELSE RowsUpTo(p - 1) \o PageRows(p)
CallbackPages ==
    /\ cb.st # "on" => (cb.calls = 0 /\ cb.rows = <<>> /\ ~cb.done)
    /\ cb.st = "on" => /\ cb.calls = Len(served)
                       /\ cb.rows = RowsUpTo(Len(served))
                       /\ cb.done <=> (Len(served) = NPages)
                       /\ cb.done => (cb.rows = AllRows /\ ~cb.owed)
                       /\ (~cb.done /\ Len(served) >= 1) => cb.owed

\* vacuity witnesses (each must be violated = reachable)
Witness_EmptyMiddlePage == ~(NPages >= 3 /\ layout[2] = 0 /\ seg.on /\ seg.clean /\ seg.done /\ seg.start = 0 /\ Len(yielded) >= 2)
Witness_ListAfterPartialIter == ~(act.name = "List" /\ mode = "paged" /\ seg.start > 0 /\ Len(yielded) > 0)
Witness_ListModeFourPages == ~(mode = "list" /\ NPages = MaxPages /\ Len(cur) >= 3)
Witness_RuntimeError == ~(act.out = <<-1>>)
Witness_CallbackEarly == ~(cb.done /\ NPages = MaxPages /\ Len(cb.rows) >= 2 /\ layout[2] = 0)
Witness_CallbackLate == ~(act.name = "AddCallback" /\ cb.calls = 1 /\ cb.owed)
Witness_ManualToEnd == ~(act.name = "Fetch" /\ ps = 0 /\ Len(served) = MaxPages /\ ~it.set)
=============================================================================
